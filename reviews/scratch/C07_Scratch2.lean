import HeimdallModel.Model.RepoProtocol
namespace Rev.b1

def repoProtocolMutexes : List String := ["$K", "$T"]

def repoProtocol : List (String × List String) := [
  ("AddRuleSet", [
    "lock $K",
    "defer unlock $K",
    "read $index",
    "call $index.Clone",
    "bind $clone $index.Clone",
    "call addRulesTo $clone",
    "if {",
    "return var",
    "}",
    "read $known",
    "write $known append(..)",
    "lock $T",
    "write $index $clone",
    "unlock $T",
    "return nil"
  ]),
  ("DeleteRuleSet", [
    "lock $K",
    "defer unlock $K",
    "read $known",
    "if {",
    "return nil",
    "}",
    "read $index",
    "call $index.Clone",
    "bind $clone $index.Clone",
    "call removeRulesFrom $clone",
    "if {",
    "return var",
    "}",
    "read $known",
    "write $known slices.DeleteFunc(..)",
    "lock $T",
    "write $index $clone",
    "unlock $T",
    "return nil"
  ]),
  ("FindRule", [
    "rlock $T",
    "defer runlock $T",
    "read $index",
    "call $index.Find",
    "bind entry $index.Find",
    "bind err $index.Find",
    "if {",
    "read $default",
    "if {",
    "read $default",
    "return nil",
    "}",
    "return value",
    "}",
    "return nil"
  ]),
  ("UpdateRuleSet", [
    "lock $K",
    "defer unlock $K",
    "read $known",
    "read $index",
    "call $index.Clone",
    "bind $clone $index.Clone",
    "call removeRulesFrom $clone",
    "if {",
    "return var",
    "}",
    "call addRulesTo $clone",
    "if {",
    "return var",
    "}",
    "read $known",
    "write $known slices.DeleteFunc(..)",
    "read $known",
    "write $known append(..)",
    "lock $T",
    "write $index $clone",
    "unlock $T",
    "return nil"
  ])
]

end Rev.b1
namespace Rev.b2

def repoProtocolMutexes : List String := ["$K", "$T"]

def repoProtocol : List (String × List String) := [
  ("AddRuleSet", [
    "lock $K",
    "defer unlock $K",
    "read $index",
    "call $index.Clone",
    "bind $clone $index.Clone",
    "call addRulesTo $clone",
    "if {",
    "return var",
    "}",
    "read $known",
    "write $known append(..)",
    "lock $T",
    "defer unlock $T",
    "write $index $clone",
    "return nil"
  ]),
  ("DeleteRuleSet", [
    "lock $K",
    "defer unlock $K",
    "read $known",
    "read $index",
    "call $index.Clone",
    "bind $clone $index.Clone",
    "call removeRulesFrom $clone",
    "if {",
    "return var",
    "}",
    "read $known",
    "write $known slices.DeleteFunc(..)",
    "lock $T",
    "defer unlock $T",
    "write $index $clone",
    "return nil"
  ]),
  ("FindRule", [
    "rlock $T",
    "defer runlock $T",
    "read $index",
    "call $index.Find",
    "bind entry $index.Find",
    "bind err $index.Find",
    "if {",
    "read $default",
    "if {",
    "read $default",
    "return nil",
    "}",
    "return value",
    "}",
    "return nil"
  ]),
  ("UpdateRuleSet", [
    "lock $K",
    "defer unlock $K",
    "read $known",
    "read $index",
    "call $index.Clone",
    "bind $clone $index.Clone",
    "call removeRulesFrom $clone",
    "if {",
    "return var",
    "}",
    "call addRulesTo $clone",
    "if {",
    "return var",
    "}",
    "read $known",
    "write $known slices.DeleteFunc(..)",
    "read $known",
    "write $known append(..)",
    "lock $T",
    "defer unlock $T",
    "write $index $clone",
    "return nil"
  ])
]

end Rev.b2
namespace Rev.b3

def repoProtocolMutexes : List String := ["$K", "$T"]

def repoProtocol : List (String × List String) := [
  ("AddRuleSet", [
    "lock $K",
    "defer unlock $K",
    "read $index",
    "call $index.Clone",
    "bind $clone $index.Clone",
    "call addRulesTo $clone",
    "if {",
    "return var",
    "}",
    "read $known",
    "write $known append(..)",
    "lock $T",
    "write $index $clone",
    "unlock $T",
    "return nil"
  ]),
  ("DeleteRuleSet", [
    "lock $K",
    "defer unlock $K",
    "read $known",
    "read $index",
    "call $index.Clone",
    "bind $clone $index.Clone",
    "call removeRulesFrom $clone",
    "if {",
    "return var",
    "}",
    "read $known",
    "write $known slices.DeleteFunc(..)",
    "lock $T",
    "write $index $clone",
    "unlock $T",
    "return nil"
  ]),
  ("FindRule", [
    "if {",
    "}",
    "else {",
    "}",
    "rlock $T",
    "defer runlock $T",
    "read $index",
    "call $index.Find",
    "bind entry $index.Find",
    "bind err $index.Find",
    "if {",
    "read $default",
    "if {",
    "read $default",
    "return nil",
    "}",
    "return value",
    "}",
    "return nil"
  ]),
  ("UpdateRuleSet", [
    "lock $K",
    "defer unlock $K",
    "read $known",
    "read $index",
    "call $index.Clone",
    "bind $clone $index.Clone",
    "call removeRulesFrom $clone",
    "if {",
    "return var",
    "}",
    "call addRulesTo $clone",
    "if {",
    "return var",
    "}",
    "read $known",
    "write $known slices.DeleteFunc(..)",
    "read $known",
    "write $known append(..)",
    "lock $T",
    "write $index $clone",
    "unlock $T",
    "return nil"
  ])
]

end Rev.b3
namespace Rev.b4

def repoProtocolMutexes : List String := ["$K", "$T"]

def repoProtocol : List (String × List String) := [
  ("AddRuleSet", [
    "lock $K",
    "defer unlock $K",
    "read $index",
    "call $index.Clone",
    "bind $clone $index.Clone",
    "call addRulesTo $clone",
    "if {",
    "return value",
    "}",
    "read $known",
    "write $known append(..)",
    "lock $T",
    "write $index $clone",
    "unlock $T",
    "return nil"
  ]),
  ("DeleteRuleSet", [
    "lock $K",
    "defer unlock $K",
    "read $known",
    "read $index",
    "call $index.Clone",
    "bind $clone $index.Clone",
    "call removeRulesFrom $clone",
    "if {",
    "return var",
    "}",
    "read $known",
    "write $known slices.DeleteFunc(..)",
    "lock $T",
    "write $index $clone",
    "unlock $T",
    "return nil"
  ]),
  ("FindRule", [
    "rlock $T",
    "defer runlock $T",
    "read $index",
    "call $index.Find",
    "bind entry $index.Find",
    "bind err $index.Find",
    "if {",
    "read $default",
    "if {",
    "read $default",
    "return nil",
    "}",
    "return value",
    "}",
    "return nil"
  ]),
  ("UpdateRuleSet", [
    "lock $K",
    "defer unlock $K",
    "read $known",
    "read $index",
    "call $index.Clone",
    "bind $clone $index.Clone",
    "call removeRulesFrom $clone",
    "if {",
    "return var",
    "}",
    "call addRulesTo $clone",
    "if {",
    "return var",
    "}",
    "read $known",
    "write $known slices.DeleteFunc(..)",
    "read $known",
    "write $known append(..)",
    "lock $T",
    "write $index $clone",
    "unlock $T",
    "return nil"
  ])
]

end Rev.b4
open Heimdall Heimdall.Conc
#eval decide (canon (lookupMethod Rev.b1.repoProtocol "DeleteRuleSet") = writerProtocol)
#eval decide (canon (lookupMethod Rev.b2.repoProtocol "AddRuleSet") = writerProtocol)
#eval canon (lookupMethod Rev.b2.repoProtocol "AddRuleSet")
#eval decide (canon (lookupMethod Rev.b3.repoProtocol "FindRule") = readerProtocol)
#eval canon (lookupMethod Rev.b3.repoProtocol "FindRule")
#eval decide (canon (lookupMethod Rev.b4.repoProtocol "AddRuleSet") = writerProtocol)
#eval canon (lookupMethod Rev.b4.repoProtocol "AddRuleSet")
