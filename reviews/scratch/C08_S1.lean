import HeimdallModel.Props.C08
open Heimdall Heimdall.Props.C08

-- (a) off: capture decoded when no encoded slash  -- not in the artefact
theorem off_capture (us : List PU) (hwf : ∀ u ∈ us, u.wf) (hs : us.any PU.isSlash = false) :
    unescapeCapture .off (String.ofList (renderU us)) = String.ofList (us.map PU.dec) := by
  unfold unescapeCapture
  simp only [String.toList_ofList]
  rw [unescapeKeepSlashL_render us hwf]
  simp only [Option.map_some, Option.getD_some]
  congr 1
  induction us with
  | nil => rfl
  | cons u rest ih =>
    simp only [List.any_cons, Bool.or_eq_false_iff] at hs
    have := ih (fun x hx => hwf x (by simp [hx])) hs.2
    cases u with
    | lit c => simp [PU.decKeep, PU.dec, this]
    | esc a b =>
      have h1 : PU.isSlash (.esc a b) = false := hs.1
      simp only [PU.isSlash] at h1
      simp [PU.decKeep, PU.dec, this, h1]

-- (b) serve-level: a regular rule with `off` never accepts an encoded slash
theorem off_never_accepts (s : Repo) (d : Bool) (q : ReqView) (h : containsEncodedSlash q.rawPath = true)
    (v : RVal) (ps) (hf : s.findRule d q = .rule v ps) (hv : v.esh = .off) :
    (s.serve d q).exec = some .argument := by
  unfold Repo.serve
  simp [hf, execPrelude, hv, h]

-- does Reenc allow respelling an existing escape of an unreserved octet's hex case? (no constructor)
example : ¬ Reenc [.esc '6' 'a'] [.esc '6' 'A'] := by
  intro h; cases h
