import HeimdallModel.Props.C08
open Heimdall Heimdall.Props.C08

def normUnit : PU → PU
  | .lit c => .lit c
  | .esc a b => if isUnreserved (octet a b) then .lit (octet a b) else .esc a b

theorem unres_ne_percent {c : Char} (h : isUnreserved c = true) : c ≠ '%' := by
  intro e; subst e; revert h; decide

theorem norm_eq_render (us : List PU) : us.flatMap PU.norm = renderU (us.map normUnit) := by
  induction us with
  | nil => rfl
  | cons u rest ih =>
    cases u with
    | lit c => simp [renderU, PU.norm, normUnit, PU.render] at ih ⊢; exact ih
    | esc a b =>
      by_cases h : isUnreserved (octet a b) <;> simp [renderU, PU.norm, normUnit, PU.render, h] at ih ⊢ <;> exact ih

/-- what the code really does: normalise for lookup, then decode the capture -/
theorem on_capture_after_normalise (us : List PU) (hwf : ∀ u ∈ us, u.wf) :
    unescapeCapture .on (String.ofList (normalizeL (renderU us))) = String.ofList (us.map PU.dec) := by
  rw [normalizeL_render us hwf, norm_eq_render]
  have hwf' : ∀ u ∈ us.map normUnit, u.wf := by
    intro u hu
    obtain ⟨x, hx, rfl⟩ := List.mem_map.mp hu
    have := hwf x hx
    cases x with
    | lit c => exact this
    | esc a b =>
      by_cases h : isUnreserved (octet a b)
      · simp only [normUnit, h, if_true]; exact unres_ne_percent h
      · simp only [normUnit, h]; exact this
  rw [c08_on_capture _ hwf']
  congr 1
  rw [List.map_map]
  apply List.map_congr_left
  intro x _
  cases x with
  | lit c => rfl
  | esc a b => by_cases h : isUnreserved (octet a b) <;> simp [normUnit, PU.dec, h]
