import HeimdallModel.Props.C06
namespace Heimdall

def Rel (a b : Option (Table RVal)) : Prop :=
  match a, b with
  | some x, some y => ∀ p, getNode x p = getNode y p
  | none, none => True
  | _, _ => False

theorem addItem_congr (i : Item) (t₁ t₂ : Table RVal) (h : ∀ p, getNode t₁ p = getNode t₂ p) :
    Rel (addItem t₁ i) (addItem t₂ i) := by
  unfold addItem
  have iff1 := addPat_ok_iff sameSource t₁ i.pat i.keys i.val i.bt
  have iff2 := addPat_ok_iff sameSource t₂ i.pat i.keys i.val i.bt
  rw [h i.pat] at iff1
  cases h1 : addPat sameSource t₁ i.pat i.keys i.val i.bt with
  | error e =>
    cases h2 : addPat sameSource t₂ i.pat i.keys i.val i.bt with
    | error e2 => simp [Rel]
    | ok t2 =>
      exfalso
      have := iff1.mpr (iff2.mp ⟨t2, h2⟩)
      obtain ⟨t', ht'⟩ := this
      rw [h1] at ht'; cases ht'
  | ok t1 =>
    cases h2 : addPat sameSource t₂ i.pat i.keys i.val i.bt with
    | error e2 =>
      exfalso
      have := iff2.mpr (iff1.mp ⟨t1, h1⟩)
      obtain ⟨t', ht'⟩ := this
      rw [h2] at ht'; cases ht'
    | ok t2 =>
      simp only [Rel]
      intro p
      rw [addPat_getNode sameSource t₁ t1 _ _ _ _ h1 p, addPat_getNode sameSource t₂ t2 _ _ _ _ h2 p, h i.pat, h p]

theorem addItems_congr (ois : List (Option Item)) (t₁ t₂ : Table RVal) (h : ∀ p, getNode t₁ p = getNode t₂ p) :
    Rel (addItems t₁ ois) (addItems t₂ ois) := by
  induction ois generalizing t₁ t₂ with
  | nil => simpa [addItems, Rel] using h
  | cons x xs ih =>
    cases x with
    | none => simp [addItems, Rel]
    | some i =>
      simp only [addItems]
      have := addItem_congr i t₁ t₂ h
      cases h1 : addItem t₁ i with
      | none =>
        cases h2 : addItem t₂ i with
        | none => simp [Rel]
        | some b => rw [h1, h2] at this; simp [Rel] at this
      | some a =>
        cases h2 : addItem t₂ i with
        | none => rw [h1, h2] at this; simp [Rel] at this
        | some b =>
          rw [h1, h2] at this
          exact ih a b this

/-- acceptance of an `add` does not depend on the history: it is accepted iff the fresh load of known ++ new succeeds -/
theorem c06_add_accept_iff_fresh (ops : List RepoOp) (src : String) (rules : List RuleCfg) :
    ((Repo.run ops).apply (.add src rules)).isSome =
      (addRules [] ((Repo.run ops).known ++ rules.map (Rule.mk src))).isSome := by
  obtain ⟨t, ht, hn⟩ := fresh_of_inv _ (Props.C06.c06_inv_run ops)
  have hsplit : addRules [] ((Repo.run ops).known ++ rules.map (Rule.mk src)) =
      (addRules [] (Repo.run ops).known).bind (fun t' => addRules t' (rules.map (Rule.mk src))) := by
    rw [addRules_eq, allItems_append, addItems_append, ← addRules_eq]
    cases addRules [] (Repo.run ops).known with
    | none => rfl
    | some t' => simp [addRules_eq]
  rw [hsplit, ht]
  simp only [Option.bind_some, Repo.apply, Repo.addRuleSet]
  have := addItems_congr (allItems (rules.map (Rule.mk src))) _ _ (fun p => (hn p).symm)
  rw [← addRules_eq, ← addRules_eq] at this
  cases h1 : addRules (Repo.run ops).index (rules.map (Rule.mk src)) with
  | none =>
    cases h2 : addRules t (rules.map (Rule.mk src)) with
    | none => rfl
    | some b => rw [h1, h2] at this; simp [Rel] at this
  | some a =>
    cases h2 : addRules t (rules.map (Rule.mk src)) with
    | none => rw [h1, h2] at this; simp [Rel] at this
    | some b => rfl

end Heimdall
#print axioms Heimdall.c06_add_accept_iff_fresh
