import HeimdallModel.Props.C02
open Heimdall

theorem specLt_total : ∀ (p q : List PTok) (toks : List Tok) (cp cq : List String),
    matchCaps p toks = some cp → matchCaps q toks = some cq → p ≠ q →
    specLt p q = true ∨ specLt q p = true := by
  intro p
  induction p with
  | nil =>
    intro q toks cp cq hp hq hne
    cases toks with
    | nil => cases q with
      | nil => exact absurd rfl hne
      | cons a as => cases a <;> simp [matchCaps] at hq
    | cons t ts => simp [matchCaps] at hp
  | cons a as ih =>
    intro q toks cp cq hp hq hne
    cases toks with
    | nil => cases a <;> simp [matchCaps] at hp
    | cons tok rest =>
      cases q with
      | nil => simp [matchCaps] at hq
      | cons b bs =>
        by_cases hab : a = b
        · subst hab
          have hne' : as ≠ bs := fun e => hne (by rw [e])
          rw [specLt_cons_same, specLt_cons_same]
          cases a with
          | lit s =>
            simp only [matchCaps] at hp hq
            by_cases hs : s = tokStr tok
            · simp only [hs, if_true] at hp hq; exact ih bs rest cp cq hp hq hne'
            · simp [hs] at hp
          | wild =>
            cases tok with
            | sep => simp [matchCaps] at hp
            | seg sg =>
              simp only [matchCaps, Option.map_eq_some_iff] at hp hq
              obtain ⟨c1, h1, _⟩ := hp
              obtain ⟨c2, h2, _⟩ := hq
              exact ih bs rest c1 c2 h1 h2 hne'
          | catchAll =>
            simp only [matchCaps] at hp hq
            by_cases h1 : as = []
            · by_cases h2 : bs = []
              · exact absurd (h1.trans h2.symm) hne'
              · simp [h2] at hq
            · simp [h1] at hp
        · cases a <;> cases b <;> simp_all [specLt, rank, matchCaps]

open Heimdall.Props.C02 in
theorem c02_most_specific_complete {V : Type} (m : V → List String → List String → Bool)
    (t : Table V) (hnd : NodupPats t) (path : List Tok) (n : Node V) (hn : n ∈ t) (caps : List String)
    (hm : matchCaps n.pat path = some caps) (hacc : accepts m n caps = true)
    (hall : ∀ n' ∈ t, ∀ caps', matchCaps n'.pat path = some caps' → specLt n'.pat n.pat = true →
        accepts m n' caps' = false ∧ n'.bt = true) :
    ∃ f, (find m t path []).1 = some f ∧ f.caps = caps ∧ f.keys = n.keys ∧
      n.values.find? (fun v => m v n.keys caps) = some f.value := by
  cases hf : (find m t path []).1 with
  | none =>
    obtain ⟨n', hn', caps', hm', hlt, _, hbt⟩ := c02_none_only_if_shadowed m t hnd path hf n hn caps hm hacc
    have := (hall n' hn' caps' hm' hlt).2
    rw [hbt] at this; cases this
  | some f =>
    obtain ⟨n₁, hn₁, hm₁, hk, hv, hall₁⟩ := c02_most_specific m t hnd path f hf
    have hacc₁ : accepts m n₁ f.caps = true := by
      unfold accepts
      rw [List.any_eq_true]
      exact ⟨f.value, List.mem_of_find?_eq_some hv, by have := List.find?_some hv; exact this⟩
    by_cases hpe : n₁.pat = n.pat
    · have e1 := getNode_of_mem hnd hn₁
      have e2 := getNode_of_mem hnd hn
      rw [hpe] at e1
      have : n₁ = n := by rw [e1] at e2; exact Option.some.inj e2
      subst this
      rw [hm] at hm₁
      have hc : caps = f.caps := Option.some.inj hm₁
      exact ⟨f, rfl, hc.symm, hk, by rw [hc]; exact hv⟩
    · rcases specLt_total n₁.pat n.pat path f.caps caps hm₁ hm hpe with h | h
      · have := (hall n₁ hn₁ f.caps hm₁ h).1
        rw [hacc₁] at this; cases this
      · have := (hall₁ n hn caps hm h).1
        rw [hacc] at this; cases this
#print axioms c02_most_specific_complete
