import HeimdallModel.Model.RepoProtocol
namespace Rev.m1

def repoProtocolMutexes : List String := ["$K", "$T"]

def repoProtocol : List (String × List String) := [
  ("AddRuleSet", [
    "lock $K",
    "defer unlock $K",
    "read $index",
    "call $index.Clone",
    "bind $clone $index.Clone",
    "call addRulesTo $clone",
    "if {",
    "return var",
    "}",
    "read $known",
    "write $known append(..)",
    "if {",
    "lock $T",
    "}",
    "write $index $clone",
    "if {",
    "unlock $T",
    "}",
    "return nil"
  ]),
  ("DeleteRuleSet", [
    "lock $K",
    "defer unlock $K",
    "read $known",
    "read $index",
    "call $index.Clone",
    "bind $clone $index.Clone",
    "call removeRulesFrom $clone",
    "if {",
    "return var",
    "}",
    "read $known",
    "write $known slices.DeleteFunc(..)",
    "lock $T",
    "write $index $clone",
    "unlock $T",
    "return nil"
  ]),
  ("FindRule", [
    "rlock $T",
    "defer runlock $T",
    "read $index",
    "call $index.Find",
    "bind entry $index.Find",
    "bind err $index.Find",
    "if {",
    "read $default",
    "if {",
    "read $default",
    "return nil",
    "}",
    "return value",
    "}",
    "return nil"
  ]),
  ("UpdateRuleSet", [
    "lock $K",
    "defer unlock $K",
    "read $known",
    "read $index",
    "call $index.Clone",
    "bind $clone $index.Clone",
    "call removeRulesFrom $clone",
    "if {",
    "return var",
    "}",
    "call addRulesTo $clone",
    "if {",
    "return var",
    "}",
    "read $known",
    "write $known slices.DeleteFunc(..)",
    "read $known",
    "write $known append(..)",
    "lock $T",
    "write $index $clone",
    "unlock $T",
    "return nil"
  ])
]

end Rev.m1
namespace Rev.m2

def repoProtocolMutexes : List String := ["$K", "$T"]

def repoProtocol : List (String × List String) := [
  ("AddRuleSet", [
    "lock $K",
    "defer unlock $K",
    "read $index",
    "call $index.Clone",
    "bind $clone $index.Clone",
    "call addRulesTo $clone",
    "if {",
    "return var",
    "}",
    "read $known",
    "write $known append(..)",
    "lock $T",
    "write $index $clone",
    "unlock $T",
    "return nil"
  ]),
  ("DeleteRuleSet", [
    "lock $K",
    "defer unlock $K",
    "read $known",
    "read $index",
    "call $index.Clone",
    "bind $clone $index.Clone",
    "call removeRulesFrom $clone",
    "if {",
    "return var",
    "}",
    "read $known",
    "write $known slices.DeleteFunc(..)",
    "lock $T",
    "write $index $clone",
    "unlock $T",
    "return nil"
  ]),
  ("FindRule", [
    "read $index",
    "rlock $T",
    "defer runlock $T",
    "read $index",
    "call $index.Find",
    "bind entry $index.Find",
    "bind err $index.Find",
    "if {",
    "read $default",
    "if {",
    "read $default",
    "return nil",
    "}",
    "return value",
    "}",
    "return nil"
  ]),
  ("UpdateRuleSet", [
    "lock $K",
    "defer unlock $K",
    "read $known",
    "read $index",
    "call $index.Clone",
    "bind $clone $index.Clone",
    "call removeRulesFrom $clone",
    "if {",
    "return var",
    "}",
    "call addRulesTo $clone",
    "if {",
    "return var",
    "}",
    "read $known",
    "write $known slices.DeleteFunc(..)",
    "read $known",
    "write $known append(..)",
    "lock $T",
    "write $index $clone",
    "unlock $T",
    "return nil"
  ])
]

end Rev.m2
namespace Rev.m3

def repoProtocolMutexes : List String := ["$K", "$T"]

def repoProtocol : List (String × List String) := [
  ("AddRuleSet", [
    "lock $K",
    "defer unlock $K",
    "read $index",
    "call $index.Clone",
    "bind $clone $index.Clone",
    "call addRulesTo $clone",
    "if {",
    "return var",
    "}",
    "read $known",
    "write $known append(..)",
    "lock $T",
    "write $index $clone",
    "unlock $T",
    "return nil"
  ]),
  ("DeleteRuleSet", [
    "lock $K",
    "defer unlock $K",
    "read $known",
    "read $index",
    "call $index.Clone",
    "bind $clone $index.Clone",
    "call removeRulesFrom $clone",
    "if {",
    "return var",
    "}",
    "read $known",
    "write $known slices.DeleteFunc(..)",
    "lock $T",
    "write $index $clone",
    "unlock $T",
    "return nil"
  ]),
  ("FindRule", [
    "rlock $T",
    "defer runlock $T",
    "read $index",
    "call $index.Find",
    "bind entry $index.Find",
    "bind err $index.Find",
    "if {",
    "read $default",
    "if {",
    "read $default",
    "return nil",
    "}",
    "return value",
    "}",
    "return nil"
  ]),
  ("UpdateRuleSet", [
    "lock $K",
    "defer unlock $K",
    "read $known",
    "read $index",
    "call $index.Clone",
    "bind $clone $index.Clone",
    "call removeRulesFrom $clone",
    "if {",
    "return var",
    "}",
    "call addRulesTo $clone",
    "if {",
    "return var",
    "}",
    "read $known",
    "write $known slices.DeleteFunc(..)",
    "read $known",
    "write $known append(..)",
    "lock $T",
    "write $index $clone",
    "unlock $T",
    "return nil"
  ])
]

end Rev.m3
namespace Rev.m4

def repoProtocolMutexes : List String := ["$K", "$T"]

def repoProtocol : List (String × List String) := [
  ("AddRuleSet", [
    "lock $K",
    "defer unlock $K",
    "read $index",
    "call $index.Clone",
    "bind $clone $index.Clone",
    "call addRulesTo $clone",
    "if {",
    "return var",
    "}",
    "read $index",
    "read $known",
    "write $known append(..)",
    "lock $T",
    "write $index $clone",
    "unlock $T",
    "return nil"
  ]),
  ("DeleteRuleSet", [
    "lock $K",
    "defer unlock $K",
    "read $known",
    "read $index",
    "call $index.Clone",
    "bind $clone $index.Clone",
    "call removeRulesFrom $clone",
    "if {",
    "return var",
    "}",
    "read $known",
    "write $known slices.DeleteFunc(..)",
    "lock $T",
    "write $index $clone",
    "unlock $T",
    "return nil"
  ]),
  ("FindRule", [
    "rlock $T",
    "defer runlock $T",
    "read $index",
    "call $index.Find",
    "bind entry $index.Find",
    "bind err $index.Find",
    "if {",
    "read $default",
    "if {",
    "read $default",
    "return nil",
    "}",
    "return value",
    "}",
    "return nil"
  ]),
  ("UpdateRuleSet", [
    "lock $K",
    "defer unlock $K",
    "read $known",
    "read $index",
    "call $index.Clone",
    "bind $clone $index.Clone",
    "call removeRulesFrom $clone",
    "if {",
    "return var",
    "}",
    "call addRulesTo $clone",
    "if {",
    "return var",
    "}",
    "read $known",
    "write $known slices.DeleteFunc(..)",
    "read $known",
    "write $known append(..)",
    "lock $T",
    "write $index $clone",
    "unlock $T",
    "return nil"
  ])
]

end Rev.m4
open Heimdall Heimdall.Conc
example : canon (lookupMethod Rev.m1.repoProtocol "AddRuleSet") = writerProtocol := by decide
example : canon (lookupMethod Rev.m2.repoProtocol "FindRule") = readerProtocol := by decide
example : canon (lookupMethod Rev.m3.repoProtocol "AddRuleSet") = writerProtocol := by decide
example : canon (lookupMethod Rev.m3.repoProtocol "FindRule") = readerProtocol := by decide
example : Rev.m3.repoProtocolMutexes = ["$K", "$T"] := by decide
example : canon (lookupMethod Rev.m4.repoProtocol "AddRuleSet") = writerProtocol := by decide
example : canon (lookupMethod Rev.m4.repoProtocol "UpdateRuleSet") = writerProtocol := by decide
