import HeimdallModel.Lemmas.Pipeline
import HeimdallModel.Model.HttpChain
/-!
# The response writer refines the answer (C01)

Whatever is already in the header map of a response writer on which nothing has been sent yet, the error translator
writes the status of the error's class, and the handler chain produces exactly the reply of `serveHTTP`.
-/
namespace Heimdall.Pipeline

theorem RW.fresh_set (rw : RW) (names : List String) (h : rw.fresh = true) : (rw.set names).fresh = true := h

theorem RW.fresh_fields (rw : RW) (h : rw.fresh = true) :
    rw.status = none ∧ rw.errorBody = false ∧ rw.forwarded = false := by
  obtain ⟨hs, st, eb, fw⟩ := rw
  cases st <;> cases eb <;> cases fw <;> simp_all [RW.fresh]

/-- on a response writer on which nothing has been sent the first `WriteHeader` decides the status -/
theorem RW.writeHeader_fresh (rw : RW) (code : Nat) (h : rw.fresh = true) :
    rw.writeHeader code = { rw with status := some code } := by
  obtain ⟨hst, _, _⟩ := rw.fresh_fields h
  simp only [RW.writeHeader, hst]

/-- the error translator on a fresh writer: the reply is `writeError`'s, **whatever the header map contains** -/
theorem handleError_reply (cfg : Cfg) (view : ReqView) (e : Err) (rw : RW) (h : rw.fresh = true) :
    (cfg.handleError view e rw).reply = cfg.writeError view e := by
  obtain ⟨hs, st, eb, fw⟩ := rw
  obtain ⟨hst, heb, hfw⟩ := RW.fresh_fields _ h
  simp only at hst heb hfw
  subst hst heb hfw
  unfold Cfg.handleError Cfg.writeError Cfg.httpError
  cases hcl : classify e <;>
    cases hb : (cfg.verbose && view.negotiable) <;>
    simp [RW.reply, RW.writeHeader, RW.set, Cfg.httpStatus]

/-- … and the status of the error's class has been written -/
theorem handleError_status (cfg : Cfg) (view : ReqView) (e : Err) (rw : RW) (h : rw.fresh = true) :
    (cfg.handleError view e rw).status = some (cfg.httpStatus (classify e)) := by
  obtain ⟨hs, st, eb, fw⟩ := rw
  obtain ⟨hst, heb, hfw⟩ := RW.fresh_fields _ h
  simp only at hst heb hfw
  subst hst heb hfw
  unfold Cfg.handleError
  cases hcl : classify e <;>
    cases hb : (cfg.verbose && view.negotiable) <;>
    simp [RW.writeHeader, RW.set, Cfg.httpStatus]

theorem finalizeRW_reply (proxy : Bool) (cfg : Cfg) (view : ReqView) (up : Nat) (backend : Bool) (c : Ctx) (rw : RW)
    (h : rw.fresh = true) :
    (finalizeRW proxy cfg view up backend c rw).reply = finalizeHTTP proxy cfg view up backend c := by
  unfold finalizeRW finalizeHTTP
  cases hpe : c.pipelineErr with
  | some e => exact handleError_reply cfg view e rw h
  | none =>
    obtain ⟨hst, heb, hfw⟩ := RW.fresh_fields _ h
    cases proxy with
    | false => simp [RW.writeHeader_fresh rw _ h, RW.reply, heb, hfw]
    | true =>
      cases backend with
      | false => simpa using handleError_reply cfg view (.ofKind .configuration) rw h
      | true => simp [RW.writeHeader_fresh rw _ h, RW.reply, heb]

/-- **the handler chain on a response writer with any header map gives the reply of `serveHTTP`** -/
theorem handlerRW_reply (proxy : Bool) (cfg : Cfg) (view : ReqView) (up : Nat) (found : Option Rule) (rw : RW)
    (h : rw.fresh = true) :
    ((handlerRW proxy cfg view up found rw).1.reply, (handlerRW proxy cfg view up found rw).2) =
      serveHTTP proxy cfg view up found := by
  unfold handlerRW serveHTTP
  cases execute found {} with
  | panic v c => simp only [handleError_reply cfg view _ rw h]
  | done out c =>
    obtain ⟨backend, err⟩ := out
    cases err with
    | some e => simp only [handleError_reply cfg view _ rw h]
    | none => simp only [finalizeRW_reply proxy cfg view up backend c rw h]

/-- the service handler reads neither `serve.<service>.cors` nor the `Origin` header nor the method -/
theorem serve_cors (ep : EntryPoint) (cfg : Cfg) (cors : Option Cors) (view : ReqView) (origin : Option String)
    (pre : Bool) (up : Nat) (found : Option Rule) :
    serve ep { cfg with cors := cors } { view with origin := origin, preflight := pre } up found =
      serve ep cfg view up found := by
  have hs : ∀ cl, ({ cfg with cors := cors } : Cfg).httpStatus cl = cfg.httpStatus cl := by
    intro cl; cases cl <;> rfl
  have he : ∀ e, ({ cfg with cors := cors } : Cfg).httpError e = cfg.httpError e := by
    intro e; simp only [Cfg.httpError, hs]
  have hd : ∀ e, ({ cfg with cors := cors } : Cfg).deny e = cfg.deny e := by
    intro e; unfold Cfg.deny; cases classify e <;> simp only [hs]
  have hw : ∀ e, ({ cfg with cors := cors } : Cfg).writeError { view with origin := origin, preflight := pre } e =
      cfg.writeError view e := by
    intro e; simp only [Cfg.writeError, he]
  have hr : ∀ e, ({ cfg with cors := cors } : Cfg).denyReply e = cfg.denyReply e := by
    intro e; simp only [Cfg.denyReply, hd]
  cases ep
  all_goals
    simp only [serve, serveHTTP, serveEnvoy]
    cases execute found {} with
    | panic pv c => simp only [hw]
    | done out c =>
      obtain ⟨backend, err⟩ := out
      obtain ⟨pe, tr⟩ := c
      cases err <;> cases pe <;> cases backend <;>
        simp only [finalizeHTTP, finalizeEnvoy, hw, hr] <;> rfl

theorem preflightAnswered_false_iff (ep : EntryPoint) (cfg : Cfg) (view : ReqView) :
    preflightAnswered ep cfg view = false ↔ (ep ≠ .proxy ∨ cfg.cors = none ∨ view.preflight = false) := by
  cases ep <;> cases hc : cfg.cors <;> cases hp : view.preflight <;> simp [preflightAnswered, hc, hp]

/-- the whole chain equals the service handler's answer unless the CORS middleware answers a preflight request -/
theorem serveChain_eq_serve (ep : EntryPoint) (cfg : Cfg) (view : ReqView) (up : Nat) (found : Option Rule)
    (h : preflightAnswered ep cfg view = false) : serveChain ep cfg view up found = serve ep cfg view up found := by
  cases ep with
  | envoy => rfl
  | decision =>
    have : chainRW false cfg view up found = handlerRW false cfg view up found {} := by
      unfold chainRW; split <;> first | rfl | contradiction
    simp only [serveChain, serve, this]
    exact handlerRW_reply false cfg view up found {} rfl
  | proxy =>
    cases hc : cfg.cors with
    | none =>
      have : chainRW true cfg view up found = handlerRW true cfg view up found {} := by
        unfold chainRW; simp only [hc]
      simp only [serveChain, serve, this]
      exact handlerRW_reply true cfg view up found {} rfl
    | some c =>
      have hp : view.preflight = false := by
        cases hp : view.preflight with
        | false => rfl
        | true => simp [preflightAnswered, hc, hp] at h
      have : chainRW true cfg view up found =
          handlerRW true cfg view up found (({} : RW).set (c.headers view)) := by
        unfold chainRW; simp only [hc, corsHandler, hp, Bool.false_eq_true, if_false]
      simp only [serveChain, serve, this]
      exact handlerRW_reply true cfg view up found _ rfl

/-- a preflight request at a proxy with CORS configured: `204` from the middleware, nothing forwarded, no mechanism
executed, no pipeline error recorded -/
theorem serveChain_preflight (ep : EntryPoint) (cfg : Cfg) (view : ReqView) (up : Nat) (found : Option Rule)
    (h : preflightAnswered ep cfg view = true) :
    serveChain ep cfg view up found = ({ resp := .http 204 false }, {}) := by
  cases ep with
  | envoy => simp [preflightAnswered] at h
  | decision => simp [preflightAnswered] at h
  | proxy =>
    cases hc : cfg.cors with
    | none => simp [preflightAnswered, hc] at h
    | some c =>
      have hp : view.preflight = true := by simpa [preflightAnswered, hc] using h
      simp [serveChain, chainRW, hc, corsHandler, hp, RW.writeHeader, RW.set, RW.reply]

end Heimdall.Pipeline
