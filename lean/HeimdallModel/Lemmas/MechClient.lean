import HeimdallModel.Lemmas.MechTemplate
import HeimdallModel.Model.MechClient
/-!
# Executions with an effect on the object's own state (C17): the k-th object does what it does alone
-/
namespace Heimdall.Mech

variable {Inp Out S : Type}

/-- the state of every object is what its own executions so far make of it; an object that has been executed exists -/
structure Tracked (step : Entries → Inp → S → Out × S) (s₀ : S) (σ : Store Entries Override) (st : Nat → S)
    (hist : Nat → List Inp) : Prop where
  st : ∀ x, st x = stateAlone step (effective σ x) s₀ (hist x)
  live : ∀ x, hist x ≠ [] → ∃ i : Inst, σ.insts[x]? = some i

/-- what the record of an execution of the k-th object has to be, given everything handed out (`hs`), the requests
(`reqs`) and the inputs of the earlier executions per object (`past`) -/
def expected (step : Entries → Inp → S → Out × S) (σ₀ : Store Entries Override) (s₀ : S) (hs : List Handed)
    (reqs : List CreateReq) (past : Nat → List Inp) (k : Nat) (inp : Inp) : Option (Nat × Out) :=
  ((hs[k]?).bind Handed.inst).bind fun x => (reqs[k]?).bind fun r => (aloneEff σ₀ r).map fun e =>
    (x, (step e inp (stateAlone step e s₀ (past x))).1)

theorem stateAlone_snoc (step : Entries → Inp → S → Out × S) (e : Entries) (s₀ : S) (l : List Inp) (i : Inp) :
    stateAlone step e s₀ (l ++ [i]) = (step e i (stateAlone step e s₀ l)).2 := by
  simp [stateAlone, List.foldl_append]

/-- the tracking survives a creation -/
theorem Tracked.create {step : Entries → Inp → S → Out × S} {s₀ : S} {σ σ' : Store Entries Override} {st : Nat → S}
    {hist : Nat → List Inp} (ht : Tracked step s₀ σ st hist) (p : Option Nat) (ov : Option Override) (h : Nat)
    (hcl : Closed σ) (hc : create σ p ov = .variant σ' h) : Tracked step s₀ σ' st hist := by
  obtain ⟨_, hkeep⟩ := create_keeps_effective σ σ' p ov h hcl hc
  refine ⟨fun x => ?_, fun x hx => ?_⟩
  · by_cases hx : hist x = []
    · have := ht.st x
      rw [hx] at this ⊢
      simpa [stateAlone] using this
    · obtain ⟨i, hi⟩ := ht.live x hx
      rw [(hkeep x i hi).2]
      exact ht.st x
  · obtain ⟨i, hi⟩ := ht.live x hx
    exact ⟨i, (hkeep x i hi).1⟩

/-- … and an execution of a live object -/
theorem Tracked.exec {step : Entries → Inp → S → Out × S} {s₀ : S} {σ : Store Entries Override} {st : Nat → S}
    {hist : Nat → List Inp} (ht : Tracked step s₀ σ st hist) (x : Nat) (inp : Inp) (i : Inst)
    (hi : σ.insts[x]? = some i) :
    Tracked step s₀ σ (upd st x (step (effective σ x) inp (st x)).2) (upd hist x (hist x ++ [inp])) := by
  refine ⟨fun y => ?_, fun y hy => ?_⟩
  · by_cases hyx : y = x
    · subst hyx
      simp only [upd, if_true]
      rw [stateAlone_snoc, ← ht.st y]
    · simp only [upd, hyx, if_false]
      exact ht.st y
  · by_cases hyx : y = x
    · subst hyx; exact ⟨i, hi⟩
    · simp only [upd, hyx, if_false] at hy
      exact ht.live y hy

/-- what an answer that shows an object says about the object -/
theorem observed_inst (σ₀ σ : Store Entries Override) (h : Handed) (r : CreateReq) (x : Nat)
    (hobs : h.observed σ = createAlone σ₀ r) (hx : h.inst = some x) : aloneEff σ₀ r = some (effective σ x) := by
  unfold aloneEff
  cases h with
  | notFound => cases hx
  | configError => cases hx
  | proto y =>
    simp only [Handed.inst, Option.some.injEq] at hx
    subst hx
    simp only [Handed.observed] at hobs
    rw [← hobs]
  | variant y =>
    simp only [Handed.inst, Option.some.injEq] at hx
    subst hx
    simp only [Handed.observed] at hobs
    rw [← hobs]

theorem inputsOf_cons_some (x k y : Nat) (inp : Inp) (o : Out) (rest : List (Nat × Inp × Option (Nat × Out))) :
    inputsOf x ((k, inp, some (y, o)) :: rest) = if y = x then inp :: inputsOf x rest else inputsOf x rest := rfl

theorem inputsOf_cons_none (x k : Nat) (inp : Inp) (rest : List (Nat × Inp × Option (Nat × Out))) :
    inputsOf x ((k, inp, (none : Option (Nat × Out))) :: rest) = inputsOf x rest := rfl

/-- **the invariant along a history** -/
theorem runHistSt_kth (step : Entries → Inp → S → Out × S) (σ₀ : Store Entries Override) (hcl₀ : Closed σ₀) (s₀ : S)
    (pre : List (HEv Inp)) :
    ∀ (σ : Store Entries Override) (hs : List Handed) (reqs : List CreateReq) (st : Nat → S) (hist : Nat → List Inp),
    Extends σ₀ σ → Answers σ₀ σ hs reqs → Tracked step s₀ σ st hist →
    (∀ r ∈ reqsOf pre, ∀ q, r.1 = some q → ∃ i : Inst, σ₀.insts[q]? = some i) →
    ∀ (post : List (HEv Inp)) (k : Nat) (inp : Inp),
    (runHistSt step σ hs st (pre ++ .exec k inp :: post))[(execsOf pre).length]? =
      some (k, inp, expected step σ₀ s₀ (hs ++ (createSeq σ (reqsOf pre)).2) (reqs ++ reqsOf pre)
        (fun x => hist x ++ inputsOf x (runHistSt step σ hs st pre)) k inp) := by
  induction pre with
  | nil =>
    intro σ hs reqs st hist _ ha ht _ post k inp
    simp only [List.nil_append, execsOf, List.length_nil, reqsOf, createSeq, List.append_nil, runHistSt, inputsOf]
    unfold expected
    cases hx : (hs[k]?).bind Handed.inst with
    | none => simp
    | some x =>
      simp only [List.getElem?_cons_zero, Option.bind_some]
      cases hk : hs[k]? with
      | none => simp [hk] at hx
      | some h =>
        simp only [hk, Option.bind_some] at hx
        have hlt : k < reqs.length := by
          rw [← ha.len]
          exact (List.getElem?_eq_some_iff.mp hk).1
        obtain ⟨r, hr⟩ : ∃ r, reqs[k]? = some r := ⟨reqs[k], List.getElem?_eq_getElem hlt⟩
        have he := observed_inst σ₀ σ h r x (ha.obs k h r hk hr) hx
        simp only [hr, Option.bind_some, he, Option.map_some, ← ht.st x]
  | cons ev pre ih =>
    intro σ hs reqs st hist he ha ht hcat post k inp
    cases ev with
    | exec k' inp' =>
      have hcat' : ∀ r ∈ reqsOf pre, ∀ q, r.1 = some q → ∃ i : Inst, σ₀.insts[q]? = some i :=
        fun r hr => hcat r (by simpa [reqsOf] using hr)
      cases hx : (hs[k']?).bind Handed.inst with
      | none =>
        simp only [List.cons_append, execsOf, List.length_cons, runHistSt, hx, List.getElem?_cons_succ, reqsOf,
          inputsOf_cons_none]
        exact ih σ hs reqs st hist he ha ht hcat' post k inp
      | some x' =>
        simp only [List.cons_append, execsOf, List.length_cons, runHistSt, hx, List.getElem?_cons_succ, reqsOf]
        -- the object executed exists
        have hlive : ∃ i : Inst, σ.insts[x']? = some i := by
          cases hk : hs[k']? with
          | none => simp [hk] at hx
          | some h =>
            simp only [hk, Option.bind_some] at hx
            cases h with
            | notFound => cases hx
            | configError => cases hx
            | proto y =>
              simp only [Handed.inst, Option.some.injEq] at hx
              subst hx
              exact (ha.live k' (.proto y) hk).1 y rfl
            | variant y =>
              simp only [Handed.inst, Option.some.injEq] at hx
              subst hx
              exact (ha.live k' (.variant y) hk).2 y rfl
        obtain ⟨i, hi⟩ := hlive
        have ht' := ht.exec x' inp' i hi
        rw [ih σ hs reqs _ _ he ha ht' hcat' post k inp]
        refine congrArg (fun f => some (k, inp, expected step σ₀ s₀ _ _ f k inp)) ?_
        funext x
        rw [inputsOf_cons_some]
        by_cases hxx : x' = x
        · subst hxx
          simp [upd]
        · have hxx' : ¬ x = x' := fun h => hxx h.symm
          simp [upd, hxx, hxx']
    | create r =>
      have hr : ∀ q, r.1 = some q → ∃ i : Inst, σ₀.insts[q]? = some i := hcat r (by simp [reqsOf])
      have hcat' : ∀ r' ∈ reqsOf pre, ∀ q, r'.1 = some q → ∃ i : Inst, σ₀.insts[q]? = some i :=
        fun r' hr' => hcat r' (by simp [reqsOf, hr'])
      have hobs := create_answers σ₀ σ he hcl₀ r hr
      have happ : reqs ++ reqsOf (HEv.create r :: pre) = (reqs ++ [r]) ++ reqsOf pre := by simp [reqsOf]
      simp only [List.cons_append, execsOf, runHistSt]
      rw [happ]
      simp only [reqsOf, createSeq]
      cases hc : create σ r.1 r.2 with
      | notFound =>
        rw [hc] at hobs
        simp only
        rw [ih σ (hs ++ [Handed.notFound]) (reqs ++ [r]) st hist he
          (ha.snoc .notFound r (by simpa [Handed.observed] using hobs) ⟨fun x hx => (by cases hx), fun x hx => (by cases hx)⟩)
          ht hcat' post k inp]
        simp
      | configError =>
        rw [hc] at hobs
        simp only
        rw [ih σ (hs ++ [Handed.configError]) (reqs ++ [r]) st hist he
          (ha.snoc .configError r (by simpa [Handed.observed] using hobs)
            ⟨fun x hx => (by cases hx), fun x hx => (by cases hx)⟩)
          ht hcat' post k inp]
        simp
      | proto h =>
        rw [hc] at hobs
        simp only
        have hlive : ∃ i : Inst, σ.insts[h]? = some i := by
          obtain ⟨p, ov⟩ := r
          cases p with
          | none => simp [create, decision] at hc
          | some q =>
            obtain ⟨i, hq⟩ := hr q rfl
            have := create_proto_handle σ q h ov hc
            subst this
            exact ⟨i, he.insts h i hq⟩
        rw [ih σ (hs ++ [Handed.proto h]) (reqs ++ [r]) st hist he
          (ha.snoc (.proto h) r (by simpa [Handed.observed] using hobs)
            ⟨fun x hx => (by cases hx; exact hlive), fun x hx => (by cases hx)⟩)
          ht hcat' post k inp]
        simp
      | variant σ' h =>
        rw [hc] at hobs
        simp only
        have he' := create_extends σ₀ σ σ' r.1 r.2 h he hc
        have hlive := create_variant_handle σ σ' r.1 r.2 h he.closed hc
        rw [ih σ' (hs ++ [Handed.variant h]) (reqs ++ [r]) st hist he'
          ((ha.step r.1 r.2 h he.closed hc).snoc (.variant h) r (by simpa [Handed.observed] using hobs)
            ⟨fun x hx => (by cases hx), fun x hx => (by cases hx; exact hlive)⟩)
          (ht.create r.1 r.2 h he.closed hc) hcat' post k inp]
        simp

namespace Client

/-- a table of clients every entry of which was built from the settings it is filed under -/
def Honest {K : Type} (key : Settings × String → K) (tab : List (K × Settings)) : Prop :=
  ∀ e ∈ tab, ∃ p, e.1 = key (e.2, p)

/-- a table of clients keyed by something that determines what a client does cannot be told from own clients -/
theorem runMemo_eq_runOwn {K : Type} [DecidableEq K] (key : Settings × String → K) (objs : List Obj)
    (hk : ∀ a b p q, key (a, p) = key (b, q) → ∀ o st, execWith a o st = execWith b o st) (evs : List Nat) :
    ∀ (tab : List (K × Settings)) (st : Nat → St), Honest key tab → runMemo key objs tab st evs = runOwn objs st evs := by
  induction evs with
  | nil => intro tab st _; rfl
  | cons k evs ih =>
    intro tab st hh
    cases ho : objs[k]? with
    | none => simp only [runMemo, runOwn, ho]; rw [ih tab st hh]
    | some o =>
      cases hf : tab.find? (fun e => e.1 = key (o.client, o.peer)) with
      | some e =>
        have hmem : e ∈ tab := List.mem_of_find?_eq_some hf
        have hkey : e.1 = key (o.client, o.peer) := by
          have := List.find?_some hf
          simpa using this
        obtain ⟨p, hp⟩ := hh e hmem
        have hsame : ∀ s, execWith e.2 o s = exec o s := by
          intro s
          exact hk e.2 o.client p o.peer (by rw [← hp, hkey]) o s
        simp only [runMemo, runOwn, ho, hf, hsame]
        rw [ih tab _ hh]
      | none =>
        simp only [runMemo, runOwn, ho, hf]
        rw [ih _ _ ?_]
        intro e he
        rcases List.mem_cons.mp he with h | h
        · subst h; exact ⟨o.peer, rfl⟩
        · exact hh e h

/-- every execution of a process of own clients: the k-th object's upstream requests are those of its own n-th
execution alone, `n` = its executions so far -/
theorem runOwn_kth (objs : List Obj) (pre : List Nat) :
    ∀ (cnt : Nat → Nat) (st : Nat → St), (∀ k o, objs[k]? = some o → st k = stAfter o (cnt k)) →
    ∀ (post : List Nat) (k : Nat),
    (runOwn objs st (pre ++ k :: post))[pre.length]? =
      some ((objs[k]?).map fun o => callsAlone o (cnt k + (pre.filter (· = k)).length)) := by
  induction pre with
  | nil =>
    intro cnt st hst post k
    cases ho : objs[k]? with
    | none => simp [runOwn, ho]
    | some o => simp [runOwn, ho, callsAlone, hst k o ho]
  | cons j pre ih =>
    intro cnt st hst post k
    cases hj : objs[j]? with
    | none =>
      simp only [List.cons_append, runOwn, hj, List.length_cons, List.getElem?_cons_succ]
      rw [ih cnt st hst post k]
      by_cases hjk : j = k
      · subst hjk; simp [hj]
      · simp [hjk]
    | some oj =>
      simp only [List.cons_append, runOwn, hj, List.length_cons, List.getElem?_cons_succ]
      rw [ih (upd cnt j (cnt j + 1)) (upd st j (exec oj (st j)).2) ?_ post k]
      · by_cases hjk : j = k
        · subst hjk
          simp [upd, Nat.add_assoc, Nat.add_comm 1]
        · have hkj : ¬ k = j := fun h => hjk h.symm
          simp [upd, hjk, hkj]
      · intro k' o' ho'
        by_cases hkj : k' = j
        · subst hkj
          rw [hj] at ho'
          cases ho'
          simp [upd, stAfter, hst k' oj hj]
        · simp [upd, hkj]
          exact hst k' o' ho'

/-- nothing is kept of an upstream that answers 503 -/
theorem stAfter_busy (o : Obj) (hb : o.busy = true) : ∀ n, stAfter o n = {}
  | 0 => rfl
  | n + 1 => by
    simp only [stAfter, stAfter_busy o hb n, exec, execWith, roundTrip, hb]
    simp

end Client

end Heimdall.Mech
