import HeimdallModel.Lemmas.ProxyFwdUrl
/-!
Helper lemmas for C15, part 2: `EscapedPath`, `setPath`, `URLRewriter.Rewrite` — which bytes end up in the request line.
-/
namespace Heimdall.ProxyFwd
open Heimdall

theorem star_escaped : shouldEscapePath '*' = true := by decide

theorem escapePath_eq_nil (d : Bytes) (h : escapePath d = []) : d = [] := by
  cases d with
  | nil => rfl
  | cons c t =>
    unfold escapePath at h
    split at h <;> simp [pctEncode] at h

/-- whatever `EscapedPath` returns decodes to the decoded path -/
theorem escapedPath_decodes (d raw : Bytes) : pathUnescapeL (escapedPath d raw) = some d := by
  unfold escapedPath
  split
  · next h =>
    simp only [Bool.and_eq_true, beq_iff_eq] at h
    exact h.2
  · split
    · next h => subst h; rfl
    · exact pathUnescapeL_escapePath d

/-- a raw path that is valid, non-empty and consistent with the decoded path is returned as it is -/
theorem escapedPath_keep (d raw : Bytes) (hne : raw ≠ []) (hv : validEncodedPath raw = true)
    (hd : pathUnescapeL raw = some d) : escapedPath d raw = raw := by
  unfold escapedPath
  simp [hne, hv, hd]

theorem escapedPath_nil (d : Bytes) (hs : d ≠ ['*']) : escapedPath d [] = escapePath d := by
  unfold escapedPath
  simp [hs]

theorem head_slash_ne_star (d : Bytes) (h : d.head? = some '/') : d ≠ ['*'] := by
  intro e; subst e; simp at h

/-- heimdall's `escapedPath` on what Go's server parsed: the client's spelling with the forbidden octets encoded -/
theorem clientPath_setPath (p path raw : Bytes) (hs : p.head? = some '/') (h : setPath p = some (path, raw)) :
    pathUnescapeL p = some path ∧ clientPath path raw = escapeInvalid p := by
  unfold setPath at h
  cases hd : pathUnescapeL p with
  | none => simp [hd] at h
  | some d =>
    simp only [hd, Option.map_some, Option.some.injEq, Prod.mk.injEq] at h
    obtain ⟨h1, h2⟩ := h
    subst h1
    refine ⟨rfl, ?_⟩
    have hstar : d ≠ ['*'] := by
      cases p with
      | nil => simp at hs
      | cons c t =>
        simp only [List.head?_cons, Option.some.injEq] at hs
        subst hs
        exact head_slash_ne_star d (pathUnescapeL_head_slash t d hd)
    unfold clientPath
    by_cases he : escapePath d = p
    · simp only [he, if_true] at h2
      subst h2
      simp only [if_true]
      rw [escapedPath_nil d hstar, he]
      have : validEncodedPath p = true := by rw [← he]; exact validEncodedPath_escapePath d
      exact (escapeInvalid_id p this).symm
    · simp only [he, if_false] at h2
      subst h2
      have hne : p ≠ [] := by intro e; subst e; simp at hs
      simp [hne]

theorem escapeInvalid_ne_nil (p : Bytes) (hne : p ≠ []) : escapeInvalid p ≠ [] :=
  fun e => hne (escapeInvalid_eq_nil p e)

/-! ### `URLRewriter.Rewrite` -/

theorem validEncodedPath_append (a b : Bytes) :
    validEncodedPath (a ++ b) = (validEncodedPath a && validEncodedPath b) := by
  simp [validEncodedPath, List.all_append]

theorem all_drop {α} (p : α → Bool) (l : List α) (n : Nat) (h : l.all p = true) : (l.drop n).all p = true := by
  rw [List.all_eq_true] at h ⊢
  intro x hx
  exact h x (List.mem_of_mem_drop hx)

theorem all_cutPrefix (q : Char → Bool) (p s : Bytes) (h : s.all q = true) : (cutPrefix p s).all q = true := by
  unfold cutPrefix
  split
  · exact all_drop q s _ h
  · exact h

theorem cutPrefix_decodable (p s : Bytes) (h : (pathUnescapeL s).isSome = true) :
    (pathUnescapeL (cutPrefix p s)).isSome = true := by
  unfold cutPrefix
  split
  · exact pathUnescapeL_drop _ s h
  · exact h

theorem transformPath_decodable (r : Rewrite) (e : Bytes) (ha : (pathUnescapeL r.add).isSome = true)
    (he : (pathUnescapeL e).isSome = true) : (pathUnescapeL (transformPath r e)).isSome = true := by
  unfold transformPath
  cases hd : pathUnescapeL r.add with
  | none => simp [hd] at ha
  | some a' =>
    rw [pathUnescapeL_append _ _ a' hd]
    have := cutPrefix_decodable r.strip e he
    cases hc : pathUnescapeL (cutPrefix r.strip e) with
    | none => simp [hc] at this
    | some _ => simp

theorem apply_escapedPath (r : Rewrite) (u : Url) : (r.apply u).escapedPath =
    escapedPath ((pathUnescapeL (transformPath r u.escapedPath)).getD [])
      (if (pathUnescapeL (transformPath r u.escapedPath)).getD [] ≠ transformPath r u.escapedPath
        then transformPath r u.escapedPath
        else if u.rawPath ≠ [] then transformPath r u.escapedPath else u.rawPath) := rfl

/-- decoding the path `Rewrite` leaves behind gives the decoded transformed path -/
theorem rewrite_decodes (r : Rewrite) (u : Url) (d : Bytes)
    (hd : pathUnescapeL (transformPath r u.escapedPath) = some d) :
    pathUnescapeL (r.apply u).escapedPath = some d := by
  rw [apply_escapedPath, hd]
  exact escapedPath_decodes _ _

/-- the raw path is kept when the URL carries one and the transformed path is a valid, decodable encoding -/
theorem rewrite_exact_raw (r : Rewrite) (u : Url) (hraw : u.rawPath ≠ [])
    (hv : validEncodedPath (transformPath r u.escapedPath) = true)
    (hd : (pathUnescapeL (transformPath r u.escapedPath)).isSome = true) :
    (r.apply u).escapedPath = transformPath r u.escapedPath := by
  rw [apply_escapedPath]
  generalize transformPath r u.escapedPath = R at *
  cases hR : pathUnescapeL R with
  | none => simp [hR] at hd
  | some d =>
    simp only [Option.getD_some, hraw, ne_eq, not_false_eq_true, if_true, ite_self]
    by_cases hn : R = []
    · subst hn
      simp only [pathUnescapeL, Option.some.injEq] at hR
      subst hR
      rfl
    · exact escapedPath_keep _ _ hn hv hR

/-- without a raw path (`allow_encoded_slashes: on`) the result is exact when every character is `%` or needs no escaping -/
theorem rewrite_exact_noraw (r : Rewrite) (u : Url) (hraw : u.rawPath = [])
    (hc : (transformPath r u.escapedPath).all (fun c => c = '%' || !shouldEscapePath c) = true)
    (hd : (pathUnescapeL (transformPath r u.escapedPath)).isSome = true) :
    (r.apply u).escapedPath = transformPath r u.escapedPath := by
  rw [apply_escapedPath]
  generalize transformPath r u.escapedPath = R at *
  cases hR : pathUnescapeL R with
  | none => simp [hR] at hd
  | some d =>
    have hvalid : validEncodedPath R = true := by
      unfold validEncodedPath
      rw [List.all_eq_true] at hc ⊢
      intro x hx
      have := hc x hx
      simp only [Bool.or_eq_true, decide_eq_true_eq, Bool.not_eq_true'] at this
      rcases this with h | h
      · subst h; decide
      · simp [validPathChar, h]
    simp only [Option.getD_some, hraw, ne_eq, not_true_eq_false, if_false]
    by_cases hdr : d = R
    · -- nothing to decode: no raw path is set, the default encoding must reproduce the string
      subst hdr
      simp only [not_true_eq_false, if_false]
      have hnp : '%' ∉ d := pathUnescapeL_self_no_percent d hR
      have hall : d.all (fun c => !shouldEscapePath c) = true := by
        rw [List.all_eq_true] at hc ⊢
        intro x hx
        have := hc x hx
        simp only [Bool.or_eq_true, decide_eq_true_eq, Bool.not_eq_true'] at this
        rcases this with h | h
        · subst h; exact absurd hx hnp
        · simp [h]
      have hstar : d ≠ ['*'] := by
        intro e
        rw [e] at hall
        revert hall; decide
      rw [escapedPath_nil d hstar, escapePath_id d hall]
    · simp only [hdr, not_false_eq_true, if_true]
      have hnn : R ≠ [] := by
        intro e
        subst e
        simp only [pathUnescapeL, Option.some.injEq] at hR
        exact hdr hR.symm
      exact escapedPath_keep _ _ hnn hvalid hR

end Heimdall.ProxyFwd
