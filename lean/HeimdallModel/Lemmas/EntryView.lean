import HeimdallModel.Spec.EntryView
import HeimdallModel.Lemmas.UrlEscape
/-!
# Lemmas for property C13 (request view of the three entry points)

ASCII case folding and header-name canonicalisation, Go maps as association lists (`group`, `lookup`), the round trip
of a request target through `net/url`, the view functions of both request contexts against the reference semantics,
and the run through the `Request()` cell against the run on the reference view.
-/
namespace Heimdall.EntryView
open Heimdall

/-! ## ASCII case folding -/

theorem toUpperA_toLowerA (c : Char) : toUpperA (toLowerA c) = toUpperA c := by
  generalize h : toLowerA c = d
  unfold toLowerA at h
  split at h <;> subst h <;> rfl

theorem toLowerA_toLowerA (c : Char) : toLowerA (toLowerA c) = toLowerA c := by
  generalize h : toLowerA c = d
  unfold toLowerA at h
  split at h <;> subst h <;> first | rfl | skip
  unfold toLowerA
  split <;> first | rfl | contradiction

theorem toLowerA_toUpperA (c : Char) : toLowerA (toUpperA c) = toLowerA c := by
  generalize h : toUpperA c = d
  unfold toUpperA at h
  split at h <;> subst h <;> rfl

theorem isTokenChar_toLowerA (c : Char) : isTokenChar (toLowerA c) = isTokenChar c := by
  generalize h : toLowerA c = d
  unfold toLowerA at h
  split at h <;> subst h <;> rfl

theorem lower_lower (s : Bytes) : lower (lower s) = lower s := by
  simp [lower, toLowerA_toLowerA]

theorem all_token_lower (s : Bytes) : (lower s).all isTokenChar = s.all isTokenChar := by
  induction s with
  | nil => rfl
  | cons c t ih => simp_all [lower, isTokenChar_toLowerA]

theorem canonGo_lower (up : Bool) (s : Bytes) : canonGo up (lower s) = canonGo up s := by
  induction s generalizing up with
  | nil => rfl
  | cons c t ih =>
    simp only [lower, List.map_cons, canonGo]
    cases up <;> simp only [toUpperA_toLowerA, toLowerA_toLowerA, Bool.false_eq_true, if_false, if_true] <;>
      exact congrArg _ (ih _)

theorem lower_canonGo (up : Bool) (s : Bytes) : lower (canonGo up s) = lower s := by
  induction s generalizing up with
  | nil => rfl
  | cons c t ih =>
    simp only [lower, List.map_cons, canonGo]
    cases up <;> simp only [toLowerA_toUpperA, toLowerA_toLowerA, Bool.false_eq_true, if_false, if_true] <;>
      exact congrArg _ (ih _)

/-- header names are case-insensitive: lower-casing a token does not change its canonical form -/
theorem canonKey_lower_of_token {s : Bytes} (h : s.all isTokenChar = true) : canonKey (lower s) = canonKey s := by
  simp [canonKey, all_token_lower, h, canonGo_lower]

theorem lower_canonKey (s : Bytes) : lower (canonKey s) = lower s := by
  unfold canonKey
  split
  · exact lower_canonGo _ _
  · rfl

/-- on lower-case names canonicalisation is injective (distinct keys of Envoy's header map stay distinct) -/
theorem canonKey_inj_lower {a b : Bytes} (ha : lower a = a) (hb : lower b = b) (h : canonKey a = canonKey b) :
    a = b := by
  rw [← ha, ← hb, ← lower_canonKey a, ← lower_canonKey b, h]

/-! ## Go maps as association lists -/

theorem lookup_addTo (m : List (Bytes × List Bytes)) (k k' v : Bytes) :
    lookup k (addTo m k' v) = if k' = k then some ((lookup k m).getD [] ++ [v]) else lookup k m := by
  induction m with
  | nil => by_cases h : k' = k <;> simp [addTo, lookup, h]
  | cons kv t ih =>
    obtain ⟨k0, vs⟩ := kv
    by_cases h0 : k0 = k' <;> by_cases h : k' = k <;> by_cases h1 : k0 = k <;>
      simp_all [addTo, lookup]

/-- the values of the lines selected by `k`, appended to what the map held before -/
def selected (key : Bytes → Bytes) (k : Bytes) (lines : List (Bytes × Bytes)) : List Bytes :=
  lines.filterMap fun l => if key l.1 = k then some l.2 else none

theorem selected_cons (key : Bytes → Bytes) (k : Bytes) (l : Bytes × Bytes) (t : List (Bytes × Bytes)) :
    selected key k (l :: t) = if key l.1 = k then l.2 :: selected key k t else selected key k t := by
  by_cases h : key l.1 = k <;> simp [selected, h]

theorem lookup_foldl_addTo (key : Bytes → Bytes) (k : Bytes) (lines : List (Bytes × Bytes))
    (m : List (Bytes × List Bytes)) :
    lookup k (lines.foldl (fun m l => addTo m (key l.1) l.2) m) =
      if (selected key k lines).isEmpty then lookup k m
      else some ((lookup k m).getD [] ++ selected key k lines) := by
  induction lines generalizing m with
  | nil => simp [selected]
  | cons l t ih =>
    simp only [List.foldl_cons]
    rw [ih, lookup_addTo, selected_cons]
    by_cases h : key l.1 = k
    · simp only [h, if_true]
      cases ht : selected key k t <;> simp
    · simp only [h, if_false]

theorem lookup_group (key : Bytes → Bytes) (k : Bytes) (lines : List (Bytes × Bytes)) :
    lookup k (group key lines) =
      if (selected key k lines).isEmpty then none else some (selected key k lines) := by
  unfold group
  rw [lookup_foldl_addTo]
  simp [lookup]

theorem lookup_map_val {α β : Type} (f : α → β) (k : Bytes) (m : List (Bytes × α)) :
    lookup k (m.map fun kv => (kv.1, f kv.2)) = (lookup k m).map f := by
  induction m with
  | nil => rfl
  | cons kv t ih => by_cases h : kv.1 = k <;> simp [lookup, h, ih]

theorem mem_addTo_key {m : List (Bytes × List Bytes)} {k v : Bytes} {kv : Bytes × List Bytes}
    (h : kv ∈ addTo m k v) : kv.1 = k ∨ ∃ kv' ∈ m, kv'.1 = kv.1 := by
  induction m with
  | nil => simp [addTo] at h; left; rw [h]
  | cons a t ih =>
    obtain ⟨k0, vs⟩ := a
    by_cases h0 : k0 = k
    · simp [addTo, h0] at h
      rcases h with h | h
      · left; rw [h]
      · right; exact ⟨kv, by simp [h], rfl⟩
    · simp [addTo, h0] at h
      rcases h with h | h
      · right; exact ⟨(k0, vs), by simp, by rw [h]⟩
      · rcases ih h with h' | ⟨kv', hm, he⟩
        · left; exact h'
        · right; exact ⟨kv', by simp [hm], he⟩

/-- every key of the grouped map is the key of some line -/
theorem mem_foldl_addTo_key (key : Bytes → Bytes) (lines : List (Bytes × Bytes)) (m : List (Bytes × List Bytes))
    {kv : Bytes × List Bytes} (h : kv ∈ lines.foldl (fun m l => addTo m (key l.1) l.2) m) :
    (∃ l ∈ lines, key l.1 = kv.1) ∨ ∃ kv' ∈ m, kv'.1 = kv.1 := by
  induction lines generalizing m with
  | nil => right; exact ⟨kv, h, rfl⟩
  | cons l t ih =>
    simp only [List.foldl_cons] at h
    rcases ih _ h with ⟨l', hl, he⟩ | ⟨kv', hm, he⟩
    · left; exact ⟨l', by simp [hl], he⟩
    · rcases mem_addTo_key hm with h1 | ⟨kv'', hm', he'⟩
      · left; exact ⟨l, by simp, by rw [← h1, he]⟩
      · right; exact ⟨kv'', hm', by rw [he', he]⟩

theorem mem_group_key (key : Bytes → Bytes) (lines : List (Bytes × Bytes)) {kv : Bytes × List Bytes}
    (h : kv ∈ group key lines) : ∃ l ∈ lines, key l.1 = kv.1 := by
  rcases mem_foldl_addTo_key key lines [] h with h | ⟨_, hm, _⟩
  · exact h
  · simp at hm

/-- renaming the keys of a map with a function that is injective on them commutes with adding -/
theorem addTo_map (g : Bytes → Bytes) (m : List (Bytes × List Bytes)) (k v : Bytes)
    (h : ∀ kv ∈ m, g kv.1 = g k → kv.1 = k) :
    (addTo m k v).map (fun kv => (g kv.1, kv.2)) = addTo (m.map fun kv => (g kv.1, kv.2)) (g k) v := by
  induction m with
  | nil => rfl
  | cons a t ih =>
    obtain ⟨k0, vs⟩ := a
    have ht : ∀ kv ∈ t, g kv.1 = g k → kv.1 = k := fun kv hk => h kv (by simp [hk])
    by_cases h0 : k0 = k
    · simp [addTo, h0]
    · have hg : g k0 ≠ g k := fun e => h0 (h (k0, vs) (by simp) e)
      simp [addTo, h0, hg, ih ht]

theorem foldl_addTo_map (g key : Bytes → Bytes) (P : Bytes → Prop)
    (hinj : ∀ a b, P a → P b → g a = g b → a = b)
    (lines : List (Bytes × Bytes)) (hP : ∀ l ∈ lines, P (key l.1))
    (m : List (Bytes × List Bytes)) (hm : ∀ kv ∈ m, P kv.1) :
    (lines.foldl (fun m l => addTo m (key l.1) l.2) m).map (fun kv => (g kv.1, kv.2)) =
      lines.foldl (fun m l => addTo m (g (key l.1)) l.2) (m.map fun kv => (g kv.1, kv.2)) := by
  induction lines generalizing m with
  | nil => rfl
  | cons l t ih =>
    simp only [List.foldl_cons]
    have hl : P (key l.1) := hP l (by simp)
    rw [ih (fun l' h' => hP l' (by simp [h'])), addTo_map]
    · intro kv hkv e
      exact hinj _ _ (hm kv hkv) hl e
    · intro kv hkv
      rcases mem_addTo_key hkv with h1 | ⟨kv', hm', he⟩
      · rw [h1]; exact hl
      · rw [← he]; exact hm kv' hm'

theorem group_congr (k1 k2 : Bytes → Bytes) (lines : List (Bytes × Bytes)) (h : ∀ l ∈ lines, k1 l.1 = k2 l.1) :
    group k1 lines = group k2 lines := by
  unfold group
  generalize ([] : List (Bytes × List Bytes)) = m
  induction lines generalizing m with
  | nil => rfl
  | cons l t ih =>
    simp only [List.foldl_cons]
    rw [h l (by simp)]
    exact ih (fun l' h' => h l' (by simp [h'])) _

/-- Envoy's header map (lower-case names, merged values) after `canonicalizeHeaders` is the map `net/http` builds
    from the same field lines -/
theorem group_lower_canon (lines : List (Bytes × Bytes)) (htok : ∀ l ∈ lines, l.1.all isTokenChar = true) :
    (group lower lines).map (fun kv => (canonKey kv.1, kv.2)) = group canonKey lines := by
  unfold group
  rw [foldl_addTo_map canonKey lower (fun k => lower k = k)
    (fun a b ha hb e => canonKey_inj_lower ha hb e) lines (fun l _ => lower_lower _) [] (by simp)]
  simp only [List.map_nil]
  exact group_congr (fun n => canonKey (lower n)) canonKey lines (fun l hl => canonKey_lower_of_token (htok l hl))

/-! ## Request targets and `net/url` -/

theorem cut_not_mem (sep : Char) (a : Bytes) (h : sep ∉ a) : cut sep a = (a, [], false) := by
  induction a with
  | nil => rfl
  | cons c t ih =>
    have hc : c ≠ sep := fun e => h (by simp [e])
    have ht : sep ∉ t := fun e => h (by simp [e])
    simp [cut, hc, ih ht]

theorem cut_append (sep : Char) (a b : Bytes) (h : sep ∉ a) : cut sep (a ++ sep :: b) = (a, b, true) := by
  induction a with
  | nil => simp [cut]
  | cons c t ih =>
    have hc : c ≠ sep := fun e => h (by simp [e])
    have ht : sep ∉ t := fun e => h (by simp [e])
    simp [cut, hc, ih ht]

theorem not_mem_of_contains_false {p : Bytes} (h : p.contains '?' = false) : '?' ∉ p := by
  intro hm
  have : p.contains '?' = true := List.contains_iff_mem.mpr hm
  rw [h] at this
  exact Bool.noConfusion this

/-- the path and the query of the request line are recovered from the request target -/
theorem cut_target (lr : LReq) (hq : '?' ∉ lr.rawPath) :
    (cut '?' lr.target).1 = lr.rawPath ∧ (cut '?' lr.target).2.1 = lr.query := by
  unfold LReq.target
  split
  · rename_i he
    rw [cut_not_mem _ _ hq]
    simp_all
  · rw [cut_append _ _ _ hq]
    simp

theorem pathUnescapeL_slash (t : Bytes) : pathUnescapeL ('/' :: t) = (pathUnescapeL t).map ('/' :: ·) :=
  pathUnescapeL_cons_ne (by decide) t

theorem pathCharOK_hexDigit : ∀ n : Nat, pathCharOK (hexDigit n) = true
  | 0 | 1 | 2 | 3 | 4 | 5 | 6 | 7 | 8 | 9 | 10 | 11 | 12 | 13 | 14 | 15 => by decide
  | n + 16 => by
    have : hexDigit (n + 16) = '0' := by simp [hexDigit, List.getD]
    rw [this]; decide

/-- a path in valid encoding is its own received spelling -/
theorem receivedL_of_valid (p : Bytes) (h : validEncodedPath p = true) : receivedL p = p := by
  induction p with
  | nil => rfl
  | cons c t ih =>
    simp only [validEncodedPath, List.all_cons, Bool.and_eq_true] at h
    have ht : receivedL t = t := ih (by simpa [validEncodedPath] using h.2)
    simp only [receivedL, List.flatMap_cons, h.1, if_true] at ht ⊢
    rw [ht]; rfl

theorem validEncoded_append (a b : Bytes) :
    validEncodedPath (a ++ b) = (validEncodedPath a && validEncodedPath b) := by
  simp [validEncodedPath]

/-- the default encoding Go produces consists of octets that may stand in a path -/
theorem validEncoded_escapePath (s : Bytes) : validEncodedPath (escapePath s) = true := by
  induction s with
  | nil => rfl
  | cons c t ih =>
    simp only [escapePath, List.flatMap_cons] at ih ⊢
    rw [validEncoded_append, ih, Bool.and_true]
    by_cases hc : shouldEscapePath c = true
    · simp [hc, pctEncode, validEncodedPath, pathCharOK_hexDigit]
      decide
    · simp [hc, validEncodedPath, pathCharOK]

/-- **The raw path of the HTTP based services is the received spelling.** Whatever Go's parser makes of the request
    target (`RawPath` kept or dropped as "default encoding"), `escapedPath` of `extract_url.go` yields the path as
    written with exactly the octets encoded that may not stand in a path, and the query as written. -/
theorem http_received_path (lr : LReq) (h : Spec.validPath lr.rawPath = true) :
    ∃ u, goParseTarget lr.target = some u ∧ httpEscapedPath u = receivedL lr.rawPath ∧ u.rawQuery = lr.query := by
  simp only [Spec.validPath, Bool.and_eq_true, Bool.not_eq_true'] at h
  obtain ⟨⟨⟨hs, hq⟩, _⟩, hu⟩ := h
  obtain ⟨hc1, hc2⟩ := cut_target lr (not_mem_of_contains_false hq)
  obtain ⟨path, hp⟩ := Option.isSome_iff_exists.mp hu
  refine ⟨{ path := path, rawPath := if lr.rawPath = escapePath path then [] else lr.rawPath,
             rawQuery := lr.query }, by simp only [goParseTarget, hc1, hc2, hp], ?_, rfl⟩
  -- the path starts with a slash, so it is not the `*` form
  obtain ⟨t, ht⟩ : ∃ t, lr.rawPath = '/' :: t := by
    cases hr : lr.rawPath with
    | nil => simp [hr] at hs
    | cons c t => simp [hr] at hs; exact ⟨t, by rw [hs]⟩
  have hstar : path ≠ ['*'] := by
    rw [ht, pathUnescapeL_slash] at hp
    cases hq : pathUnescapeL t with
    | none => simp [hq] at hp
    | some q => simp [hq] at hp; rw [← hp]; simp
  by_cases he : lr.rawPath = escapePath path
  · have hv : receivedL lr.rawPath = lr.rawPath := by
      rw [he]; exact receivedL_of_valid _ (validEncoded_escapePath path)
    rw [hv]
    simp [httpEscapedPath, GoURL.escapedPath, he, hstar]
  · have hne : lr.rawPath.isEmpty = false := by rw [ht]; rfl
    simp [httpEscapedPath, he, hne]

/-! ## The log level: the `dump` middleware hands on what it was given -/

/-- draining a body into a buffer and restoring it from the buffer loses and adds nothing, for a body of any length -/
theorem drainBody_restores (b : Option Bytes) : (drainBody b).2 = b ∧ (drainBody b).1 = b.getD [] := by
  cases b <;> exact ⟨rfl, rfl⟩

/-- at every log level the `dump` middleware hands the request it was given to the next handler -/
theorem dumpMiddleware_id (level : LogLevel) (r : HttpReq) : dumpMiddleware level r = r := by
  unfold dumpMiddleware
  split
  · rw [(drainBody_restores r.body).1]
  · rfl

/-- the bytes `net/http` hands over as body are the bytes of the message (`http.NoBody` for none or no bytes) -/
theorem httpBody_getD (b : Option Bytes) :
    (match b with | none => (none : Option Bytes) | some b => if b.isEmpty then none else some b).getD [] = b.getD [] := by
  cases b with
  | none => rfl
  | some b =>
    cases b with
    | nil => rfl
    | cons c t => rfl

/-! ## The view functions of both request contexts against the reference semantics -/

theorem plain_token {lr : LReq} (h : Spec.plainHeaders lr = true) : ∀ l ∈ lr.headers, l.1.all isTokenChar = true := by
  intro l hl
  have := (List.all_eq_true.mp h) l hl
  simp only [Bool.and_eq_true] at this
  exact this.1

theorem plain_not_hop {lr : LReq} (h : Spec.plainHeaders lr = true) :
    ∀ l ∈ lr.headers, (hostKey :: untrustedHeaders).contains (canonKey l.1) = false := by
  intro l hl
  have := (List.all_eq_true.mp h) l hl
  simp only [Bool.and_eq_true, Bool.not_eq_true'] at this
  exact this.2

/-- nothing for the `trustedproxy` middleware to remove -/
theorem strip_plain {lr : LReq} (h : Spec.plainHeaders lr = true) :
    stripUntrusted (group canonKey lr.headers) = group canonKey lr.headers := by
  unfold stripUntrusted
  rw [List.filter_eq_self]
  intro kv hkv
  obtain ⟨l, hl, he⟩ := mem_group_key canonKey lr.headers hkv
  have := plain_not_hop h l hl
  rw [he] at this
  simp only [List.contains_cons, Bool.or_eq_false_iff] at this
  have h2 := this.2
  simp only [Bool.not_eq_true', h2]

theorem selected_eq_headerValues (lr : LReq) (name : Bytes) :
    selected canonKey (canonKey name) lr.headers = Spec.headerValues lr name := rfl

theorem join_nil (sep : Bytes) : join sep [] = [] := rfl

/-- looking a header up in the grouped map = joining the values of the lines of that name -/
theorem lookup_joined (lr : LReq) (name : Bytes) :
    join comma ((lookup (canonKey name) (group canonKey lr.headers)).getD []) =
      join comma (Spec.headerValues lr name) := by
  rw [lookup_group, selected_eq_headerValues]
  cases h : Spec.headerValues lr name <;> simp [join_nil]

theorem lookup_joined_map (lr : LReq) (name : Bytes) :
    (lookup (canonKey name) ((group canonKey lr.headers).map fun kv => (kv.1, join comma kv.2))).getD [] =
      join comma (Spec.headerValues lr name) := by
  rw [lookup_map_val, lookup_group, selected_eq_headerValues]
  cases h : Spec.headerValues lr name <;> simp [join_nil]

/-- Envoy's canonicalised header map for the logical request -/
theorem envoyHeaders_toCheck (pack : Bool) (lr : LReq) (h : Spec.plainHeaders lr = true) :
    envoyHeaders (toCheck pack lr) = Spec.headersMap lr := by
  unfold envoyHeaders toCheck Spec.headersMap
  simp only [List.map_map]
  rw [← group_lower_canon lr.headers (plain_token h), List.map_map]
  rfl

theorem lookup_values (lr : LReq) (name : Bytes) :
    (lookup (canonKey name) (group canonKey lr.headers)).getD [] = Spec.headerValues lr name := by
  rw [lookup_group, selected_eq_headerValues]
  cases h : Spec.headerValues lr name <;> simp

theorem cookieKey_canon : canonKey b!"Cookie" = b!"Cookie" := by decide
theorem contentTypeKey_canon : canonKey b!"Content-Type" = b!"Content-Type" := by decide

theorem stdCookie_nil (name : Bytes) : stdCookie [] name = [] := by
  unfold stdCookie
  split <;> rfl

/-- what `toHTTP` yields for a well-formed request -/
theorem toHTTP_some (lr : LReq) (h : Spec.validPath lr.rawPath = true) :
    ∃ r, toHTTP lr = some r ∧ r.method = lr.method ∧ r.host = lr.host ∧ r.tls = lr.tls ∧
      httpEscapedPath r.url = receivedL lr.rawPath ∧ r.url.rawQuery = lr.query ∧ r.header = group canonKey lr.headers ∧
      r.body = (match lr.body with | none => none | some b => if b.isEmpty then none else some b) := by
  obtain ⟨u, hu, he, hq⟩ := http_received_path lr h
  refine ⟨{ method := lr.method, host := lr.host, tls := lr.tls, url := u, header := group canonKey lr.headers,
            body := match lr.body with | none => none | some b => if b.isEmpty then none else some b },
    by simp only [toHTTP, hu] <;> rfl, rfl, rfl, rfl, he, hq, rfl, rfl⟩

theorem httpObj_eq (lr : LReq) (r : HttpReq) (hm : r.method = lr.method) (hh : r.host = lr.host)
    (ht : r.tls = lr.tls) (he : httpEscapedPath r.url = receivedL lr.rawPath) (hq : r.url.rawQuery = lr.query) :
    httpObj r = Spec.obj lr := by
  simp only [httpObj, Spec.obj, Spec.url, LReq.scheme, hm, hh, ht, he, hq]

theorem httpHeader_eq (lr : LReq) (r : HttpReq) (hh : r.host = lr.host) (name : Bytes) :
    httpHeader r (group canonKey lr.headers) name = Spec.header lr name := by
  simp only [httpHeader, Spec.header, hh, lookup_joined]

theorem httpFuncs_eq (D : Decoder) (lr : LReq) (r : HttpReq) (hp : Spec.plainHeaders lr = true)
    (hh : r.host = lr.host) (hhd : r.header = group canonKey lr.headers)
    (hb : r.body = (match lr.body with | none => none | some b => if b.isEmpty then none else some b)) :
    httpFuncs D r = Spec.funcs D lr := by
  unfold httpFuncs Spec.funcs
  simp only [hhd, strip_plain hp]
  congr 1
  · funext name; exact httpHeader_eq lr r hh name
  · funext name
    have := lookup_values lr b!"Cookie"
    rw [cookieKey_canon] at this
    simp only [Spec.cookie, this]
  · rw [hb, httpHeader_eq lr r hh]
    unfold Spec.body
    cases lr.body with
    | none => rfl
    | some b => by_cases hbe : b.isEmpty = true <;> simp [hbe]

theorem envoyObj_eq (I : Impl) (pack : Bool) (lr : LReq) (hI : I.splitsTarget = true)
    (hq : '?' ∉ lr.rawPath) (he : I.encodesPath = true ∨ validEncodedPath lr.rawPath = true) :
    envoyObj I (toCheck pack lr) = Spec.obj lr := by
  obtain ⟨hc1, hc2⟩ := cut_target lr hq
  have hr : (if I.encodesPath = true then receivedL lr.rawPath else lr.rawPath) = receivedL lr.rawPath := by
    rcases he with he | he
    · simp [he]
    · split
      · rfl
      · exact (receivedL_of_valid _ he).symm
  simp [envoyObj, envoyURL, hI, toCheck, Spec.obj, Spec.url, hc1, hc2, hr]

theorem envoyHeader_eq (I : Impl) (pack : Bool) (lr : LReq) (hI : I.canonHeader = true)
    (hp : Spec.plainHeaders lr = true) (name : Bytes) :
    envoyHeader I (toCheck pack lr) name = Spec.header lr name := by
  simp only [envoyHeader, hI, if_true, envoyHeaders_toCheck pack lr hp, Spec.headersMap, Spec.header,
    lookup_joined_map]
  rfl

theorem envoyCookie_eq (I : Impl) (pack : Bool) (lr : LReq) (hI : I.stdCookies = true)
    (hp : Spec.plainHeaders lr = true) (hc : Spec.oneCookieLine lr = true) (name : Bytes) :
    envoyCookie I (toCheck pack lr) name = Spec.cookie lr name := by
  simp only [envoyCookie, hI, if_true, envoyHeaders_toCheck pack lr hp, Spec.headersMap, Spec.cookie]
  have hl := lookup_group canonKey (canonKey b!"Cookie") lr.headers
  rw [selected_eq_headerValues, cookieKey_canon] at hl
  rw [lookup_map_val, hl]
  simp only [Spec.oneCookieLine, decide_eq_true_eq] at hc
  match hv : Spec.headerValues lr b!"Cookie", hc with
  | [], _ => simp [stdCookie_nil]
  | [v], _ => simp [join]
  | _ :: _ :: _, hc => simp at hc

theorem envoyBody_eq (I : Impl) (D : Decoder) (pack : Bool) (lr : LReq) (hI : I.canonHeader = true)
    (hB : I.bodyFallback = true) (hp : Spec.plainHeaders lr = true) :
    envoyBody I D (toCheck pack lr) = Spec.body D lr := by
  have hh := envoyHeader_eq I pack lr hI hp b!"Content-Type"
  unfold envoyBody Spec.body
  rw [hh]
  cases pack <;> cases hb : lr.body with
  | none => simp [hB, toCheck, hb]
  | some b => by_cases hbe : b.isEmpty = true <;> simp [hB, toCheck, hb, hbe]

theorem envoyFuncs_eq (I : Impl) (D : Decoder) (pack : Bool) (lr : LReq) (hH : I.canonHeader = true)
    (hC : I.stdCookies = true) (hB : I.bodyFallback = true) (hp : Spec.plainHeaders lr = true)
    (hc : Spec.oneCookieLine lr = true) :
    envoyFuncs I D (toCheck pack lr) = Spec.funcs D lr := by
  unfold envoyFuncs Spec.funcs
  congr 1
  · funext name; exact envoyHeader_eq I pack lr hH hp name
  · funext name; exact envoyCookie_eq I pack lr hC hp hc name
  · exact envoyBody_eq I D pack lr hH hB hp

/-! ## The run through the `Request()` cell -/

theorem withReq_caching {α : Type} (c : Ctx) (hc : c.caches = true) (f : ReqObj → ReqObj × α) :
    c.withReq f = ({ c with cell := some (f c.current).1 }, (f c.current).2) := by
  simp [Ctx.withReq, Ctx.current, hc]

theorem withReq_not_caching {α : Type} (c : Ctx) (hc : c.caches = false) (f : ReqObj → ReqObj × α) :
    c.withReq f = (c, (f c.fresh).2) := by
  simp [Ctx.withReq, hc]

/-- with a caching context the object is a piece of state: every block works on what the previous one left -/
theorem runBlocks_caching (c : Ctx) (hc : c.caches = true) (fs : List (ReqObj → ReqObj)) :
    (c.runBlocks fs).current = fs.foldl (fun o f => f o) c.current := by
  induction fs generalizing c with
  | nil => rfl
  | cons f t ih =>
    simp only [Ctx.runBlocks, List.foldl_cons, withReq_caching c hc]
    rw [ih { c with cell := some (f c.current) } hc]
    simp [Ctx.current, hc]

/-- without caching every caller sees a freshly made object, whatever was written before -/
theorem runBlocks_not_caching (c : Ctx) (hc : c.caches = false) (fs : List (ReqObj → ReqObj)) :
    (c.runBlocks fs).current = c.fresh := by
  induction fs generalizing c with
  | nil => simp [Ctx.runBlocks, Ctx.current, hc]
  | cons f t ih =>
    simp only [Ctx.runBlocks, withReq_not_caching c hc]
    exact ih c hc

theorem runFins_caching (F : Funcs) (fs : List Fin) (c : Ctx) :
    runFins F fs c = ({ c with ups := (Spec.runFins c.current F fs c.ups).1 }, (Spec.runFins c.current F fs c.ups).2) := by
  induction fs generalizing c with
  | nil => rfl
  | cons f t ih =>
    unfold runFins Spec.runFins
    cases hcond : (f.cond.map fun cd => cd.eval c.current F : Option Tri) with
    | none => simp only [hcond]; rw [ih]; rfl
    | some tri =>
      cases tri <;> simp only [hcond]
      · rw [ih]; rfl
      · rw [ih]

theorem runPipe_caching (R : Respond) (lr : LReq) (F : Funcs) (ep : EP) (pipe : Pipe) (d : Bool) (c : Ctx)
    (hc : c.caches = true) (hu : c.ups = {}) :
    finalize R (Spec.headersMap lr) (Spec.payload lr) ep (runPipe F pipe d c) =
      Spec.delivered R lr ep (Spec.runPipe c.current F pipe d) := by
  cases hn : pipe.authn with
  | false => simp [runPipe, Spec.runPipe, hn, finalize, Spec.delivered, Spec.answerWith]
  | true =>
    cases ha : runAuthz c.current F pipe.authz with
    | some dd =>
      simp only [runPipe, Spec.runPipe, ha, hn]
      cases dd <;> simp [finalize, Spec.delivered, Spec.answerWith, hc, hu]
    | none =>
      cases hm : pipe.comm with
      | true => simp [runPipe, Spec.runPipe, ha, hn, hm, finalize, Spec.delivered, Spec.answerWith, hc]
      | false =>
        simp only [runPipe, Spec.runPipe, ha, hn, hm, runFins_caching, hu]
        cases hrf : Spec.runFins c.current F pipe.fins {} with
        | mk u x =>
          cases x with
          | some dd => cases dd <;> simp [finalize, Spec.delivered, Spec.answerWith, hc, Spec.handOver]
          | none => simp [finalize, Spec.delivered, Spec.answerWith, hc, Spec.handOver]

theorem execute_caching (cfg : Cfg) (lr : LReq) (F : Funcs) (ep : EP) (o0 : ReqObj) :
    finalize cfg.respond (Spec.headersMap lr) (Spec.payload lr) ep (execute cfg F { caches := true, fresh := o0 }) =
      Spec.delivered cfg.respond lr ep (Spec.serveOn cfg F o0) := by
  unfold execute Spec.serveOn
  simp only [withReq_caching, Ctx.current, Option.getD_none, Option.getD_some, if_true]
  cases hf : cfg.repo.findRule cfg.hasDefault o0.toReqView with
  | none => simp [finalize, Spec.delivered, Spec.answerWith]
  | default =>
    simp only []
    split
    · simp [finalize, Spec.delivered, Spec.answerWith]
    · exact runPipe_caching cfg.respond lr F ep _ _ _ rfl rfl
  | rule v ps =>
    simp only []
    split
    · simp [finalize, Spec.delivered, Spec.answerWith]
    · exact runPipe_caching cfg.respond lr F ep _ _ _ rfl rfl

theorem toUpperA_toUpperA (c : Char) : toUpperA (toUpperA c) = toUpperA c := by
  generalize h : toUpperA c = d
  unfold toUpperA at h
  split at h <;> subst h <;> first | rfl | skip
  unfold toUpperA
  split <;> first | rfl | contradiction

theorem isTokenChar_toUpperA (c : Char) : isTokenChar (toUpperA c) = isTokenChar c := by
  generalize h : toUpperA c = d
  unfold toUpperA at h
  split at h <;> subst h <;> rfl

theorem canonGo_idem (up : Bool) (s : Bytes) : canonGo up (canonGo up s) = canonGo up s := by
  induction s generalizing up with
  | nil => rfl
  | cons c t ih =>
    simp only [canonGo]
    cases up <;> simp only [toUpperA_toUpperA, toLowerA_toLowerA, Bool.false_eq_true, if_false, if_true] <;>
      exact congrArg _ (ih _)

theorem all_token_canonGo (up : Bool) (s : Bytes) : (canonGo up s).all isTokenChar = s.all isTokenChar := by
  induction s generalizing up with
  | nil => rfl
  | cons c t ih =>
    simp only [canonGo, List.all_cons]
    cases up <;> simp [isTokenChar_toUpperA, isTokenChar_toLowerA, ih]

/-- canonicalising a canonical name changes nothing -/
theorem canonKey_idem (s : Bytes) : canonKey (canonKey s) = canonKey s := by
  unfold canonKey
  by_cases h : s.all isTokenChar = true
  · simp [h, all_token_canonGo, canonGo_idem]
  · simp [h]

theorem map_canon_group (lines : List (Bytes × Bytes)) (f : List Bytes → Bytes) :
    (group canonKey lines).map (fun kv => (canonKey kv.1, f kv.2)) =
      (group canonKey lines).map fun kv => (kv.1, f kv.2) := by
  refine List.map_congr_left fun kv hkv => ?_
  obtain ⟨l, _, he⟩ := mem_group_key canonKey lines hkv
  rw [← he, canonKey_idem]

/-- what the slash handling of a rule does to the captured values -/
theorem prelude_captures (esh : SlashHandling) (o : ReqObj) (h : (prelude esh o).2 = true) :
    (prelude esh o).1.captures =
      o.captures.map fun caps => caps.map fun kv => (kv.1, (unescapeCapture esh (str kv.2)).toList) := by
  revert h
  cases esh <;> simp only [prelude] <;> simp <;> split <;> simp

/-- the view a pipeline reports is the view it was run on -/
theorem runPipe_view (o o' : ReqObj) (F : Funcs) (pipe : Pipe) (d : Bool)
    (h : (Spec.runPipe o F pipe d).view = some o') : o = o' := by
  revert h
  unfold Spec.runPipe
  cases pipe.authn <;> simp
  cases runAuthz o F pipe.authz <;> simp
  cases pipe.comm <;> simp
  cases hrf : Spec.runFins o F pipe.fins {} with
  | mk u x => cases x <;> simp

/-! ## Projections of the reference answer -/

theorem answerWith_dec (hand : List Bytes → Bytes) (R : Respond) (lr : LReq) (ep : EP) (r : Spec.Run) :
    (Spec.answerWith hand R lr ep r).dec = Spec.decAt ep r := by
  unfold Spec.answerWith Spec.decAt
  cases hd : r.dec <;> cases ep <;> cases hi : r.isDefault <;> simp

theorem answerWith_seen (hand : List Bytes → Bytes) (R : Respond) (lr : LReq) (ep : EP) (r : Spec.Run) :
    (Spec.answerWith hand R lr ep r).seen = r.view.map fun o => ({ obj := o, stable := true } : Seen) := by
  unfold Spec.answerWith
  cases hd : r.dec <;> cases ep <;> cases hi : r.isDefault <;> simp

theorem answerWith_status (hand : List Bytes → Bytes) (R : Respond) (lr : LReq) (ep : EP) (r : Spec.Run) :
    (Spec.answerWith hand R lr ep r).status =
      if Spec.decAt ep r = .ok then okStatus R ep else R.code (Spec.decAt ep r) := by
  unfold Spec.answerWith Spec.decAt
  cases hd : r.dec <;> cases ep <;> cases hi : r.isDefault <;> simp

theorem answerWith_ok (hand : List Bytes → Bytes) (R : Respond) (lr : LReq) (ep : EP) (r : Spec.Run)
    (h : (Spec.answerWith hand R lr ep r).dec = .ok) :
    (Spec.answerWith hand R lr ep r).upCookies = r.ups.cookies ∧
    (Spec.answerWith hand R lr ep r).upHeaders = r.ups.headers.map (fun kv => (kv.1, hand kv.2)) ∧
    (Spec.answerWith hand R lr ep r).upSees =
      overrideHeaders (Spec.headersMap lr) (r.ups.headers.map fun kv => (kv.1, hand kv.2)) := by
  revert h
  unfold Spec.answerWith
  cases hd : r.dec <;> cases ep <;> cases hi : r.isDefault <;> simp

/-- a refusal carries nothing but the decision, its status and the view that was shown -/
theorem answerWith_refused (hand : List Bytes → Bytes) (R : Respond) (lr : LReq) (ep : EP) (r : Spec.Run)
    (h : Spec.decAt ep r ≠ .ok) :
    Spec.answerWith hand R lr ep r =
      { dec := Spec.decAt ep r, status := R.code (Spec.decAt ep r),
        seen := r.view.map fun o => ({ obj := o, stable := true } : Seen),
        upHeaders := [], upCookies := [], upSees := [], upBody := [] } := by
  revert h
  unfold Spec.answerWith Spec.decAt
  cases hd : r.dec <;> cases ep <;> cases hi : r.isDefault <;> simp

/-- an allowed request reaches the upstream application with the payload the client sent -/
theorem answerWith_upBody (hand : List Bytes → Bytes) (R : Respond) (lr : LReq) (ep : EP) (r : Spec.Run)
    (h : (Spec.answerWith hand R lr ep r).dec = .ok) :
    (Spec.answerWith hand R lr ep r).upBody = Spec.payload lr := by
  revert h
  unfold Spec.answerWith
  cases hd : r.dec <;> cases ep <;> cases hi : r.isDefault <;> simp

theorem lookup_append {α : Type} (k : Bytes) (a b : List (Bytes × α)) :
    lookup k (a ++ b) = (lookup k a).orElse fun _ => lookup k b := by
  induction a with
  | nil => simp [lookup]
  | cons kv t ih => by_cases h : kv.1 = k <;> simp [lookup, h, ih]

theorem lookup_filter_ne {α : Type} (k : Bytes) (p : Bytes → Bool) (m : List (Bytes × α)) (hp : p k = true) :
    lookup k (m.filter fun kv => p kv.1) = lookup k m := by
  induction m with
  | nil => rfl
  | cons kv t ih =>
    by_cases h : kv.1 = k
    · simp [List.filter, lookup, h, hp]
    · by_cases hq : p kv.1 = true <;> simp [List.filter, lookup, h, hq, ih]

/-- a header the pipeline hands over replaces what the client sent under that name; all other client headers pass -/
theorem lookup_overrideHeaders (client handed : List (Bytes × Bytes)) (k : Bytes) :
    lookup k (overrideHeaders client handed) = (lookup k handed).orElse fun _ => lookup k client := by
  unfold overrideHeaders
  rw [lookup_append]
  cases hh : lookup k handed with
  | some v => rfl
  | none =>
    simp only [Option.orElse_none]
    have hany : (handed.any fun e => e.1 = k) = false := by
      cases ha : (handed.any fun e => e.1 = k) with
      | false => rfl
      | true =>
        exfalso
        induction handed with
        | nil => simp at ha
        | cons kv t ih =>
          by_cases h : kv.1 = k
          · simp [lookup, h] at hh
          · simp [lookup, h] at hh
            simp only [List.any_cons, h, decide_false, Bool.false_or] at ha
            exact ih hh ha
    exact lookup_filter_ne k (fun n => !handed.any fun e => e.1 = n) client (by simp [hany])

/-! ## Host, hostname and port of the view -/

theorem cutLast_append (sep : Char) (a b : Bytes) (h : sep ∉ b) : cutLast sep (a ++ sep :: b) = some (a, b) := by
  unfold cutLast
  have hr : (a ++ sep :: b).reverse = b.reverse ++ sep :: a.reverse := by simp
  have hb : sep ∉ b.reverse := by simpa using h
  rw [hr, cut_append sep b.reverse a.reverse hb]
  simp

theorem cutLast_not_mem (sep : Char) (a : Bytes) (h : sep ∉ a) : cutLast sep a = none := by
  unfold cutLast
  have hb : sep ∉ a.reverse := by simpa using h
  rw [cut_not_mem sep a.reverse hb]
  simp

theorem not_colon_of_digits {p : Bytes} (h : p.all isDigitA = true) : ':' ∉ p := by
  intro hm
  have hd := List.all_eq_true.mp h _ hm
  exact absurd hd (by decide)

/-- `name:port` with a port of digits only — any digits, any number of them, none at all — is split at that colon,
    whatever `name` is (it may contain colons itself: an IPv6 literal) -/
theorem splitHostPort_port (name port : Bytes) (hd : port.all isDigitA = true) :
    splitHostPort (name ++ ':' :: port) = (stripBrackets name, port) := by
  unfold splitHostPort
  rw [cutLast_append ':' name port (not_colon_of_digits hd)]
  simp [hd]

/-- a host without a colon has no port -/
theorem splitHostPort_no_colon (h : Bytes) (hc : ':' ∉ h) : splitHostPort h = (stripBrackets h, []) := by
  unfold splitHostPort
  rw [cutLast_not_mem ':' h hc]

/-- the slash handling of a rule leaves method, scheme, host and query of the view alone -/
theorem prelude_host (esh : SlashHandling) (o : ReqObj) :
    (prelude esh o).1.url.host = o.url.host ∧ (prelude esh o).1.url.scheme = o.url.scheme ∧
    (prelude esh o).1.method = o.method := by
  cases esh <;> simp only [prelude] <;> simp <;> split <;> simp

/-- the view the mechanisms of the reference run are shown carries the host and the scheme of the logical request -/
theorem serve_view_host (cfg : Cfg) (lr : LReq) (o : ReqObj) (h : (Spec.serve cfg lr).view = some o) :
    o.url.host = lr.host ∧ o.url.scheme = lr.scheme := by
  unfold Spec.serve Spec.serveOn at h
  split at h
  · simp at h
  · dsimp only at h
    split at h
    · simp at h
    · have ho := runPipe_view _ _ _ _ _ h
      rw [← ho]
      exact ⟨(prelude_host _ _).1, (prelude_host _ _).2.1⟩
  · dsimp only at h
    split at h
    · simp at h
    · have ho := runPipe_view _ _ _ _ _ h
      rw [← ho]
      exact ⟨(prelude_host _ _).1, (prelude_host _ _).2.1⟩

/-! ## A trusted gateway in front of the decision service (`forwardAuth`, `httpObjFwd`) -/

theorem fwdMethod_canon : canonKey fwdMethod = fwdMethod := by decide
theorem fwdProto_canon : canonKey fwdProto = fwdProto := by decide
theorem fwdHost_canon : canonKey fwdHost = fwdHost := by decide
theorem fwdUri_canon : canonKey fwdUri = fwdUri := by decide

/-- `Header.Get` of the four `X-Forwarded-*` headers on the message of the gateway: what the gateway wrote — the first
    line of each name —, whatever lines of these names the client sent -/
theorem headerGet_forwardAuth (g : Gateway) (lr : LReq) :
    headerGet (group canonKey (forwardAuth g lr).headers) fwdMethod = lr.method ∧
    headerGet (group canonKey (forwardAuth g lr).headers) fwdProto = lr.scheme ∧
    headerGet (group canonKey (forwardAuth g lr).headers) fwdHost = lr.host ∧
    headerGet (group canonKey (forwardAuth g lr).headers) fwdUri = lr.target := by
  have n1 : ¬ fwdProto = fwdMethod := by decide
  have n2 : ¬ fwdHost = fwdMethod := by decide
  have n3 : ¬ fwdUri = fwdMethod := by decide
  have n4 : ¬ fwdMethod = fwdProto := by decide
  have n5 : ¬ fwdHost = fwdProto := by decide
  have n6 : ¬ fwdUri = fwdProto := by decide
  have n7 : ¬ fwdMethod = fwdHost := by decide
  have n8 : ¬ fwdProto = fwdHost := by decide
  have n9 : ¬ fwdUri = fwdHost := by decide
  have n10 : ¬ fwdMethod = fwdUri := by decide
  have n11 : ¬ fwdProto = fwdUri := by decide
  have n12 : ¬ fwdHost = fwdUri := by decide
  refine ⟨?_, ?_, ?_, ?_⟩ <;>
    simp [headerGet, lookup_group, forwardAuth, selected_cons, fwdMethod_canon, fwdProto_canon, fwdHost_canon,
      fwdUri_canon, n1, n2, n3, n4, n5, n6, n7, n8, n9, n10, n11, n12]

/-- a header that is none of the hop headers is looked up among the client's lines only -/
theorem lookup_group_forwardAuth (g : Gateway) (lr : LReq) (key : Bytes) (hk : untrustedHeaders.contains key = false) :
    lookup key (group canonKey (forwardAuth g lr).headers) = lookup key (group canonKey lr.headers) := by
  have h : key ≠ fwdMethod ∧ key ≠ fwdProto ∧ key ≠ fwdHost ∧ key ≠ fwdUri := by
    refine ⟨?_, ?_, ?_, ?_⟩ <;> (intro he; rw [he] at hk; revert hk; decide)
  obtain ⟨h1, h2, h3, h4⟩ := h
  rw [lookup_group, lookup_group]
  simp [forwardAuth, selected_cons, fwdMethod_canon, fwdProto_canon, fwdHost_canon, fwdUri_canon,
    Ne.symm h1, Ne.symm h2, Ne.symm h3, Ne.symm h4]

theorem receivedL_slash (t : Bytes) : receivedL ('/' :: t) = '/' :: receivedL t := by
  simp [receivedL, show pathCharOK '/' = true from by decide]

/-- **The view of a delegated request.** The request context the decision service builds for the message of a
    trusted gateway holds the view of the logical request the gateway describes. -/
theorem httpObjFwd_forwardAuth (g : Gateway) (lr : LReq) (hp : Spec.validPath lr.rawPath = true)
    (hf : Spec.forwardable lr = true) (hg : Spec.validPath g.path = true) :
    ∃ r, toHTTP (forwardAuth g lr) = some r ∧ r.host = lr.host ∧
      r.header = group canonKey (forwardAuth g lr).headers ∧
      r.body = (match lr.body with | none => none | some b => if b.isEmpty then none else some b) ∧
      httpObjFwd r = Spec.obj lr := by
  obtain ⟨r, hr, -, hrh, -, -, hq, hh, hb⟩ := toHTTP_some (forwardAuth g lr) hg
  refine ⟨r, hr, hrh, hh, hb, ?_⟩
  obtain ⟨hm, hpr, hho, hu⟩ := headerGet_forwardAuth g lr
  obtain ⟨u, hu1, hu2, hu3⟩ := http_received_path lr hp
  simp only [Spec.forwardable, Bool.and_eq_true, Bool.not_eq_true'] at hf
  obtain ⟨⟨⟨hme, hhe⟩, _⟩, hfrag⟩ := hf
  have hcut : (cut '#' lr.target).1 = lr.target := by
    rw [cut_not_mem]
    intro hmem
    have : lr.target.contains '#' = true := by simpa using hmem
    rw [this] at hfrag
    exact Bool.noConfusion hfrag
  obtain ⟨t, ht⟩ : ∃ t, lr.rawPath = '/' :: t := by
    simp only [Spec.validPath, Bool.and_eq_true] at hp
    obtain ⟨⟨⟨hs, _⟩, _⟩, _⟩ := hp
    cases hr : lr.rawPath with
    | nil => simp [hr] at hs
    | cons c t => simp [hr] at hs; exact ⟨t, by rw [hs]⟩
  have hne : (receivedL lr.rawPath).isEmpty = false := by rw [ht, receivedL_slash]; rfl
  have htne : lr.target.isEmpty = false := by
    unfold LReq.target; rw [ht]; split <;> rfl
  have hsne : lr.scheme.isEmpty = false := by unfold LReq.scheme; split <;> rfl
  have hq' : r.url.rawQuery = [] := hq
  have hquery : (if lr.query.isEmpty = true then ([] : Bytes) else lr.query) = lr.query := by
    cases hql : lr.query <;> simp
  simp only [fwdMethod, fwdProto, fwdHost, fwdUri] at hm hpr hho hu
  simp only [httpObjFwd, hh, hm, hpr, hho, hu, goParseRef, hcut, hu1, hu2, hu3, hne, htne, hsne, hme, hhe, hq',
    hquery, Spec.obj, Spec.url, Bool.false_eq_true, if_false]

/-- … and the view functions: every header other than the hop headers (in every spelling; `Host` is the host of the
    logical request, which the gateway passes on), every cookie, the decoded body. -/
theorem httpFuncsOn_forwardAuth (D : Decoder) (g : Gateway) (lr : LReq) (r : HttpReq) (hh : r.host = lr.host)
    (hhd : r.header = group canonKey (forwardAuth g lr).headers)
    (hb : r.body = (match lr.body with | none => none | some b => if b.isEmpty then none else some b)) :
    (∀ name, untrustedHeaders.contains (canonKey name) = false →
      (httpFuncsOn D r r.header).header name = Spec.header lr name) ∧
    (httpFuncsOn D r r.header).cookie = Spec.cookie lr ∧
    (httpFuncsOn D r r.header).body = Spec.body D lr := by
  have hdr : ∀ name, untrustedHeaders.contains (canonKey name) = false →
      httpHeader r r.header name = Spec.header lr name := by
    intro name hn
    rw [← httpHeader_eq lr r hh name]
    simp only [httpHeader, hhd, lookup_group_forwardAuth g lr (canonKey name) hn]
  refine ⟨hdr, ?_, ?_⟩
  · funext name
    have hc : untrustedHeaders.contains b!"Cookie" = false := by decide
    have := lookup_values lr b!"Cookie"
    rw [cookieKey_canon] at this
    simp only [httpFuncsOn, hhd, lookup_group_forwardAuth g lr b!"Cookie" hc, Spec.cookie, this]
  · have hct : untrustedHeaders.contains (canonKey b!"Content-Type") = false := by decide
    simp only [httpFuncsOn, hb, hdr b!"Content-Type" hct]
    unfold Spec.body
    cases lr.body with
    | none => rfl
    | some b => by_cases hbe : b.isEmpty = true <;> simp [hbe]

end Heimdall.EntryView
