import HeimdallModel.Base.UrlEscape
/-!
Raw paths as sequences of *units* (a literal octet or a percent-escape) and the closed forms of the decoding
functions on them.
-/
namespace Heimdall

inductive PU where
  | lit (c : Char)
  | esc (a b : Char)
deriving Repr, DecidableEq

def PU.wf : PU → Prop
  | .lit c => c ≠ '%'
  | .esc a b => isHex a = true ∧ isHex b = true

def PU.render : PU → List Char
  | .lit c => [c]
  | .esc a b => ['%', a, b]

def renderU (us : List PU) : List Char := us.flatMap PU.render

theorem isHex_ne_percent {a : Char} (h : isHex a = true) : a ≠ '%' := by
  intro e; subst e; revert h; decide

theorem normalizeL_cons_ne {c : Char} (hc : c ≠ '%') (t : List Char) : normalizeL (c :: t) = c :: normalizeL t := by
  match t with
  | [] => simp [normalizeL]
  | [a] => simp [normalizeL]
  | a :: b :: rest => simp [normalizeL, hc]

theorem normalizeL_esc (a b : Char) (ha : isHex a = true) (hb : isHex b = true) (rest : List Char) :
    normalizeL ('%' :: a :: b :: rest) =
      if isUnreserved (octet a b) then octet a b :: normalizeL rest else '%' :: a :: b :: normalizeL rest := by
  rw [normalizeL]
  by_cases hu : isUnreserved (octet a b)
  · simp [ha, hb, hu]
  · simp only [ha, hb, hu, Bool.and_false, Bool.false_eq_true, if_false]
    rw [normalizeL_cons_ne (isHex_ne_percent ha), normalizeL_cons_ne (isHex_ne_percent hb)]

/-- what `normalizeUnreserved` makes of one unit -/
def PU.norm : PU → List Char
  | .lit c => [c]
  | .esc a b => if isUnreserved (octet a b) then [octet a b] else ['%', a, b]

theorem normalizeL_render (us : List PU) (hwf : ∀ u ∈ us, u.wf) :
    normalizeL (renderU us) = us.flatMap PU.norm := by
  induction us with
  | nil => simp [renderU, normalizeL]
  | cons u rest ih =>
    have ih' := ih (fun x hx => hwf x (by simp [hx]))
    have hu := hwf u (by simp)
    cases u with
    | lit c =>
      simp only [renderU, List.flatMap_cons, PU.render, PU.norm, List.singleton_append]
      rw [normalizeL_cons_ne hu]
      exact congrArg _ ih'
    | esc a b =>
      simp only [renderU, List.flatMap_cons, PU.render, PU.norm, List.cons_append, List.nil_append]
      rw [normalizeL_esc a b hu.1 hu.2]
      by_cases h : isUnreserved (octet a b)
      · simp only [h, if_true, List.cons_append, List.nil_append]; exact congrArg _ ih'
      · simp only [h, Bool.false_eq_true, if_false, List.cons_append, List.nil_append]
        have := ih'
        unfold renderU at this
        rw [this]

def PU.isSlash : PU → Bool
  | .esc a b => a = '2' && (b = 'F' || b = 'f')
  | .lit _ => false

theorem containsEncodedSlashL_cons_ne {c : Char} (hc : c ≠ '%') (t : List Char) :
    containsEncodedSlashL (c :: t) = containsEncodedSlashL t := by
  simp [containsEncodedSlashL, hc]

theorem containsEncodedSlashL_render (us : List PU) (hwf : ∀ u ∈ us, u.wf) :
    containsEncodedSlashL (renderU us) = us.any PU.isSlash := by
  induction us with
  | nil => rfl
  | cons u rest ih =>
    have ih' := ih (fun x hx => hwf x (by simp [hx]))
    have hu := hwf u (by simp)
    cases u with
    | lit c =>
      simp only [renderU, List.flatMap_cons, PU.render, List.singleton_append, List.any_cons, PU.isSlash,
        Bool.false_or]
      rw [containsEncodedSlashL_cons_ne hu]; exact ih'
    | esc a b =>
      simp only [renderU, List.flatMap_cons, PU.render, List.cons_append, List.nil_append, List.any_cons,
        PU.isSlash]
      rw [containsEncodedSlashL]
      rw [containsEncodedSlashL_cons_ne (isHex_ne_percent hu.1), containsEncodedSlashL_cons_ne (isHex_ne_percent hu.2)]
      simp only [decide_true, Bool.true_and]
      exact congrArg _ ih'

/-- decoding of one unit by `url.PathUnescape` -/
def PU.dec : PU → Char
  | .lit c => c
  | .esc a b => octet a b

theorem pathUnescapeL_cons_ne {c : Char} (hc : c ≠ '%') (t : List Char) :
    pathUnescapeL (c :: t) = (pathUnescapeL t).map (c :: ·) := by
  match t with
  | [] => simp [pathUnescapeL, hc]
  | [a] => simp [pathUnescapeL, hc]
  | a :: b :: rest => simp [pathUnescapeL, hc]

theorem pathUnescapeL_esc (a b : Char) (ha : isHex a = true) (hb : isHex b = true) (rest : List Char) :
    pathUnescapeL ('%' :: a :: b :: rest) = (pathUnescapeL rest).map (octet a b :: ·) := by
  simp [pathUnescapeL, ha, hb]

theorem pathUnescapeL_render (us : List PU) (hwf : ∀ u ∈ us, u.wf) :
    pathUnescapeL (renderU us) = some (us.map PU.dec) := by
  induction us with
  | nil => rfl
  | cons u rest ih =>
    have ih' := ih (fun x hx => hwf x (by simp [hx]))
    have hu := hwf u (by simp)
    cases u with
    | lit c =>
      simp only [renderU, List.flatMap_cons, PU.render, List.singleton_append, List.map_cons, PU.dec]
      rw [pathUnescapeL_cons_ne hu]
      change (pathUnescapeL (renderU rest)).map _ = _
      rw [ih']; rfl
    | esc a b =>
      simp only [renderU, List.flatMap_cons, PU.render, List.cons_append, List.nil_append, List.map_cons, PU.dec]
      rw [pathUnescapeL_esc a b hu.1 hu.2]
      change (pathUnescapeL (renderU rest)).map _ = _
      rw [ih']; rfl

/-- decoding of one unit when encoded slashes are kept -/
def PU.decKeep : PU → List Char
  | .lit c => [c]
  | .esc a b => if a = '2' && (b = 'F' || b = 'f') then ['%', a, b] else [octet a b]

theorem unescapeKeepSlashL_cons_ne {c : Char} (hc : c ≠ '%') (t : List Char) :
    unescapeKeepSlashL (c :: t) = (unescapeKeepSlashL t).map (c :: ·) := by
  match t with
  | [] => simp [unescapeKeepSlashL, hc]
  | [a] => simp [unescapeKeepSlashL, hc]
  | a :: b :: rest => simp [unescapeKeepSlashL, hc]

theorem unescapeKeepSlashL_esc (a b : Char) (ha : isHex a = true) (hb : isHex b = true) (rest : List Char) :
    unescapeKeepSlashL ('%' :: a :: b :: rest) =
      if a = '2' && (b = 'F' || b = 'f') then (unescapeKeepSlashL rest).map ('%' :: a :: b :: ·)
      else (unescapeKeepSlashL rest).map (octet a b :: ·) := by
  simp [unescapeKeepSlashL, ha, hb]

theorem unescapeKeepSlashL_render (us : List PU) (hwf : ∀ u ∈ us, u.wf) :
    unescapeKeepSlashL (renderU us) = some (us.flatMap PU.decKeep) := by
  induction us with
  | nil => rfl
  | cons u rest ih =>
    have ih' := ih (fun x hx => hwf x (by simp [hx]))
    have hu := hwf u (by simp)
    cases u with
    | lit c =>
      simp only [renderU, List.flatMap_cons, PU.render, List.singleton_append, PU.decKeep]
      rw [unescapeKeepSlashL_cons_ne hu]
      change (unescapeKeepSlashL (renderU rest)).map _ = _
      rw [ih']; rfl
    | esc a b =>
      simp only [renderU, List.flatMap_cons, PU.render, List.cons_append, List.nil_append, PU.decKeep]
      rw [unescapeKeepSlashL_esc a b hu.1 hu.2]
      by_cases hs : (decide (a = '2') && (decide (b = 'F') || decide (b = 'f'))) = true
      · simp only [hs, if_true]
        change (unescapeKeepSlashL (renderU rest)).map _ = _
        rw [ih']; rfl
      · simp only [hs, Bool.false_eq_true, if_false]
        change (unescapeKeepSlashL (renderU rest)).map _ = _
        rw [ih']; rfl

/-- `us'` spells the same path as `us`, with some unreserved octets percent-encoded (either hex case) -/
inductive Reenc : List PU → List PU → Prop
  | nil : Reenc [] []
  | keep (u : PU) {us us' : List PU} : Reenc us us' → Reenc (u :: us) (u :: us')
  | enc (c a b : Char) {us us' : List PU} : isUnreserved c = true → isHex a = true → isHex b = true →
      octet a b = c → Reenc us us' → Reenc (.lit c :: us) (.esc a b :: us')

theorem Reenc.wf {us us' : List PU} (h : Reenc us us') (hwf : ∀ u ∈ us, u.wf) : ∀ u ∈ us', u.wf := by
  induction h with
  | nil => intro u hu; cases hu
  | keep u _ ih =>
    intro x hx
    rcases List.mem_cons.mp hx with rfl | hx
    · exact hwf _ (by simp)
    · exact ih (fun y hy => hwf y (by simp [hy])) x hx
  | enc c a b _ ha hb _ _ ih =>
    intro x hx
    rcases List.mem_cons.mp hx with rfl | hx
    · exact ⟨ha, hb⟩
    · exact ih (fun y hy => hwf y (by simp [hy])) x hx

theorem Reenc.norm_eq {us us' : List PU} (h : Reenc us us') : us'.flatMap PU.norm = us.flatMap PU.norm := by
  induction h with
  | nil => rfl
  | keep u _ ih => simp [ih]
  | enc c a b hc _ _ ho _ ih => simp [PU.norm, ho, hc, ih]

theorem not_unreserved_slash : isUnreserved '/' = false := by decide
theorem octet_2F : octet '2' 'F' = '/' := by decide
theorem octet_2f : octet '2' 'f' = '/' := by decide

theorem Reenc.slash_eq {us us' : List PU} (h : Reenc us us') : us'.any PU.isSlash = us.any PU.isSlash := by
  induction h with
  | nil => rfl
  | keep u _ ih => simp [ih]
  | enc c a b hc _ _ ho _ ih =>
    have : PU.isSlash (.esc a b) = false := by
      cases hs : PU.isSlash (.esc a b) with
      | false => rfl
      | true =>
        exfalso
        simp only [PU.isSlash, Bool.and_eq_true, decide_eq_true_eq, Bool.or_eq_true] at hs
        obtain ⟨rfl, hb⟩ := hs
        rcases hb with rfl | rfl
        · rw [octet_2F] at ho; rw [← ho, not_unreserved_slash] at hc; cases hc
        · rw [octet_2f] at ho; rw [← ho, not_unreserved_slash] at hc; cases hc
    rw [List.any_cons, List.any_cons, this, ih]
    rfl

theorem Reenc.dec_eq {us us' : List PU} (h : Reenc us us') : us'.map PU.dec = us.map PU.dec := by
  induction h with
  | nil => rfl
  | keep u _ ih => simp [ih]
  | enc c a b _ _ _ ho _ ih => simp [PU.dec, ho, ih]

end Heimdall
