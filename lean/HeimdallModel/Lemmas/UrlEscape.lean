import HeimdallModel.Base.UrlEscape
/-!
Raw paths as sequences of *units* (a literal octet or a percent-escape) and the closed forms of the decoding
functions on them.
-/
namespace Heimdall

inductive PU where
  | lit (c : Char)
  | esc (a b : Char)
deriving Repr, DecidableEq

def PU.wf : PU → Prop
  | .lit c => c ≠ '%'
  | .esc a b => isHex a = true ∧ isHex b = true

def PU.render : PU → List Char
  | .lit c => [c]
  | .esc a b => ['%', a, b]

def renderU (us : List PU) : List Char := us.flatMap PU.render

theorem isHex_ne_percent {a : Char} (h : isHex a = true) : a ≠ '%' := by
  intro e; subst e; revert h; decide

theorem normalizeL_cons_ne {c : Char} (hc : c ≠ '%') (t : List Char) : normalizeL (c :: t) = c :: normalizeL t := by
  match t with
  | [] => simp [normalizeL]
  | [a] => simp [normalizeL]
  | a :: b :: rest => simp [normalizeL, hc]

theorem normalizeL_esc (a b : Char) (ha : isHex a = true) (hb : isHex b = true) (rest : List Char) :
    normalizeL ('%' :: a :: b :: rest) =
      if isUnreserved (octet a b) then octet a b :: normalizeL rest else '%' :: a :: b :: normalizeL rest := by
  rw [normalizeL]
  by_cases hu : isUnreserved (octet a b)
  · simp [ha, hb, hu]
  · simp only [ha, hb, hu, Bool.and_false, Bool.false_eq_true, if_false]
    rw [normalizeL_cons_ne (isHex_ne_percent ha), normalizeL_cons_ne (isHex_ne_percent hb)]

/-- what `normalizeUnreserved` makes of one unit -/
def PU.norm : PU → List Char
  | .lit c => [c]
  | .esc a b => if isUnreserved (octet a b) then [octet a b] else ['%', a, b]

theorem normalizeL_render (us : List PU) (hwf : ∀ u ∈ us, u.wf) :
    normalizeL (renderU us) = us.flatMap PU.norm := by
  induction us with
  | nil => simp [renderU, normalizeL]
  | cons u rest ih =>
    have ih' := ih (fun x hx => hwf x (by simp [hx]))
    have hu := hwf u (by simp)
    cases u with
    | lit c =>
      simp only [renderU, List.flatMap_cons, PU.render, PU.norm, List.singleton_append]
      rw [normalizeL_cons_ne hu]
      exact congrArg _ ih'
    | esc a b =>
      simp only [renderU, List.flatMap_cons, PU.render, PU.norm, List.cons_append, List.nil_append]
      rw [normalizeL_esc a b hu.1 hu.2]
      by_cases h : isUnreserved (octet a b)
      · simp only [h, if_true, List.cons_append, List.nil_append]; exact congrArg _ ih'
      · simp only [h, Bool.false_eq_true, if_false, List.cons_append, List.nil_append]
        have := ih'
        unfold renderU at this
        rw [this]

def PU.isSlash : PU → Bool
  | .esc a b => a = '2' && (b = 'F' || b = 'f')
  | .lit _ => false

theorem containsEncodedSlashL_cons_ne {c : Char} (hc : c ≠ '%') (t : List Char) :
    containsEncodedSlashL (c :: t) = containsEncodedSlashL t := by
  simp [containsEncodedSlashL, hc]

theorem containsEncodedSlashL_render (us : List PU) (hwf : ∀ u ∈ us, u.wf) :
    containsEncodedSlashL (renderU us) = us.any PU.isSlash := by
  induction us with
  | nil => rfl
  | cons u rest ih =>
    have ih' := ih (fun x hx => hwf x (by simp [hx]))
    have hu := hwf u (by simp)
    cases u with
    | lit c =>
      simp only [renderU, List.flatMap_cons, PU.render, List.singleton_append, List.any_cons, PU.isSlash,
        Bool.false_or]
      rw [containsEncodedSlashL_cons_ne hu]; exact ih'
    | esc a b =>
      simp only [renderU, List.flatMap_cons, PU.render, List.cons_append, List.nil_append, List.any_cons,
        PU.isSlash]
      rw [containsEncodedSlashL]
      rw [containsEncodedSlashL_cons_ne (isHex_ne_percent hu.1), containsEncodedSlashL_cons_ne (isHex_ne_percent hu.2)]
      simp only [decide_true, Bool.true_and]
      exact congrArg _ ih'

/-- decoding of one unit by `url.PathUnescape` -/
def PU.dec : PU → Char
  | .lit c => c
  | .esc a b => octet a b

theorem pathUnescapeL_cons_ne {c : Char} (hc : c ≠ '%') (t : List Char) :
    pathUnescapeL (c :: t) = (pathUnescapeL t).map (c :: ·) := by
  match t with
  | [] => simp [pathUnescapeL, hc]
  | [a] => simp [pathUnescapeL, hc]
  | a :: b :: rest => simp [pathUnescapeL, hc]

theorem pathUnescapeL_esc (a b : Char) (ha : isHex a = true) (hb : isHex b = true) (rest : List Char) :
    pathUnescapeL ('%' :: a :: b :: rest) = (pathUnescapeL rest).map (octet a b :: ·) := by
  simp [pathUnescapeL, ha, hb]

theorem pathUnescapeL_render (us : List PU) (hwf : ∀ u ∈ us, u.wf) :
    pathUnescapeL (renderU us) = some (us.map PU.dec) := by
  induction us with
  | nil => rfl
  | cons u rest ih =>
    have ih' := ih (fun x hx => hwf x (by simp [hx]))
    have hu := hwf u (by simp)
    cases u with
    | lit c =>
      simp only [renderU, List.flatMap_cons, PU.render, List.singleton_append, List.map_cons, PU.dec]
      rw [pathUnescapeL_cons_ne hu]
      change (pathUnescapeL (renderU rest)).map _ = _
      rw [ih']; rfl
    | esc a b =>
      simp only [renderU, List.flatMap_cons, PU.render, List.cons_append, List.nil_append, List.map_cons, PU.dec]
      rw [pathUnescapeL_esc a b hu.1 hu.2]
      change (pathUnescapeL (renderU rest)).map _ = _
      rw [ih']; rfl

/-- decoding of one unit when encoded slashes are kept -/
def PU.decKeep : PU → List Char
  | .lit c => [c]
  | .esc a b => if a = '2' && (b = 'F' || b = 'f') then ['%', a, b] else [octet a b]

theorem unescapeKeepSlashL_cons_ne {c : Char} (hc : c ≠ '%') (t : List Char) :
    unescapeKeepSlashL (c :: t) = (unescapeKeepSlashL t).map (c :: ·) := by
  match t with
  | [] => simp [unescapeKeepSlashL, hc]
  | [a] => simp [unescapeKeepSlashL, hc]
  | a :: b :: rest => simp [unescapeKeepSlashL, hc]

theorem unescapeKeepSlashL_esc (a b : Char) (ha : isHex a = true) (hb : isHex b = true) (rest : List Char) :
    unescapeKeepSlashL ('%' :: a :: b :: rest) =
      if a = '2' && (b = 'F' || b = 'f') then (unescapeKeepSlashL rest).map ('%' :: a :: b :: ·)
      else (unescapeKeepSlashL rest).map (octet a b :: ·) := by
  simp [unescapeKeepSlashL, ha, hb]

theorem unescapeKeepSlashL_render (us : List PU) (hwf : ∀ u ∈ us, u.wf) :
    unescapeKeepSlashL (renderU us) = some (us.flatMap PU.decKeep) := by
  induction us with
  | nil => rfl
  | cons u rest ih =>
    have ih' := ih (fun x hx => hwf x (by simp [hx]))
    have hu := hwf u (by simp)
    cases u with
    | lit c =>
      simp only [renderU, List.flatMap_cons, PU.render, List.singleton_append, PU.decKeep]
      rw [unescapeKeepSlashL_cons_ne hu]
      change (unescapeKeepSlashL (renderU rest)).map _ = _
      rw [ih']; rfl
    | esc a b =>
      simp only [renderU, List.flatMap_cons, PU.render, List.cons_append, List.nil_append, PU.decKeep]
      rw [unescapeKeepSlashL_esc a b hu.1 hu.2]
      by_cases hs : (decide (a = '2') && (decide (b = 'F') || decide (b = 'f'))) = true
      · simp only [hs, if_true]
        change (unescapeKeepSlashL (renderU rest)).map _ = _
        rw [ih']; rfl
      · simp only [hs, Bool.false_eq_true, if_false]
        change (unescapeKeepSlashL (renderU rest)).map _ = _
        rw [ih']; rfl

/-- `us'` spells the same path as `us`, with some unreserved octets percent-encoded (either hex case) -/
inductive Reenc : List PU → List PU → Prop
  | nil : Reenc [] []
  | keep (u : PU) {us us' : List PU} : Reenc us us' → Reenc (u :: us) (u :: us')
  | enc (c a b : Char) {us us' : List PU} : isUnreserved c = true → isHex a = true → isHex b = true →
      octet a b = c → Reenc us us' → Reenc (.lit c :: us) (.esc a b :: us')

theorem Reenc.wf {us us' : List PU} (h : Reenc us us') (hwf : ∀ u ∈ us, u.wf) : ∀ u ∈ us', u.wf := by
  induction h with
  | nil => intro u hu; cases hu
  | keep u _ ih =>
    intro x hx
    rcases List.mem_cons.mp hx with rfl | hx
    · exact hwf _ (by simp)
    · exact ih (fun y hy => hwf y (by simp [hy])) x hx
  | enc c a b _ ha hb _ _ ih =>
    intro x hx
    rcases List.mem_cons.mp hx with rfl | hx
    · exact ⟨ha, hb⟩
    · exact ih (fun y hy => hwf y (by simp [hy])) x hx

theorem Reenc.norm_eq {us us' : List PU} (h : Reenc us us') : us'.flatMap PU.norm = us.flatMap PU.norm := by
  induction h with
  | nil => rfl
  | keep u _ ih => simp [ih]
  | enc c a b hc _ _ ho _ ih => simp [PU.norm, ho, hc, ih]

theorem not_unreserved_slash : isUnreserved '/' = false := by decide
theorem octet_2F : octet '2' 'F' = '/' := by decide
theorem octet_2f : octet '2' 'f' = '/' := by decide

theorem Reenc.slash_eq {us us' : List PU} (h : Reenc us us') : us'.any PU.isSlash = us.any PU.isSlash := by
  induction h with
  | nil => rfl
  | keep u _ ih => simp [ih]
  | enc c a b hc _ _ ho _ ih =>
    have : PU.isSlash (.esc a b) = false := by
      cases hs : PU.isSlash (.esc a b) with
      | false => rfl
      | true =>
        exfalso
        simp only [PU.isSlash, Bool.and_eq_true, decide_eq_true_eq, Bool.or_eq_true] at hs
        obtain ⟨rfl, hb⟩ := hs
        rcases hb with rfl | rfl
        · rw [octet_2F] at ho; rw [← ho, not_unreserved_slash] at hc; cases hc
        · rw [octet_2f] at ho; rw [← ho, not_unreserved_slash] at hc; cases hc
    rw [List.any_cons, List.any_cons, this, ih]
    rfl

theorem Reenc.dec_eq {us us' : List PU} (h : Reenc us us') : us'.map PU.dec = us.map PU.dec := by
  induction h with
  | nil => rfl
  | keep u _ ih => simp [ih]
  | enc c a b _ _ _ ho _ ih => simp [PU.dec, ho, ih]

/-! ### The spelling `extractURL` keeps: the received path with the octets a path may not contain encoded -/

theorem isHex_allowed (a : Char) (h : isHex a = true) : pathOctetAllowed a = true := by
  unfold isHex at h
  unfold pathOctetAllowed
  have : a.isAlphanum = true := by
    simp only [Char.isAlphanum, Char.isAlpha, Char.isUpper, Char.isLower, Char.isDigit, Bool.or_eq_true,
      Bool.and_eq_true, decide_eq_true_eq, ge_iff_le, Char.le_def, UInt32.le_iff_toNat_le] at h ⊢
    have e1 : '0'.val.toNat = 48 := rfl
    have e2 : '9'.val.toNat = 57 := rfl
    have e3 : 'a'.val.toNat = 97 := rfl
    have e4 : 'f'.val.toNat = 102 := rfl
    have e5 : 'A'.val.toNat = 65 := rfl
    have e6 : 'F'.val.toNat = 70 := rfl
    have e7 : 'Z'.val.toNat = 90 := rfl
    have e8 : 'z'.val.toNat = 122 := rfl
    rw [e1, e2, e3, e4, e5, e6] at h
    rw [e1, e2, e3, e5, e7, e8]
    omega
  simp [this]

/-- the unit-level form of `receivedPathL`: a literal octet that may not stand in a path becomes its escape -/
def receivedUnit : PU → PU
  | .lit c => if pathOctetAllowed c then .lit c
              else .esc (hexDigitUpper (c.toNat / 16 % 16)) (hexDigitUpper (c.toNat % 16))
  | .esc a b => .esc a b

theorem isHex_hexDigitUpper : ∀ n : Fin 16, isHex (hexDigitUpper n.val) = true := by decide
theorem unhex_hexDigitUpper : ∀ n : Fin 16, unhex (hexDigitUpper n.val) = n.val := by decide
theorem hexDigitUpper_allowed : ∀ n : Fin 16, pathOctetAllowed (hexDigitUpper n.val) = true := by decide
theorem percent_allowed : pathOctetAllowed '%' = true := by decide

theorem receivedPathL_render (us : List PU) (hwf : ∀ u ∈ us, u.wf) :
    receivedPathL (renderU us) = renderU (us.map receivedUnit) := by
  induction us with
  | nil => rfl
  | cons u rest ih =>
    have ih' := ih (fun x hx => hwf x (by simp [hx]))
    have hw := hwf u (by simp)
    cases u with
    | lit c =>
      by_cases hc : pathOctetAllowed c
      · simp only [renderU, List.flatMap_cons, PU.render, List.cons_append, List.nil_append, List.map_cons,
          receivedUnit, hc, if_true, receivedPathL] at ih' ⊢
        rw [ih']
      · simp only [renderU, List.flatMap_cons, PU.render, List.cons_append, List.nil_append, List.map_cons,
          receivedUnit, hc, receivedPathL] at ih' ⊢
        simp [ih']
    | esc a b =>
      have ha := isHex_allowed a hw.1
      have hb := isHex_allowed b hw.2
      simp only [renderU, List.flatMap_cons, PU.render, List.cons_append, List.nil_append, List.map_cons,
        receivedUnit, receivedPathL, percent_allowed, ha, hb, if_true] at ih' ⊢
      rw [ih']

theorem receivedUnit_wf (us : List PU) (hwf : ∀ u ∈ us, u.wf) : ∀ u ∈ us.map receivedUnit, u.wf := by
  intro u hu
  obtain ⟨x, hx, rfl⟩ := List.mem_map.mp hu
  have := hwf x hx
  cases x with
  | lit c =>
    by_cases hc : pathOctetAllowed c
    · simp only [receivedUnit, hc, if_true]; exact this
    · simp only [receivedUnit, hc]
      exact ⟨isHex_hexDigitUpper ⟨c.toNat / 16 % 16, Nat.mod_lt _ (by decide)⟩,
             isHex_hexDigitUpper ⟨c.toNat % 16, Nat.mod_lt _ (by decide)⟩⟩
  | esc a b => exact this

/-- octets of a request line -/
def PU.byte : PU → Prop
  | .lit c => c.toNat < 256
  | .esc _ _ => True

theorem receivedUnit_dec (u : PU) (hb : u.byte) : (receivedUnit u).dec = u.dec := by
  cases u with
  | esc a b => rfl
  | lit c =>
    by_cases hc : pathOctetAllowed c
    · simp [receivedUnit, hc]
    · have hcf : pathOctetAllowed c = false := by simpa using hc
      simp only [receivedUnit, hcf, Bool.false_eq_true, if_false, PU.dec, octet]
      have h1 := unhex_hexDigitUpper ⟨c.toNat / 16 % 16, Nat.mod_lt _ (by decide)⟩
      have h2 := unhex_hexDigitUpper ⟨c.toNat % 16, Nat.mod_lt _ (by decide)⟩
      simp only at h1 h2
      rw [h1, h2]
      have hb' : c.toNat < 256 := hb
      have : 16 * (c.toNat / 16 % 16) + c.toNat % 16 = c.toNat := by omega
      rw [this]
      exact Char.ofNat_toNat c

theorem receivedUnit_isSlash (u : PU) (hb : u.byte) : (receivedUnit u).isSlash = u.isSlash := by
  cases u with
  | esc a b => rfl
  | lit c =>
    by_cases hc : pathOctetAllowed c
    · simp [receivedUnit, hc]
    · have hcf : pathOctetAllowed c = false := by simpa using hc
      simp only [receivedUnit, hcf, Bool.false_eq_true, if_false, PU.isSlash]
      -- an escape written by `receivedPathL` is `%2F` only for the octet `/`, which is allowed
      cases hs : (decide (hexDigitUpper (c.toNat / 16 % 16) = '2') &&
          (decide (hexDigitUpper (c.toNat % 16) = 'F') || decide (hexDigitUpper (c.toNat % 16) = 'f'))) with
      | false => rfl
      | true =>
        exfalso
        simp only [Bool.and_eq_true, Bool.or_eq_true, decide_eq_true_eq] at hs
        have k1 : ∀ n : Fin 16, hexDigitUpper n.val = '2' → n.val = 2 := by decide
        have k2 : ∀ n : Fin 16, (hexDigitUpper n.val = 'F' ∨ hexDigitUpper n.val = 'f') → n.val = 15 := by decide
        have a1 := k1 ⟨c.toNat / 16 % 16, Nat.mod_lt _ (by decide)⟩ hs.1
        have a2 := k2 ⟨c.toNat % 16, Nat.mod_lt _ (by decide)⟩ hs.2
        simp only at a1 a2
        have hb' : c.toNat < 256 := hb
        have h47 : c.toNat = 47 := by omega
        have : c = '/' := by rw [← Char.ofNat_toNat c, h47]
        rw [this] at hcf
        revert hcf; decide


theorem receivedU_slash (us : List PU) (hb : ∀ u ∈ us, u.byte) :
    (us.map receivedUnit).any PU.isSlash = us.any PU.isSlash := by
  induction us with
  | nil => rfl
  | cons u rest ih =>
    simp only [List.map_cons, List.any_cons]
    rw [receivedUnit_isSlash u (hb u (by simp)), ih (fun x hx => hb x (by simp [hx]))]

theorem receivedU_dec (us : List PU) (hb : ∀ u ∈ us, u.byte) :
    (us.map receivedUnit).map PU.dec = us.map PU.dec := by
  rw [List.map_map]
  apply List.map_congr_left
  intro u hu
  exact receivedUnit_dec u (hb u hu)


end Heimdall
