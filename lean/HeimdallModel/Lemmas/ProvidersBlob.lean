import HeimdallModel.Lemmas.Providers
/-! Helper lemmas for C18: a poll of a bucket is a sequence of single-source synchronisations over distinct sources -/
set_option linter.unusedSectionVars false
set_option linter.unusedSimpArgs false

namespace Heimdall.Prov

variable {σ : Type} [DecidableEq σ]

/-- `syncOne` for a list of (source, observation) pairs, one after the other -/
def syncMany (rej : List σ) (st : St σ) : List (σ × Obs) → Out σ
  | [] => .quiet st
  | (s, o) :: rest => seqOut (syncOne rej st s o) (fun st' => syncMany rej st' rest)

theorem seqOut_st (o : Out σ) (f : St σ → Out σ) : (seqOut o f).st = (f o.st).st := rfl
theorem seqOut_calls (o : Out σ) (f : St σ → Out σ) : (seqOut o f).calls = o.calls ++ (f o.st).calls := rfl

theorem syncMany_append (rej : List σ) (st : St σ) (l m : List (σ × Obs)) :
    (syncMany rej st (l ++ m)).st = (syncMany rej (syncMany rej st l).st m).st ∧
    (syncMany rej st (l ++ m)).calls = (syncMany rej st l).calls ++ (syncMany rej (syncMany rej st l).st m).calls := by
  induction l generalizing st with
  | nil => simp [syncMany, Out.quiet]
  | cons p l ih =>
    obtain ⟨s, o⟩ := p
    simp only [List.cons_append, syncMany, seqOut_st, seqOut_calls]
    obtain ⟨h1, h2⟩ := ih (syncOne rej st s o).st
    exact ⟨h1, by rw [h2, List.append_assoc]⟩

theorem transition_src (s : σ) (a b : Option Hash) : ∀ c ∈ transition s a b, c.src = s := by
  intro c hc
  cases a <;> cases b <;> simp only [transition] at hc
  · simp at hc
  · simp only [List.mem_singleton] at hc; subst hc; rfl
  · simp only [List.mem_singleton] at hc; subst hc; rfl
  · split at hc
    · simp at hc
    · simp only [List.mem_singleton] at hc; subst hc; rfl

theorem stepOK_src {rej : List σ} {st : St σ} {s : σ} {o : Obs} {r : Out σ} (h : StepOK rej st s o r) :
    ∀ c ∈ r.calls, c.1.src = s := by
  intro c hc
  have : c.1 ∈ r.calls.map (·.1) := List.mem_map_of_mem (f := (·.1)) hc
  rw [h.calls] at this
  exact transition_src _ _ _ _ this

/-- what `syncMany` over distinct sources does to every source -/
structure ManyOK (rej : List σ) (st : St σ) (l : List (σ × Obs)) (r : Out σ) : Prop where
  inv   : Inv r.st
  book  : ∀ s, r.st.book.get s =
            match l.find? (fun p => p.1 = s) with
            | some (_, o) => if s ∈ rej then st.book.get s else o.next (st.book.get s)
            | none => st.book.get s
  calls : ∀ s, (r.calls.filter (fun c => c.1.src = s)).map (·.1) =
            match l.find? (fun p => p.1 = s) with
            | some (_, o) => transition s (st.book.get s) (o.next (st.book.get s))
            | none => []
  flags : ∀ c ∈ r.calls, c.2 = decide (c.1.src ∉ rej)

theorem syncMany_ok (rej : List σ) (l : List (σ × Obs)) (hd : (l.map (·.1)).Nodup) (st : St σ) (hi : Inv st) :
    ManyOK rej st l (syncMany rej st l) := by
  induction l generalizing st with
  | nil =>
    refine ⟨hi, fun s => rfl, fun s => rfl, ?_⟩
    simp [syncMany, Out.quiet]
  | cons p l ih =>
    obtain ⟨s0, o0⟩ := p
    rw [List.map_cons, List.nodup_cons] at hd
    have h1 := syncOne_ok rej st s0 o0 hi
    have h2 := ih hd.2 (syncOne rej st s0 o0).st h1.inv
    have hsrc := stepOK_src h1
    have hnf : l.find? (fun p => p.1 = s0) = none := by
      rw [List.find?_eq_none]
      intro x hx
      simp only [decide_eq_true_eq]
      intro e
      exact hd.1 (e ▸ List.mem_map_of_mem (f := (·.1)) hx)
    refine ⟨h2.inv, ?_, ?_, ?_⟩
    · intro s
      simp only [syncMany, seqOut_st]
      rw [h2.book s, h1.book s]
      by_cases e : s0 = s
      · subst e
        simp only [List.find?, decide_true, hnf, true_and]
        by_cases hr : s0 ∈ rej <;> simp [hr]
      · have e' : ¬ s = s0 := fun x => e x.symm
        simp only [List.find?, e, decide_false, e', false_and, if_false]
    · intro s
      simp only [syncMany, seqOut_calls, List.filter_append, List.map_append]
      rw [h2.calls s]
      by_cases e : s0 = s
      · subst e
        simp only [List.find?, decide_true, hnf, List.append_nil]
        rw [← h1.calls]
        congr 1
        rw [List.filter_eq_self]
        intro c hc; simp [hsrc c hc]
      · have e' : ¬ s = s0 := fun x => e x.symm
        have : (syncOne rej st s0 o0).calls.filter (fun c => c.1.src = s) = [] := by
          rw [List.filter_eq_nil_iff]
          intro c hc; simp [hsrc c hc, e]
        simp only [List.find?, e, decide_false, this, List.map_nil, List.nil_append]
        rw [h1.book s]; simp [e']
    · intro c hc
      simp only [syncMany, seqOut_calls, List.mem_append] at hc
      rcases hc with hc | hc
      · rw [h1.accepted c hc, hsrc c hc]
      · exact h2.flags c hc

/-! ### the two loops of `ruleSetsUpdated` -/

theorem blobRemove_eq (rej : List σ) (current : List σ) (ids : List σ) (hn : ids.Nodup) (st : St σ) (hi : Inv st)
    (hk : ∀ id ∈ ids, st.book.get id ≠ none) :
    (blobRemove rej st current ids).st =
      (syncMany rej st ((ids.filter (fun id => !current.contains id)).map (fun id => (id, Obs.gone)))).st ∧
    (blobRemove rej st current ids).calls =
      (syncMany rej st ((ids.filter (fun id => !current.contains id)).map (fun id => (id, Obs.gone)))).calls := by
  induction ids generalizing st with
  | nil => exact ⟨rfl, rfl⟩
  | cons id ids ih =>
    rw [List.nodup_cons] at hn
    unfold blobRemove
    cases hc : current.contains id with
    | true =>
      simp only [if_true, List.filter, hc, Bool.not_true]
      exact ih hn.2 st hi (fun x hx => hk x (List.mem_cons_of_mem _ hx))
    | false =>
      simp only [Bool.false_eq_true, if_false, List.filter, hc, Bool.not_false, List.map_cons, syncMany]
      have hg : st.book.get id ≠ none := hk id (List.mem_cons_self ..)
      have he : emit rej st (.deleted id) (·.del id) = syncOne rej st id .gone := by
        unfold syncOne
        cases h : st.book.get id with
        | none => exact absurd h hg
        | some _ => rfl
      rw [he]
      have ok := syncOne_ok rej st id .gone hi
      have hk' : ∀ x ∈ ids, (syncOne rej st id .gone).st.book.get x ≠ none := by
        intro x hx
        have hne : ¬ x = id := fun e => hn.1 (e ▸ hx)
        rw [ok.book x]; simp only [hne, false_and, if_false]
        exact hk x (List.mem_cons_of_mem _ hx)
      obtain ⟨h1, h2⟩ := ih hn.2 (syncOne rej st id .gone).st ok.inv hk'
      exact ⟨by simp only [seqOut_st]; exact h1, by simp only [seqOut_calls]; rw [h2]⟩

/-- observation a listed rule set stands for -/
def rsObs : Option Hash → Obs
  | some h => .content h
  | none => .noinfo

theorem rsObs_some (h : Hash) : rsObs (some h) = .content h := rfl
theorem rsObs_none : rsObs none = .noinfo := rfl

theorem blobApply_eq (rej : List σ) (old : List σ) (items : List (σ × Option Hash)) (hn : (items.map (·.1)).Nodup)
    (st : St σ) (hi : Inv st) (hk : ∀ p ∈ items, (p.1 ∈ old ↔ st.book.get p.1 ≠ none)) :
    (blobApply rej old st items).st = (syncMany rej st (items.map (fun p => (p.1, rsObs p.2)))).st ∧
    (blobApply rej old st items).calls = (syncMany rej st (items.map (fun p => (p.1, rsObs p.2)))).calls := by
  induction items generalizing st with
  | nil => exact ⟨rfl, rfl⟩
  | cons p items ih =>
    obtain ⟨id, x⟩ := p
    rw [List.map_cons, List.nodup_cons] at hn
    have hrest : ∀ (st' : St σ), (∀ s', s' ≠ id → st'.book.get s' = st.book.get s') →
        ∀ q ∈ items, (q.1 ∈ old ↔ st'.book.get q.1 ≠ none) := by
      intro st' hst q hq
      have hne : q.1 ≠ id := fun e => hn.1 (e ▸ List.mem_map_of_mem (f := (·.1)) hq)
      rw [hst q.1 hne]
      exact hk q (List.mem_cons_of_mem _ hq)
    cases x with
    | none =>
      simp only [blobApply, List.map_cons, syncMany, rsObs_none, syncOne]
      obtain ⟨h1, h2⟩ := ih hn.2 st hi (hrest st (fun _ _ => rfl))
      exact ⟨by simp only [seqOut_st, Out.quiet]; exact h1, by simp only [seqOut_calls, Out.quiet, List.nil_append]; exact h2⟩
    | some h =>
      simp only [blobApply, List.map_cons, syncMany, rsObs_some]
      have hkid := hk (id, some h) (List.mem_cons_self ..)
      simp only at hkid
      have he : (if (!old.contains id) = true then emit rej st (.created id h) (·.put id h)
            else if st.book.get id ≠ some h then emit rej st (.updated id h) (·.put id h) else .quiet st)
          = syncOne rej st id (.content h) := by
        unfold syncOne
        cases hg : st.book.get id with
        | none =>
          have : id ∉ old := fun x => (hkid.mp x) hg
          simp [this]
        | some h' =>
          have : id ∈ old := hkid.mpr (by simp [hg])
          simp only [List.contains_eq_mem, this, decide_true, Bool.not_true, Bool.false_eq_true, if_false, ne_eq,
            Option.some.injEq]
      rw [he]
      have ok := syncOne_ok rej st id (.content h) hi
      have hst : ∀ s', s' ≠ id → (syncOne rej st id (.content h)).st.book.get s' = st.book.get s' := by
        intro s' hs; rw [ok.book s']; simp [hs]
      obtain ⟨h1, h2⟩ := ih hn.2 _ ok.inv (hrest _ hst)
      exact ⟨by simp only [seqOut_st]; exact h1, by simp only [seqOut_calls]; rw [h2]⟩

/-! ### one poll of a bucket -/

theorem ruleSets_nodup (f : BlobFetch σ) (hd : f.distinct) (rss : List (σ × Option Hash))
    (h : blobRuleSets f = some rss) : (rss.map (·.1)).Nodup := by
  cases f with
  | cancelled => simp [blobRuleSets] at h
  | internal => simp [blobRuleSets] at h
  | comm => simp only [blobRuleSets, Option.some.injEq] at h; subst h; simp
  | single id b =>
    cases b with
    | none => simp only [blobRuleSets, Option.some.injEq] at h; subst h; simp
    | some b =>
      cases b <;> simp only [blobRuleSets, Option.some.injEq, reduceCtorEq] at h <;> subst h <;> simp
  | listing items =>
    simp only [blobRuleSets, Option.some.injEq] at h
    subst h
    unfold BlobFetch.distinct at hd
    refine List.Sublist.nodup ?_ hd
    clear hd
    induction items with
    | nil => simp
    | cons p items ih =>
      obtain ⟨id, b⟩ := p
      cases b <;> simp only [List.filterMap_cons, List.map_cons]
      · exact ih.cons_cons _
      · exact ih.cons _
      · exact ih.cons_cons _
      · exact ih.cons_cons _

theorem find_map_gone (l : List σ) (s : σ) :
    (l.map (fun id => (id, Obs.gone))).find? (fun p => p.1 = s) = if s ∈ l then some (s, Obs.gone) else none := by
  induction l with
  | nil => simp
  | cons a l ih =>
    by_cases h : a = s
    · subst h; simp [List.find?]
    · have : ¬ s = a := fun e => h e.symm
      simp only [List.map_cons, List.find?, h, decide_false, ih, List.mem_cons, this, false_or]

theorem find_map_rs (l : List (σ × Option Hash)) (s : σ) :
    (l.map (fun p => (p.1, rsObs p.2))).find? (fun p => p.1 = s) =
      (l.find? (fun p => p.1 = s)).map (fun p => (p.1, rsObs p.2)) := by
  induction l with
  | nil => rfl
  | cons a l ih =>
    by_cases h : a.1 = s <;> simp [List.find?, h, ih]

theorem find_none_of_not_mem (l : List (σ × Option Hash)) (s : σ) (h : s ∉ l.map (·.1)) :
    l.find? (fun p => p.1 = s) = none := by
  rw [List.find?_eq_none]
  intro x hx
  simp only [decide_eq_true_eq]
  intro e
  exact h (e ▸ List.mem_map_of_mem (f := (·.1)) hx)

theorem find_some_of_mem (l : List (σ × Option Hash)) (s : σ) (h : s ∈ l.map (·.1)) :
    ∃ x, l.find? (fun p => p.1 = s) = some (s, x) := by
  induction l with
  | nil => simp at h
  | cons a l ih =>
    by_cases e : a.1 = s
    · obtain ⟨a1, a2⟩ := a
      simp only at e; subst e
      exact ⟨a2, by simp [List.find?]⟩
    · simp only [List.map_cons, List.mem_cons] at h
      rcases h with h | h
      · exact absurd h.symm e
      · obtain ⟨x, hx⟩ := ih h
        exact ⟨x, by simp [List.find?, e, hx]⟩

/-- everything the property says about one poll of a bucket -/
structure BlobOK (st : St σ) (e : BlobEvent σ) (r : Out σ) : Prop where
  inv   : Inv r.st
  book  : ∀ s, r.st.book.get s = (e.obs s).next (st.book.get s)
  calls : ∀ s, (r.calls.filter (fun c => c.1.src = s)).map (·.1) =
            transition s (st.book.get s) ((e.raw s).next (st.book.get s))
  flags : ∀ c ∈ r.calls, c.2 = decide (c.1.src ∉ e.rej)

theorem blobOK_unchanged (st : St σ) (e : BlobEvent σ) (hi : Inv st)
    (h : ∀ s, (e.raw s).next (st.book.get s) = st.book.get s) (r : Out σ) (hst : r.st = st) (hc : r.calls = []) :
    BlobOK st e r := by
  refine ⟨hst ▸ hi, ?_, ?_, ?_⟩
  · intro s; rw [hst]; unfold BlobEvent.obs; split
    · rfl
    · exact (h s).symm
  · intro s; rw [hc, h s, transition_self]; rfl
  · intro c hc'; rw [hc] at hc'; simp at hc'

theorem ruleSets_within (b : σ → Bool) (f : BlobFetch σ) (hw : f.within b) (rss : List (σ × Option Hash))
    (h : blobRuleSets f = some rss) : ∀ p ∈ rss, b p.1 = true := by
  cases f with
  | cancelled => simp [blobRuleSets] at h
  | internal => simp [blobRuleSets] at h
  | comm => simp only [blobRuleSets, Option.some.injEq] at h; subst h; simp
  | single id x =>
    unfold BlobFetch.within at hw
    cases x with
    | none => simp only [blobRuleSets, Option.some.injEq] at h; subst h; simp
    | some x =>
      cases x <;> simp only [blobRuleSets, Option.some.injEq, reduceCtorEq] at h <;> subst h <;> simp [hw]
  | listing items =>
    unfold BlobFetch.within at hw
    simp only [blobRuleSets, Option.some.injEq] at h
    subst h
    intro p hp
    simp only [List.mem_filterMap] at hp
    obtain ⟨q, hq, hqp⟩ := hp
    obtain ⟨id, x⟩ := q
    cases x <;> simp only [Option.some.injEq, reduceCtorEq] at hqp
    · subst hqp; exact hw _ hq
    · subst hqp; exact hw _ hq
    · subst hqp; exact hw _ hq

theorem blobStep_ok (st : St σ) (e : BlobEvent σ) (hi : Inv st) (hd : e.fetch.distinct)
    (hwithin : e.fetch.within e.bucket) : BlobOK st e (blobStep st e) := by
  unfold blobStep
  cases hrs : blobRuleSets e.fetch with
  | none =>
    have hraw : ∀ s, (e.raw s).next (st.book.get s) = st.book.get s := by
      intro s; unfold BlobEvent.raw; split <;> simp [hrs, Obs.next]
    simp only
    split <;> exact blobOK_unchanged st e hi hraw _ rfl rfl
  | some rss =>
    simp only
    have hnd := ruleSets_nodup e.fetch hd rss hrs
    have hin := ruleSets_within e.bucket e.fetch hwithin rss hrs
    have hold_mem : ∀ s, s ∈ st.book.keys.filter e.bucket ↔ s ∈ st.book.keys ∧ e.bucket s = true := by
      intro s; simp [List.mem_filter]
    cases hq : (rss.isEmpty && (st.book.keys.filter e.bucket).isEmpty) with
    | true =>
      simp only [if_true]
      simp only [Bool.and_eq_true, List.isEmpty_iff] at hq
      refine blobOK_unchanged st e hi ?_ _ rfl rfl
      intro s
      unfold BlobEvent.raw
      cases hb : e.bucket s with
      | false => simp [Obs.next]
      | true =>
        have : s ∉ st.book.keys := by
          intro hk
          have : s ∈ st.book.keys.filter e.bucket := (hold_mem s).mpr ⟨hk, hb⟩
          rw [hq.2] at this; simp at this
        have hg : st.book.get s = none := (get_none_iff _ _).mpr this
        simp [hrs, hq.1, Obs.next, hg]
    | false =>
      simp only [Bool.false_eq_true, if_false]
      -- the two loops as one `syncMany`
      let old := st.book.keys.filter e.bucket
      let gone := (old.filter (fun id => !(rss.map (·.1)).contains id)).map (fun id => (id, Obs.gone))
      let appl := rss.map (fun p => (p.1, rsObs p.2))
      have hold_nd : old.Nodup := hi.nodup.filter _
      have hkeys : ∀ id ∈ old, st.book.get id ≠ none := by
        intro id hid hn; exact (get_none_iff _ _).mp hn ((hold_mem id).mp hid).1
      obtain ⟨r1, r2⟩ := blobRemove_eq e.rej (rss.map (·.1)) old hold_nd st hi hkeys
      have hgone_nd : (gone.map (·.1)).Nodup := by
        simp only [gone, List.map_map]
        have : ((fun p : σ × Obs => p.1) ∘ fun id => (id, Obs.gone)) = id := rfl
        rw [this, List.map_id]
        exact hold_nd.filter _
      have ok1 := syncMany_ok e.rej gone hgone_nd st hi
      have hfind_gone : ∀ s, gone.find? (fun p => p.1 = s) =
          if s ∈ old ∧ s ∉ rss.map (·.1) then some (s, Obs.gone) else none := by
        intro s
        simp only [gone, find_map_gone, List.mem_filter, List.contains_eq_mem, Bool.not_eq_true',
          decide_eq_false_iff_not]
      have hk2 : ∀ p ∈ rss, (p.1 ∈ old ↔ (blobRemove e.rej st (rss.map (·.1)) old).st.book.get p.1 ≠ none) := by
        intro p hp
        rw [r1, ok1.book p.1, hfind_gone]
        have : p.1 ∈ rss.map (·.1) := List.mem_map_of_mem (f := (·.1)) hp
        simp only [this, not_true_eq_false, and_false, if_false]
        rw [ne_eq, get_none_iff, hold_mem]; simp [hin p hp]
      have hi1 : Inv (blobRemove e.rej st (rss.map (·.1)) old).st := r1 ▸ ok1.inv
      obtain ⟨a1, a2⟩ := blobApply_eq e.rej old rss hnd _ hi1 hk2
      obtain ⟨m1, m2⟩ := syncMany_append e.rej st gone appl
      have hst : (seqOut (blobRemove e.rej st (rss.map (·.1)) old)
          (fun st' => blobApply e.rej old st' rss)).st = (syncMany e.rej st (gone ++ appl)).st := by
        rw [seqOut_st, a1, m1, r1]
      have hcalls : (seqOut (blobRemove e.rej st (rss.map (·.1)) old)
          (fun st' => blobApply e.rej old st' rss)).calls = (syncMany e.rej st (gone ++ appl)).calls := by
        rw [seqOut_calls, a2, m2, r2, r1]
      have hall_nd : ((gone ++ appl).map (·.1)).Nodup := by
        rw [List.map_append, List.nodup_append]
        refine ⟨hgone_nd, ?_, ?_⟩
        · simp only [appl, List.map_map]
          have : ((fun p : σ × Obs => p.1) ∘ fun p : σ × Option Hash => (p.1, rsObs p.2)) = (·.1) := rfl
          rw [this]; exact hnd
        · intro a ha b hb
          simp only [gone, List.map_map, List.mem_map, List.mem_filter, Function.comp] at ha
          obtain ⟨x, ⟨_, hx⟩, rfl⟩ := ha
          simp only [appl, List.map_map, List.mem_map, Function.comp] at hb
          obtain ⟨y, hy, rfl⟩ := hb
          intro e'
          simp only [List.contains_eq_mem, Bool.not_eq_true', decide_eq_false_iff_not] at hx
          exact hx (e' ▸ List.mem_map_of_mem (f := (·.1)) hy)
      have ok := syncMany_ok e.rej (gone ++ appl) hall_nd st hi
      -- what the combined list says about a source is what the poll shows of it
      have hfind : ∀ s, (match (gone ++ appl).find? (fun p => p.1 = s) with
            | some (_, o) => o.next (st.book.get s)
            | none => st.book.get s) = (e.raw s).next (st.book.get s) := by
        intro s
        rw [List.find?_append, hfind_gone]
        unfold BlobEvent.raw
        by_cases hcur : s ∈ rss.map (·.1)
        · obtain ⟨x, hx⟩ := find_some_of_mem rss s hcur
          have hb : e.bucket s = true := by
            obtain ⟨p, hp, hps⟩ := List.mem_map.mp hcur
            exact hps ▸ hin p hp
          simp only [hcur, not_true_eq_false, and_false, if_false, Option.none_or, appl, find_map_rs, hx,
            Option.map_some, hb, Bool.not_true, Bool.false_eq_true, hrs]
          cases x <;> rfl
        · have hnone := find_none_of_not_mem rss s hcur
          have happl : appl.find? (fun p => p.1 = s) = none := by
            simp only [appl, find_map_rs, hnone, Option.map_none]
          by_cases hk : s ∈ old
          · have hb : e.bucket s = true := ((hold_mem s).mp hk).2
            simp [hk, hcur, hnone, hb, hrs]
          · simp only [hk, false_and, if_false, Option.none_or, happl]
            cases hb : e.bucket s with
            | false => simp [Obs.next]
            | true =>
              have : s ∉ st.book.keys := fun hk' => hk ((hold_mem s).mpr ⟨hk', hb⟩)
              have hg : st.book.get s = none := (get_none_iff _ _).mpr this
              simp [hrs, hnone, Obs.next, hg]
      refine ⟨hst ▸ ok.inv, ?_, ?_, ?_⟩
      · intro s
        rw [hst, ok.book s]
        unfold BlobEvent.obs
        by_cases hr : s ∈ e.rej
        · simp only [List.contains_eq_mem, hr, decide_true, if_true, Obs.next]
          generalize List.find? (fun p => decide (p.fst = s)) (gone ++ appl) = r
          cases r with
          | none => rfl
          | some x => rfl
        · simp only [List.contains_eq_mem, hr, decide_false, Bool.false_eq_true, if_false]
          rw [← hfind s]
      · intro s
        rw [hcalls, ok.calls s, ← hfind s]
        split
        · rfl
        · simp [transition_self]
      · intro c hc
        rw [hcalls] at hc
        exact ok.flags c hc

end Heimdall.Prov
