import HeimdallModel.Lemmas.Trie
/-!
Extensional view of a table: `getNode t p`.  `find` depends on the table only through this view, and `addPat` /
`delPat` have a closed-form effect on it.
-/
namespace Heimdall

variable {V : Type}

theorem here_eq_getNode (t : Table V) : here t = getNode t [] := rfl

theorem getNode_below (t : Table V) (q : PTok) (p : List PTok) :
    getNode (below t q) p = (getNode t (q :: p)).map (fun n => { n with pat := p }) := by
  unfold getNode below
  induction t with
  | nil => rfl
  | cons a t ih =>
    rw [List.filterMap_cons, List.find?_cons]
    cases hp : a.pat with
    | nil =>
      have : decide (([] : List PTok) = q :: p) = false := by simp
      simp only [this]
      exact ih
    | cons q' rest =>
      by_cases hq : q' = q
      · subst hq
        simp only [if_true, List.find?_cons]
        by_cases hr : rest = p
        · subst hr; simp
        · have h1 : decide (rest = p) = false := by simp [hr]
          have h2 : decide (q' :: rest = q' :: p) = false := by simp [hr]
          simp only [h1, h2]
          exact ih
      · have h2 : decide (q' :: rest = q :: p) = false := by simp [hq]
        simp only [hq, if_false, h2]
        exact ih
/-- tables with the same nodes (as a function of the expression) answer every lookup alike -/
theorem find_congr (m : V → List String → List String → Bool) (t₁ t₂ : Table V)
    (h : ∀ p, getNode t₁ p = getNode t₂ p) (toks : List Tok) (caps : List String) :
    find m t₁ toks caps = find m t₂ toks caps := by
  induction toks generalizing t₁ t₂ caps with
  | nil =>
    rw [find_nil, find_nil]
    unfold leafRes
    rw [here_eq_getNode, here_eq_getNode, h]
  | cons tok rest ih =>
    have hb : ∀ q p, getNode (below t₁ q) p = getNode (below t₂ q) p := by
      intro q p; rw [getNode_below, getNode_below, h]
    rw [find_cons, find_cons]
    rw [ih _ _ (hb _)]
    have hc : catchRes m t₁ (tok :: rest) caps = catchRes m t₂ (tok :: rest) caps := by
      unfold catchRes
      rw [here_eq_getNode, here_eq_getNode, hb]
    cases tok with
    | sep => simp only [hc]
    | seg sg => simp only [hc, ih _ _ (hb .wild)]

theorem getNode_some_pat {t : Table V} {p : List PTok} {n : Node V} (h : getNode t p = some n) : n.pat = p := by
  unfold getNode at h
  simpa using List.find?_some h

theorem getNode_mem {t : Table V} {p : List PTok} {n : Node V} (h : getNode t p = some n) : n ∈ t :=
  List.mem_of_find?_eq_some h

theorem getNode_of_mem {t : Table V} (hnd : NodupPats t) {n : Node V} (hn : n ∈ t) :
    getNode t n.pat = some n := by
  unfold getNode
  induction t with
  | nil => cases hn
  | cons a t ih =>
    rw [NodupPats, List.pairwise_cons] at hnd
    rw [List.find?_cons]
    rcases List.mem_cons.mp hn with h | h
    · subst h; simp
    · have : a.pat ≠ n.pat := hnd.1 n h
      simp [this]; exact ih hnd.2 h

/-! ### effect of `addPat` -/

theorem getNode_append_of_none {t : Table V} {p : List PTok} (h : getNode t p = none) (n : Node V) :
    getNode (t ++ [n]) p = if n.pat = p then some n else none := by
  unfold getNode at *
  rw [List.find?_append, h]
  by_cases hp : n.pat = p <;> simp [hp]

theorem getNode_append_of_some {t : Table V} {p : List PTok} {x : Node V} (h : getNode t p = some x) (n : Node V) :
    getNode (t ++ [n]) p = some x := by
  unfold getNode at *
  rw [List.find?_append, h]; rfl

theorem getNode_map_upd (t : Table V) (pat : List PTok) (f : Node V → Node V)
    (hf : ∀ n, (f n).pat = n.pat) (p : List PTok) :
    getNode (t.map fun n => if n.pat = pat then f n else n) p =
      if p = pat then (getNode t p).map f else getNode t p := by
  unfold getNode
  induction t with
  | nil => simp
  | cons a t ih =>
    simp only [List.map_cons, List.find?_cons]
    by_cases ha : a.pat = pat
    · simp only [ha, if_true, hf]
      by_cases hp : pat = p
      · subst hp; simp [ha]
      · have hp' : ¬ p = pat := fun e => hp e.symm
        simp only [ha, hp, hp', decide_false, if_false]
        simpa [hp'] using ih
    · simp only [ha, if_false]
      by_cases hap : a.pat = p
      · have : ¬ p = pat := fun e => ha (hap.trans e)
        simp [hap, this]
      · simp only [hap, decide_false]
        exact ih

/-- closed form of a successful `addPat` -/
theorem addPat_getNode (canAdd : List V → V → Bool) (t t' : Table V) (pat : List PTok) (keys : List String)
    (v : V) (bt : Bool) (h : addPat canAdd t pat keys v bt = .ok t') (p : List PTok) :
    getNode t' p =
      if p = pat then
        some (match getNode t pat with
          | none => ⟨pat, keys, [v], bt⟩
          | some n => { n with values := n.values ++ [v], bt := bt })
      else getNode t p := by
  unfold addPat at h
  cases hg : getNode t pat with
  | none =>
    simp only [hg] at h
    by_cases hc : canAdd [] v
    · simp only [hc, if_true, Except.ok.injEq] at h
      subst h
      by_cases hp : p = pat
      · subst hp
        rw [getNode_append_of_none hg]; simp
      · simp only [hp, if_false]
        cases hgp : getNode t p with
        | none =>
          have hp' : ¬ pat = p := fun e => hp e.symm
          rw [getNode_append_of_none hgp]; simp [hp']
        | some x => rw [getNode_append_of_some hgp]
    · simp [hc] at h
  | some n =>
    simp only [hg] at h
    by_cases hk : n.keys ≠ keys
    · simp [hk] at h
    · by_cases hc : canAdd n.values v
      · simp only [hk, if_false, hc, not_true_eq_false, Except.ok.injEq] at h
        subst h
        rw [getNode_map_upd t pat (fun n' => { n' with values := n'.values ++ [v], bt := bt }) (fun _ => rfl)]
        by_cases hp : p = pat
        · subst hp; simp [hg]
        · simp [hp]
      · simp [hk, hc] at h

/-- when `addPat` succeeds -/
theorem addPat_ok_iff (canAdd : List V → V → Bool) (t : Table V) (pat : List PTok) (keys : List String)
    (v : V) (bt : Bool) :
    (∃ t', addPat canAdd t pat keys v bt = .ok t') ↔
      (match getNode t pat with
        | none => canAdd [] v = true
        | some n => n.keys = keys ∧ canAdd n.values v = true) := by
  unfold addPat
  cases hg : getNode t pat with
  | none =>
    by_cases hc : canAdd [] v <;> simp [hc]
  | some n =>
    by_cases hk : n.keys = keys
    · by_cases hc : canAdd n.values v <;> simp [hk, hc]
    · simp [hk]

theorem nodup_addPat (canAdd : List V → V → Bool) (t t' : Table V) (pat : List PTok) (keys : List String)
    (v : V) (bt : Bool) (hnd : NodupPats t) (h : addPat canAdd t pat keys v bt = .ok t') : NodupPats t' := by
  unfold addPat at h
  cases hg : getNode t pat with
  | none =>
    simp only [hg] at h
    by_cases hc : canAdd [] v
    · simp only [hc, if_true, Except.ok.injEq] at h
      subst h
      unfold NodupPats at *
      rw [List.pairwise_append]
      refine ⟨hnd, by simp, ?_⟩
      intro a ha b hb
      simp only [List.mem_singleton] at hb
      subst hb
      intro he
      unfold getNode at hg
      have := List.find?_eq_none.mp hg a ha
      simp [he] at this
    · simp [hc] at h
  | some n =>
    simp only [hg] at h
    by_cases hk : n.keys ≠ keys
    · simp [hk] at h
    · by_cases hc : canAdd n.values v
      · simp only [hk, if_false, hc, not_true_eq_false, Except.ok.injEq] at h
        subst h
        unfold NodupPats at *
        rw [List.pairwise_map]
        refine hnd.imp ?_
        intro a b hab
        by_cases ha : a.pat = pat <;> by_cases hb : b.pat = pat <;> simp [ha, hb] <;> simp_all
      · simp [hk, hc] at h

/-! ### effect of `delPat` -/

theorem getNode_filterMap_upd (t : Table V) (pat : List PTok) (f : Node V → Option (Node V))
    (hf : ∀ n n', f n = some n' → n'.pat = n.pat) (hnd : NodupPats t) (p : List PTok) :
    getNode (t.filterMap fun n => if n.pat = pat then f n else some n) p =
      if p = pat then (getNode t p).bind f else getNode t p := by
  unfold getNode
  induction t with
  | nil => simp
  | cons a t ih =>
    rw [NodupPats, List.pairwise_cons] at hnd
    rw [List.filterMap_cons]
    by_cases ha : a.pat = pat
    · simp only [ha, if_true]
      by_cases hp : p = pat
      · subst hp
        simp only [if_true, List.find?_cons, ha, decide_true, Option.bind_some]
        cases hfa : f a with
        | none =>
          -- the node disappears; no other node carries this expression
          simp only []
          have hnone : List.find? (fun n => decide (n.pat = p))
              (List.filterMap (fun n => if n.pat = p then f n else some n) t) = none := by
            rw [List.find?_eq_none]
            intro x hx
            rw [List.mem_filterMap] at hx
            obtain ⟨y, hy, hxy⟩ := hx
            have hyp : y.pat ≠ p := fun e => hnd.1 y hy (ha.trans e.symm)
            simp only [hyp, if_false, Option.some.injEq] at hxy
            subst hxy
            simpa using hyp
          exact hnone
        | some a' =>
          simp only [List.find?_cons, hf a a' hfa, ha, decide_true]
      · simp only [hp, if_false]
        have hap : ¬ a.pat = p := fun e => hp (e.symm.trans ha)
        cases hfa : f a with
        | none =>
          simp only [List.find?_cons, hap, decide_false]
          have := ih hnd.2
          simpa [hp] using this
        | some a' =>
          have : ¬ a'.pat = p := by rw [hf a a' hfa]; exact hap
          simp only [List.find?_cons, this, hap, decide_false]
          have := ih hnd.2
          simpa [hp] using this
    · simp only [ha, if_false, List.find?_cons]
      by_cases hap : a.pat = p
      · have : ¬ p = pat := fun e => ha (hap.trans e)
        simp [hap, this]
      · simp only [hap, decide_false]
        exact ih hnd.2

/-- closed form of a successful `delPat` -/
theorem delPat_getNode (t t' : Table V) (pat : List PTok) (pr : V → Bool) (hnd : NodupPats t)
    (h : delPat t pat pr = some t') (p : List PTok) :
    getNode t' p =
      if p = pat then
        (getNode t pat).bind fun n =>
          let vs := n.values.filter (fun v => !pr v)
          if vs.isEmpty then none else some { n with values := vs }
      else getNode t p := by
  unfold delPat at h
  cases hg : getNode t pat with
  | none => simp [hg] at h
  | some n =>
    simp only [hg] at h
    by_cases ha : n.values.any pr
    · simp only [ha, if_true, Option.some.injEq] at h
      subst h
      rw [getNode_filterMap_upd t pat _ _ hnd]
      · by_cases hp : p = pat
        · subst hp; simp [hg]
        · simp [hp]
      · intro x x' hx
        by_cases he : (x.values.filter (fun v => !pr v)).isEmpty
        · simp [he] at hx
        · simp only [he] at hx
          simp only [Bool.false_eq_true, if_false, Option.some.injEq] at hx
          subst hx; rfl
    · simp [ha] at h

theorem delPat_some_iff (t : Table V) (pat : List PTok) (pr : V → Bool) :
    (∃ t', delPat t pat pr = some t') ↔ ∃ n, getNode t pat = some n ∧ n.values.any pr = true := by
  unfold delPat
  cases hg : getNode t pat with
  | none => simp
  | some n =>
    by_cases ha : n.values.any pr = true
    · simp only [ha, if_true]
      exact ⟨fun _ => ⟨n, rfl, ha⟩, fun _ => ⟨_, rfl⟩⟩
    · simp only [ha]
      constructor
      · rintro ⟨t', h⟩; cases h
      · rintro ⟨n', h1, h2⟩
        cases h1
        exact absurd h2 ha

theorem nodup_delPat (t t' : Table V) (pat : List PTok) (pr : V → Bool) (hnd : NodupPats t)
    (h : delPat t pat pr = some t') : NodupPats t' := by
  unfold delPat at h
  cases hg : getNode t pat with
  | none => simp [hg] at h
  | some n =>
    simp only [hg] at h
    by_cases ha : n.values.any pr
    · simp only [ha, if_true, Option.some.injEq] at h
      subst h
      unfold NodupPats at *
      refine List.Pairwise.filterMap _ ?_ hnd
      intro a b hab a' ha' b' hb'
      have e1 : a'.pat = a.pat := by
        by_cases hp : a.pat = pat
        · simp only [hp, if_true] at ha'
          by_cases he : (a.values.filter (fun v => !pr v)).isEmpty
          · simp [he] at ha'
          · simp only [he, Bool.false_eq_true, if_false, Option.some.injEq] at ha'; subst ha'; exact hp.symm
        · simp only [hp, if_false, Option.some.injEq] at ha'; subst ha'; rfl
      have e2 : b'.pat = b.pat := by
        by_cases hp : b.pat = pat
        · simp only [hp, if_true] at hb'
          by_cases he : (b.values.filter (fun v => !pr v)).isEmpty
          · simp [he] at hb'
          · simp only [he, Bool.false_eq_true, if_false, Option.some.injEq] at hb'; subst hb'; exact hp.symm
        · simp only [hp, if_false, Option.some.injEq] at hb'; subst hb'; rfl
      rw [e1, e2]; exact hab
    · simp [ha] at h

end Heimdall
