import HeimdallModel.Spec.SignerCache
import HeimdallModel.Lemmas.SignerStore
/-! Helper lemmas about the token cache of `jwtFinalizer.Execute` (C16): what every cache entry is, after any history -/
namespace Heimdall.Signer

variable {α : Type}

/-! ## the store -/

theorem Cache.get_some (c : Cache α) (k : CacheKey) (now : Int) (t : Token α) (h : c.get k now = some t) :
    ∃ e ∈ c, e.key = k ∧ e.tok = t ∧ now ≤ e.expiry := by
  unfold Cache.get Cache.find at h
  cases hf : List.find? (fun e => decide (e.key = k)) c with
  | none => simp [hf] at h
  | some e =>
    simp only [hf] at h
    split at h
    · rename_i hle
      cases h
      refine ⟨e, List.mem_of_find?_eq_some hf, ?_, rfl, hle⟩
      simpa using List.find?_some hf
    · cases h

theorem Cache.mem_set (c : Cache α) (k : CacheKey) (t : Token α) (ttl now : Int) (e : CEntry α)
    (h : e ∈ c.set k t ttl now) : e ∈ c ∨ (0 < ttl ∧ e.key = k ∧ e.tok = t ∧ e.expiry = now + ttl) := by
  unfold Cache.set at h
  split at h
  · rename_i hp
    simp only [List.mem_cons] at h
    rcases h with rfl | h
    · exact .inr ⟨hp, rfl, rfl, rfl⟩
    · exact .inl ((List.mem_filter.mp h).1)
  · exact .inl h

/-- an entry stored under a key is found under that key until it expires, and under no other key -/
theorem Cache.find_filter_ne (c : Cache α) (k k' : CacheKey) (hk : k' ≠ k) :
    List.find? (fun e => decide (e.key = k')) (List.filter (fun e => decide (e.key ≠ k)) c) =
      List.find? (fun e => decide (e.key = k')) c := by
  induction c with
  | nil => rfl
  | cons e rest ih =>
    by_cases he : e.key = k
    · have hne : ¬ e.key = k' := fun e' => hk (e'.symm.trans he)
      rw [List.filter_cons_of_neg (by simpa using he), List.find?_cons_of_neg (by simpa using hne)]
      exact ih
    · rw [List.filter_cons_of_pos (by simpa using he)]
      by_cases he' : e.key = k'
      · rw [List.find?_cons_of_pos (by simpa using he'), List.find?_cons_of_pos (by simpa using he')]
      · rw [List.find?_cons_of_neg (by simpa using he'), List.find?_cons_of_neg (by simpa using he')]
        exact ih

/-- an entry stored under a key is found under that key until it expires, and under no other key -/
theorem Cache.get_set (c : Cache α) (k k' : CacheKey) (t : Token α) (ttl now at_ : Int) (hp : 0 < ttl) :
    (c.set k t ttl now).get k' at_ =
      if k' = k then (if at_ ≤ now + ttl then some t else none) else c.get k' at_ := by
  unfold Cache.set Cache.get Cache.find
  rw [if_pos hp]
  by_cases hk : k' = k
  · subst hk
    rw [List.find?_cons_of_pos (by simp), if_pos rfl]
  · have hk' : ¬ k = k' := fun e => hk e.symm
    rw [List.find?_cons_of_neg (by simpa using hk'), if_neg hk, Cache.find_filter_ne c k k' hk]

/-! ## the invariant -/

/-- what a cache entry is: a token some consistent generation with the key's signer hash signed for the key's
subject and issuer with the key's TTL and the claims the key's template renders for the key's subject and outputs;
it leaves the cache at least `leeway − d` before the token expires, `d` being the time that passed between the
signer's and the cache's clock readings -/
def GoodEntry (render : Render α) (d : Int) (e : CEntry α) : Prop :=
  ∃ (st : State) (issuedNs : Int) (custom : Claims α),
    Consistent st ∧ e.key.signer.kid = st.jwk.kid ∧ e.key.signer.alg = st.jwk.alg ∧ e.key.signer.pub = st.jwk.pub ∧
    customFor render e.key.claims e.key.subject e.key.outputs = some custom ∧
    e.tok = sign st ⟨e.key.subject.id, e.key.signer.iss, issuedNs, e.key.ttlNs⟩ custom ∧
    e.expiry + leewayNs ≤ issuedNs + d + e.key.ttlNs ∧ leewayNs < e.key.ttlNs

structure CacheInv (render : Render α) (d : Int) (w : World α) : Prop where
  signers : ∀ s ∈ w.signers, Consistent s.st
  entries : ∀ e ∈ w.cache, GoodEntry render d e

theorem execute_spec (render : Render α) (d : Int) (w : World α) (hinv : CacheInv render d w) (x : Exec)
    (hd : x.setNs ≤ x.signNs + d) (t : Token α) (src : Source) (w' : World α)
    (h : execute render w x = some (t, src, w')) :
    Handout render d w x t src ∧ CacheInv render d w' := by
  unfold execute executeK at h
  cases hs : w.signers[x.signer]? with
  | none => simp [hs] at h
  | some s =>
    have hsm : s ∈ w.signers := List.mem_of_getElem? hs
    have hcs := hinv.signers s hsm
    simp only [hs, id] at h
    cases hg : w.cache.get (keyOf s x) x.getNs with
    | some t0 =>
      simp only [hg] at h
      cases h
      obtain ⟨e, hem, hk, ht, hle⟩ := Cache.get_some _ _ _ _ hg
      obtain ⟨st, issuedNs, custom, hc, h1, h2, h3, hr, htok, hexp, hl⟩ := hinv.entries e hem
      rw [hk] at h1 h2 h3 hr htok hexp hl
      refine ⟨⟨s, st, issuedNs, custom, hs, hcs, hc, ?_, ?_, h1.symm, h2.symm, h3.symm, ?_, ?_⟩, hinv⟩
      · exact hr
      · rw [← ht, htok]; rfl
      · intro hh; cases hh
      · intro _
        simp only [keyOf] at hexp hl
        exact ⟨by omega, hl⟩
    | none =>
      simp only [hg] at h
      cases hcu : customOf render x with
      | none => simp [hcu] at h
      | some custom =>
        simp only [hcu, Option.some.injEq, Prod.mk.injEq] at h
        obtain ⟨ht, hsrc, hw⟩ := h
        subst ht hsrc
        refine ⟨⟨s, s.st, x.signNs, custom, hs, hcs, hcs, hcu, rfl, rfl, rfl, rfl, fun _ => ⟨rfl, rfl⟩, ?_⟩, ?_⟩
        · intro hh; cases hh
        · split at hw
          · rename_i hl
            subst hw
            refine ⟨hinv.signers, ?_⟩
            intro e he
            rcases Cache.mem_set _ _ _ _ _ _ he with he | ⟨_, hk, htok, hexp⟩
            · exact hinv.entries e he
            · refine ⟨s.st, x.signNs, custom, hcs, ?_, ?_, ?_, ?_, ?_, ?_, ?_⟩
              · rw [hk]; rfl
              · rw [hk]; rfl
              · rw [hk]; rfl
              · rw [hk]; exact hcu
              · rw [htok, hk]; rfl
              · rw [hexp, hk]; simp only [keyOf]; omega
              · rw [hk]; exact hl
          · subst hw
            exact hinv

theorem reloadAt_inv (render : Render α) (d : Int) (w : World α) (hinv : CacheInv render d w) (i : Nat) (f : File) :
    CacheInv render d (reloadAt w i f) := by
  unfold reloadAt
  cases hs : w.signers[i]? with
  | none => simpa using hinv
  | some s =>
    refine ⟨?_, hinv.entries⟩
    intro s' hs'
    rcases List.mem_or_eq_of_mem_set hs' with h | rfl
    · exact hinv.signers s' h
    · exact reload_consistent _ _ _ (hinv.signers s (List.mem_of_getElem? hs))

theorem reloadAt_cache (w : World α) (i : Nat) (f : File) : (reloadAt w i f).cache = w.cache := by
  unfold reloadAt
  cases w.signers[i]? <;> rfl

theorem reloadAt_signer (w : World α) (i : Nat) (f : File) (s : SignerRec) (hs : w.signers[i]? = some s) :
    (reloadAt w i f).signers[i]? = some { s with st := reload s.keyID s.st f } := by
  unfold reloadAt
  have hlt : i < w.signers.length := by
    rcases Nat.lt_or_ge i w.signers.length with h | h
    · exact h
    · rw [List.getElem?_eq_none h] at hs; cases hs
  simp only [hs]
  rw [List.getElem?_set_self hlt]

/-- an execution overlapping a reload of its signer's key store (the reload commits between `Hash` and `Sign`), the
token being stored under the key of the state that signed it: a cached token is a token for this execution in the
world before the reload, a fresh one in the world after it -/
theorem executeDuring_spec (render : Render α) (d : Int) (w : World α) (hinv : CacheInv render d w) (x : Exec)
    (f : File) (hd : x.setNs ≤ x.signNs + d) (t : Token α) (src : Source) (w' : World α)
    (h : executeDuring render w x f = some (t, src, w')) :
    (src = .cached → Handout render d w x t src) ∧
    (src = .fresh → Handout render d (reloadAt w x.signer f) x t src) ∧ CacheInv render d w' := by
  unfold executeDuring executeDuringK at h
  cases hs : w.signers[x.signer]? with
  | none => simp [hs] at h
  | some s =>
    have hsm : s ∈ w.signers := List.mem_of_getElem? hs
    have hcs := hinv.signers s hsm
    have hinv1 := reloadAt_inv render d w hinv x.signer f
    simp only [hs, id] at h
    cases hg : w.cache.get (keyOf s x) x.getNs with
    | some t0 =>
      simp only [hg] at h
      cases h
      obtain ⟨e, hem, hk, ht, hle⟩ := Cache.get_some _ _ _ _ hg
      obtain ⟨st, issuedNs, custom, hc, h1, h2, h3, hr, htok, hexp, hl⟩ := hinv.entries e hem
      rw [hk] at h1 h2 h3 hr htok hexp hl
      refine ⟨fun _ => ⟨s, st, issuedNs, custom, hs, hcs, hc, hr, ?_, h1.symm, h2.symm, h3.symm, ?_, ?_⟩,
        (fun hh => by cases hh), hinv1⟩
      · rw [← ht, htok]; rfl
      · intro hh; cases hh
      · intro _
        simp only [keyOf] at hexp hl
        exact ⟨by omega, hl⟩
    | none =>
      simp only [hg] at h
      cases hcu : customOf render x with
      | none => simp [hcu] at h
      | some custom =>
        simp only [hcu, Option.some.injEq, Prod.mk.injEq, if_true] at h
        obtain ⟨ht, hsrc, hw⟩ := h
        subst ht hsrc
        have hcs' : Consistent (reload s.keyID s.st f) := reload_consistent _ _ _ hcs
        refine ⟨(fun hh => by cases hh), fun _ => ⟨{ s with st := reload s.keyID s.st f }, reload s.keyID s.st f, x.signNs,
          custom, reloadAt_signer w x.signer f s hs, hcs', hcs', hcu, rfl, rfl, rfl, rfl, fun _ => ⟨rfl, rfl⟩, ?_⟩, ?_⟩
        · intro hh; cases hh
        · split at hw
          · rename_i hl
            subst hw
            refine ⟨hinv1.signers, ?_⟩
            intro e he
            simp only [reloadAt_cache] at he
            rcases Cache.mem_set _ _ _ _ _ _ he with he | ⟨_, hk, htok, hexp⟩
            · exact hinv.entries e he
            · refine ⟨reload s.keyID s.st f, x.signNs, custom, hcs', ?_, ?_, ?_, ?_, ?_, ?_, ?_⟩
              · rw [hk]; rfl
              · rw [hk]; rfl
              · rw [hk]; rfl
              · rw [hk]; exact hcu
              · rw [htok, hk]; rfl
              · rw [hexp, hk]; simp only [keyOf]; omega
              · rw [hk]; exact hl
          · subst hw
            exact hinv1

theorem step_inv (render : Render α) (d : Int) (w : World α) (hinv : CacheInv render d w) (ev : Event)
    (hd : ∀ x, ev.execOf = some x → x.setNs ≤ x.signNs + d) : CacheInv render d (stepK {} render w ev) := by
  cases ev with
  | reload i f => exact reloadAt_inv render d w hinv i f
  | exec x =>
    simp only [stepK]
    cases hx : executeK {} render w x with
    | none => exact hinv
    | some r =>
      obtain ⟨t, src, w'⟩ := r
      exact (execute_spec render d w hinv x (hd x rfl) t src w' hx).2
  | execDuring x f =>
    simp only [stepK]
    cases hx : executeDuringK {} render w x f with
    | none => exact reloadAt_inv render d w hinv x.signer f
    | some r =>
      obtain ⟨t, src, w'⟩ := r
      exact (executeDuring_spec render d w hinv x f (hd x rfl) t src w' hx).2.2

theorem run_inv (render : Render α) (d : Int) (w : World α) (hinv : CacheInv render d w) (hist : List Event)
    (hd : DelayBound d hist) : CacheInv render d (run render w hist) := by
  unfold run runK
  induction hist generalizing w with
  | nil => exact hinv
  | cons ev rest ih =>
    simp only [List.foldl_cons]
    apply ih
    · exact step_inv render d w hinv ev (fun x hx => hd ev (List.mem_cons_self ..) x hx)
    · intro ev' hev'
      exact hd ev' (List.mem_cons_of_mem _ hev')

/-- verification looks at key id, algorithm and the public half of the signing key only -/
theorem verifiesFirst_congr (ks : List Jwk) (t t' : Token α) (hk : t.kid = t'.kid) (ha : t.alg = t'.alg)
    (hp : t.signedBy.pub = t'.signedBy.pub) : verifiesFirst ks t = verifiesFirst ks t' := by
  unfold verifiesFirst verifiesWith
  rw [hk, ha, hp]

end Heimdall.Signer
