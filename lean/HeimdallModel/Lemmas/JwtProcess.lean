import HeimdallModel.Model.JwtProcess
/-! Lemmas about the JWT authenticator among other mechanisms (`Model/JwtProcess.lean`): creating mechanisms leaves
the defaults of the process alone, hence the authenticator under test behaves as if it were alone. Core only. -/
namespace Heimdall.Jwt

theorem Process.create_defaults (p : Process) (n : Neighbour) : (p.create n).defaults = p.defaults := rfl

theorem Process.foldl_create_defaults (ns : List Neighbour) :
    ∀ p : Process, (ns.foldl Process.create p).defaults = p.defaults := by
  induction ns with
  | nil => intro p; rfl
  | cons n rest ih => intro p; simp only [List.foldl_cons]; rw [ih]; rfl

/-- with the documented defaults in the process, reading the configuration in the process changes nothing about
the assertions in force -/
theorem effective_inProcess (cfg : Config) (p : Process) (rule : Option Expectation) (mi : String)
    (h : p.defaults = Gen.defaultAllowed) :
    effective (cfg.inProcess p) rule mi = effective cfg rule mi := by
  unfold effective Config.inProcess
  simp only [h]
  by_cases hc : cfg.assertions.algs = []
  · by_cases hd : Gen.defaultAllowed = []
    · simp [hc, hd]
    · simp [hc, hd]
  · simp [hc]

theorem ok_inProcess (cfg : Config) (p : Process) : (cfg.inProcess p).ok = cfg.ok := rfl

theorem endpointOf_inProcess (cfg : Config) (p : Process) (kvs : List (String × Val)) :
    endpointOf (cfg.inProcess p) kvs = endpointOf cfg kvs := rfl

theorem resolveMetadata_inProcess (cfg : Config) (p : Process) (w : World) :
    resolveMetadata (cfg.inProcess p) w = resolveMetadata cfg w := rfl

theorem step_inProcess (cfg : Config) (p : Process) (rule : Option Expectation) (w : World) (cache : Cache)
    (pr : Presented) (nowMs : Int) (h : p.defaults = Gen.defaultAllowed) :
    step (cfg.inProcess p) rule w cache pr nowMs = step cfg rule w cache pr nowMs := by
  unfold step
  simp only [ok_inProcess, endpointOf_inProcess, resolveMetadata_inProcess, effective_inProcess _ _ _ _ h]
  rfl

/-- **Other mechanisms are invisible.**  Whatever is created in the process, at whatever moment: the requests of
the history are answered as by the authenticator alone -/
theorem runIn_eq_run (cfg : Config) (rule : Option Expectation) :
    ∀ (events : List Event) (p : Process) (cache : Cache), p.defaults = Gen.defaultAllowed →
      runIn cfg rule events p cache = run cfg rule (requestsOf events) cache
  | [], _, _, _ => rfl
  | .create n :: rest, p, cache, h => by
    simp only [runIn, requestsOf]
    exact runIn_eq_run cfg rule rest (p.create n) cache h
  | .request w pr now :: rest, p, cache, h => by
    simp only [runIn, requestsOf, run, step_inProcess _ _ _ _ _ _ _ h]
    rw [runIn_eq_run cfg rule rest p _ h]

end Heimdall.Jwt
