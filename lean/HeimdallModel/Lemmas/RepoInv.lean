import HeimdallModel.Lemmas.RepoDel
/-!
The repository invariant: the index holds exactly the routes of the known rules; it is kept by every applied
operation, and it implies that a fresh load of the known rules succeeds and yields the same nodes.
-/
namespace Heimdall

/-- the index holds exactly the routes of the known rules, consistently -/
def RepoInv (s : Repo) : Prop :=
  ∃ items : List Item, allItems s.known = items.map some ∧ Holds s.index items ∧ NodupPats s.index ∧
    Compatible items

theorem inv_empty : RepoInv Repo.empty :=
  ⟨[], rfl, holds_empty, List.Pairwise.nil, fun _ h => by cases h⟩

theorem map_some_inj {α} {a b : List α} (h : a.map some = b.map some) : a = b := by
  induction a generalizing b with
  | nil => cases b <;> simp_all
  | cons x xs ih =>
    cases b with
    | nil => simp at h
    | cons y ys =>
      simp only [List.map_cons, List.cons.injEq, Option.some.injEq] at h
      rw [h.1, ih h.2]

theorem allItems_append (a b : List Rule) : allItems (a ++ b) = allItems a ++ allItems b := by
  simp [allItems]

theorem inv_add (t : Table RVal) (known rs : List Rule) (items : List Item)
    (hk : allItems known = items.map some) (hh : Holds t items) (hnd : NodupPats t) (hc : Compatible items)
    (t' : Table RVal) (ha : addRules t rs = some t') : RepoInv ⟨known ++ rs, t'⟩ := by
  rw [addRules_eq] at ha
  obtain ⟨is, he, hh', hnd'⟩ := holds_addItems (allItems rs) hh hnd ha
  rw [he] at ha
  refine ⟨items ++ is, ?_, hh', hnd', compatible_of_addItems is hh hc ha⟩
  simp [allItems_append, hk, he]

theorem inv_remove (src : String) (s : Repo) (h : RepoInv s) (t' : Table RVal)
    (hr : removeRules s.index [] (s.known.filter (·.src == src)) = some t') :
    ∃ items, allItems (s.known.filter (·.src != src)) = items.map some ∧ Holds t' items ∧ NodupPats t' ∧
      Compatible items ∧ ∀ i ∈ items, i.val.src ≠ src := by
  obtain ⟨items, hk, hh, hnd, hc⟩ := h
  obtain ⟨hh', hnd'⟩ := holds_removeRules src s.index t' s.known items hk hh hnd hc hr
  refine ⟨items.filter (fun i => i.val.src != src), allItems_filter hk (fun x => x != src), hh', hnd',
    hc.sublist (fun x hx => (List.mem_filter.mp hx).1), ?_⟩
  intro i hi
  simpa using (List.mem_filter.mp hi).2

/-- every applied operation keeps the invariant -/
theorem inv_apply (s s' : Repo) (op : RepoOp) (h : RepoInv s) (ha : s.apply op = some s') : RepoInv s' := by
  cases op with
  | add src rules =>
    simp only [Repo.apply, Repo.addRuleSet] at ha
    cases hadd : addRules s.index (rules.map (Rule.mk src)) with
    | none => simp [hadd] at ha
    | some t =>
      simp only [hadd, Option.some.injEq] at ha
      subst ha
      obtain ⟨items, hk, hh, hnd, hc⟩ := h
      exact inv_add s.index s.known _ items hk hh hnd hc t hadd
  | upd src rules =>
    simp only [Repo.apply, Repo.updateRuleSet] at ha
    cases hrem : removeRules s.index [] (s.known.filter (·.src == src)) with
    | none => simp [hrem] at ha
    | some t1 =>
      simp only [hrem] at ha
      cases hadd : addRules t1 (rules.map (Rule.mk src)) with
      | none => simp [hadd] at ha
      | some t2 =>
        simp only [hadd, Option.some.injEq] at ha
        subst ha
        obtain ⟨items, hk, hh, hnd, hc, _⟩ := inv_remove src s h t1 hrem
        exact inv_add t1 _ _ items hk hh hnd hc t2 hadd
  | del src =>
    simp only [Repo.apply, Repo.deleteRuleSet] at ha
    cases hrem : removeRules s.index [] (s.known.filter (·.src == src)) with
    | none => simp [hrem] at ha
    | some t1 =>
      simp only [hrem, Option.some.injEq] at ha
      subst ha
      obtain ⟨items, hk, hh, hnd, hc, _⟩ := inv_remove src s h t1 hrem
      exact ⟨items, hk, hh, hnd, hc⟩

theorem inv_step (s : Repo) (op : RepoOp) (h : RepoInv s) : RepoInv (s.step op) := by
  unfold Repo.step
  cases ha : s.apply op with
  | none => simpa using h
  | some s' => simpa using inv_apply s s' op h ha

/-- **Invariant of every history.** -/
theorem inv_run (ops : List RepoOp) : RepoInv (Repo.run ops) := by
  unfold Repo.run
  suffices ∀ s, RepoInv s → RepoInv (ops.foldl Repo.step s) from this _ inv_empty
  induction ops with
  | nil => intro s h; exact h
  | cons op rest ih => intro s h; exact ih _ (inv_step s op h)

/-- **A fresh load succeeds and yields the same nodes.** Loading the currently known rules into an empty
repository succeeds, and the resulting index has, expression by expression, the same node as the index reached
through the history (same values in the same order, same wildcard names, same backtracking flag). -/
theorem fresh_of_inv (s : Repo) (h : RepoInv s) :
    ∃ t, addRules [] s.known = some t ∧ ∀ p, getNode t p = getNode s.index p := by
  obtain ⟨items, hk, hh, _, hc⟩ := h
  rw [addRules_eq, hk]
  obtain ⟨t, ht⟩ := addItems_ok_of_compatible (t := []) (items := []) items holds_empty (by simpa using hc)
  obtain ⟨is, he, hh', _⟩ := holds_addItems (items.map some) holds_empty List.Pairwise.nil ht
  have : is = items := (map_some_inj he).symm
  subst this
  refine ⟨t, ht, ?_⟩
  intro p
  rw [hh p]
  simpa using hh' p

end Heimdall
