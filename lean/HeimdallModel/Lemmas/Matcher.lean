import HeimdallModel.Model.Matcher
/-! Lemmas about the route matching conditions: the effective method list. -/
namespace Heimdall

theorem mem_insertSorted (x y : String) (l : List String) : y ∈ insertSorted x l ↔ y = x ∨ y ∈ l := by
  induction l with
  | nil => simp [insertSorted]
  | cons a l ih =>
    simp only [insertSorted]
    by_cases h : x ≤ a
    · simp [h]
    · simp only [h, if_false, List.mem_cons, ih]
      constructor
      · rintro (h1 | h1 | h1) <;> simp [h1]
      · rintro (h1 | h1 | h1) <;> simp [h1]

theorem mem_sortStrs (y : String) (l : List String) : y ∈ sortStrs l ↔ y ∈ l := by
  unfold sortStrs
  induction l with
  | nil => simp
  | cons a l ih => simp [List.foldr_cons, mem_insertSorted, ih]

theorem mem_compact (y : String) (l : List String) : y ∈ compact l ↔ y ∈ l := by
  induction l with
  | nil => simp [compact]
  | cons a l ih =>
    cases l with
    | nil => simp [compact]
    | cons b rest =>
      simp only [compact]
      by_cases h : a = b
      · subst h; simp only [if_true, ih]; simp
      · simp only [h, if_false, List.mem_cons, ih]

theorem isNeg_iff (s : String) : isNeg s = true ↔ ∃ r, s = "!" ++ r := by
  unfold isNeg
  constructor
  · intro h
    cases hl : s.toList with
    | nil => simp [hl] at h
    | cons c cs =>
      simp only [hl, List.head?_cons, beq_iff_eq, Option.some.injEq] at h
      subst h
      refine ⟨String.ofList cs, ?_⟩
      apply String.toList_injective
      simp [hl, String.toList_append]
  · rintro ⟨r, rfl⟩
    simp [String.toList_append]

theorem dropBang_bang (r : String) : dropBang ("!" ++ r) = r := by
  unfold dropBang
  have : isNeg ("!" ++ r) = true := (isNeg_iff _).mpr ⟨r, rfl⟩
  simp only [this, if_true]
  simp [String.toList_append]

theorem mem_filter_not_contains (x : String) (l tbr : List String) :
    x ∈ l.filter (fun s => !tbr.contains s) ↔ x ∈ l ∧ x ∉ tbr := by
  simp [List.mem_filter]

/-- **Effective method list**: `m` is accepted iff it is listed (directly or through `ALL`), is not itself a
negation, and is not excluded by `!m`. -/
theorem mem_mkMethods (l ms : List String) (h : mkMethods l = some ms) (m : String) :
    m ∈ ms ↔ m ∈ expandAll l ∧ isNeg m = false ∧ ("!" ++ m) ∉ expandAll l := by
  unfold mkMethods at h
  by_cases he : l.isEmpty
  · have : l = [] := by simpa using he
    subst this
    simp only [List.isEmpty_nil, if_true, Option.some.injEq] at h
    subst h
    simp [expandAll]
  · simp only [he, Bool.false_eq_true, if_false] at h
    by_cases hany : (compact (sortStrs (expandAll l))).any (·.isEmpty)
    · simp [hany] at h
    · simp only [hany, Bool.false_eq_true, if_false] at h
      split at h
      · cases h
      simp only [Option.some.injEq] at h
      subst h
      have hl2 : ∀ y, y ∈ compact (sortStrs (expandAll l)) ↔ y ∈ expandAll l := by
        intro y; rw [mem_compact, mem_sortStrs]
      rw [mem_filter_not_contains, mem_filter_not_contains, hl2]
      simp only [List.mem_filter, hl2, List.mem_map, not_and, not_exists, Bool.not_eq_true]
      constructor
      · rintro ⟨⟨h1, h2⟩, h3⟩
        have hneg : isNeg m = false := by
          cases hn : isNeg m with
          | false => rfl
          | true => exact absurd hn (by simpa using h2 h1)
        refine ⟨h1, hneg, ?_⟩
        intro hbang
        have := h3 ("!" ++ m) ⟨hbang, (isNeg_iff _).mpr ⟨m, rfl⟩⟩
        exact this (dropBang_bang m)
      · rintro ⟨h1, h2, h3⟩
        refine ⟨⟨h1, fun _ => h2⟩, ?_⟩
        intro x ⟨hx1, hx2⟩ hd
        obtain ⟨r, rfl⟩ := (isNeg_iff x).mp hx2
        rw [dropBang_bang] at hd
        subst hd
        exact h3 hx1

/-- a configured methods list never results in "any method": the effective list of a non-empty configuration is
non-empty (a list allowing nothing is a configuration error) -/
theorem mkMethods_nonempty (l ms : List String) (hl : l ≠ []) (h : mkMethods l = some ms) : ms ≠ [] := by
  unfold mkMethods at h
  have he : l.isEmpty = false := by cases l <;> simp_all
  simp only [he, Bool.false_eq_true, if_false] at h
  split at h
  · cases h
  split at h
  · cases h
  · rename_i hne
    simp only [Option.some.injEq] at h
    subst h
    intro hnil
    apply hne
    rw [hnil]
    rfl

end Heimdall
