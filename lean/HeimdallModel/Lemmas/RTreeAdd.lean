import HeimdallModel.Lemmas.RTreeRefine
/-!
# `RTree.add` preserves well-formedness and commutes with the abstraction
-/
namespace Heimdall
namespace RTree
variable {V : Type}

theorem addNode_nil (canAdd : List V → V → Bool) (v : V) (bt : Bool) (n : RTree V) (keys : List String)
    (inStatic : Bool) : addNode canAdd v bt n [] keys inStatic = addLeaf canAdd v bt n keys := by
  rw [addNode]

theorem addNode_cons (canAdd : List V → V → Bool) (v : V) (bt : Bool) (n : RTree V) (token : Char)
    (ptail : List Char) (keys : List String) (inStatic : Bool) :
    addNode canAdd v bt n (token :: ptail) keys inStatic =
    if !inStatic && token = '*' then addCatchAll canAdd v bt n ptail keys
    else if !inStatic && token = ':' then
      match addNode canAdd v bt (wildOf n) (afterSeg ptail) (keys ++ [String.ofList (segOf ptail)]) false with
      | .error e => .error e
      | .ok w' => .ok (setWild n w')
    else
      let st := staticTok inStatic token ptail
      match splitAtIdx n.statics st.1 with
      | some (pre, child, post) =>
        let sp := splitCommonPrefix child st.2.1
        let child2 := { sp.1 with priority := sp.1.priority + 1 }
        let rest := (token :: ptail).drop (sp.2 + st.2.2)
        if ¬ rest.length < (token :: ptail).length then .error .invalidPath else
        match addNode canAdd v bt child2 rest keys (st.1 != '/') with
        | .error e => .error e
        | .ok child' => .ok { n with statics := bubble (st.1, child') pre.reverse post }
      | none =>
        match addNode canAdd v bt ⟨st.2.1, 0, [], none, none, [], [], false⟩ (remOf token ptail) keys
            (st.1 != '/') with
        | .error e => .error e
        | .ok child' => .ok { touchBt n with statics := n.statics ++ [(st.1, child')] } := by
  rw [addNode]
  rfl

/-! ## list helpers -/

theorem splitAtIdx_some {l : List (Char × RTree V)} {c : Char} {pre post : List (Char × RTree V)} {ch : RTree V}
    (h : splitAtIdx l c = some (pre, ch, post)) : l = pre ++ (c, ch) :: post ∧ ∀ e ∈ pre, e.1 ≠ c := by
  induction l generalizing pre with
  | nil => simp [splitAtIdx] at h
  | cons e l ih =>
    obtain ⟨i, x⟩ := e
    unfold splitAtIdx at h
    by_cases hic : i = c
    · simp only [hic, if_true, Option.some.injEq, Prod.mk.injEq] at h
      obtain ⟨rfl, rfl, rfl⟩ := h
      exact ⟨by simp [hic], by simp⟩
    · simp only [hic, if_false] at h
      cases hs : splitAtIdx l c with
      | none => simp [hs] at h
      | some r =>
        obtain ⟨pre', x', post'⟩ := r
        simp only [hs, Option.some.injEq, Prod.mk.injEq] at h
        obtain ⟨rfl, rfl, rfl⟩ := h
        obtain ⟨h1, h2⟩ := ih hs
        refine ⟨by rw [h1]; rfl, ?_⟩
        intro e he
        rcases List.mem_cons.mp he with rfl | he
        · exact hic
        · exact h2 e he

theorem splitAtIdx_none {l : List (Char × RTree V)} {c : Char} (h : splitAtIdx l c = none) :
    ∀ e ∈ l, e.1 ≠ c := by
  induction l with
  | nil => intro e he; cases he
  | cons e l ih =>
    obtain ⟨i, x⟩ := e
    unfold splitAtIdx at h
    by_cases hic : i = c
    · simp [hic] at h
    · simp only [hic, if_false] at h
      cases hs : splitAtIdx l c with
      | none =>
        intro e he
        rcases List.mem_cons.mp he with rfl | he
        · exact hic
        · exact ih hs e he
      | some r => obtain ⟨a, b, c⟩ := r; simp [hs] at h

theorem bubble_perm (x : Char × RTree V) (revPre post : List (Char × RTree V)) :
    (bubble x revPre post).Perm (revPre.reverse ++ x :: post) := by
  induction revPre generalizing post with
  | nil => simp [bubble]
  | cons y r ih =>
    unfold bubble
    split
    · refine (ih (y :: post)).trans ?_
      simp only [List.reverse_cons, List.append_assoc, List.singleton_append]
      exact List.Perm.append_left _ (List.Perm.swap _ _ _)
    · exact List.Perm.refl _


theorem staticTok_slash' (inStatic : Bool) (ptail : List Char) : staticTok inStatic '/' ptail = ('/', ['/'], 0) := by
  unfold staticTok
  simp [isEscape]

theorem mem_bubble {x e : Char × RTree V} {revPre post : List (Char × RTree V)}
    (h : e ∈ bubble x revPre post) : e ∈ revPre.reverse ∨ e = x ∨ e ∈ post := by
  have := (bubble_perm x revPre post).mem_iff.mp h
  simpa only [List.mem_append, List.mem_cons] using this

/-! ## well-formedness of the pieces -/

theorem WFNode.congr {seg : Bool} {d : Nat} {t t' : RTree V} (h : WFNode seg d t)
    (hs : t'.statics = t.statics) (hw : t'.wild = t.wild) (hc : t'.catchAll = t.catchAll)
    (hv : t'.values = t.values) (hk : t'.keys = t.keys) : WFNode seg d t' := by
  obtain ⟨h1, h2, h3, h4, h5, h6, h7, h8, h9⟩ := h
  exact ⟨by rw [hw, hc]; exact h1, by rw [hv, hk]; exact h2, by rw [hv, hk]; exact h3, by rw [hs]; exact h4,
    by rw [hs]; exact h5, by rw [hs]; exact h6, by rw [hw]; exact h7, by rw [hc]; exact h8, by rw [hw]; exact h9⟩

theorem wfAt_congr {seg : Bool} {d : Nat} {t t' : RTree V} (h : wfAt seg d t = true)
    (hs : t'.statics = t.statics) (hw : t'.wild = t.wild) (hc : t'.catchAll = t.catchAll)
    (hv : t'.values = t.values) (hk : t'.keys = t.keys) : wfAt seg d t' = true :=
  (wfAt_iff _ _ _).mpr (((wfAt_iff _ _ _).mp h).congr hs hw hc hv hk)

theorem edge_seg {i : Char} {ch : RTree V} (h : edgeOk i ch = true) : (ch.path == ['/']) = !(i != '/') := by
  by_cases hi : i = '/'
  · subst hi; rw [edge_slash h]; rfl
  · have h0 := (edge_noslash h hi).1
    have h1 : (i != '/') = true := by simpa using hi
    have h2 : (ch.path == ['/']) = false := by simpa using h0
    rw [h1, h2]; rfl

theorem wf_newLeaf (seg : Bool) (d : Nat) (p : List Char) (k : Nat) (b : Bool) :
    wfAt seg d (⟨p, k, [], none, none, [], [], b⟩ : RTree V) = true := by
  rw [wfAt_iff]
  exact ⟨fun _ => ⟨rfl, rfl⟩, fun _ => rfl, fun h => absurd rfl h, List.Pairwise.nil,
    fun c hc => (by cases hc), fun c hc => (by cases hc), fun w hw => (by cases hw), fun c hc => (by cases hc),
    fun w hw => (by cases hw)⟩

theorem touchBt_fields (n : RTree V) : (touchBt n).path = n.path ∧ (touchBt n).statics = n.statics ∧
    (touchBt n).wild = n.wild ∧ (touchBt n).catchAll = n.catchAll ∧ (touchBt n).values = n.values ∧
    (touchBt n).keys = n.keys ∧ (touchBt n).priority = n.priority := by
  unfold touchBt; split <;> simp

theorem isEscape_cons {tok : List Char} (h : isEscape tok = true) :
    ∃ c r, tok = '\\' :: c :: r ∧ (c = '*' ∨ c = ':' ∨ c = '\\') := by
  unfold isEscape at h
  split at h
  · rename_i c r
    refine ⟨c, r, rfl, ?_⟩
    simp only [Bool.or_eq_true, decide_eq_true_eq] at h
    rcases h with (h | h) | h
    · exact Or.inl h
    · exact Or.inr (Or.inl h)
    · exact Or.inr (Or.inr h)
  · cases h

theorem staticTok_shape (inStatic : Bool) (token : Char) (ptail : List Char) :
    (∃ r, (staticTok inStatic token ptail).2.1 = (staticTok inStatic token ptail).1 :: r) ∧
    ((staticTok inStatic token ptail).2.1 = ['/'] ∨ '/' ∉ (staticTok inStatic token ptail).2.1) := by
  unfold staticTok
  by_cases ht : token = '/'
  · subst ht
    simp [isEscape]
  · simp only [ht, if_false]
    have hns : '/' ∉ token :: segOf ptail := by
      intro h
      rcases List.mem_cons.mp h with h | h
      · exact ht h.symm
      · exact slash_not_mem_segOf _ h
    split
    · rename_i he
      simp only [Bool.and_eq_true] at he
      obtain ⟨c, r, hcr, _⟩ := isEscape_cons he.2
      rw [hcr]
      refine ⟨⟨r, by simp⟩, Or.inr ?_⟩
      intro h
      apply hns
      rw [hcr]
      exact List.mem_cons_of_mem _ (by simpa using h)
    · exact ⟨⟨_, rfl⟩, Or.inr hns⟩

theorem commonPrefixLen_cons (a : Char) (x y : List Char) :
    commonPrefixLen (a :: x) (a :: y) = commonPrefixLen x y + 1 := by
  simp [commonPrefixLen]

theorem mem_of_mem_take {α} {a : α} {l : List α} {n : Nat} (h : a ∈ l.take n) : a ∈ l :=
  List.mem_of_mem_take h

theorem splitCommonPrefix_wf {i : Char} {child : RTree V} {d : Nat} (tok : List Char)
    (he : edgeOk i child = true) (hw : wfAt (child.path == ['/']) d child = true)
    (htok : ∃ r, tok = i :: r) (hts : tok = ['/'] ∨ '/' ∉ tok) :
    edgeOk i (splitCommonPrefix child tok).1 = true ∧
    wfAt ((splitCommonPrefix child tok).1.path == ['/']) d (splitCommonPrefix child tok).1 = true ∧
    0 < (splitCommonPrefix child tok).2 := by
  obtain ⟨⟨r, hr⟩, hcs⟩ := edge_path he
  have hlen : 0 < child.path.length := by rw [hr]; simp
  unfold splitCommonPrefix
  by_cases hp : child.path.isPrefixOf tok = true
  · rw [if_pos hp]; exact ⟨he, hw, hlen⟩
  · rw [if_neg hp]
    simp only
    cases hd : child.path.drop (commonPrefixLen child.path tok) with
    | nil => exact ⟨he, hw, hlen⟩
    | cons c r'' =>
      simp only
      obtain ⟨r', hr'⟩ := htok
      have hcpl : commonPrefixLen child.path tok = commonPrefixLen r r' + 1 := by
        rw [hr, hr', commonPrefixLen_cons]
      -- the token is not "/", otherwise the child's path would be "/" as well and a prefix
      have hi : i ≠ '/' := by
        intro hi
        subst hi
        have h1 := edge_slash he
        have h2 : tok = ['/'] := by
          rcases hts with h | h
          · exact h
          · exact absurd (by rw [hr']; simp) h
        apply hp; rw [h1, h2]; simp
      obtain ⟨hne, hns⟩ := edge_noslash he hi
      have htns : '/' ∉ tok := by
        rcases hts with h | h
        · rw [hr'] at h; injection h with h _; exact absurd h hi
        · exact h
      have hcr : '/' ∉ c :: r'' := by
        rw [← hd]; intro h; exact hns (List.mem_of_mem_drop h)
      have hc : c ≠ '/' := fun e => hcr (by simp [e])
      have hseg' : ((c :: r'') == ['/']) = false := by
        simp only [beq_eq_false_iff_ne, ne_eq, List.cons.injEq, not_and]
        intro e; exact absurd e hc
      have hsegc : (child.path == ['/']) = false := by simpa using hne
      rw [hsegc] at hw
      refine ⟨?_, ?_, by rw [hcpl]; omega⟩
      · rw [edgeOk_iff]
        refine ⟨⟨r'.take (commonPrefixLen r r'), ?_⟩, Or.inr ?_⟩
        · rw [hcpl, hr', List.take_succ_cons]
        · intro h; exact htns (List.mem_of_mem_take h)
      · have hpne : (List.take (commonPrefixLen child.path tok) tok == ['/']) = false := by
          simp only [beq_eq_false_iff_ne, ne_eq]
          intro e
          apply htns
          have : '/' ∈ List.take (commonPrefixLen child.path tok) tok := by rw [e]; simp
          exact List.mem_of_mem_take this
        simp only [hpne]
        rw [wfAt_iff]
        refine ⟨fun _ => ⟨rfl, rfl⟩, fun _ => rfl, fun h => absurd rfl h, by simp, ?_, ?_,
          fun w hw => (by cases hw), fun c hc => (by cases hc), fun w hw => (by cases hw)⟩
        · intro e he'
          simp only [List.mem_singleton] at he'
          subst he'
          rw [edgeOk_iff]
          exact ⟨⟨r'', rfl⟩, Or.inr hcr⟩
        · intro e he'
          simp only [List.mem_singleton] at he'
          subst he'
          simp only [hseg']
          exact wfAt_congr hw rfl rfl rfl rfl rfl


theorem isEmpty_false_iff {α} (l : List α) : l.isEmpty = false ↔ l ≠ [] := by
  cases l <;> simp

/-- inversion of a successful `addLeaf` -/
theorem addLeaf_ok {canAdd : List V → V → Bool} {v : V} {bt : Bool} {n n' : RTree V} {keys : List String}
    (h : addLeaf canAdd v bt n keys = .ok n') :
    ¬ (¬ keys.isEmpty ∧ ¬ n.keys.isEmpty ∧ n.keys ≠ keys) ∧ canAdd n.values v = true ∧
    n' = { n with keys := if keys.isEmpty then n.keys else keys, bt := bt, values := n.values ++ [v] } := by
  unfold addLeaf at h
  by_cases h1 : (¬ keys.isEmpty ∧ ¬ n.keys.isEmpty ∧ n.keys ≠ keys)
  · rw [if_pos h1] at h; cases h
  · rw [if_neg h1] at h
    by_cases h2 : ¬ canAdd n.values v = true
    · rw [if_pos h2] at h; cases h
    · rw [if_neg h2] at h
      injection h with h
      exact ⟨h1, Decidable.not_not.mp h2, h.symm⟩

theorem addLeaf_wf (canAdd : List V → V → Bool) (v : V) (bt : Bool) (seg : Bool) (d : Nat) (n n' : RTree V)
    (keys : List String) (hw : wfAt seg d n = true) (hk : keys.length = d)
    (h : addLeaf canAdd v bt n keys = .ok n') : wfAt seg d n' = true ∧ n'.path = n.path := by
  obtain ⟨_, _, rfl⟩ := addLeaf_ok h
  have W := (wfAt_iff _ _ _).mp hw
  refine ⟨?_, rfl⟩
  rw [wfAt_iff]
  refine ⟨W.hseg, ?_, ?_, W.hnodup, W.hedge, W.hst, W.hw, W.hc, W.hwo⟩
  · intro hv; simp at hv
  · intro _
    simp only
    split
    · rename_i hke
      have hk0 : keys = [] := by simpa using hke
      by_cases hv : n.values = []
      · rw [W.hkeys0 hv, ← hk, hk0]
      · exact W.hkeys hv
    · exact hk

/-- inversion of a successful `addCatchAll` -/
theorem addCatchAll_ok {canAdd : List V → V → Bool} {v : V} {bt : Bool} {n n' : RTree V} {ptail : List Char}
    {keys : List String} (h : addCatchAll canAdd v bt n ptail keys = .ok n') :
    afterSeg ptail = [] ∧ ptail = (catchOf n (segOf ptail)).path ∧
    ¬ (¬ (catchOf n (segOf ptail)).keys.isEmpty ∧
        (catchOf n (segOf ptail)).keys ≠ keys ++ [String.ofList (segOf ptail)]) ∧
    canAdd (catchOf n (segOf ptail)).values v = true ∧
    n' = setCatch n { catchOf n (segOf ptail) with
      keys := keys ++ [String.ofList (segOf ptail)], bt := bt,
      values := (catchOf n (segOf ptail)).values ++ [v] } := by
  unfold addCatchAll at h
  simp only at h
  by_cases h0 : ¬ (afterSeg ptail).isEmpty = true
  · rw [if_pos h0] at h; cases h
  rw [if_neg h0] at h
  by_cases h1 : ptail ≠ (catchOf n (segOf ptail)).path
  · rw [if_pos h1] at h; cases h
  rw [if_neg h1] at h
  by_cases h2 : (¬ (catchOf n (segOf ptail)).keys.isEmpty ∧
        (catchOf n (segOf ptail)).keys ≠ keys ++ [String.ofList (segOf ptail)])
  · rw [if_pos h2] at h; cases h
  rw [if_neg h2] at h
  by_cases h3 : ¬ canAdd (catchOf n (segOf ptail)).values v = true
  · rw [if_pos h3] at h; cases h
  rw [if_neg h3] at h
  injection h with h
  refine ⟨by simpa using h0, Decidable.not_not.mp h1, h2, Decidable.not_not.mp h3, h.symm⟩

theorem addCatchAll_wf (canAdd : List V → V → Bool) (v : V) (bt : Bool) (d : Nat) (n n' : RTree V)
    (ptail : List Char) (keys : List String) (hw : wfAt true d n = true) (hk : keys.length = d)
    (h : addCatchAll canAdd v bt n ptail keys = .ok n') : wfAt true d n' = true ∧ n'.path = n.path := by
  obtain ⟨hafter, hname, _, _, rfl⟩ := addCatchAll_ok h
  have W := (wfAt_iff _ _ _).mp hw
  have hT := touchBt_fields n
  have hseg : segOf ptail = ptail := by
    have := segOf_append_afterSeg ptail
    rw [hafter, List.append_nil] at this
    exact this
  unfold catchOf at hname
  unfold setCatch catchOf
  cases hca : n.catchAll with
  | none =>
    simp only
    refine ⟨?_, hT.1⟩
    rw [wfAt_iff]
    refine ⟨fun h => (by cases h), ?_, ?_, ?_, ?_, ?_, ?_, ?_, ?_⟩
    · simp only [hT.2.2.2.2.1, hT.2.2.2.2.2.1]; exact W.hkeys0
    · simp only [hT.2.2.2.2.1, hT.2.2.2.2.2.1]; exact W.hkeys
    · simp only [hT.2.1]; exact W.hnodup
    · simp only [hT.2.1]; exact W.hedge
    · simp only [hT.2.1]; exact W.hst
    · simp only [hT.2.2.1]; exact W.hw
    · intro ca hca'
      simp only [Option.some.injEq] at hca'
      subst hca'
      simp [catchOk, hasNoChildren, hk]
    · simp only [hT.2.2.1]; exact W.hwo
  | some ca =>
    simp only
    refine ⟨?_, trivial⟩
    have hco := W.hc ca hca
    rw [wfAt_iff]
    refine ⟨fun h => (by cases h), W.hkeys0, W.hkeys, W.hnodup, W.hedge, W.hst, W.hw, ?_, W.hwo⟩
    intro ca' hca'
    simp only [Option.some.injEq] at hca'
    subst hca'
    rw [hca] at hname
    simp only at hname
    unfold catchOk hasNoChildren at hco ⊢
    simp only [Bool.and_eq_true, Bool.not_eq_true', beq_iff_eq] at hco ⊢
    refine ⟨⟨⟨by simp, by simp [hk]⟩, ?_⟩, hco.2⟩
    rw [hseg, ← hname]
    simp


theorem remOf_length_lt (token : Char) (ptail : List Char) : (remOf token ptail).length < (token :: ptail).length := by
  have := afterSeg_length_le ptail
  unfold remOf
  simp only [List.length_cons]
  split <;> omega

theorem wildOf_wf {d : Nat} {n : RTree V} (hw : wfAt true d n = true) : wfAt true (d + 1) (wildOf n) = true := by
  unfold wildOf
  cases h : n.wild with
  | none => exact wf_newLeaf _ _ _ _ _
  | some w => exact ((wfAt_iff _ _ _).mp hw).hw w h

theorem setWild_wf {d : Nat} {n w' : RTree V} (hw : wfAt true d n = true) (hw' : wfAt true (d + 1) w' = true)
    (hwo' : wildOk w' = true) :
    wfAt true d (setWild n w') = true ∧ (setWild n w').path = n.path := by
  have W := (wfAt_iff _ _ _).mp hw
  have hT := touchBt_fields n
  unfold setWild
  cases h : n.wild with
  | none =>
    simp only
    refine ⟨?_, hT.1⟩
    rw [wfAt_iff]
    refine ⟨fun h => (by cases h), ?_, ?_, ?_, ?_, ?_, ?_, ?_, ?_⟩
    · simp only [hT.2.2.2.2.1, hT.2.2.2.2.2.1]; exact W.hkeys0
    · simp only [hT.2.2.2.2.1, hT.2.2.2.2.2.1]; exact W.hkeys
    · simp only [hT.2.1]; exact W.hnodup
    · simp only [hT.2.1]; exact W.hedge
    · simp only [hT.2.1]; exact W.hst
    · intro w hw; simp only [Option.some.injEq] at hw; subst hw; exact hw'
    · simp only [hT.2.2.2.1]; exact W.hc
    · intro w hw; simp only [Option.some.injEq] at hw; subst hw; exact hwo'
  | some w =>
    simp only
    refine ⟨?_, trivial⟩
    rw [wfAt_iff]
    refine ⟨fun h => (by cases h), W.hkeys0, W.hkeys, W.hnodup, W.hedge, W.hst, ?_, W.hc, ?_⟩
    · intro w hw; simp only [Option.some.injEq] at hw; subst hw; exact hw'
    · intro w hw; simp only [Option.some.injEq] at hw; subst hw; exact hwo'

theorem pairwise_fst_congr {l l' : List (Char × RTree V)} (h : l.map Prod.fst = l'.map Prod.fst)
    (hp : l.Pairwise (fun a b => a.1 ≠ b.1)) : l'.Pairwise (fun a b => a.1 ≠ b.1) := by
  have h1 : (l.map Prod.fst).Pairwise (· ≠ ·) := List.pairwise_map.mpr hp
  rw [h] at h1
  exact List.pairwise_map.mp h1

theorem wildOf_wildOk {d : Nat} {n : RTree V} (hw : wfAt true d n = true) : wildOk (wildOf n) = true := by
  unfold wildOf
  cases h : n.wild with
  | none => rfl
  | some w => exact ((wfAt_iff _ _ _).mp hw).hwo w h

theorem wildOk_iff (w : RTree V) :
    wildOk w = true ↔ w.wild = none ∧ w.catchAll = none ∧ ∀ e ∈ w.statics, e.1 = '/' := by
  unfold wildOk
  simp only [Bool.and_eq_true, Option.isNone_iff_eq_none, List.all_eq_true, beq_iff_eq, and_assoc]

/-- below a single wildcard only `/` or the end of the expression follows: the node stays a proper wildcard node -/
theorem addNode_wildOk (canAdd : List V → V → Bool) (v : V) (bt : Bool) {n n' : RTree V} {path : List Char}
    {keys : List String} (hwo : wildOk n = true) (hpath : path = [] ∨ ∃ r, path = '/' :: r)
    (h : addNode canAdd v bt n path keys false = .ok n') : wildOk n' = true := by
  rw [wildOk_iff] at hwo ⊢
  obtain ⟨h1, h2, h3⟩ := hwo
  rcases hpath with rfl | ⟨r, rfl⟩
  · rw [addNode_nil] at h
    obtain ⟨_, _, rfl⟩ := addLeaf_ok h
    exact ⟨h1, h2, h3⟩
  · rw [addNode_cons] at h
    rw [if_neg (by simp), if_neg (by simp)] at h
    simp only [staticTok_slash'] at h
    have hT := touchBt_fields n
    cases hsp : splitAtIdx n.statics '/' with
    | none =>
      rw [hsp] at h
      simp only at h
      split at h
      · cases h
      · injection h with h
        subst h
        refine ⟨by simp only [hT.2.2.1]; exact h1, by simp only [hT.2.2.2.1]; exact h2, ?_⟩
        intro e he
        simp only [List.mem_append, List.mem_singleton] at he
        rcases he with he | rfl
        · exact h3 e he
        · rfl
    | some x =>
      obtain ⟨pre, child, post⟩ := x
      rw [hsp] at h
      simp only at h
      obtain ⟨hst, _⟩ := splitAtIdx_some hsp
      split at h
      · cases h
      · split at h
        · cases h
        · injection h with h
          subst h
          refine ⟨h1, h2, ?_⟩
          intro e he
          have := mem_bubble he
          simp only [List.reverse_reverse] at this
          rcases this with h | h | h
          · exact h3 e (by rw [hst]; simp [h])
          · rw [h]
          · exact h3 e (by rw [hst]; simp [h])

/-- **`add` preserves well-formedness** (node level): the result of a successful `addNode` on a well-formed node is
well formed, and the node keeps its path -/
theorem addNode_wf (canAdd : List V → V → Bool) (v : V) (bt : Bool) :
    ∀ (k : Nat) (path : List Char), path.length = k → ∀ (n : RTree V) (keys : List String) (inStatic : Bool)
      (d : Nat) (n' : RTree V), wfAt (!inStatic) d n = true → keys.length = d →
      addNode canAdd v bt n path keys inStatic = .ok n' → wfAt (!inStatic) d n' = true ∧ n'.path = n.path := by
  intro k
  induction k using Nat.strongRecOn with
  | ind k ih =>
    intro path hlen n keys inStatic d n' hw hk h
    have W := (wfAt_iff _ _ _).mp hw
    cases path with
    | nil => rw [addNode_nil] at h; exact addLeaf_wf canAdd v bt _ d n n' keys hw hk h
    | cons token ptail =>
      rw [addNode_cons] at h
      by_cases hstar : (!inStatic && decide (token = '*')) = true
      · rw [if_pos hstar] at h
        have hin : inStatic = false := by
          cases inStatic with
          | false => rfl
          | true => simp at hstar
        subst hin
        exact addCatchAll_wf canAdd v bt d n n' ptail keys hw hk h
      · rw [if_neg hstar] at h
        by_cases hcol : (!inStatic && decide (token = ':')) = true
        · rw [if_pos hcol] at h
          have hin : inStatic = false := by
            cases inStatic with
            | false => rfl
            | true => simp at hcol
          subst hin
          cases hrec : addNode canAdd v bt (wildOf n) (afterSeg ptail)
              (keys ++ [String.ofList (segOf ptail)]) false with
          | error e => rw [hrec] at h; cases h
          | ok w' =>
            rw [hrec] at h
            injection h with h
            subst h
            have hl : (afterSeg ptail).length < k := by
              have := afterSeg_length_le ptail
              rw [← hlen, List.length_cons]; omega
            have := ih _ hl _ rfl (wildOf n) _ false (d + 1) w' (wildOf_wf hw) (by simp [hk]) hrec
            exact setWild_wf hw this.1 (addNode_wildOk canAdd v bt (wildOf_wildOk hw) (afterSeg_cases ptail) hrec)
        · rw [if_neg hcol] at h
          simp only at h
          obtain ⟨⟨tr, htr⟩, hts⟩ := staticTok_shape inStatic token ptail
          generalize staticTok inStatic token ptail = st at h htr hts
          obtain ⟨idx, tok, skip⟩ := st
          simp only at h htr hts
          cases hsp : splitAtIdx n.statics idx with
          | none =>
            rw [hsp] at h
            simp only at h
            cases hrec : addNode canAdd v bt ⟨tok, 0, [], none, none, [], [], false⟩ (remOf token ptail) keys
                (idx != '/') with
            | error e => rw [hrec] at h; cases h
            | ok child' =>
              rw [hrec] at h
              injection h with h
              subst h
              have hl : (remOf token ptail).length < k := by rw [← hlen]; exact remOf_length_lt _ _
              obtain ⟨hcw, hcp⟩ := ih _ hl _ rfl _ keys (idx != '/') d child' (wf_newLeaf _ _ _ _ _) hk hrec
              simp only at hcp
              have hT := touchBt_fields n
              have hce : edgeOk idx child' = true := by
                rw [edgeOk_iff, hcp]; exact ⟨⟨tr, htr⟩, hts⟩
              refine ⟨?_, hT.1⟩
              rw [wfAt_iff]
              refine ⟨?_, ?_, ?_, ?_, ?_, ?_, ?_, ?_, ?_⟩
              · simp only [hT.2.2.1, hT.2.2.2.1]; exact W.hseg
              · simp only [hT.2.2.2.2.1, hT.2.2.2.2.2.1]; exact W.hkeys0
              · simp only [hT.2.2.2.2.1, hT.2.2.2.2.2.1]; exact W.hkeys
              · simp only
                rw [List.pairwise_append]
                refine ⟨W.hnodup, by simp, ?_⟩
                intro a ha b hb
                simp only [List.mem_singleton] at hb
                subst hb
                exact splitAtIdx_none hsp a ha
              · intro e he
                simp only [List.mem_append, List.mem_singleton] at he
                rcases he with he | rfl
                · exact W.hedge e he
                · exact hce
              · intro e he
                simp only [List.mem_append, List.mem_singleton] at he
                rcases he with he | rfl
                · exact W.hst e he
                · simp only; rw [edge_seg hce]; exact hcw
              · simp only [hT.2.2.1]; exact W.hw
              · simp only [hT.2.2.2.1]; exact W.hc
              · simp only [hT.2.2.1]; exact W.hwo
          | some r =>
            obtain ⟨pre, child, post⟩ := r
            rw [hsp] at h
            simp only at h
            obtain ⟨hst, hpre⟩ := splitAtIdx_some hsp
            have hmem : (idx, child) ∈ n.statics := by rw [hst]; simp
            obtain ⟨he1, hw1, hpos⟩ := splitCommonPrefix_wf (d := d) tok (W.hedge _ hmem) (W.hst _ hmem)
              ⟨tr, htr⟩ hts
            by_cases hlt : ¬ ((token :: ptail).drop ((splitCommonPrefix child tok).2 + skip)).length
                < (token :: ptail).length
            · rw [if_pos hlt] at h; cases h
            · rw [if_neg hlt] at h
              cases hrec : addNode canAdd v bt
                  { (splitCommonPrefix child tok).1 with priority := (splitCommonPrefix child tok).1.priority + 1 }
                  ((token :: ptail).drop ((splitCommonPrefix child tok).2 + skip)) keys (idx != '/') with
              | error e => rw [hrec] at h; cases h
              | ok child' =>
                rw [hrec] at h
                injection h with h
                subst h
                have hl : ((token :: ptail).drop ((splitCommonPrefix child tok).2 + skip)).length < k := by
                  rw [← hlen]; exact Decidable.not_not.mp hlt
                have hw2 : wfAt (!(idx != '/')) d
                    { (splitCommonPrefix child tok).1 with
                      priority := (splitCommonPrefix child tok).1.priority + 1 } = true := by
                  rw [← edge_seg he1]
                  exact wfAt_congr hw1 rfl rfl rfl rfl rfl
                obtain ⟨hcw, hcp⟩ := ih _ hl _ rfl _ keys (idx != '/') d child' hw2 hk hrec
                simp only at hcp
                have hce : edgeOk idx child' = true := by
                  rw [edgeOk_iff, hcp]; exact (edgeOk_iff _ _).mp he1
                have hperm := bubble_perm (idx, child') pre.reverse post
                rw [List.reverse_reverse] at hperm
                have hmem' : ∀ e, e ∈ bubble (idx, child') pre.reverse post →
                    e ∈ n.statics ∨ e = (idx, child') := by
                  intro e he
                  have := hperm.mem_iff.mp he
                  simp only [List.mem_append, List.mem_cons] at this
                  rcases this with h1 | h1 | h1
                  · left; rw [hst]; simp [h1]
                  · right; exact h1
                  · left; rw [hst]; simp [h1]
                refine ⟨?_, rfl⟩
                rw [wfAt_iff]
                refine ⟨W.hseg, W.hkeys0, W.hkeys, ?_, ?_, ?_, W.hw, W.hc, W.hwo⟩
                · simp only
                  refine (hperm.pairwise_iff (fun {a b} (h : a.1 ≠ b.1) => h.symm)).mpr ?_
                  refine pairwise_fst_congr ?_ W.hnodup
                  rw [hst]; simp
                · intro e he
                  rcases hmem' e he with h1 | rfl
                  · exact W.hedge e h1
                  · exact hce
                · intro e he
                  rcases hmem' e he with h1 | rfl
                  · exact W.hst e h1
                  · simp only; rw [edge_seg hce]; exact hcw

/-- **(a) `add` preserves well-formedness.** -/
theorem add_wf (canAdd : List V → V → Bool) (t t' : RTree V) (expr : String) (v : V) (bt : Bool)
    (h : t.WF) (hadd : add canAdd t expr v bt = .ok t') : t'.WF :=
  (addNode_wf canAdd v bt _ _ rfl t [] false 0 t' h rfl hadd).1

/-! ## `getNode` on the pieces of the abstraction -/

theorem getNode_append (A B : Table V) (p : List PTok) : getNode (A ++ B) p = (getNode A p).or (getNode B p) := by
  unfold getNode; rw [List.find?_append]

theorem getNode_nil (p : List PTok) : getNode ([] : Table V) p = none := rfl

theorem getNode_some_iff {T : Table V} {p : List PTok} {nd : Node V} (h : getNode T p = some nd) :
    nd ∈ T ∧ nd.pat = p := ⟨getNode_mem h, getNode_some_pat h⟩

theorem getNode_eq_none_of_allStart {P : PTok → Prop} {T : Table V} (h : AllStart P T) {p : List PTok}
    (hp : ∀ q r, p = q :: r → ¬ P q) : getNode T p = none := by
  cases hg : getNode T p with
  | none => rfl
  | some nd =>
    obtain ⟨hm, hpat⟩ := getNode_some_iff hg
    obtain ⟨q, r, hq, hP⟩ := h nd hm
    exact absurd hP (hp q r (by rw [← hpat, hq]))

theorem getNode_map_pushAll_append (T : Table V) (ps p : List PTok) :
    getNode (T.map (pushAll ps)) (ps ++ p) = (getNode T p).map (pushAll ps) := by
  unfold getNode
  induction T with
  | nil => rfl
  | cons a T ih =>
    rw [List.map_cons, List.find?_cons, List.find?_cons]
    by_cases h : a.pat = p
    · simp [pushAll, h]
    · have : ¬ (pushAll ps a).pat = ps ++ p := by
        simp only [pushAll]; intro e; exact h (List.append_cancel_left e)
      simp only [this, h, decide_false]
      exact ih

theorem getNode_map_pushAll_none (T : Table V) (ps p : List PTok) (h : ¬ ps <+: p) :
    getNode (T.map (pushAll ps)) p = none := by
  cases hg : getNode (T.map (pushAll ps)) p with
  | none => rfl
  | some nd =>
    obtain ⟨hm, hpat⟩ := getNode_some_iff hg
    obtain ⟨n, _, rfl⟩ := List.mem_map.mp hm
    exact absurd ⟨n.pat, hpat⟩ h

/-- the effect of an update inside one component of a table -/
theorem getNode_upd_append (A X X' B : Table V) (pat : List PTok) (x : Node V)
    (hA : getNode A pat = none)
    (hX : ∀ p, getNode X' p = if p = pat then some x else getNode X p) :
    ∀ p, getNode (A ++ (X' ++ B)) p = if p = pat then some x else getNode (A ++ (X ++ B)) p := by
  intro p
  rw [getNode_append, getNode_append, getNode_append, getNode_append, hX]
  by_cases hp : p = pat
  · subst hp; simp [hA]
  · simp [hp]

theorem getNode_upd_map (T T' : Table V) (ps pat : List PTok) (x : Node V)
    (h : ∀ p, getNode T' p = if p = pat then some x else getNode T p) :
    ∀ p, getNode (T'.map (pushAll ps)) p =
      if p = ps ++ pat then some (pushAll ps x) else getNode (T.map (pushAll ps)) p := by
  intro p
  by_cases hpre : ps <+: p
  · obtain ⟨p', rfl⟩ := hpre
    rw [getNode_map_pushAll_append, getNode_map_pushAll_append, h]
    by_cases hp : p' = pat
    · subst hp; simp
    · have : ¬ ps ++ p' = ps ++ pat := fun e => hp (List.append_cancel_left e)
      simp [hp, this]
  · rw [getNode_map_pushAll_none _ _ _ hpre, getNode_map_pushAll_none _ _ _ hpre]
    have : ¬ p = ps ++ pat := fun e => hpre ⟨pat, e.symm⟩
    simp [this]


/-! ## which static child an expression belongs to -/

/-- the byte of the first literal of `p` behind the prefix `a` (`/` when the literal is `a` itself) -/
def routeOf (a : List Char) (p : List PTok) : Option Char :=
  match p with
  | .lit s :: _ => some ((s.toList.drop a.length).headD '/')
  | _ => none

theorem route_absChild {i : Char} {ch : RTree V} (he : edgeOk i ch = true) (acc : List Char) (nd : Node V)
    (hnd : nd ∈ absChild ch acc) : routeOf acc.reverse nd.pat = some i := by
  by_cases hi : i = '/'
  · subst hi
    rw [absChild_slash (edge_slash he)] at hnd
    obtain ⟨n, _, rfl⟩ := List.mem_map.mp hnd
    by_cases hacc : acc = []
    · subst hacc; simp [pushAll, flushP_nil, routeOf]
    · simp [pushAll, flushP_ne hacc, routeOf, String.toList_ofList]
  · obtain ⟨q, r, hq, x, hx⟩ := allStart_absChild_noslash he hi acc nd hnd
    obtain ⟨⟨r', hr'⟩, _⟩ := edge_path he
    rw [hq, hx, hr']
    simp [routeOf, String.toList_ofList]

theorem getNode_absChild_route {i : Char} {ch : RTree V} (he : edgeOk i ch = true) (acc : List Char)
    {p : List PTok} (hp : routeOf acc.reverse p ≠ some i) : getNode (absChild ch acc) p = none := by
  cases hg : getNode (absChild ch acc) p with
  | none => rfl
  | some nd =>
    obtain ⟨hm, hpat⟩ := getNode_some_iff hg
    exact absurd (hpat ▸ route_absChild he acc nd hm) hp

theorem getNode_absStatics_route (l : List (Char × RTree V)) (hedge : ∀ e ∈ l, edgeOk e.1 e.2 = true)
    (acc : List Char) {p : List PTok} (hp : ∀ e ∈ l, routeOf acc.reverse p ≠ some e.1) :
    getNode (absStatics l acc) p = none := by
  induction l with
  | nil => rw [absStatics_nil]; rfl
  | cons e l ih =>
    obtain ⟨i, ch⟩ := e
    rw [absStatics_cons, getNode_append,
      getNode_absChild_route (hedge (i, ch) List.mem_cons_self) acc (hp (i, ch) List.mem_cons_self),
      ih (fun e he => hedge e (List.mem_cons_of_mem _ he)) (fun e he => hp e (List.mem_cons_of_mem _ he))]
    rfl

theorem getNode_absStatics_iff (l : List (Char × RTree V)) (hedge : ∀ e ∈ l, edgeOk e.1 e.2 = true)
    (hnodup : l.Pairwise (fun a b => a.1 ≠ b.1)) (acc : List Char) (p : List PTok) (nd : Node V) :
    getNode (absStatics l acc) p = some nd ↔ ∃ e ∈ l, getNode (absChild e.2 acc) p = some nd := by
  induction l with
  | nil => rw [absStatics_nil]; simp [getNode_nil]
  | cons e l ih =>
    obtain ⟨i, ch⟩ := e
    rw [List.pairwise_cons] at hnodup
    have ih' := ih (fun e he => hedge e (List.mem_cons_of_mem _ he)) hnodup.2
    rw [absStatics_cons, getNode_append]
    constructor
    · intro h
      cases hc : getNode (absChild ch acc) p with
      | some x =>
        rw [hc] at h
        simp only [Option.some_or, Option.some.injEq] at h
        subst h
        exact ⟨(i, ch), List.mem_cons_self, hc⟩
      | none =>
        rw [hc] at h
        simp only [Option.none_or] at h
        obtain ⟨e, he, hg⟩ := ih'.mp h
        exact ⟨e, List.mem_cons_of_mem _ he, hg⟩
    · rintro ⟨e, he, hg⟩
      rcases List.mem_cons.mp he with rfl | he
      · rw [hg]; rfl
      · have hr : routeOf acc.reverse p = some e.1 := by
          obtain ⟨hm, hpat⟩ := getNode_some_iff hg
          exact hpat ▸ route_absChild (hedge e (List.mem_cons_of_mem _ he)) acc nd hm
        rw [getNode_absChild_route (hedge (i, ch) List.mem_cons_self) acc
          (by rw [hr]; intro h; injection h with h; exact hnodup.1 e he h.symm)]
        simp only [Option.none_or]
        exact ih'.mpr ⟨e, he, hg⟩

/-- the order of the static children is not observable through the abstraction -/
theorem getNode_absStatics_perm {l l' : List (Char × RTree V)} (hperm : l.Perm l')
    (hedge : ∀ e ∈ l, edgeOk e.1 e.2 = true) (hnodup : l.Pairwise (fun a b => a.1 ≠ b.1))
    (acc : List Char) (p : List PTok) : getNode (absStatics l acc) p = getNode (absStatics l' acc) p := by
  have hedge' : ∀ e ∈ l', edgeOk e.1 e.2 = true := fun e he => hedge e (hperm.mem_iff.mpr he)
  have hnodup' : l'.Pairwise (fun a b => a.1 ≠ b.1) :=
    (hperm.pairwise_iff (fun {a b} (h : a.1 ≠ b.1) => h.symm)).mp hnodup
  apply Option.ext
  intro nd
  rw [getNode_absStatics_iff l hedge hnodup, getNode_absStatics_iff l' hedge' hnodup']
  constructor
  · rintro ⟨e, he, hg⟩; exact ⟨e, hperm.mem_iff.mp he, hg⟩
  · rintro ⟨e, he, hg⟩; exact ⟨e, hperm.mem_iff.mpr he, hg⟩


/-! ## the expression `addNode` walks, seen from inside a static token -/

/-- pattern and wildcard names of the rest `cs` of an expression when the bytes `acc` (reversed) of the current
    static token have been consumed already; `patOf [] e.toList = parsePat e` -/
def patOf (acc cs : List Char) : Except PatErr (List PTok × List String) :=
  if acc = [] then parseToks (tokenizeAux cs [])
  else match parseToks (tokenizeAux (afterSeg cs) []) with
    | .error e => .error e
    | .ok (ps, ks) => .ok (.lit (String.ofList (acc.reverse ++ segOf cs)) :: ps, ks)

/-- result of the recursive step, lifted -/
def liftPat (pre : List PTok) (kpre : List String) (r : Except PatErr (List PTok × List String)) :
    Except PatErr (List PTok × List String) :=
  match r with
  | .error e => .error e
  | .ok (ps, ks) => .ok (pre ++ ps, kpre ++ ks)

theorem patOf_nil_eq (cs : List Char) : patOf [] cs = parseToks (tokenizeAux cs []) := by
  unfold patOf; rw [if_pos rfl]

theorem patOf_leaf (acc : List Char) : patOf acc [] = .ok (flushP acc, []) := by
  unfold patOf
  by_cases h : acc = []
  · subst h; rfl
  · rw [if_neg h, flushP_ne h]
    simp [afterSeg, segOf, tokenizeAux, flushSeg, parseToks]

theorem parseToks_sep (rest : List Tok) :
    parseToks (.sep :: rest) = liftPat [.lit "/"] [] (parseToks rest) := by
  rw [parseToks]
  cases parseToks rest with
  | error e => rfl
  | ok r => obtain ⟨ps, ks⟩ := r; rfl

theorem patOf_slash (acc r : List Char) :
    patOf acc ('/' :: r) = liftPat (flushP acc ++ [.lit "/"]) [] (patOf [] r) := by
  rw [patOf_nil_eq]
  unfold patOf
  by_cases h : acc = []
  · subst h
    rw [if_pos rfl]
    have : tokenizeAux ('/' :: r) [] = .sep :: tokenizeAux r [] := by simp [tokenizeAux, flushSeg]
    rw [this, parseToks_sep]; rfl
  · rw [if_neg h, afterSeg_slash, segOf_slash, flushP_ne h]
    have : tokenizeAux ('/' :: r) [] = .sep :: tokenizeAux r [] := by simp [tokenizeAux, flushSeg]
    rw [this, parseToks_sep]
    cases parseToks (tokenizeAux r []) with
    | error e => rfl
    | ok x => obtain ⟨ps, ks⟩ := x; simp [liftPat]

theorem segOf_append_noslash (x rest : List Char) (hx : '/' ∉ x) : segOf (x ++ rest) = x ++ segOf rest := by
  induction x with
  | nil => rfl
  | cons a x ih =>
    have ha : a ≠ '/' := fun e => hx (by simp [e])
    rw [List.cons_append, segOf_cons_ne ha, ih (fun h => hx (List.mem_cons_of_mem _ h))]; rfl

theorem afterSeg_append_noslash (x rest : List Char) (hx : '/' ∉ x) : afterSeg (x ++ rest) = afterSeg rest := by
  induction x with
  | nil => rfl
  | cons a x ih =>
    have ha : a ≠ '/' := fun e => hx (by simp [e])
    rw [List.cons_append, afterSeg_cons_ne ha, ih (fun h => hx (List.mem_cons_of_mem _ h))]

/-- consuming bytes of the current static token does not change the expression -/
theorem patOf_consume (acc x rest : List Char) (hacc : acc ≠ []) (hx : '/' ∉ x) :
    patOf acc (x ++ rest) = patOf (x.reverse ++ acc) rest := by
  unfold patOf
  rw [if_neg hacc, if_neg (by simp [hacc]), segOf_append_noslash x rest hx, afterSeg_append_noslash x rest hx]
  simp

theorem afterSeg_idem (cs : List Char) : afterSeg (afterSeg cs) = afterSeg cs := by
  rcases afterSeg_cases cs with h | ⟨r, h⟩
  · rw [h]; rfl
  · rw [h, afterSeg_slash]

theorem segOf_afterSeg (cs : List Char) : segOf (afterSeg cs) = [] := by
  rcases afterSeg_cases cs with h | ⟨r, h⟩
  · rw [h]; rfl
  · rw [h, segOf_slash]

theorem tokenizeAux_cons_ne {c : Char} (hc : c ≠ '/') (r : List Char) :
    tokenizeAux (c :: r) [] = .seg (String.ofList (c :: segOf r)) :: tokenizeAux (afterSeg r) [] := by
  rw [tokenizeAux_seg, tokenizeAux_flush _ _ (by rw [segOf_cons_ne hc]; simp) (afterSeg_cases _),
    segOf_cons_ne hc, afterSeg_cons_ne hc]
  simp

theorem classifySeg_wild (x : List Char) :
    classifySeg (String.ofList (':' :: x)) = (.wild, some (String.ofList x)) := by
  unfold classifySeg
  rw [String.toList_ofList]
  rfl

theorem classifySeg_catch (x : List Char) :
    classifySeg (String.ofList ('*' :: x)) = (.catchAll, some (String.ofList x)) := by
  unfold classifySeg
  rw [String.toList_ofList]
  rfl

theorem patOf_wild (r : List Char) :
    patOf [] (':' :: r) = liftPat [.wild] [String.ofList (segOf r)] (patOf [] (afterSeg r)) := by
  rw [patOf_nil_eq, patOf_nil_eq, tokenizeAux_cons_ne (by decide), parseToks, classifySeg_wild]
  simp only
  cases parseToks (tokenizeAux (afterSeg r) []) with
  | error e => rfl
  | ok x => obtain ⟨ps, ks⟩ := x; rfl

theorem tokenizeAux_afterSeg_isEmpty (r : List Char) :
    (tokenizeAux (afterSeg r) []).isEmpty = (afterSeg r).isEmpty := by
  rcases afterSeg_cases r with h | ⟨x, h⟩
  · rw [h]; rfl
  · rw [h]; simp [tokenizeAux, flushSeg]

theorem patOf_catch (r : List Char) :
    patOf [] ('*' :: r) =
      if (afterSeg r).isEmpty then .ok ([.catchAll], [String.ofList (segOf r)])
      else .error .slashAfterFreeWildcard := by
  rw [patOf_nil_eq, tokenizeAux_cons_ne (by decide), parseToks, classifySeg_catch]
  simp only [tokenizeAux_afterSeg_isEmpty]
  rfl


theorem classifySeg_lit (token : Char) (x : List Char) (h1 : token ≠ ':') (h2 : token ≠ '*') :
    classifySeg (String.ofList (token :: x)) =
      (.lit (String.ofList (if isEscape (token :: x) then x else token :: x)), none) := by
  unfold classifySeg
  rw [String.toList_ofList]
  split
  · rename_i r heq; injection heq with h _; exact absurd h h1
  · rename_i r heq; injection heq with h _; exact absurd h h2
  · rename_i c r heq
    injection heq with h hx
    subst h hx
    by_cases hc : c = '*' ∨ c = ':' ∨ c = '\\'
    · rw [if_pos hc]
      have : isEscape ('\\' :: c :: r) = true := by
        simp only [isEscape, Bool.or_eq_true, decide_eq_true_eq]
        rcases hc with h | h | h
        · exact Or.inl (Or.inl h)
        · exact Or.inl (Or.inr h)
        · exact Or.inr h
      rw [this]; rfl
    · rw [if_neg hc]
      have : isEscape ('\\' :: c :: r) = false := by
        simp only [isEscape, Bool.or_eq_false_iff, decide_eq_false_iff_not]
        exact ⟨⟨fun h => hc (Or.inl h), fun h => hc (Or.inr (Or.inl h))⟩, fun h => hc (Or.inr (Or.inr h))⟩
      rw [this]; rfl
  · rename_i hn1 hn2 hn3
    have : isEscape (token :: x) = false := by
      unfold isEscape
      split
      · rename_i c r heq
        exact absurd heq (hn3 c r)
      · rfl
    rw [this]; rfl

theorem staticTok_slash (inStatic : Bool) (ptail : List Char) : staticTok inStatic '/' ptail = ('/', ['/'], 0) := by
  unfold staticTok
  simp [isEscape]

theorem staticTok_true {token : Char} (ht : token ≠ '/') (ptail : List Char) :
    staticTok true token ptail = (token, token :: segOf ptail, 0) := by
  unfold staticTok
  simp [ht]

theorem staticTok_false {token : Char} (ht : token ≠ '/') (ptail : List Char) :
    staticTok false token ptail =
      if isEscape (token :: segOf ptail) then ((segOf ptail).headD token, segOf ptail, 1)
      else (token, token :: segOf ptail, 0) := by
  unfold staticTok
  simp [ht]

/-- the bytes behind the dropped backslash: the token text, then the rest of the path -/
theorem staticTok_drop (inStatic : Bool) {token : Char} (ht : token ≠ '/') (ptail : List Char) :
    (token :: ptail).drop (staticTok inStatic token ptail).2.2 =
      (staticTok inStatic token ptail).2.1 ++ afterSeg ptail := by
  have hp : token :: ptail = token :: (segOf ptail ++ afterSeg ptail) := by rw [segOf_append_afterSeg]
  cases inStatic with
  | true => rw [staticTok_true ht]; simp only [List.drop_zero]; exact hp
  | false =>
    rw [staticTok_false ht]
    split
    · simp only [List.drop_succ_cons, List.drop_zero]; exact (segOf_append_afterSeg ptail).symm
    · simp only [List.drop_zero]; exact hp

theorem staticTok_noslash (inStatic : Bool) {token : Char} (ht : token ≠ '/') (ptail : List Char) :
    '/' ∉ (staticTok inStatic token ptail).2.1 ∧ (staticTok inStatic token ptail).2.1 ≠ [] := by
  obtain ⟨⟨r, hr⟩, hs⟩ := staticTok_shape inStatic token ptail
  refine ⟨?_, by rw [hr]; simp⟩
  rcases hs with h | h
  · -- the token text is "/" only for the token '/'
    exfalso
    cases inStatic with
    | true => rw [staticTok_true ht] at h; injection h with h _; exact ht h
    | false =>
      rw [staticTok_false ht] at h
      split at h
      · have := slash_not_mem_segOf ptail
        simp only at h
        rw [h] at this; simp at this
      · injection h with h _; exact ht h
  · exact h

theorem patOf_afterSeg (acc cs : List Char) (hacc : acc ≠ []) :
    patOf acc (afterSeg cs) =
      liftPat [.lit (String.ofList acc.reverse)] [] (parseToks (tokenizeAux (afterSeg cs) [])) := by
  unfold patOf
  rw [if_neg hacc, afterSeg_idem, segOf_afterSeg, List.append_nil]
  cases parseToks (tokenizeAux (afterSeg cs) []) with
  | error e => rfl
  | ok x => obtain ⟨ps, ks⟩ := x; rfl

/-- the static token at the head of the path, consumed as a whole -/
theorem patOf_static (inStatic : Bool) (acc : List Char) {token : Char} (ptail : List Char) (ht : token ≠ '/')
    (h1 : ¬ (!inStatic && decide (token = '*')) = true) (h2 : ¬ (!inStatic && decide (token = ':')) = true)
    (hacc0 : inStatic = false → acc = []) (hacc1 : inStatic = true → acc ≠ []) :
    patOf acc (token :: ptail) =
      patOf ((staticTok inStatic token ptail).2.1.reverse ++ acc) (afterSeg ptail) := by
  cases inStatic with
  | true =>
    rw [staticTok_true ht]
    have hp : token :: ptail = (token :: segOf ptail) ++ afterSeg ptail := by
      rw [List.cons_append, segOf_append_afterSeg]
    conv => lhs; rw [hp]
    refine patOf_consume acc _ _ (hacc1 rfl) ?_
    intro h
    rcases List.mem_cons.mp h with h | h
    · exact ht h.symm
    · exact slash_not_mem_segOf _ h
  | false =>
    have hacc := hacc0 rfl
    subst hacc
    have hc1 : token ≠ '*' := by simpa using h1
    have hc2 : token ≠ ':' := by simpa using h2
    obtain ⟨_, hne⟩ := staticTok_noslash false ht ptail
    rw [List.append_nil, patOf_afterSeg _ _ (by simpa using hne), List.reverse_reverse,
      patOf_nil_eq, tokenizeAux_cons_ne ht, parseToks, classifySeg_lit token _ hc2 hc1, staticTok_false ht]
    by_cases he : isEscape (token :: segOf ptail) = true
    · simp only [he, if_true]
      cases parseToks (tokenizeAux (afterSeg ptail) []) with
      | error e => rfl
      | ok x => obtain ⟨ps, ks⟩ := x; rfl
    · simp only [he, Bool.false_eq_true, if_false]
      cases parseToks (tokenizeAux (afterSeg ptail) []) with
      | error e => rfl
      | ok x => obtain ⟨ps, ks⟩ := x; rfl


/-! ## the specification of one `Add` on tables, in closed form -/

section spec
variable (canAdd : List V → V → Bool) (v : V) (bt : Bool)

/-- the node at `pat` after `addPat`, or its error -/
def addSpec (T : Table V) (pat : List PTok) (keys : List String) : Except AddErr (Node V) :=
  match getNode T pat with
  | none => if canAdd [] v then .ok ⟨pat, keys, [v], bt⟩ else .error .constraint
  | some nd =>
    if nd.keys ≠ keys then .error .ambiguousKeys
    else if ¬ canAdd nd.values v then .error .constraint
    else .ok { nd with values := nd.values ++ [v], bt := bt }

/-- `T'` is `T` with the node at `pat` replaced by `x` -/
def Upd (T T' : Table V) (pat : List PTok) (x : Node V) : Prop :=
  ∀ p, getNode T' p = if p = pat then some x else getNode T p

/-- the result `r` of `addNode` on a node with abstraction `T`, for the expression `pr` -/
def AddRel (r : Except AddErr (RTree V)) (T : Table V) (pr : Except PatErr (List PTok × List String))
    (keys : List String) (absf : RTree V → Table V) : Prop :=
  match pr with
  | .error _ => r = .error .invalidPath
  | .ok (pat, ks) =>
    match addSpec canAdd v bt T pat (keys ++ ks) with
    | .error e => r = .error e
    | .ok x => ∃ n', r = .ok n' ∧ Upd T (absf n') pat x

theorem Upd.congr_right {T T' T'' : Table V} {pat : List PTok} {x : Node V} (h : Upd T T' pat x)
    (he : ∀ p, getNode T'' p = getNode T' p) : Upd T T'' pat x := by
  intro p; rw [he, h]

theorem addSpec_lift (T T_c : Table V) (ps pat_c : List PTok) (keys : List String)
    (hget : getNode T (ps ++ pat_c) = (getNode T_c pat_c).map (pushAll ps)) :
    addSpec canAdd v bt T (ps ++ pat_c) keys =
      match addSpec canAdd v bt T_c pat_c keys with
      | .error e => .error e
      | .ok x => .ok (pushAll ps x) := by
  unfold addSpec
  rw [hget]
  cases getNode T_c pat_c with
  | none =>
    simp only [Option.map_none]
    split <;> rfl
  | some nd =>
    simp only [Option.map_some, pushAll]
    split
    · rfl
    · split <;> rfl

/-- the parent's result from the child's -/
def mapOk (g : RTree V → RTree V) : Except AddErr (RTree V) → Except AddErr (RTree V)
  | .error e => .error e
  | .ok c => .ok (g c)

/-- lifting the statement about the recursive call to the parent -/
theorem AddRel.lift {r_c : Except AddErr (RTree V)} {T_c T : Table V}
    {pr_c : Except PatErr (List PTok × List String)} {keys kpre : List String} {ps : List PTok}
    {absf_c absf : RTree V → Table V} (g : RTree V → RTree V)
    (hrel : AddRel canAdd v bt r_c T_c pr_c (keys ++ kpre) absf_c)
    (hget : ∀ pat_c ks, pr_c = .ok (pat_c, ks) →
      getNode T (ps ++ pat_c) = (getNode T_c pat_c).map (pushAll ps))
    (hupd : ∀ pat_c ks c' x, pr_c = .ok (pat_c, ks) → r_c = .ok c' → Upd T_c (absf_c c') pat_c x →
      Upd T (absf (g c')) (ps ++ pat_c) (pushAll ps x)) :
    AddRel canAdd v bt (mapOk g r_c) T (liftPat ps kpre pr_c) keys absf := by
  cases pr_c with
  | error e =>
    simp only [AddRel] at hrel
    subst hrel
    simp [AddRel, liftPat, mapOk]
  | ok pk =>
    obtain ⟨pat_c, ks⟩ := pk
    simp only [AddRel, liftPat] at hrel ⊢
    rw [addSpec_lift canAdd v bt T T_c ps pat_c _ (hget pat_c ks rfl), ← List.append_assoc]
    cases hs : addSpec canAdd v bt T_c pat_c (keys ++ kpre ++ ks) with
    | error e =>
      rw [hs] at hrel
      simp only at hrel ⊢
      subst hrel; rfl
    | ok x =>
      rw [hs] at hrel
      simp only at hrel ⊢
      obtain ⟨c', rfl, hu⟩ := hrel
      exact ⟨g c', rfl, hupd pat_c ks c' x rfl rfl hu⟩

theorem getNode_comp (A B T_c : Table V) (ps pat_c : List PTok)
    (hA : getNode A (ps ++ pat_c) = none) (hB : getNode B (ps ++ pat_c) = none) :
    getNode (A ++ (T_c.map (pushAll ps) ++ B)) (ps ++ pat_c) = (getNode T_c pat_c).map (pushAll ps) := by
  rw [getNode_append, getNode_append, hA, hB, getNode_map_pushAll_append]
  cases getNode T_c pat_c <;> rfl

theorem upd_comp (A B T_c T_c' : Table V) (ps pat_c : List PTok) (x : Node V)
    (hA : getNode A (ps ++ pat_c) = none) (h : Upd T_c T_c' pat_c x) :
    Upd (A ++ (T_c.map (pushAll ps) ++ B)) (A ++ (T_c'.map (pushAll ps) ++ B)) (ps ++ pat_c) (pushAll ps x) :=
  getNode_upd_append A _ _ B _ _ hA (getNode_upd_map T_c T_c' ps pat_c x h)

end spec


/-! ## structure of the abstraction under the updates of `addNode` -/

theorem absStatics_append (l1 l2 : List (Char × RTree V)) (acc : List Char) :
    absStatics (l1 ++ l2) acc = absStatics l1 acc ++ absStatics l2 acc := by
  induction l1 with
  | nil => rw [absStatics_nil]; rfl
  | cons e l ih => obtain ⟨i, ch⟩ := e; rw [List.cons_append, absStatics_cons, absStatics_cons, ih, List.append_assoc]

theorem absAux_congr {t t' : RTree V} (hs : t'.statics = t.statics) (hw : t'.wild = t.wild)
    (hc : t'.catchAll = t.catchAll) (hv : t'.values = t.values) (hk : t'.keys = t.keys) (hb : t'.bt = t.bt)
    (acc : List Char) : absAux t' acc = absAux t acc := by
  rw [absAux_eq, absAux_eq, hs, hw, hc]
  unfold absOwn
  rw [hv, hk, hb]

theorem absAux_newLeaf (p : List Char) (k : Nat) (b : Bool) (acc : List Char) :
    absAux (⟨p, k, [], none, none, [], [], b⟩ : RTree V) acc = [] := by
  rw [absAux_eq]
  simp [absOwn, absStatics_nil, absWild_none, absCatch]

theorem absOwn_touchBt (n : RTree V) (acc : List Char) : absOwn (touchBt n) acc = absOwn n acc := by
  unfold touchBt absOwn
  by_cases h : n.values.isEmpty = true
  · simp [h]
  · simp [h]

theorem take_commonPrefixLen (a b : List Char) :
    b.take (commonPrefixLen a b) = a.take (commonPrefixLen a b) := by
  induction a generalizing b with
  | nil => simp [commonPrefixLen]
  | cons x a ih =>
    cases b with
    | nil => simp [commonPrefixLen]
    | cons y b =>
      unfold commonPrefixLen
      by_cases h : x = y
      · subst h; simp [ih]
      · simp [h]

theorem commonPrefixLen_le (a b : List Char) : commonPrefixLen a b ≤ b.length := by
  induction a generalizing b with
  | nil => simp [commonPrefixLen]
  | cons x a ih =>
    cases b with
    | nil => simp [commonPrefixLen]
    | cons y b =>
      unfold commonPrefixLen
      by_cases h : x = y
      · subst h; simp only [if_true, List.length_cons]; have := ih b; omega
      · simp [h]

/-- the node taking the child's place stands for the same table, and its path is the consumed prefix of the
    token -/
theorem splitCommonPrefix_abs {i : Char} {child : RTree V} (tok : List Char) (he : edgeOk i child = true)
    (hi : i ≠ '/') (acc : List Char) :
    absAux (splitCommonPrefix child tok).1 ((splitCommonPrefix child tok).1.path.reverse ++ acc) =
      absAux child (child.path.reverse ++ acc) ∧
    ((splitCommonPrefix child tok).1.path = child.path ∨
      (splitCommonPrefix child tok).1.path = tok.take (splitCommonPrefix child tok).2) := by
  obtain ⟨hne, hns⟩ := edge_noslash he hi
  unfold splitCommonPrefix
  by_cases hp : child.path.isPrefixOf tok = true
  · rw [if_pos hp]; exact ⟨rfl, Or.inl rfl⟩
  · rw [if_neg hp]
    simp only
    cases hd : child.path.drop (commonPrefixLen child.path tok) with
    | nil => exact ⟨rfl, Or.inl rfl⟩
    | cons c r =>
      simp only
      refine ⟨?_, Or.inr trivial⟩
      have hcr : '/' ∉ c :: r := by rw [← hd]; intro h; exact hns (List.mem_of_mem_drop h)
      have hne' : (c :: r) ≠ ['/'] := by
        intro e; apply hcr; rw [e]; simp
      rw [absAux_eq]
      simp only [absOwn, List.isEmpty_nil, if_true, absStatics_cons, absStatics_nil, absWild_none, absCatch,
        List.nil_append, List.append_nil]
      rw [absChild_noslash (by simpa using hne')]
      simp only
      have hpath : (c :: r).reverse ++ ((List.take (commonPrefixLen child.path tok) tok).reverse ++ acc) =
          child.path.reverse ++ acc := by
        rw [take_commonPrefixLen, ← List.append_assoc, ← List.reverse_append, ← hd, List.take_append_drop]
      rw [hpath]
      exact absAux_congr (t := child) (t' := { child with path := c :: r }) rfl rfl rfl rfl rfl rfl _


theorem getNode_absChild_flush {i : Char} {ch : RTree V} (he : edgeOk i ch = true) (acc : List Char) :
    getNode (absChild ch acc) (flushP acc) = none := by
  cases hg : getNode (absChild ch acc) (flushP acc) with
  | none => rfl
  | some nd =>
    exfalso
    obtain ⟨hm, hpat⟩ := getNode_some_iff hg
    by_cases hi : i = '/'
    · subst hi
      rw [absChild_slash (edge_slash he)] at hm
      obtain ⟨n, _, rfl⟩ := List.mem_map.mp hm
      have := congrArg List.length hpat
      simp [pushAll] at this
    · obtain ⟨q, r, hq, hx⟩ := allStart_absChild_noslash he hi acc nd hm
      obtain ⟨⟨r', hr'⟩, _⟩ := edge_path he
      by_cases hacc : acc = []
      · subst hacc; rw [hq, flushP_nil] at hpat; cases hpat
      · rw [hq, flushP_ne hacc] at hpat
        injection hpat with h1 _
        rw [h1] at hx
        exact not_ext_of_lit (by rw [hr']; simp) hx

theorem getNode_absStatics_flush (l : List (Char × RTree V)) (hedge : ∀ e ∈ l, edgeOk e.1 e.2 = true)
    (acc : List Char) : getNode (absStatics l acc) (flushP acc) = none := by
  induction l with
  | nil => rw [absStatics_nil]; rfl
  | cons e l ih =>
    obtain ⟨i, ch⟩ := e
    rw [absStatics_cons, getNode_append, getNode_absChild_flush (hedge (i, ch) List.mem_cons_self),
      ih (fun e he => hedge e (List.mem_cons_of_mem _ he))]
    rfl

/-- apart from the node's own entry nothing in its table carries the expression of the node itself -/
theorem getNode_rest_flush {seg : Bool} {d : Nat} {n : RTree V} (W : WFNode seg d n) (acc : List Char)
    (hflat : acc ≠ [] → n.wild = none ∧ n.catchAll = none) :
    getNode (absStatics n.statics acc ++ (absWild n.wild acc ++ absCatch n.catchAll acc)) (flushP acc) = none := by
  rw [getNode_append, getNode_append, getNode_absStatics_flush _ W.hedge]
  by_cases hacc : acc = []
  · subst hacc
    rw [getNode_eq_none_of_allStart (allStart_absWild_nil _) (by intro q r h; cases h),
      getNode_eq_none_of_allStart (allStart_absCatch_nil _) (by intro q r h; cases h)]
    rfl
  · obtain ⟨h1, h2⟩ := hflat hacc
    rw [h1, h2, absWild_none]
    rfl

theorem upd_own (n : RTree V) (acc : List Char) (R : Table V) (x : Node V) (hx : x.pat = flushP acc) :
    Upd (absOwn n acc ++ R) ([x] ++ R) (flushP acc) x := by
  intro p
  rw [getNode_append, getNode_append]
  by_cases hp : p = flushP acc
  · subst hp
    simp [getNode, hx]
  · have h1 : getNode [x] p = none := by
      simp only [getNode, List.find?_cons, hx]
      have : ¬ flushP acc = p := fun e => hp e.symm
      simp [this]
    have h2 : getNode (absOwn n acc) p = none := by
      unfold absOwn
      split
      · rfl
      · simp only [getNode, List.find?_cons]
        have : ¬ flushP acc = p := fun e => hp e.symm
        simp [this]
    rw [h1, h2, if_neg hp]

section spec2
variable (canAdd : List V → V → Bool) (v : V) (bt : Bool)

theorem addLeaf_abs {seg : Bool} {d : Nat} {n : RTree V} (W : WFNode seg d n) (acc : List Char)
    (hflat : acc ≠ [] → n.wild = none ∧ n.catchAll = none) (keys : List String) (hk : keys.length = d) :
    AddRel canAdd v bt (addLeaf canAdd v bt n keys) (absAux n acc) (.ok (flushP acc, [])) keys
      (fun n' => absAux n' acc) := by
  have hR := getNode_rest_flush W acc hflat
  simp only [AddRel, List.append_nil]
  unfold addSpec
  have habs : ∀ n' : RTree V, n'.statics = n.statics → n'.wild = n.wild → n'.catchAll = n.catchAll →
      absAux n' acc = absOwn n' acc ++
        (absStatics n.statics acc ++ (absWild n.wild acc ++ absCatch n.catchAll acc)) := by
    intro n' h1 h2 h3; rw [absAux_eq, h1, h2, h3]
  rw [habs n rfl rfl rfl, getNode_append, hR, Option.or_none]
  by_cases hv : n.values = []
  · -- no entry so far
    have hown : absOwn n acc = [] := by unfold absOwn; simp [hv]
    have hk0 := W.hkeys0 hv
    rw [hown]
    simp only [getNode_nil]
    unfold addLeaf
    have h1 : ¬ (¬ keys.isEmpty = true ∧ ¬ n.keys.isEmpty = true ∧ n.keys ≠ keys) := by
      intro h; exact h.2.1 (by simp [hk0])
    rw [if_neg h1, hv]
    by_cases hc : canAdd [] v = true
    · have h2 : ¬ (¬ canAdd [] v = true) := fun h => h hc
      rw [if_pos hc, if_neg h2]
      refine ⟨_, rfl, ?_⟩
      have : absAux ({ n with
          keys := (if keys.isEmpty = true then n.keys else keys), bt := bt, values := [] ++ [v] } : RTree V) acc =
          [⟨flushP acc, keys, [v], bt⟩] ++
            (absStatics n.statics acc ++ (absWild n.wild acc ++ absCatch n.catchAll acc)) := by
        rw [absAux_eq]
        congr 1
        unfold absOwn
        simp only [List.nil_append, List.isEmpty_cons, Bool.false_eq_true, if_false]
        by_cases hke : keys.isEmpty = true
        · have : keys = [] := by simpa using hke
          simp [hk0, this]
        · simp [hke]
      rw [this]
      have := upd_own n acc (absStatics n.statics acc ++ (absWild n.wild acc ++ absCatch n.catchAll acc))
        ⟨flushP acc, keys, [v], bt⟩ rfl
      rw [hown] at this
      exact this
    · have h2 : ¬ canAdd [] v = true := hc
      rw [if_neg hc, if_pos h2]
  · -- the node exists
    have hve : n.values.isEmpty = false := by simpa using hv
    have hown : absOwn n acc = [⟨flushP acc, n.keys, n.values, n.bt⟩] := by unfold absOwn; simp [hve]
    have hkl := W.hkeys hv
    rw [hown]
    have : getNode [(⟨flushP acc, n.keys, n.values, n.bt⟩ : Node V)] (flushP acc) =
        some ⟨flushP acc, n.keys, n.values, n.bt⟩ := by simp [getNode]
    rw [this]
    simp only
    unfold addLeaf
    by_cases hke : n.keys = keys
    · have h1 : ¬ (¬ keys.isEmpty = true ∧ ¬ n.keys.isEmpty = true ∧ n.keys ≠ keys) := by
        intro h; exact h.2.2 hke
      have h1' : ¬ (n.keys ≠ keys) := fun h => h hke
      rw [if_neg h1, if_neg h1']
      by_cases hc : canAdd n.values v = true
      · have h2 : ¬ (¬ canAdd n.values v = true) := fun h => h hc
        rw [if_neg h2, if_neg h2]
        refine ⟨_, rfl, ?_⟩
        have : absAux ({ n with
            keys := (if keys.isEmpty = true then n.keys else keys), bt := bt, values := n.values ++ [v] } : RTree V)
            acc = [⟨flushP acc, n.keys, n.values ++ [v], bt⟩] ++
              (absStatics n.statics acc ++ (absWild n.wild acc ++ absCatch n.catchAll acc)) := by
          rw [absAux_eq]
          congr 1
          unfold absOwn
          have : (n.values ++ [v]).isEmpty = false := by simp
          simp only [this, Bool.false_eq_true, if_false]
          by_cases hke' : keys.isEmpty = true <;> simp [hke', hke]
        rw [this]
        have := upd_own n acc (absStatics n.statics acc ++ (absWild n.wild acc ++ absCatch n.catchAll acc))
          ⟨flushP acc, n.keys, n.values ++ [v], bt⟩ rfl
        rw [hown] at this
        exact this
      · have h2 : ¬ canAdd n.values v = true := hc
        rw [if_pos h2, if_pos h2]
    · have h1 : (¬ keys.isEmpty = true ∧ ¬ n.keys.isEmpty = true ∧ n.keys ≠ keys) := by
        have hlen : n.keys.length = keys.length := by rw [hkl, hk]
        refine ⟨?_, ?_, hke⟩
        · intro h
          have : keys = [] := by simpa using h
          rw [this] at hlen
          exact hke (by rw [this]; exact List.length_eq_zero_iff.mp hlen)
        · intro h
          have : n.keys = [] := by simpa using h
          rw [this] at hlen
          exact hke (by rw [this]; exact (List.length_eq_zero_iff.mp hlen.symm).symm)
      have h1' : n.keys ≠ keys := hke
      rw [if_pos h1, if_pos h1']

theorem upd_single (y x : Node V) (pat : List PTok) (hy : y.pat = pat) (hx : x.pat = pat) :
    ∀ p, getNode [x] p = if p = pat then some x else getNode [y] p := by
  intro p
  by_cases hp : p = pat
  · subst hp; simp [getNode, hx]
  · have h1 : ¬ pat = p := fun e => hp e.symm
    simp [getNode, hx, hy, h1, hp]

theorem upd_single_nil (x : Node V) (pat : List PTok) (hx : x.pat = pat) :
    ∀ p, getNode [x] p = if p = pat then some x else getNode ([] : Table V) p := by
  intro p
  by_cases hp : p = pat
  · subst hp; simp [getNode, hx]
  · have h1 : ¬ pat = p := fun e => hp e.symm
    simp [getNode, hx, h1, hp]

theorem absAux_setCatch (n ca' : RTree V) :
    absAux (setCatch n ca') [] =
      absOwn n [] ++ (absStatics n.statics [] ++ (absWild n.wild [] ++ absCatch (some ca') [])) := by
  unfold setCatch
  have hT := touchBt_fields n
  cases h : n.catchAll with
  | none =>
    simp only
    rw [absAux_eq]
    simp only [hT.2.1, hT.2.2.1]
    congr 1
    exact absOwn_touchBt n []
  | some c => simp only; rw [absAux_eq]; rfl

theorem getLast?_append_singleton {α} (l : List α) (a : α) : (l ++ [a]).getLast? = some a := by
  simp

theorem addCatchAll_abs {d : Nat} {n : RTree V} (W : WFNode true d n) (ptail : List Char) (keys : List String) :
    AddRel canAdd v bt (addCatchAll canAdd v bt n ptail keys) (absAux n []) (patOf [] ('*' :: ptail)) keys
      (fun n' => absAux n' []) := by
  rw [patOf_catch]
  unfold addCatchAll
  simp only
  by_cases hafter : (afterSeg ptail).isEmpty = true
  · have h0 : ¬ (¬ (afterSeg ptail).isEmpty = true) := fun h => h hafter
    rw [if_pos hafter, if_neg h0]
    have hafter' : afterSeg ptail = [] := by simpa using hafter
    have hseg : segOf ptail = ptail := by
      have := segOf_append_afterSeg ptail
      rw [hafter', List.append_nil] at this
      exact this
    simp only [AddRel]
    -- the table is looked up at the free wildcard of this node only
    have hS : AllStart IsLit (absStatics n.statics []) := by
      have := allLit_afterFlush_absStatics n.statics W.hedge []
      unfold afterFlush at this; simpa using this
    have hA : getNode (absOwn n [] ++ (absStatics n.statics [] ++ absWild n.wild [])) [PTok.catchAll] = none := by
      rw [getNode_append, getNode_append,
        getNode_eq_none_of_allStart hS (by rintro q r h ⟨s, hs⟩; injection h with h _; rw [← h] at hs; cases hs),
        getNode_eq_none_of_allStart (allStart_absWild_nil _)
          (by intro q r h hq; injection h with h _; rw [← h] at hq; cases hq)]
      have : getNode (absOwn n []) [PTok.catchAll] = none := by
        unfold absOwn; split
        · rfl
        · simp [getNode, flushP_nil]
      rw [this]; rfl
    have hT : absAux n [] = (absOwn n [] ++ (absStatics n.statics [] ++ absWild n.wild [])) ++
        (absCatch n.catchAll [] ++ []) := by
      rw [absAux_eq]; simp [List.append_assoc]
    have hT' : ∀ ca', absAux (setCatch n ca') [] = (absOwn n [] ++ (absStatics n.statics [] ++ absWild n.wild [])) ++
        (absCatch (some ca') [] ++ []) := by
      intro ca'; rw [absAux_setCatch]; simp [List.append_assoc]
    unfold addSpec
    rw [hT, getNode_append, hA, Option.none_or, List.append_nil]
    unfold catchOf
    cases hca : n.catchAll with
    | none =>
      simp only [absCatch, getNode_nil]
      have h2 : ¬ (ptail ≠ segOf ptail) := fun h => h hseg.symm
      have h3 : ¬ (¬ ([] : List String).isEmpty = true ∧ [] ≠ keys ++ [String.ofList (segOf ptail)]) := by
        intro h; exact h.1 rfl
      rw [if_neg h2, if_neg h3]
      by_cases hc : canAdd [] v = true
      · have h4 : ¬ (¬ canAdd [] v = true) := fun h => h hc
        rw [if_pos hc, if_neg h4]
        refine ⟨_, rfl, ?_⟩
        rw [hT', List.append_nil]
        have hX := upd_single_nil (⟨[PTok.catchAll], keys ++ [String.ofList (segOf ptail)], [v], bt⟩ : Node V)
          [PTok.catchAll] rfl
        have := getNode_upd_append _ [] _ [] _ _ hA hX
        simpa [Upd, absCatch, flushP_nil] using this
      · have h4 : ¬ canAdd [] v = true := hc
        rw [if_neg hc, if_pos h4]
    | some ca =>
      have hco := W.hc ca hca
      unfold catchOk at hco
      simp only [Bool.and_eq_true, Bool.not_eq_true', beq_iff_eq] at hco
      obtain ⟨⟨⟨hv, hlen⟩, hlast⟩, _⟩ := hco
      have hve : ca.values.isEmpty = false := hv
      simp only [absCatch, hve, Bool.false_eq_true, if_false, flushP_nil, List.nil_append]
      have : getNode [(⟨[PTok.catchAll], ca.keys, ca.values, ca.bt⟩ : Node V)] [PTok.catchAll] =
          some ⟨[PTok.catchAll], ca.keys, ca.values, ca.bt⟩ := by simp [getNode]
      rw [this]
      simp only
      by_cases hke : ca.keys = keys ++ [String.ofList (segOf ptail)]
      · have hname : ptail = ca.path := by
          rw [hke, getLast?_append_singleton] at hlast
          injection hlast with hlast
          rw [← hseg]; exact String.ofList_injective hlast
        have h2 : ¬ (ptail ≠ ca.path) := fun h => h hname
        have h3 : ¬ (¬ ca.keys.isEmpty = true ∧ ca.keys ≠ keys ++ [String.ofList (segOf ptail)]) :=
          fun h => h.2 hke
        have h3' : ¬ (ca.keys ≠ keys ++ [String.ofList (segOf ptail)]) := fun h => h hke
        rw [if_neg h2, if_neg h3, if_neg h3']
        by_cases hc : canAdd ca.values v = true
        · have h4 : ¬ (¬ canAdd ca.values v = true) := fun h => h hc
          rw [if_neg h4, if_neg h4]
          refine ⟨_, rfl, ?_⟩
          rw [hT', List.append_nil]
          have hX := upd_single (⟨[PTok.catchAll], ca.keys, ca.values, ca.bt⟩ : Node V)
            (⟨[PTok.catchAll], ca.keys, ca.values ++ [v], bt⟩ : Node V) [PTok.catchAll] rfl rfl
          have := getNode_upd_append _ _ _ [] _ _ hA hX
          simpa [Upd, absCatch, flushP_nil, hke] using this
        · have h4 : ¬ canAdd ca.values v = true := hc
          rw [if_pos h4, if_pos h4]
      · have h3' : ca.keys ≠ keys ++ [String.ofList (segOf ptail)] := hke
        rw [if_pos h3']
        by_cases hname : ptail = ca.path
        · have h2 : ¬ (ptail ≠ ca.path) := fun h => h hname
          have h3 : (¬ ca.keys.isEmpty = true ∧ ca.keys ≠ keys ++ [String.ofList (segOf ptail)]) := by
            refine ⟨?_, hke⟩
            intro h
            have : ca.keys = [] := by simpa using h
            rw [this] at hlen; simp at hlen
          rw [if_neg h2, if_pos h3]
        · have h2 : ptail ≠ ca.path := hname
          rw [if_pos h2]
  · have h0 : ¬ (afterSeg ptail).isEmpty = true := hafter
    rw [if_neg hafter, if_pos h0]
    simp [AddRel]

end spec2


/-! ## the static step -/

theorem isPrefixOf_of_drop_nil (a b : List Char) (h : a.drop (commonPrefixLen a b) = []) :
    a.isPrefixOf b = true := by
  induction a generalizing b with
  | nil => simp
  | cons x a ih =>
    cases b with
    | nil => simp [commonPrefixLen] at h
    | cons y b =>
      unfold commonPrefixLen at h
      by_cases hxy : x = y
      · subst hxy
        simp only [if_true, List.drop_succ_cons] at h
        simp [List.isPrefixOf, ih b h]
      · simp [hxy] at h

/-- the replacing node's path is the consumed prefix of the token -/
theorem splitCommonPrefix_path (child : RTree V) (tok : List Char) :
    (splitCommonPrefix child tok).1.path = tok.take (splitCommonPrefix child tok).2 ∧
      (splitCommonPrefix child tok).2 ≤ tok.length := by
  unfold splitCommonPrefix
  by_cases hp : child.path.isPrefixOf tok = true
  · rw [if_pos hp]
    have := isPrefixOf_eq_append hp
    constructor
    · simp only; conv => rhs; rw [this]
      simp
    · simp only; rw [this]; simp
  · rw [if_neg hp]
    simp only
    cases hd : child.path.drop (commonPrefixLen child.path tok) with
    | nil => exact absurd (isPrefixOf_of_drop_nil _ _ hd) hp
    | cons c r => exact ⟨rfl, commonPrefixLen_le _ _⟩


/-- the consumed bytes of the current segment inside a static child -/
def childAcc (idx : Char) (ch : RTree V) (acc : List Char) : List Char :=
  if idx = '/' then [] else ch.path.reverse ++ acc

/-- the tokens finished on the way into a static child -/
def childPre (idx : Char) (acc : List Char) : List PTok :=
  if idx = '/' then flushP acc ++ [.lit "/"] else []

theorem absChild_eq {idx : Char} {ch : RTree V} (he : edgeOk idx ch = true) (acc : List Char) :
    absChild ch acc = (absAux ch (childAcc idx ch acc)).map (pushAll (childPre idx acc)) := by
  unfold childAcc childPre
  by_cases hi : idx = '/'
  · subst hi; rw [if_pos rfl, if_pos rfl, absChild_slash (edge_slash he)]
  · rw [if_neg hi, if_neg hi, absChild_noslash (edge_noslash he hi).1, map_pushAll_nil]

theorem absChild_congr {ch ch' : RTree V} (hp : ch'.path = ch.path) (acc : List Char)
    (h : ∀ a, absAux ch' a = absAux ch a) : absChild ch' acc = absChild ch acc := by
  unfold absChild; rw [hp, h, h]

theorem patOf_shape {acc rest : List Char} (hacc : acc ≠ []) {pat : List PTok} {ks : List String}
    (h : patOf acc rest = .ok (pat, ks)) :
    ∃ r, pat = .lit (String.ofList (acc.reverse ++ segOf rest)) :: r := by
  unfold patOf at h
  rw [if_neg hacc] at h
  cases hp : parseToks (tokenizeAux (afterSeg rest) []) with
  | error e => rw [hp] at h; cases h
  | ok x =>
    obtain ⟨ps, ks'⟩ := x
    rw [hp] at h
    simp only [Except.ok.injEq, Prod.mk.injEq] at h
    exact ⟨ps, h.1.symm⟩

/-- the expression the recursive call works on belongs to this static child and to nothing else of the node -/
theorem target_facts {idx : Char} {ch : RTree V} (he : edgeOk idx ch = true) (acc rest : List Char)
    {pat_c : List PTok} {ks : List String} (hpat : patOf (childAcc idx ch acc) rest = .ok (pat_c, ks)) :
    routeOf acc.reverse (childPre idx acc ++ pat_c) = some idx ∧ childPre idx acc ++ pat_c ≠ flushP acc ∧
      ∃ s r, childPre idx acc ++ pat_c = .lit s :: r := by
  unfold childAcc at hpat
  unfold childPre
  by_cases hi : idx = '/'
  · subst hi
    rw [if_pos rfl]
    by_cases hacc : acc = []
    · subst hacc
      simp [flushP_nil, routeOf]
    · rw [flushP_ne hacc]
      refine ⟨by simp [routeOf, String.toList_ofList], ?_, _, _, rfl⟩
      intro h
      have := congrArg List.length h
      simp at this
  · rw [if_neg hi] at hpat ⊢
    obtain ⟨⟨r', hr'⟩, _⟩ := edge_path he
    obtain ⟨r, hr⟩ := patOf_shape (by rw [hr']; simp) hpat
    rw [List.nil_append, hr]
    refine ⟨by simp [routeOf, String.toList_ofList, hr'], ?_, _, _, rfl⟩
    by_cases hacc : acc = []
    · subst hacc; simp [flushP_nil]
    · rw [flushP_ne hacc]
      intro h
      injection h with h _
      rw [lit_ofList_inj] at h
      have := congrArg List.length h
      simp [hr'] at this

theorem others_none (n : RTree V) (acc : List Char)
    (hflat : acc ≠ [] → n.wild = none ∧ n.catchAll = none) {pat : List PTok}
    (h1 : pat ≠ flushP acc) (h2 : ∃ s r, pat = .lit s :: r) :
    getNode (absOwn n acc) pat = none ∧ getNode (absWild n.wild acc ++ absCatch n.catchAll acc) pat = none := by
  constructor
  · unfold absOwn; split
    · rfl
    · simp only [getNode, List.find?_cons]
      have : ¬ flushP acc = pat := fun e => h1 e.symm
      simp [this]
  · obtain ⟨s, r, rfl⟩ := h2
    by_cases hacc : acc = []
    · subst hacc
      rw [getNode_append,
        getNode_eq_none_of_allStart (allStart_absWild_nil _)
          (by intro q r' h hq; injection h with h _; rw [← h] at hq; cases hq),
        getNode_eq_none_of_allStart (allStart_absCatch_nil _)
          (by intro q r' h hq; injection h with h _; rw [← h] at hq; cases hq)]
      rfl
    · obtain ⟨h3, h4⟩ := hflat hacc
      rw [h3, h4, absWild_none]; rfl

theorem absWild_wildOf (n : RTree V) : absWild n.wild [] = (absAux (wildOf n) []).map (pushAll [.wild]) := by
  unfold wildOf
  cases h : n.wild with
  | none => rw [absWild_none]; simp only; rw [absAux_newLeaf]; rfl
  | some w => rw [absWild_some, flushP_nil]; rfl

theorem absAux_setWild (n w' : RTree V) :
    absAux (setWild n w') [] =
      absOwn n [] ++ (absStatics n.statics [] ++ ((absAux w' []).map (pushAll [.wild]) ++ absCatch n.catchAll [])) := by
  unfold setWild
  have hT := touchBt_fields n
  cases h : n.wild with
  | none =>
    simp only
    rw [absAux_eq]
    simp only [hT.2.1, hT.2.2.2.1, absWild_some, flushP_nil, List.nil_append]
    congr 1
    exact absOwn_touchBt n []
  | some c => simp only; rw [absAux_eq]; simp only [absWild_some, flushP_nil, List.nil_append]; rfl

theorem liftPat_nil (r : Except PatErr (List PTok × List String)) : liftPat [] [] r = r := by
  cases r with
  | error e => rfl
  | ok x => obtain ⟨a, b⟩ := x; rfl


theorem staticTok_idx_ne (inStatic : Bool) {token : Char} (ht : token ≠ '/') (ptail : List Char) :
    (staticTok inStatic token ptail).1 ≠ '/' := by
  obtain ⟨⟨r, hr⟩, _⟩ := staticTok_shape inStatic token ptail
  obtain ⟨hns, _⟩ := staticTok_noslash inStatic ht ptail
  intro h
  apply hns
  rw [hr, h]; simp

/-- the expression seen from the node = the expression seen from the new static child -/
theorem patOf_step_none (inStatic : Bool) (acc : List Char) (token : Char) (ptail : List Char) (k : Nat) (b : Bool)
    (h1 : ¬ (!inStatic && decide (token = '*')) = true) (h2 : ¬ (!inStatic && decide (token = ':')) = true)
    (hacc0 : inStatic = false → acc = []) (hacc1 : inStatic = true → acc ≠ []) :
    patOf acc (token :: ptail) =
      liftPat (childPre (staticTok inStatic token ptail).1 acc) []
        (patOf (childAcc (staticTok inStatic token ptail).1
          (⟨(staticTok inStatic token ptail).2.1, k, [], none, none, [], [], b⟩ : RTree V) acc)
          (remOf token ptail)) := by
  by_cases ht : token = '/'
  · subst ht
    rw [staticTok_slash]
    simp only [childPre, childAcc, remOf, if_true]
    exact patOf_slash acc ptail
  · have hi := staticTok_idx_ne inStatic ht ptail
    simp only [childPre, childAcc, remOf, if_neg hi, if_neg ht, liftPat_nil]
    exact patOf_static inStatic acc ptail ht h1 h2 hacc0 hacc1

/-- the same for an existing (possibly split) child whose path is the prefix of length `k` of the token -/
theorem patOf_step_some (inStatic : Bool) (acc : List Char) (token : Char) (ptail : List Char) (ch : RTree V)
    (k : Nat) (hk1 : 0 < k) (hk2 : k ≤ (staticTok inStatic token ptail).2.1.length)
    (hp : ch.path = (staticTok inStatic token ptail).2.1.take k)
    (h1 : ¬ (!inStatic && decide (token = '*')) = true) (h2 : ¬ (!inStatic && decide (token = ':')) = true)
    (hacc0 : inStatic = false → acc = []) (hacc1 : inStatic = true → acc ≠ []) :
    patOf acc (token :: ptail) =
      liftPat (childPre (staticTok inStatic token ptail).1 acc) []
        (patOf (childAcc (staticTok inStatic token ptail).1 ch acc)
          ((token :: ptail).drop (k + (staticTok inStatic token ptail).2.2))) := by
  by_cases ht : token = '/'
  · subst ht
    rw [staticTok_slash] at hk2 hp ⊢
    simp only [List.length_cons, List.length_nil] at hk2
    have hk : k = 1 := by omega
    subst hk
    simp only [childPre, childAcc, if_true, Nat.add_zero, List.drop_succ_cons, List.drop_zero]
    exact patOf_slash acc ptail
  · have hi := staticTok_idx_ne inStatic ht ptail
    obtain ⟨hns, hne⟩ := staticTok_noslash inStatic ht ptail
    simp only [childPre, childAcc, if_neg hi, liftPat_nil]
    rw [patOf_static inStatic acc ptail ht h1 h2 hacc0 hacc1, Nat.add_comm, ← List.drop_drop,
      staticTok_drop inStatic ht ptail, List.drop_append_of_le_length hk2, hp]
    have hx : '/' ∉ (staticTok inStatic token ptail).2.1.drop k := fun h => hns (List.mem_of_mem_drop h)
    have hacc' : ((staticTok inStatic token ptail).2.1.take k).reverse ++ acc ≠ [] := by
      cases htk : (staticTok inStatic token ptail).2.1 with
      | nil => exact absurd htk hne
      | cons a r =>
        cases k with
        | zero => omega
        | succ k => simp
    rw [patOf_consume _ _ _ hacc' hx, ← List.append_assoc, ← List.reverse_append, List.take_append_drop]


def withStatics (n : RTree V) (l : List (Char × RTree V)) : RTree V := { n with statics := l }

def bump (n : RTree V) : RTree V := { n with priority := n.priority + 1 }

theorem addNode_cons2 (canAdd : List V → V → Bool) (v : V) (bt : Bool) (n : RTree V) (token : Char)
    (ptail : List Char) (keys : List String) (inStatic : Bool) :
    addNode canAdd v bt n (token :: ptail) keys inStatic =
    if !inStatic && token = '*' then addCatchAll canAdd v bt n ptail keys
    else if !inStatic && token = ':' then
      mapOk (setWild n)
        (addNode canAdd v bt (wildOf n) (afterSeg ptail) (keys ++ [String.ofList (segOf ptail)]) false)
    else
      match splitAtIdx n.statics (staticTok inStatic token ptail).1 with
      | some (pre, child, post) =>
        if ¬ ((token :: ptail).drop ((splitCommonPrefix child (staticTok inStatic token ptail).2.1).2 +
            (staticTok inStatic token ptail).2.2)).length < (token :: ptail).length then .error .invalidPath
        else
          mapOk (fun child' => withStatics n (bubble ((staticTok inStatic token ptail).1, child') pre.reverse post))
            (addNode canAdd v bt
              (bump (splitCommonPrefix child (staticTok inStatic token ptail).2.1).1)
              ((token :: ptail).drop ((splitCommonPrefix child (staticTok inStatic token ptail).2.1).2 +
                (staticTok inStatic token ptail).2.2)) keys ((staticTok inStatic token ptail).1 != '/'))
      | none =>
        mapOk (fun child' => withStatics (touchBt n) (n.statics ++ [((staticTok inStatic token ptail).1, child')]))
          (addNode canAdd v bt ⟨(staticTok inStatic token ptail).2.1, 0, [], none, none, [], [], false⟩
            (remOf token ptail) keys ((staticTok inStatic token ptail).1 != '/')) := by
  rw [addNode_cons]
  rfl

theorem decomp_some (n : RTree V) (acc : List Char) {pre post : List (Char × RTree V)} {idx : Char}
    {child : RTree V} (hst : n.statics = pre ++ (idx, child) :: post) :
    absAux n acc = (absOwn n acc ++ absStatics pre acc) ++
      (absChild child acc ++ (absStatics post acc ++ (absWild n.wild acc ++ absCatch n.catchAll acc))) := by
  rw [absAux_eq, hst, absStatics_append, absStatics_cons]
  simp only [List.append_assoc]

theorem decomp_none (n : RTree V) (acc : List Char) :
    absAux n acc = (absOwn n acc ++ absStatics n.statics acc) ++
      ([] ++ (absWild n.wild acc ++ absCatch n.catchAll acc)) := by
  rw [absAux_eq]
  simp only [List.append_assoc, List.nil_append]

theorem getNode_congr_append (A B B' : Table V) (h : ∀ p, getNode B p = getNode B' p) :
    ∀ p, getNode (A ++ B) p = getNode (A ++ B') p := by
  intro p; rw [getNode_append, getNode_append, h]

theorem getNode_congr_append_left (A A' B : Table V) (h : ∀ p, getNode A p = getNode A' p) :
    ∀ p, getNode (A ++ B) p = getNode (A' ++ B) p := by
  intro p; rw [getNode_append, getNode_append, h]


theorem childAcc_facts {idx : Char} {ch : RTree V} (he : edgeOk idx ch = true) {acc : List Char}
    (hsl : '/' ∉ acc) :
    ((idx != '/') = false → childAcc idx ch acc = []) ∧ ((idx != '/') = true → childAcc idx ch acc ≠ []) ∧
      '/' ∉ childAcc idx ch acc := by
  unfold childAcc
  by_cases hi : idx = '/'
  · subst hi; simp
  · obtain ⟨⟨r, hr⟩, _⟩ := edge_path he
    obtain ⟨_, hns⟩ := edge_noslash he hi
    rw [if_neg hi]
    refine ⟨fun h => absurd h (by simp [hi]), fun _ => by rw [hr]; simp, ?_⟩
    intro h
    rcases List.mem_append.mp h with h | h
    · exact hns (List.mem_reverse.mp h)
    · exact hsl h

theorem childAcc_path {idx : Char} {ch ch' : RTree V} (hp : ch'.path = ch.path) (acc : List Char) :
    childAcc idx ch' acc = childAcc idx ch acc := by
  unfold childAcc; rw [hp]

theorem edgeOk_path {idx : Char} {ch ch' : RTree V} (hp : ch'.path = ch.path) (he : edgeOk idx ch = true) :
    edgeOk idx ch' = true := by
  unfold edgeOk at *; rw [hp]; exact he

theorem absAux_bump (ch : RTree V) (acc : List Char) : absAux (bump ch) acc = absAux ch acc :=
  absAux_congr (t := ch) (t' := bump ch) rfl rfl rfl rfl rfl rfl acc

/-- the node `addNode` descends into stands for the same table as the child it replaces -/
theorem absChild_split {idx : Char} {child : RTree V} (he : edgeOk idx child = true) (tok : List Char)
    (htok : ∃ r, tok = idx :: r) (hts : tok = ['/'] ∨ '/' ∉ tok) (acc : List Char) :
    absChild (bump (splitCommonPrefix child tok).1) acc = absChild child acc := by
  by_cases hi : idx = '/'
  · subst hi
    have hp := edge_slash he
    have ht : tok = ['/'] := by
      rcases hts with h | h
      · exact h
      · obtain ⟨r, hr⟩ := htok; exact absurd (by rw [hr]; simp) h
    have : (splitCommonPrefix child tok).1 = child := by
      unfold splitCommonPrefix; rw [hp, ht]; simp
    rw [this]
    exact absChild_congr (ch := child) (ch' := bump child) rfl acc (absAux_bump child)
  · have hsp := splitCommonPrefix_abs tok he hi acc
    have hne := (edge_noslash he hi).1
    have he1 : edgeOk idx (splitCommonPrefix child tok).1 = true := by
      unfold splitCommonPrefix
      by_cases hp : child.path.isPrefixOf tok = true
      · rw [if_pos hp]; exact he
      · rw [if_neg hp]
        simp only
        cases hd : child.path.drop (commonPrefixLen child.path tok) with
        | nil => exact he
        | cons c r =>
          simp only
          obtain ⟨r', hr'⟩ := htok
          obtain ⟨⟨r0, hr0⟩, _⟩ := edge_path he
          rw [edgeOk_iff]
          have htns : '/' ∉ tok := by
            rcases hts with h | h
            · rw [hr'] at h; injection h with h _; exact absurd h hi
            · exact h
          refine ⟨⟨r'.take (commonPrefixLen r0 r'), ?_⟩, Or.inr ?_⟩
          · simp only; rw [hr0, hr', commonPrefixLen_cons, List.take_succ_cons]
          · intro h; exact htns (List.mem_of_mem_take h)
    have hne1 := (edge_noslash he1 hi).1
    rw [absChild_noslash hne, absChild_noslash (ch := bump (splitCommonPrefix child tok).1) hne1, absAux_bump]
    exact hsp.1

theorem absAux_append_child (n : RTree V) (acc : List Char) (idx : Char) (c' : RTree V) :
    absAux (withStatics (touchBt n) (n.statics ++ [(idx, c')])) acc =
      (absOwn n acc ++ absStatics n.statics acc) ++
        (absChild c' acc ++ (absWild n.wild acc ++ absCatch n.catchAll acc)) := by
  have hT := touchBt_fields n
  rw [absAux_eq]
  unfold withStatics
  simp only [hT.2.2.1, hT.2.2.2.1, absStatics_append, absStatics_cons, absStatics_nil, List.append_nil,
    List.append_assoc]
  congr 1
  exact absOwn_touchBt n acc

theorem absAux_bubble {seg : Bool} {d : Nat} {n : RTree V} (W : WFNode seg d n) (acc : List Char)
    {pre post : List (Char × RTree V)} {idx : Char} {child c' : RTree V}
    (hst : n.statics = pre ++ (idx, child) :: post) (hce : edgeOk idx c' = true) :
    ∀ p, getNode (absAux (withStatics n (bubble (idx, c') pre.reverse post)) acc) p =
      getNode ((absOwn n acc ++ absStatics pre acc) ++
        (absChild c' acc ++ (absStatics post acc ++ (absWild n.wild acc ++ absCatch n.catchAll acc)))) p := by
  intro p
  have hperm := bubble_perm (idx, c') pre.reverse post
  rw [List.reverse_reverse] at hperm
  have hedge : ∀ e ∈ pre ++ (idx, c') :: post, edgeOk e.1 e.2 = true := by
    intro e he
    simp only [List.mem_append, List.mem_cons] at he
    rcases he with h | h | h
    · exact W.hedge e (by rw [hst]; simp [h])
    · rw [h]; exact hce
    · exact W.hedge e (by rw [hst]; simp [h])
  have hnodup : (pre ++ (idx, c') :: post).Pairwise (fun a b => a.1 ≠ b.1) := by
    refine pairwise_fst_congr ?_ W.hnodup
    rw [hst]; simp
  have h1 := getNode_absStatics_perm hperm.symm hedge hnodup acc
  rw [absAux_eq]
  unfold withStatics
  simp only
  rw [getNode_append, getNode_append, ← h1, absStatics_append, absStatics_cons]
  simp only [getNode_append, Option.or_assoc]
  rfl

theorem allLit_absStatics_nil {l : List (Char × RTree V)} (hedge : ∀ e ∈ l, edgeOk e.1 e.2 = true) :
    AllStart IsLit (absStatics l []) := by
  have := allLit_afterFlush_absStatics l hedge []
  unfold afterFlush at this; simpa using this

/-- **the abstraction of `addNode` is `addPat` on the abstraction** (node level) -/
theorem addNode_abs (canAdd : List V → V → Bool) (v : V) (bt : Bool) :
    ∀ (k : Nat) (path : List Char), path.length = k → ∀ (n : RTree V) (keys : List String) (inStatic : Bool)
      (d : Nat) (acc : List Char), wfAt (!inStatic) d n = true → keys.length = d →
      (inStatic = false → acc = []) → (inStatic = true → acc ≠ []) → '/' ∉ acc →
      AddRel canAdd v bt (addNode canAdd v bt n path keys inStatic) (absAux n acc) (patOf acc path) keys
        (fun n' => absAux n' acc) := by
  intro k
  induction k using Nat.strongRecOn with
  | ind k ih =>
    intro path hlen n keys inStatic d acc hw hk hacc0 hacc1 hsl
    have W := (wfAt_iff _ _ _).mp hw
    have hflat : acc ≠ [] → n.wild = none ∧ n.catchAll = none := by
      intro h
      apply W.hseg
      cases inStatic with
      | false => exact absurd (hacc0 rfl) h
      | true => rfl
    cases path with
    | nil =>
      rw [addNode_nil, patOf_leaf]
      exact addLeaf_abs canAdd v bt W acc hflat keys hk
    | cons token ptail =>
      rw [addNode_cons2]
      by_cases hstar : (!inStatic && decide (token = '*')) = true
      · rw [if_pos hstar]
        have hin : inStatic = false := by
          cases inStatic with
          | false => rfl
          | true => simp at hstar
        subst hin
        have hacc := hacc0 rfl
        subst hacc
        have ht : token = '*' := by simpa using hstar
        subst ht
        exact addCatchAll_abs canAdd v bt W ptail keys
      · rw [if_neg hstar]
        by_cases hcol : (!inStatic && decide (token = ':')) = true
        · rw [if_pos hcol]
          have hin : inStatic = false := by
            cases inStatic with
            | false => rfl
            | true => simp at hcol
          subst hin
          have hacc := hacc0 rfl
          subst hacc
          have ht : token = ':' := by simpa using hcol
          subst ht
          rw [patOf_wild]
          have hl : (afterSeg ptail).length < k := by
            have := afterSeg_length_le ptail
            rw [← hlen, List.length_cons]; omega
          have hrec := ih _ hl _ rfl (wildOf n) (keys ++ [String.ofList (segOf ptail)]) false (d + 1) []
            (wildOf_wf hw) (by simp [hk]) (fun _ => rfl) (by simp) (by simp)
          have hS := allLit_absStatics_nil W.hedge
          refine AddRel.lift canAdd v bt (setWild n) hrec ?_ ?_
          · intro pat_c ks _
            have hA : getNode (absOwn n [] ++ absStatics n.statics []) ([PTok.wild] ++ pat_c) = none := by
              rw [getNode_append, getNode_eq_none_of_allStart hS
                (by rintro q r h ⟨s, hs⟩; injection h with h _; rw [← h] at hs; cases hs)]
              have : getNode (absOwn n []) ([PTok.wild] ++ pat_c) = none := by
                unfold absOwn; split
                · rfl
                · simp [getNode, flushP_nil]
              rw [this]; rfl
            have hB : getNode (absCatch n.catchAll []) ([PTok.wild] ++ pat_c) = none :=
              getNode_eq_none_of_allStart (allStart_absCatch_nil _)
                (by intro q r h hq; injection h with h _; rw [← h] at hq; cases hq)
            have := getNode_comp (absOwn n [] ++ absStatics n.statics []) (absCatch n.catchAll [])
              (absAux (wildOf n) []) [PTok.wild] pat_c hA hB
            rw [← this, absAux_eq, absWild_wildOf]
            simp only [List.append_assoc]
          · intro pat_c ks c' x _ _ hu
            have hA : getNode (absOwn n [] ++ absStatics n.statics []) ([PTok.wild] ++ pat_c) = none := by
              rw [getNode_append, getNode_eq_none_of_allStart hS
                (by rintro q r h ⟨s, hs⟩; injection h with h _; rw [← h] at hs; cases hs)]
              have : getNode (absOwn n []) ([PTok.wild] ++ pat_c) = none := by
                unfold absOwn; split
                · rfl
                · simp [getNode, flushP_nil]
              rw [this]; rfl
            have := upd_comp (absOwn n [] ++ absStatics n.statics []) (absCatch n.catchAll [])
              (absAux (wildOf n) []) (absAux c' []) [PTok.wild] pat_c x hA hu
            show Upd (absAux n []) (absAux (setWild n c') []) _ _
            rw [absAux_setWild, absAux_eq, absWild_wildOf]
            simpa only [List.append_assoc] using this
        · rw [if_neg hcol]
          have hshape := staticTok_shape inStatic token ptail
          have hpn := fun kk b => patOf_step_none (V := V) inStatic acc token ptail kk b hstar hcol hacc0 hacc1
          have hps := fun (ch : RTree V) kk h1 h2 h3 =>
            patOf_step_some inStatic acc token ptail ch kk h1 h2 h3 hstar hcol hacc0 hacc1
          generalize staticTok inStatic token ptail = st at hshape hpn hps ⊢
          obtain ⟨idx, tok, skip⟩ := st
          simp only at hshape hpn hps ⊢
          obtain ⟨⟨tr, htr⟩, hts⟩ := hshape
          cases hsp : splitAtIdx n.statics idx with
          | none =>
            simp only
            rw [hpn 0 false]
            have he0 : edgeOk idx (⟨tok, 0, [], none, none, [], [], false⟩ : RTree V) = true := by
              rw [edgeOk_iff]; exact ⟨⟨tr, htr⟩, hts⟩
            obtain ⟨hc0, hc1, hcs⟩ := childAcc_facts he0 hsl
            have hl : (remOf token ptail).length < k := by rw [← hlen]; exact remOf_length_lt _ _
            have hrec := ih _ hl _ rfl (⟨tok, 0, [], none, none, [], [], false⟩ : RTree V) keys (idx != '/') d
              (childAcc idx (⟨tok, 0, [], none, none, [], [], false⟩ : RTree V) acc) (wf_newLeaf _ _ _ _ _) hk hc0 hc1 hcs
            have hAof : ∀ pat_c ks, patOf (childAcc idx (⟨tok, 0, [], none, none, [], [], false⟩ : RTree V) acc)
                (remOf token ptail) = .ok (pat_c, ks) →
                getNode (absOwn n acc ++ absStatics n.statics acc) (childPre idx acc ++ pat_c) = none ∧
                getNode (absWild n.wild acc ++ absCatch n.catchAll acc) (childPre idx acc ++ pat_c) = none := by
              intro pat_c ks hp
              obtain ⟨hroute, hne, hlit⟩ := target_facts he0 acc (remOf token ptail) hp
              obtain ⟨hown, hwc⟩ := others_none n acc hflat hne hlit
              refine ⟨?_, hwc⟩
              rw [getNode_append, hown, getNode_absStatics_route _ W.hedge acc
                (fun e he => by rw [hroute]; intro h; injection h with h; exact splitAtIdx_none hsp e he h.symm)]
              rfl
            refine AddRel.lift canAdd v bt (kpre := [])
              (fun child' => withStatics (touchBt n) (n.statics ++ [(idx, child')]))
              (by rw [List.append_nil]; exact hrec) ?_ ?_
            · intro pat_c ks hp
              obtain ⟨hA, hB⟩ := hAof pat_c ks hp
              have := getNode_comp _ _ (absAux (⟨tok, 0, [], none, none, [], [], false⟩ : RTree V)
                (childAcc idx (⟨tok, 0, [], none, none, [], [], false⟩ : RTree V) acc)) (childPre idx acc) pat_c hA hB
              rw [← this, decomp_none n acc, absAux_newLeaf]
              rfl
            · intro pat_c ks c' x hp hr hu
              obtain ⟨hA, _⟩ := hAof pat_c ks hp
              obtain ⟨_, hcp⟩ := addNode_wf canAdd v bt _ _ rfl _ keys (idx != '/') d c' (wf_newLeaf _ _ _ _ _) hk hr
              have hce : edgeOk idx c' = true := edgeOk_path hcp he0
              have := upd_comp _ (absWild n.wild acc ++ absCatch n.catchAll acc) _ _ (childPre idx acc) pat_c x hA hu
              show Upd (absAux n acc) (absAux (withStatics (touchBt n) (n.statics ++ [(idx, c')])) acc) _ _
              rw [absAux_append_child, absChild_eq hce, childAcc_path hcp, decomp_none n acc]
              rw [absAux_newLeaf] at this
              exact this
          | some r =>
            obtain ⟨pre, child, post⟩ := r
            simp only
            obtain ⟨hst, hpre⟩ := splitAtIdx_some hsp
            have hmem : (idx, child) ∈ n.statics := by rw [hst]; simp
            have hpost : ∀ e ∈ post, e.1 ≠ idx := by
              have := W.hnodup
              rw [hst, List.pairwise_append] at this
              intro e he
              exact ((List.pairwise_cons.mp this.2.1).1 e he).symm
            obtain ⟨he1, hw1, hpos⟩ := splitCommonPrefix_wf (d := d) tok (W.hedge _ hmem) (W.hst _ hmem)
              ⟨tr, htr⟩ hts
            obtain ⟨hpath, hle⟩ := splitCommonPrefix_path child tok
            have hlt : ((token :: ptail).drop ((splitCommonPrefix child tok).2 + skip)).length
                < (token :: ptail).length := by
              have hpos' : 0 < (splitCommonPrefix child tok).2 := hpos
              have hm : 0 < (splitCommonPrefix child tok).2 + skip := by omega
              rw [List.length_drop, List.length_cons]
              omega
            rw [if_neg (fun h => h hlt)]
            have he2 : edgeOk idx (bump (splitCommonPrefix child tok).1) = true :=
              edgeOk_path (ch := (splitCommonPrefix child tok).1) rfl he1
            have hw2 : wfAt (!(idx != '/')) d (bump (splitCommonPrefix child tok).1) = true := by
              rw [← edge_seg he1]
              exact wfAt_congr hw1 rfl rfl rfl rfl rfl
            rw [hps (bump (splitCommonPrefix child tok).1) _ hpos hle hpath]
            obtain ⟨hc0, hc1, hcs⟩ := childAcc_facts he2 hsl
            have hl : ((token :: ptail).drop ((splitCommonPrefix child tok).2 + skip)).length < k := by
              rw [← hlen]; exact hlt
            have hrec := ih _ hl _ rfl (bump (splitCommonPrefix child tok).1) keys (idx != '/') d
              (childAcc idx (bump (splitCommonPrefix child tok).1) acc) hw2 hk hc0 hc1 hcs
            have hAof : ∀ pat_c ks, patOf (childAcc idx (bump (splitCommonPrefix child tok).1) acc)
                ((token :: ptail).drop ((splitCommonPrefix child tok).2 + skip)) = .ok (pat_c, ks) →
                getNode (absOwn n acc ++ absStatics pre acc) (childPre idx acc ++ pat_c) = none ∧
                getNode (absStatics post acc ++ (absWild n.wild acc ++ absCatch n.catchAll acc))
                  (childPre idx acc ++ pat_c) = none := by
              intro pat_c ks hp
              obtain ⟨hroute, hne, hlit⟩ := target_facts he2 acc _ hp
              obtain ⟨hown, hwc⟩ := others_none n acc hflat hne hlit
              constructor
              · rw [getNode_append, hown, getNode_absStatics_route pre
                  (fun e he => W.hedge e (by rw [hst]; simp [he])) acc
                  (fun e he => by rw [hroute]; intro h; injection h with h; exact hpre e he h.symm)]
                rfl
              · rw [getNode_append, hwc, getNode_absStatics_route post
                  (fun e he => W.hedge e (by rw [hst]; simp [he])) acc
                  (fun e he => by rw [hroute]; intro h; injection h with h; exact hpost e he h.symm)]
                rfl
            have hdec : absAux n acc = (absOwn n acc ++ absStatics pre acc) ++
                ((absAux (bump (splitCommonPrefix child tok).1)
                    (childAcc idx (bump (splitCommonPrefix child tok).1) acc)).map (pushAll (childPre idx acc)) ++
                  (absStatics post acc ++ (absWild n.wild acc ++ absCatch n.catchAll acc))) := by
              rw [decomp_some n acc hst, ← absChild_eq he2, absChild_split (W.hedge _ hmem) tok ⟨tr, htr⟩ hts]
            refine AddRel.lift canAdd v bt (kpre := [])
              (fun child' => withStatics n (bubble (idx, child') pre.reverse post))
              (by rw [List.append_nil]; exact hrec) ?_ ?_
            · intro pat_c ks hp
              obtain ⟨hA, hB⟩ := hAof pat_c ks hp
              have := getNode_comp _ _ (absAux (bump (splitCommonPrefix child tok).1)
                (childAcc idx (bump (splitCommonPrefix child tok).1) acc)) (childPre idx acc) pat_c hA hB
              rw [← this, ← hdec]
            · intro pat_c ks c' x hp hr hu
              obtain ⟨hA, _⟩ := hAof pat_c ks hp
              obtain ⟨_, hcp⟩ := addNode_wf canAdd v bt _ _ rfl _ keys (idx != '/') d c' hw2 hk hr
              have hce : edgeOk idx c' = true := edgeOk_path hcp he2
              have := upd_comp _ (absStatics post acc ++ (absWild n.wild acc ++ absCatch n.catchAll acc)) _ _
                (childPre idx acc) pat_c x hA hu
              show Upd (absAux n acc) (absAux (withStatics n (bubble (idx, c') pre.reverse post)) acc) _ _
              rw [← hdec] at this
              refine this.congr_right ?_
              intro p
              rw [absAux_bubble W acc hst hce p, absChild_eq hce, childAcc_path hcp]


/-- `addSpec` is the closed form of `addPat` -/
theorem addPat_spec (canAdd : List V → V → Bool) (v : V) (bt : Bool) (T : Table V) (pat : List PTok)
    (keys : List String) :
    match addSpec canAdd v bt T pat keys, addPat canAdd T pat keys v bt with
    | .ok x, .ok T' => ∀ p, getNode T' p = if p = pat then some x else getNode T p
    | .error e, .error e' => e = e'
    | _, _ => False := by
  cases hadd : addPat canAdd T pat keys v bt with
  | error e' =>
    unfold addPat at hadd
    unfold addSpec
    cases hg : getNode T pat with
    | none =>
      rw [hg] at hadd
      simp only at hadd ⊢
      by_cases hc : canAdd [] v = true
      · rw [if_pos hc] at hadd; cases hadd
      · rw [if_neg hc] at hadd ⊢; injection hadd with hadd
    | some nd =>
      rw [hg] at hadd
      simp only at hadd ⊢
      by_cases hk : nd.keys ≠ keys
      · rw [if_pos hk] at hadd ⊢; injection hadd with hadd
      · rw [if_neg hk] at hadd ⊢
        by_cases hc : ¬ canAdd nd.values v = true
        · rw [if_pos hc] at hadd ⊢; injection hadd with hadd
        · rw [if_neg hc] at hadd; cases hadd
  | ok T' =>
    have hclosed := addPat_getNode canAdd T T' pat keys v bt hadd
    unfold addPat at hadd
    unfold addSpec
    cases hg : getNode T pat with
    | none =>
      rw [hg] at hadd hclosed
      simp only at hadd hclosed ⊢
      by_cases hc : canAdd [] v = true
      · rw [if_pos hc]; exact hclosed
      · rw [if_neg hc] at hadd; cases hadd
    | some nd =>
      rw [hg] at hadd hclosed
      simp only at hadd hclosed ⊢
      by_cases hk : nd.keys ≠ keys
      · rw [if_pos hk] at hadd; cases hadd
      · rw [if_neg hk] at hadd ⊢
        by_cases hc : ¬ canAdd nd.values v = true
        · rw [if_pos hc] at hadd; cases hadd
        · rw [if_neg hc]; exact hclosed

/-- **(b) `add` commutes with the abstraction.** `RTree.add` on a well-formed tree and `Heimdall.add` on its
abstraction fail alike (same error) or succeed alike, and then the new tree's abstraction is the new table, as a
function of the path expression. -/
theorem rtree_add_refines (canAdd : List V → V → Bool) (t : RTree V) (h : t.WF) (expr : String) (v : V)
    (bt : Bool) :
    match RTree.add canAdd t expr v bt, Heimdall.add canAdd t.abs expr v bt with
    | .ok t', .ok T' => ∀ p, getNode t'.abs p = getNode T' p
    | .error e, .error e' => e = e'
    | _, _ => False := by
  have hrel := addNode_abs canAdd v bt _ expr.toList rfl t [] false 0 [] h rfl (fun _ => rfl) (by simp) (by simp)
  have hp : patOf [] expr.toList = parsePat expr := patOf_nil_eq _
  rw [hp] at hrel
  unfold Heimdall.add RTree.add abs
  unfold AddRel at hrel
  cases hpp : parsePat expr with
  | error e =>
    rw [hpp] at hrel
    simp only at hrel ⊢
    rw [hrel]
  | ok pk =>
    obtain ⟨pat, ks⟩ := pk
    rw [hpp] at hrel
    simp only [List.nil_append] at hrel ⊢
    have hs := addPat_spec canAdd v bt (absAux t []) pat ks
    cases hspec : addSpec canAdd v bt (absAux t []) pat ks with
    | error e =>
      rw [hspec] at hrel hs
      simp only at hrel
      rw [hrel]
      cases hadd : addPat canAdd (absAux t []) pat ks v bt with
      | error e' => rw [hadd] at hs; exact hs
      | ok T' => rw [hadd] at hs; exact hs
    | ok x =>
      rw [hspec] at hrel hs
      simp only at hrel
      obtain ⟨n', hn', hu⟩ := hrel
      rw [hn']
      cases hadd : addPat canAdd (absAux t []) pat ks v bt with
      | error e' => rw [hadd] at hs; exact hs
      | ok T' =>
        rw [hadd] at hs
        simp only at hs ⊢
        intro p
        rw [hu p, hs p]

end RTree
end Heimdall
