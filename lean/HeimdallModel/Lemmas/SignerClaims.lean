import HeimdallModel.Spec.Signer
/-! Helper lemmas about claim maps and claim programs (C16) -/
namespace Heimdall.Signer

variable {α : Type}

theorem lookup_nil (k : String) : lookup k ([] : Claims α) = none := rfl

theorem lookup_append (k : String) (a b : Claims α) :
    lookup k (a ++ b) = (lookup k b).or (lookup k a) := by
  induction a with
  | nil => simp [lookup]
  | cons kv rest ih =>
    simp only [List.cons_append, lookup, ih]
    cases lookup k b <;> simp

theorem lookup_single (k k' : String) (v : CVal α) :
    lookup k [(k', v)] = if k = k' then some v else none := by
  simp only [lookup, Option.none_or]
  by_cases h : k' = k
  · subst h; simp
  · have : ¬ k = k' := fun e => h e.symm
    simp [h, this]

theorem lookup_filter_ne (k k' : String) (c : Claims α) :
    lookup k (c.filter (fun kv => kv.1 ≠ k')) = if k = k' then none else lookup k c := by
  induction c with
  | nil => simp [lookup]
  | cons kv rest ih =>
    by_cases e : kv.1 = k'
    · have : (List.filter (fun kv => decide (kv.1 ≠ k')) (kv :: rest)) = List.filter (fun kv => decide (kv.1 ≠ k')) rest := by
        simp [List.filter, e]
      rw [this, ih]
      by_cases h : k = k'
      · simp [h]
      · have : ¬ kv.1 = k := fun x => h (x.symm.trans e)
        simp [h, lookup, this]
    · have : (List.filter (fun kv => decide (kv.1 ≠ k')) (kv :: rest)) = kv :: List.filter (fun kv => decide (kv.1 ≠ k')) rest := by
        simp [List.filter, e]
      rw [this]
      simp only [lookup, ih]
      by_cases h : k = k'
      · have : ¬ kv.1 = k := fun x => e (x.trans h)
        simp [h]
        intro x; exact absurd x (by rw [← h]; exact this)
      · simp [h]

theorem lookup_put (k k' : String) (v : CVal α) (c : Claims α) :
    lookup k (put k' v c) = if k = k' then some v else lookup k c := by
  unfold put
  rw [lookup_append, lookup_single, lookup_filter_ne]
  by_cases h : k = k' <;> simp [h]

theorem lookup_mergeInto (k : String) (custom dst : Claims α) :
    lookup k (mergeInto custom dst) = (lookup k custom).or (lookup k dst) := by
  unfold mergeInto
  induction custom generalizing dst with
  | nil => simp [lookup_nil]
  | cons kv rest ih =>
    rw [List.foldl_cons, ih, lookup_put]
    simp only [lookup]
    have hs : (kv.1 = k) = (k = kv.1) := propext ⟨Eq.symm, Eq.symm⟩
    cases lookup k rest <;> by_cases h : k = kv.1 <;> simp [h, hs]

/-- names stay unique under map assignment -/
theorem names_nodup_put (k : String) (v : CVal α) (c : Claims α) (h : (c.map (·.1)).Nodup) :
    ((put k v c).map (·.1)).Nodup := by
  unfold put
  rw [List.map_append, List.nodup_append]
  refine ⟨?_, by simp, ?_⟩
  · exact List.Nodup.sublist (List.Sublist.map _ List.filter_sublist) h
  · intro a ha b hb
    simp at hb
    subst hb
    rcases List.mem_map.mp ha with ⟨x, hx, rfl⟩
    have := (List.mem_filter.mp hx).2
    simpa using this

theorem names_nodup_mergeInto (custom dst : Claims α) (h : (dst.map (·.1)).Nodup) :
    ((mergeInto custom dst).map (·.1)).Nodup := by
  unfold mergeInto
  induction custom generalizing dst with
  | nil => simpa using h
  | cons kv rest ih => rw [List.foldl_cons]; exact ih _ (names_nodup_put _ _ _ h)

theorem names_nodup_fold (p : List ClaimOp) (custom : Claims α) (i : SignIn) (acc : Claims α)
    (h : (acc.map (·.1)).Nodup) : ((p.foldl (runOp custom i) acc).map (·.1)).Nodup := by
  induction p generalizing acc with
  | nil => simpa using h
  | cons op rest ih =>
    rw [List.foldl_cons]
    apply ih
    cases op with
    | merge => exact names_nodup_mergeInto _ _ h
    | set k s => exact names_nodup_put _ _ _ h

theorem lookup_fold_untouched (k : String) (post : List ClaimOp) (custom : Claims α) (i : SignIn) (acc : Claims α)
    (h : untouched k post = true) : lookup k (post.foldl (runOp custom i) acc) = lookup k acc := by
  induction post generalizing acc with
  | nil => rfl
  | cons op rest ih =>
    simp only [untouched, List.all_cons, Bool.and_eq_true] at h
    rw [List.foldl_cons, ih _ (by simpa [untouched] using h.2)]
    cases op with
    | merge => simp at h
    | set k' s =>
      simp only [runOp]
      rw [lookup_put]
      have : k ≠ k' := by
        intro e; subst e; simp at h
      simp [this]

end Heimdall.Signer
