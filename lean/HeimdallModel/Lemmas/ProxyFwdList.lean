import HeimdallModel.Lemmas.ProxyFwdQuery
/-!
Helper lemmas for C15, part 6: comma separated header values — appending an element to a list-valued header.
-/
namespace Heimdall.ProxyFwd
open Heimdall

theorem splitOn_append_sep (sep : Char) (a b : Bytes) :
    splitOn sep (a ++ sep :: b) = splitOn sep a ++ splitOn sep b := by
  induction a with
  | nil => simp [splitOn]
  | cons c t ih =>
    by_cases hc : c = sep
    · subst hc
      have e1 : ∀ r, splitOn c (c :: r) = [] :: splitOn c r := by intro r; simp [splitOn]
      simp only [List.cons_append, e1, ih, List.cons_append]
    · rw [List.cons_append, splitOn_cons_ne sep c _ hc, splitOn_cons_ne sep c t hc, ih]
      cases hs : splitOn sep t with
      | nil => exact absurd hs (splitOn_ne_nil sep t)
      | cons h r => rfl

theorem dropWhile_none {α} (p : α → Bool) (l : List α) (h : ∀ x ∈ l, p x = false) : l.dropWhile p = l := by
  cases l with
  | nil => rfl
  | cons x t => simp [List.dropWhile_cons, h x (by simp)]

/-- a string without blanks is not changed by trimming -/
theorem trimOWS_clean (s : Bytes) (h : ∀ x ∈ s, isOWS x = false) : trimOWS s = s := by
  unfold trimOWS
  rw [dropWhile_none isOWS s h, dropWhile_none isOWS s.reverse (fun x hx => h x (List.mem_reverse.mp hx))]
  simp

theorem trimOWS_space (s : Bytes) : trimOWS (' ' :: s) = trimOWS s := by
  unfold trimOWS
  simp [List.dropWhile_cons, isOWS]

/-- a character that can stand inside one element of a list-valued header -/
def cleanChar (ch : Char) : Bool := ch ≠ ',' && ch ≠ ';' && ch ≠ ' ' && ch ≠ '\t' && ch ≠ '"'

theorem cleanChar_facts {ch : Char} (h : cleanChar ch = true) : ch ≠ ',' ∧ ch ≠ ';' ∧ isOWS ch = false := by
  unfold cleanChar at h
  simp only [Bool.and_eq_true, decide_eq_true_eq] at h
  refine ⟨h.1.1.1.1, h.1.1.1.2, ?_⟩
  simp [isOWS, h.1.1.2, h.1.2]

/-- appending `", " ++ x` to a list-valued header adds exactly the element `x` -/
theorem listElems_extend (prior x : Bytes) (hc : ',' ∉ x) (ho : ∀ ch ∈ x, isOWS ch = false) :
    listElems (prior ++ b!", " ++ x) = listElems prior ++ [x] := by
  unfold listElems
  have : prior ++ b!", " ++ x = prior ++ ',' :: (' ' :: x) := by simp
  rw [this, splitOn_append_sep, List.map_append]
  congr 1
  have hn : ',' ∉ (' ' :: x) := by
    intro hm
    rcases List.mem_cons.mp hm with e | e
    · exact absurd e (by decide)
    · exact hc e
  rw [splitOn_no_sep_self ',' _ hn]
  simp only [List.map_cons, List.map_nil, trimOWS_space, trimOWS_clean x ho]

theorem listElems_single (x : Bytes) (hc : ',' ∉ x) (ho : ∀ ch ∈ x, isOWS ch = false) : listElems x = [x] := by
  unfold listElems
  rw [splitOn_no_sep_self ',' _ hc]
  simp [trimOWS_clean x ho]


/-! ### trimming a whole list-valued header does not change its elements -/

theorem headB_cons (a : Bytes) (l : List Bytes) : (a :: l).head! = a := rfl

theorem trimOWS_cons_ows (c : Char) (s : Bytes) (hc : isOWS c = true) : trimOWS (c :: s) = trimOWS s := by
  unfold trimOWS
  simp [List.dropWhile_cons, hc]

theorem trimOWS_append_ows (s : Bytes) (c : Char) (hc : isOWS c = true) : trimOWS (s ++ [c]) = trimOWS s := by
  induction s with
  | nil => simp [trimOWS, List.dropWhile_cons, hc]
  | cons x t ih =>
    by_cases hx : isOWS x = true
    · rw [List.cons_append, trimOWS_cons_ows x _ hx, trimOWS_cons_ows x _ hx, ih]
    · unfold trimOWS
      simp [List.dropWhile_cons, hx, hc]

theorem ows_ne_comma {c : Char} (hc : isOWS c = true) : c ≠ ',' := by
  intro e
  subst e
  revert hc
  decide

theorem listElems_cons_ows (c : Char) (t : Bytes) (hc : isOWS c = true) : listElems (c :: t) = listElems t := by
  unfold listElems
  rw [splitOn_cons_ne ',' c t (ows_ne_comma hc)]
  cases hs : splitOn ',' t with
  | nil => exact absurd hs (splitOn_ne_nil ',' t)
  | cons h r => simp [headB_cons, trimOWS_cons_ows c h hc]

/-- appending one character extends the last piece -/
theorem splitOn_snoc (sep c : Char) (hc : c ≠ sep) (t : Bytes) :
    ∃ init last, splitOn sep t = init ++ [last] ∧ splitOn sep (t ++ [c]) = init ++ [last ++ [c]] := by
  induction t with
  | nil =>
    refine ⟨[], [], rfl, ?_⟩
    simp [splitOn, hc]
  | cons x t ih =>
    obtain ⟨init, last, h1, h2⟩ := ih
    by_cases hx : x = sep
    · subst hx
      refine ⟨[] :: init, last, ?_, ?_⟩
      · simp [splitOn, h1]
      · simp [splitOn, h2]
    · rw [List.cons_append, splitOn_cons_ne sep x _ hx, splitOn_cons_ne sep x _ hx, h1, h2]
      cases init with
      | nil => exact ⟨[], x :: last, by simp [headB_cons], by simp [headB_cons]⟩
      | cons i is => exact ⟨(x :: i) :: is, last, by simp [headB_cons], by simp [headB_cons]⟩

theorem listElems_snoc_ows (t : Bytes) (c : Char) (hc : isOWS c = true) : listElems (t ++ [c]) = listElems t := by
  obtain ⟨init, last, h1, h2⟩ := splitOn_snoc ',' c (ows_ne_comma hc) t
  unfold listElems
  rw [h1, h2]
  simp [trimOWS_append_ows last c hc]

theorem listElems_dropWhile (v : Bytes) : listElems (v.dropWhile isOWS) = listElems v := by
  induction v with
  | nil => rfl
  | cons c t ih =>
    by_cases hc : isOWS c = true
    · rw [List.dropWhile_cons, if_pos hc, ih, listElems_cons_ows c t hc]
    · simp [List.dropWhile_cons, hc]

theorem listElems_dropWhile_reverse (r : Bytes) : listElems (r.dropWhile isOWS).reverse = listElems r.reverse := by
  induction r with
  | nil => rfl
  | cons c t ih =>
    by_cases hc : isOWS c = true
    · rw [List.dropWhile_cons, if_pos hc, ih, List.reverse_cons, listElems_snoc_ows _ c hc]
    · simp [List.dropWhile_cons, hc]

/-- the elements of a list-valued header do not depend on blanks around the whole value -/
theorem listElems_trimOWS (v : Bytes) : listElems (trimOWS v) = listElems v := by
  unfold trimOWS
  rw [listElems_dropWhile_reverse, List.reverse_reverse, listElems_dropWhile]


/-- a string that can be appended as one element to a list-valued header -/
def elemOK (s : Bytes) : Prop := ',' ∉ s ∧ ∀ ch ∈ s, isOWS ch = false

theorem elemOK_append (a b : Bytes) (ha : elemOK a) (hb : elemOK b) : elemOK (a ++ b) := by
  refine ⟨fun hm => ?_, fun ch hm => ?_⟩
  · rcases List.mem_append.mp hm with e | e
    · exact ha.1 e
    · exact hb.1 e
  · rcases List.mem_append.mp hm with e | e
    · exact ha.2 ch e
    · exact hb.2 ch e

theorem elemOK_of_all (s : Bytes) (h : s.all (fun ch => ch ≠ ',' && !isOWS ch) = true) : elemOK s := by
  rw [List.all_eq_true] at h
  refine ⟨fun hm => ?_, fun ch hm => ?_⟩
  · have := h _ hm
    simp at this
  · have := h _ hm
    simp only [Bool.and_eq_true, Bool.not_eq_true'] at this
    exact this.2

theorem elemOK_of_clean (s : Bytes) (h : s.all cleanChar = true) : elemOK s ∧ ';' ∉ s := by
  rw [List.all_eq_true] at h
  exact ⟨⟨fun hm => (cleanChar_facts (h _ hm)).1 rfl, fun ch hm => (cleanChar_facts (h _ hm)).2.2⟩,
    fun hm => (cleanChar_facts (h _ hm)).2.1 rfl⟩

end Heimdall.ProxyFwd
