import HeimdallModel.Spec.ProxyFwd
/-!
Helper lemmas for C15, part 4: splitting and joining a query, `QueryParamsRemover.RemoveFrom`.
-/
namespace Heimdall.ProxyFwd
open Heimdall

theorem splitOn_ne_nil (sep : Char) (s : Bytes) : splitOn sep s ≠ [] := by
  induction s with
  | nil => simp [splitOn]
  | cons c t ih =>
    unfold splitOn
    split
    · simp
    · split <;> simp

theorem splitOn_no_sep (sep : Char) (s : Bytes) : ∀ p ∈ splitOn sep s, sep ∉ p := by
  induction s with
  | nil => intro p hp; simp [splitOn] at hp; subst hp; simp
  | cons c t ih =>
    intro p hp
    unfold splitOn at hp
    split at hp
    · rcases List.mem_cons.mp hp with h | h
      · subst h; simp
      · exact ih p h
    · next hc =>
      split at hp
      · next hs => exact absurd hs (splitOn_ne_nil sep t)
      · next h r hs =>
        rcases List.mem_cons.mp hp with e | e
        · subst e
          have := ih h (by rw [hs]; simp)
          intro hm
          rcases List.mem_cons.mp hm with e' | e'
          · exact hc e'.symm
          · exact this e'
        · exact ih p (by rw [hs]; simp [e])

theorem splitOn_cons_ne (sep c : Char) (t : Bytes) (hc : c ≠ sep) :
    splitOn sep (c :: t) = (c :: (splitOn sep t).head!) :: (splitOn sep t).tail := by
  conv => lhs; unfold splitOn
  simp only [hc, if_false]
  cases hs : splitOn sep t with
  | nil => exact absurd hs (splitOn_ne_nil sep t)
  | cons h r => rfl

theorem splitOn_append_no_sep (sep : Char) (a : Bytes) (ha : sep ∉ a) (rest : Bytes) :
    splitOn sep (a ++ sep :: rest) = a :: splitOn sep rest := by
  induction a with
  | nil => simp [splitOn]
  | cons c t ih =>
    have hc : c ≠ sep := fun e => ha (by simp [e])
    have ht : sep ∉ t := fun h => ha (by simp [h])
    rw [List.cons_append, splitOn_cons_ne sep c _ hc, ih ht]
    rfl

theorem splitOn_no_sep_self (sep : Char) (a : Bytes) (ha : sep ∉ a) : splitOn sep a = [a] := by
  induction a with
  | nil => rfl
  | cons c t ih =>
    have hc : c ≠ sep := fun e => ha (by simp [e])
    have ht : sep ∉ t := fun h => ha (by simp [h])
    rw [splitOn_cons_ne sep c _ hc, ih ht]
    rfl

/-- splitting what was joined gives the pieces back -/
theorem splitOn_joinWith (sep : Char) (l : List Bytes) (hne : l ≠ []) (h : ∀ p ∈ l, sep ∉ p) :
    splitOn sep (joinWith [sep] l) = l := by
  induction l with
  | nil => exact absurd rfl hne
  | cons a l ih =>
    cases l with
    | nil => simpa [joinWith] using splitOn_no_sep_self sep a (h a (by simp))
    | cons b rest =>
      simp only [joinWith, List.append_assoc, List.singleton_append]
      rw [splitOn_append_no_sep sep a (h a (by simp)), ih (by simp) (fun p hp => h p (by simp [hp]))]

theorem keepPair_eq (names : List Bytes) (p : Bytes) : keepPair names p = !Spec.named names p := by
  unfold keepPair Spec.named pairKey
  cases queryUnescape (before '=' p) <;> rfl

/-- what `RemoveFrom` leaves: exactly the pieces of the query — as written, in order, empty ones included — that do not
carry a listed name; nothing at all if none is left -/
theorem splitOn_removeParams (names : List Bytes) (q : Bytes) :
    if (splitOn '&' q).filter (fun p => !Spec.named names p) = [] then removeParams names q = []
    else splitOn '&' (removeParams names q) = (splitOn '&' q).filter (fun p => !Spec.named names p) := by
  have hfe : (fun p => !Spec.named names p) = keepPair names := by funext p; rw [keepPair_eq]
  rw [hfe]
  unfold removeParams
  by_cases h0 : (q = [] || names = []) = true
  · simp only [h0, if_true]
    simp only [Bool.or_eq_true, decide_eq_true_eq] at h0
    rcases h0 with h | h
    · subst h
      by_cases hk : keepPair names [] = true <;> simp [splitOn, hk]
    · subst h
      have hall : (splitOn '&' q).filter (keepPair []) = splitOn '&' q := by
        rw [List.filter_eq_self]
        intro p _
        unfold keepPair
        cases pairKey p <;> simp
      rw [hall]
      simp [splitOn_ne_nil]
  · simp only [h0, Bool.false_eq_true, if_false]
    by_cases hl : (splitOn '&' q).filter (keepPair names) = []
    · simp [hl, joinWith]
    · simp only [hl, if_false]
      exact splitOn_joinWith '&' _ hl (fun p hp => splitOn_no_sep '&' q p (List.mem_filter.mp hp).1)

theorem filterMap_filter_comm {α β} (f : α → Option β) (keep : α → Bool) (g : β → Bool) (l : List α)
    (h : ∀ a b, f a = some b → keep a = g b) :
    (l.filter keep).filterMap f = (l.filterMap f).filter g := by
  induction l with
  | nil => rfl
  | cons a l ih =>
    simp only [List.filter_cons, List.filterMap_cons]
    cases hf : f a with
    | none =>
      by_cases hk : keep a = true
      · simp [hk, List.filterMap_cons, hf, ih]
      · simp [hk, ih]
    | some b =>
      have := h a b hf
      by_cases hk : keep a = true
      · simp [hk, List.filterMap_cons, hf, ih, ← this]
      · simp [hk, ih, ← this]

/-- as `url.ParseQuery` reads it: no listed name is left, every other parameter keeps its values in order -/
theorem parseQueryPairs_removeParams (names : List Bytes) (q : Bytes) :
    parseQueryPairs (removeParams names q) = (parseQueryPairs q).filter (fun kv => !names.contains kv.1) := by
  unfold removeParams
  by_cases h0 : (q = [] || names = []) = true
  · simp only [h0, if_true]
    simp only [Bool.or_eq_true, decide_eq_true_eq] at h0
    rcases h0 with h | h
    · subst h; rfl
    · subst h
      symm
      rw [List.filter_eq_self]
      intro p _
      simp
  · simp only [h0, Bool.false_eq_true, if_false]
    have key : ∀ (a : Bytes) (b : Bytes × Bytes), parsePair a = some b → keepPair names a = !names.contains b.1 := by
      intro a b hb
      unfold parsePair at hb
      split at hb
      · simp at hb
      · unfold keepPair pairKey
        cases hk : queryUnescape (before '=' a) with
        | none => simp [hk] at hb
        | some k =>
          cases hv : queryUnescape (after '=' a) with
          | none => simp [hk, hv] at hb
          | some v =>
            simp only [hk, hv, Option.some.injEq] at hb
            subst hb
            rfl
    unfold parseQueryPairs
    by_cases hl : (splitOn '&' q).filter (keepPair names) = []
    · rw [hl]
      have := filterMap_filter_comm parsePair (keepPair names) (fun kv : Bytes × Bytes => !names.contains kv.1)
        (splitOn '&' q) key
      rw [hl] at this
      rw [← this]
      rfl
    · rw [splitOn_joinWith '&' _ hl (fun p hp => splitOn_no_sep '&' q p (List.mem_filter.mp hp).1)]
      exact filterMap_filter_comm parsePair (keepPair names) (fun kv : Bytes × Bytes => !names.contains kv.1)
        (splitOn '&' q) key

end Heimdall.ProxyFwd
