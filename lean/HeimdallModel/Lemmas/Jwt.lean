import HeimdallModel.Spec.Jwt
/-!
# Helper lemmas for C05: each step of the ladder of `Model/Jwt.lean` characterised declaratively
-/
namespace Heimdall.Jwt

/-! ## Scope matchers -/

theorem strictPrefix_iff (a b : List String) :
    strictPrefix a b = true ↔ ∃ rest, rest ≠ [] ∧ b = a ++ rest := by
  induction a generalizing b with
  | nil =>
    cases b with
    | nil => simp [strictPrefix]
    | cons x xs => simp [strictPrefix]
  | cons x xs ih =>
    cases b with
    | nil => simp [strictPrefix]
    | cons y ys =>
      simp only [strictPrefix, Bool.and_eq_true, beq_iff_eq, ih, List.cons_append, List.cons.injEq]
      constructor
      · rintro ⟨rfl, rest, h, rfl⟩
        exact ⟨rest, h, rfl, rfl⟩
      · rintro ⟨rest, h, rfl, rfl⟩
        exact ⟨rfl, rest, h, rfl⟩

theorem hierCovers1_iff (g r : String) : hierCovers1 g r = true ↔ Covers .hierarchic g r := by
  simp only [hierCovers1, Covers, Bool.or_eq_true, beq_iff_eq, Bool.and_eq_true, Bool.not_eq_true',
    decide_eq_false_iff_not, Nat.not_lt, strictPrefix_iff, gt_iff_lt]

/-- the loop of the wildcard matcher, when `longer` says whether the lengths differ, decides `WildMatch` -/
theorem wildGo_iff (m : String) (ms : List String) (np : List String) :
    ((m :: ms).length ≤ np.length ∧ wildGo ((m :: ms).length != np.length) (m :: ms) np = true) ↔
      WildMatch (m :: ms) np := by
  induction ms generalizing m np with
  | nil =>
    cases np with
    | nil => simp [wildGo]; intro h; cases h
    | cons n ns =>
      cases ns with
      | nil =>
        simp only [List.length_cons, List.length_nil, Nat.le_refl, wildGo, List.isEmpty_nil, bne_self_eq_false,
          Bool.and_false, Bool.false_eq_true, ↓reduceIte, Bool.true_and, Bool.and_true, true_and,
          Bool.or_eq_true, Bool.and_eq_true, beq_iff_eq, bne_iff_ne, ne_eq]
        constructor
        · intro h
          exact .step h .nil
        · intro h
          cases h with
          | star _ _ hn => exact Or.inl ⟨rfl, hn⟩
          | step hp _ => exact hp
      | cons n' ns' =>
        have hlen : ((1 : Nat) != ns'.length + 1 + 1) = true := by simp
        simp only [List.length_cons, List.length_nil, wildGo, List.isEmpty_nil, hlen, ↓reduceIte,
          Bool.and_true, Bool.and_eq_true, beq_iff_eq, Bool.or_eq_true, bne_iff_ne, ne_eq]
        constructor
        · rintro ⟨_, rfl, h⟩
          rcases h with ⟨_, hn⟩ | rfl
          · exact .star _ _ hn
          · exact .star _ _ (by decide)
        · intro h
          refine ⟨by omega, ?_⟩
          cases h with
          | star _ _ hn => exact ⟨rfl, Or.inl ⟨rfl, hn⟩⟩
          | step hp hrest => cases hrest
  | cons m' ms ih =>
    cases np with
    | nil => simp [wildGo]; intro h; cases h
    | cons n ns =>
      have hl : ((m :: m' :: ms).length != (n :: ns).length) = ((m' :: ms).length != ns.length) := by
        simp [List.length_cons]
      rw [hl]
      simp only [wildGo, List.isEmpty_cons, Bool.false_and, Bool.false_eq_true, ↓reduceIte, Bool.true_and,
        Bool.and_eq_true, Bool.or_eq_true, beq_iff_eq, bne_iff_ne, ne_eq, List.length_cons]
      have ih' := ih m' ns
      simp only [List.length_cons] at ih'
      constructor
      · rintro ⟨hle, hp, hgo⟩
        exact .step hp (ih'.mp ⟨by omega, hgo⟩)
      · intro h
        cases h with
        | step hp hrest =>
          obtain ⟨hle, hgo⟩ := ih'.mpr hrest
          exact ⟨by omega, hp, hgo⟩

theorem splitChars_ne_nil (sep : Char) (cs : List Char) : splitChars sep cs ≠ [] := by
  cases cs with
  | nil => simp [splitChars]
  | cons c cs =>
    simp only [splitChars]
    split
    · simp
    · split <;> simp

theorem parts_ne_nil (s : String) : parts s ≠ [] := by
  simp [parts, splitAtChar, splitChars_ne_nil]

theorem wildCovers1_iff (g r : String) : wildCovers1 g r = true ↔ Covers .wildcard g r := by
  show wildCovers1 g r = true ↔ WildMatch (parts g) (parts r)
  unfold wildCovers1
  cases hg : parts g with
  | nil => exact absurd hg (parts_ne_nil g)
  | cons m ms =>
    rw [← wildGo_iff]
    simp only [Bool.and_eq_true, decide_eq_true_eq]

theorem covers1_iff (st : Strategy) (g r : String) : covers1 st g r = true ↔ Covers st g r := by
  cases st with
  | exact => simp [covers1, Covers]
  | hierarchic => exact hierCovers1_iff g r
  | wildcard => exact wildCovers1_iff g r

theorem scopesOk_iff (e : Expectation) (granted : List String) :
    e.scopesOk granted = true ↔ Satisfied e.scopes granted := by
  unfold Expectation.scopesOk Satisfied
  cases e.scopes with
  | none => simp
  | some m =>
    simp only [ScopesMatcher.matches, List.all_eq_true, List.any_eq_true, covers1_iff, Option.some.injEq,
      forall_eq']

/-! ## The matchers of the executable specification -/

theorem spec_hier_iff (g r : String) : Spec.hier g r = true ↔ Covers .hierarchic g r := by
  show Spec.hier g r = true ↔ (g = r ∨ (g.utf8ByteSize ≤ r.utf8ByteSize ∧ ∃ rest, rest ≠ [] ∧ parts r = parts g ++ rest))
  simp only [Spec.hier, Bool.or_eq_true, beq_iff_eq, Bool.and_eq_true, decide_eq_true_eq,
    List.isPrefixOf_iff_prefix]
  constructor
  · rintro (h | ⟨⟨hb, ⟨t, ht⟩⟩, hl⟩)
    · exact Or.inl h
    · refine Or.inr ⟨hb, t, ?_, ht.symm⟩
      rintro rfl
      rw [← ht] at hl
      simp at hl
  · rintro (h | ⟨hb, t, hne, ht⟩)
    · exact Or.inl h
    · refine Or.inr ⟨⟨hb, ⟨t, ht.symm⟩⟩, ?_⟩
      rw [ht, List.length_append]
      have : 0 < t.length := List.length_pos_iff.mpr hne
      omega

theorem spec_wild_iff (mp np : List String) : Spec.wild mp np = true ↔ WildMatch mp np := by
  induction mp generalizing np with
  | nil =>
    cases np with
    | nil => simp [Spec.wild]; exact .nil
    | cons n ns => simp [Spec.wild]; intro h; cases h
  | cons m ms ih =>
    cases np with
    | nil => simp [Spec.wild]; intro h; cases h
    | cons n ns =>
      cases ms with
      | nil =>
        cases ns with
        | nil =>
          simp only [Spec.wild, List.isEmpty_nil, ↓reduceIte, Bool.or_eq_true, Bool.and_eq_true, beq_iff_eq,
            bne_iff_ne, ne_eq]
          constructor
          · intro h; exact .step h .nil
          · intro h
            cases h with
            | star _ _ hn => exact Or.inl ⟨rfl, hn⟩
            | step hp _ => exact hp
        | cons n' ns' =>
          simp only [Spec.wild, List.isEmpty_cons, Bool.false_eq_true, ↓reduceIte, Bool.and_eq_true, beq_iff_eq,
            bne_iff_ne, ne_eq]
          constructor
          · rintro ⟨rfl, hn⟩; exact .star _ _ hn
          · intro h
            cases h with
            | star _ _ hn => exact ⟨rfl, hn⟩
            | step hp hrest => cases hrest
      | cons m' ms' =>
        simp only [Spec.wild, Bool.and_eq_true, Bool.or_eq_true, beq_iff_eq, bne_iff_ne, ne_eq, ih]
        constructor
        · rintro ⟨hp, hr⟩; exact .step hp hr
        · intro h
          cases h with
          | step hp hr => exact ⟨hp, hr⟩

theorem spec_covers_iff (st : Strategy) (g r : String) : Spec.covers st g r = true ↔ Covers st g r := by
  cases st with
  | exact => simp [Spec.covers, Covers]
  | hierarchic => exact spec_hier_iff g r
  | wildcard => exact spec_wild_iff _ _

theorem spec_satisfied_iff (m : Option ScopesMatcher) (granted : List String) :
    Spec.satisfied m granted = true ↔ Satisfied m granted := by
  unfold Spec.satisfied Satisfied
  cases m with
  | none => simp
  | some m =>
    simp only [List.all_eq_true, List.any_eq_true, spec_covers_iff, Option.some.injEq, forall_eq']

/-! ## Reading the payload: the decoder computes what the specification reads -/

theorem member_eq_lookup (k : String) (kvs : List (String × Val)) : Spec.member k kvs = lookup k kvs := by
  induction kvs with
  | nil => rfl
  | cons kv r ih =>
    obtain ⟨k', v⟩ := kv
    unfold Spec.member at ih ⊢
    by_cases h : k' = k
    · simp [List.find?, lookup, h]
    · simp [List.find?, lookup, h, ih]

/-- the text a textual claim denotes -/
def textOf : Option Val → String
  | some (.str s) => s
  | _ => ""

/-- the instant a date claim denotes -/
def dateOf : Option Val → Option Int
  | some (.num m e) => some (Spec.seconds m e)
  | _ => none

theorem strClaim_eq (kvs : List (String × Val)) (k : String) :
    strClaim kvs k = if Spec.textOk (lookup k kvs) then some (textOf (lookup k kvs)) else none := by
  unfold strClaim
  cases lookup k kvs with
  | none => rfl
  | some v => cases v <;> rfl

theorem asStrings_eq (l : List Val) :
    asStrings l = if (l.all fun v => match v with | .str _ => true | _ => false)
      then some (l.filterMap fun v => match v with | .str s => some s | _ => none) else none := by
  induction l with
  | nil => rfl
  | cons v r ih =>
    cases v <;> simp [asStrings, ih]

theorem listClaim_eq (kvs : List (String × Val)) (k : String) :
    listClaim kvs k = if Spec.stringsOk (lookup k kvs) then some (Spec.strings (lookup k kvs)) else none := by
  unfold listClaim
  cases lookup k kvs with
  | none => rfl
  | some v =>
    cases v with
    | arr l =>
      show asStrings l = _
      rw [asStrings_eq]
      rfl
    | _ => rfl

theorem dateClaim_eq (kvs : List (String × Val)) (k : String) :
    dateClaim kvs k = if Spec.dateOk (lookup k kvs) then some (dateOf (lookup k kvs)) else none := by
  unfold dateClaim
  cases lookup k kvs with
  | none => rfl
  | some v =>
    cases v with
    | num m e =>
      show (if minDate < truncNum m e ∧ truncNum m e ≤ maxDate then some (some (truncNum m e)) else none) =
        if (decide (-62135596800 < Spec.seconds m e) && decide (Spec.seconds m e ≤ 253402300799)) = true
          then some (some (Spec.seconds m e)) else none
      have e1 : truncNum m e = Spec.seconds m e := rfl
      rw [e1]
      generalize Spec.seconds m e = t
      by_cases h : -62135596800 < t ∧ t ≤ 253402300799
      · have hd : (decide (-62135596800 < t) && decide (t ≤ 253402300799)) = true := by
          simp only [Bool.and_eq_true, decide_eq_true_eq]; exact h
        rw [hd]
        have h' : minDate < t ∧ t ≤ maxDate := h
        simp [h']
      · have hd : (decide (-62135596800 < t) && decide (t ≤ 253402300799)) = false := by
          rw [Bool.eq_false_iff]
          simp only [ne_eq, Bool.and_eq_true, decide_eq_true_eq]; exact h
        rw [hd]
        have h' : ¬ (minDate < t ∧ t ≤ maxDate) := h
        simp [h']
    | _ => rfl

/-- the claims the specification reads from a payload -/
def claimsOf (kvs : List (String × Val)) : Claims :=
  { iss := textOf (lookup "iss" kvs), aud := Spec.strings (lookup "aud" kvs), scp := Spec.strings (lookup "scp" kvs),
    scope := Spec.strings (lookup "scope" kvs), exp := dateOf (lookup "exp" kvs), nbf := dateOf (lookup "nbf" kvs),
    iat := dateOf (lookup "iat" kvs) }

theorem decodeClaims_eq (kvs : List (String × Val)) :
    decodeClaims kvs = if Spec.wellTyped kvs then some (claimsOf kvs) else none := by
  simp only [decodeClaims, strClaim_eq, listClaim_eq, dateClaim_eq, Spec.wellTyped, member_eq_lookup, claimsOf,
    bind, Option.bind]
  cases Spec.textOk (lookup "iss" kvs) <;> simp
  cases Spec.textOk (lookup "sub" kvs) <;> simp
  cases Spec.stringsOk (lookup "aud" kvs) <;> simp
  cases Spec.stringsOk (lookup "scp" kvs) <;> simp
  cases Spec.stringsOk (lookup "scope" kvs) <;> simp
  cases Spec.dateOk (lookup "exp" kvs) <;> simp
  cases Spec.dateOk (lookup "nbf" kvs) <;> simp
  cases Spec.dateOk (lookup "iat" kvs) <;> simp
  cases Spec.textOk (lookup "jti" kvs) <;> simp

/-! ## Assertions -/

/-- the registered-claim conditions, on decoded claims -/
structure ClaimsOk (a : Expectation) (c : Claims) (nowMs : Int) : Prop where
  issuerTrusted : c.iss ≠ "" ∧ c.iss ∈ a.issuers
  audienceOk : a.audiences = [] ∨ ∃ x ∈ a.audiences, x ∈ c.aud
  scopesOk : Satisfied a.scopes c.granted
  notBefore : ∀ t, c.nbf = some t → t ≤ nowMs / 1000 + a.leewaySec
  notExpired : ∀ t, c.exp = some t → nowMs / 1000 - a.leewaySec < t
  issued : ∀ t, c.iat = some t → t * 1000 ≤ nowMs + a.leewayMs

theorem notYetValid_false_iff (e : Expectation) (nbf : Option Int) (nowMs : Int) :
    notYetValid e nbf nowMs = false ↔ ∀ t, nbf = some t → t ≤ nowMs / 1000 + e.leewaySec := by
  cases nbf with
  | none => simp [notYetValid]
  | some t => simp [notYetValid]

theorem expired_false_iff (e : Expectation) (exp : Option Int) (nowMs : Int) :
    expired e exp nowMs = false ↔ ∀ t, exp = some t → nowMs / 1000 - e.leewaySec < t := by
  cases exp with
  | none => simp [expired]
  | some t => simp [expired]

theorem issuedInFuture_false_iff (e : Expectation) (iat : Option Int) (nowMs : Int) :
    issuedInFuture e iat nowMs = false ↔ ∀ t, iat = some t → t * 1000 ≤ nowMs + e.leewayMs := by
  cases iat with
  | none => simp [issuedInFuture]
  | some t => simp [issuedInFuture]

theorem audienceOk_iff (e : Expectation) (aud : List String) :
    audienceOk e aud = true ↔ (e.audiences = [] ∨ ∃ x ∈ e.audiences, x ∈ aud) := by
  simp [audienceOk]

theorem validate_ok_iff (a : Expectation) (c : Claims) (nowMs : Int) :
    validate a c nowMs = .ok () ↔ ClaimsOk a c nowMs := by
  have key : ClaimsOk a c nowMs ↔
      (c.iss == "" || !a.issuers.contains c.iss) = false ∧ audienceOk a c.aud = true ∧
      notYetValid a c.nbf nowMs = false ∧
      expired a c.exp nowMs = false ∧ issuedInFuture a c.iat nowMs = false ∧ a.scopesOk c.granted = true := by
    rw [audienceOk_iff, notYetValid_false_iff, expired_false_iff, issuedInFuture_false_iff, scopesOk_iff]
    have hi : (c.iss == "" || !a.issuers.contains c.iss) = false ↔ (c.iss ≠ "" ∧ c.iss ∈ a.issuers) := by
      simp
    rw [hi]
    constructor
    · rintro ⟨h1, h2, h3, h4, h5, h6⟩
      exact ⟨h1, h2, h4, h5, h6, h3⟩
    · rintro ⟨h1, h2, h4, h5, h6, h3⟩
      exact ⟨h1, h2, h3, h4, h5, h6⟩
  rw [key]
  unfold validate
  cases (c.iss == "" || !a.issuers.contains c.iss) <;> cases audienceOk a c.aud <;>
    cases notYetValid a c.nbf nowMs <;> cases expired a c.exp nowMs <;> cases issuedInFuture a c.iat nowMs <;>
    cases a.scopesOk c.granted <;> simp

/-- the conditions on decoded claims are the conditions of the specification on the raw payload -/
theorem claimsOk_claimsOf_iff (a : Expectation) (kvs : List (String × Val)) (nowMs : Int) :
    ClaimsOk a (claimsOf kvs) nowMs ↔
      (∃ i, Spec.issuer kvs = some i ∧ i ∈ a.issuers) ∧
      (a.audiences = [] ∨ ∃ x ∈ a.audiences, x ∈ Spec.audiences kvs) ∧
      Satisfied a.scopes (Spec.granted kvs) ∧
      (∀ t, Spec.date "nbf" kvs = some t → t ≤ nowMs / 1000 + a.leewaySec) ∧
      (∀ t, Spec.date "exp" kvs = some t → nowMs / 1000 - a.leewaySec < t) ∧
      (∀ t, Spec.date "iat" kvs = some t → t * 1000 ≤ nowMs + a.leewayMs) := by
  have hg : (claimsOf kvs).granted = Spec.granted kvs := by
    simp only [Claims.granted, claimsOf, Spec.granted, member_eq_lookup]
    by_cases h : Spec.strings (lookup "scp" kvs) = [] <;> simp [h]
  have ha : (claimsOf kvs).aud = Spec.audiences kvs := by
    simp only [claimsOf, Spec.audiences, member_eq_lookup]
  have hd : ∀ k, Spec.date k kvs = dateOf (lookup k kvs) := by
    intro k
    simp only [Spec.date, member_eq_lookup, dateOf]
    cases lookup k kvs with
    | none => rfl
    | some v => cases v <;> rfl
  have hi : ((claimsOf kvs).iss ≠ "" ∧ (claimsOf kvs).iss ∈ a.issuers) ↔
      ∃ i, Spec.issuer kvs = some i ∧ i ∈ a.issuers := by
    simp only [claimsOf, Spec.issuer, member_eq_lookup]
    cases lookup "iss" kvs with
    | none => simp [textOf]
    | some v =>
      cases v with
      | str s =>
        by_cases hs : s = ""
        · simp [textOf, hs]
        · simp [textOf, hs]
      | _ => simp [textOf]
  constructor
  · rintro ⟨h1, h2, h3, h4, h5, h6⟩
    refine ⟨hi.mp h1, ha ▸ h2, hg ▸ h3, ?_, ?_, ?_⟩
    · intro t ht; exact h4 t (by rw [hd] at ht; exact ht)
    · intro t ht; exact h5 t (by rw [hd] at ht; exact ht)
    · intro t ht; exact h6 t (by rw [hd] at ht; exact ht)
  · rintro ⟨h1, h2, h3, h4, h5, h6⟩
    refine ⟨hi.mpr h1, ha ▸ h2, hg ▸ h3, ?_, ?_, ?_⟩
    · intro t ht; exact h4 t (by rw [hd]; exact ht)
    · intro t ht; exact h5 t (by rw [hd]; exact ht)
    · intro t ht; exact h6 t (by rw [hd]; exact ht)

/-! ## Configuration levels, metadata, endpoint -/

theorem firstSet_nil {α : Type} : Spec.firstSet ([] : List (List α)) = [] := rfl

theorem firstSet_cons {α : Type} (l : List α) (ls : List (List α)) :
    Spec.firstSet (l :: ls) = if l = [] then Spec.firstSet ls else l := by
  cases l <;> simp [Spec.firstSet, List.find?]

theorem firstNonZero_cons (l : Int) (ls : List Int) :
    ((l :: ls).find? fun x => x != 0).getD 0 = if l = 0 then (ls.find? fun x => x != 0).getD 0 else l := by
  by_cases h : l = 0
  · simp [List.find?, h]
  · have hb : (l != 0) = true := by simpa using h
    simp [List.find?, hb, h]

theorem Expectation.ext' {a b : Expectation} (h1 : a.issuers = b.issuers) (h2 : a.scopes = b.scopes)
    (h3 : a.audiences = b.audiences) (h4 : a.algs = b.algs) (h5 : a.leeway = b.leeway) : a = b := by
  cases a; cases b; simp_all

theorem effective_eq_inForce (cfg : Config) (rule : Option Expectation) (metaIssuer : String) :
    effective cfg rule metaIssuer = Spec.inForce cfg rule metaIssuer := by
  cases rule with
  | none =>
    apply Expectation.ext' <;>
      simp only [effective, Spec.inForce, Spec.levels, Expectation.merge, List.nil_append,
        List.map_cons, List.map_nil, List.cons_append, List.findSome?_cons, List.findSome?_nil,
        firstSet_cons, firstSet_nil, firstNonZero_cons, List.find?_nil, Option.getD_none]
    · by_cases h : cfg.assertions.issuers = [] <;> simp [h]
    · cases cfg.assertions.scopes <;> simp
    · by_cases h : cfg.assertions.audiences = [] <;> simp [h]
    · by_cases h : cfg.assertions.algs = [] <;> by_cases hd : Gen.defaultAllowed = [] <;> simp [h, hd]
    · by_cases h : cfg.assertions.leeway = 0 <;> simp [h]
  | some r =>
    apply Expectation.ext' <;>
      simp only [effective, Spec.inForce, Spec.levels, Expectation.merge,
        List.map_cons, List.map_nil, List.cons_append, List.nil_append, List.findSome?_cons, List.findSome?_nil,
        firstSet_cons, firstSet_nil, firstNonZero_cons, List.find?_nil, Option.getD_none]
    · by_cases h : cfg.assertions.issuers = [] <;> by_cases hr : r.issuers = [] <;> simp [h, hr]
    · cases r.scopes <;> cases cfg.assertions.scopes <;> simp
    · by_cases h : cfg.assertions.audiences = [] <;> by_cases hr : r.audiences = [] <;> simp [h, hr]
    · by_cases h : cfg.assertions.algs = [] <;> by_cases hr : r.algs = [] <;>
        by_cases hd : Gen.defaultAllowed = [] <;> simp [h, hr, hd]
    · by_cases h : cfg.assertions.leeway = 0 <;> by_cases hr : r.leeway = 0 <;> simp [h, hr]

theorem resolveMetadata_ok_iff (cfg : Config) (w : World) (md : Metadata) :
    resolveMetadata cfg w = .ok md ↔ Spec.metadata cfg w = some md := by
  unfold resolveMetadata Spec.metadata
  cases cfg.jwksMode with
  | true => simp [eq_comm]
  | false =>
    cases w.metadata with
    | none => simp
    | some m => cases hm : m.hasJwks <;> simp [hm]

theorem resolveMetadata_error_iff (cfg : Config) (w : World) :
    (∃ why, resolveMetadata cfg w = .error why) ↔ Spec.metadata cfg w = none := by
  unfold resolveMetadata Spec.metadata
  cases cfg.jwksMode with
  | true => simp
  | false =>
    cases w.metadata with
    | none => simp
    | some m => cases hm : m.hasJwks <;> simp [hm]

theorem endpointOf_eq (cfg : Config) (kvs : List (String × Val)) : endpointOf cfg kvs = Spec.endpoint cfg kvs := by
  unfold endpointOf Spec.endpoint
  rw [member_eq_lookup]
  cases cfg.jwksMode <;> cases cfg.templated <;> simp
  cases lookup "iss" kvs with
  | none => rfl
  | some v => cases v <;> rfl

/-! ## Keys -/

theorem verifyWithKey_ok_iff (a : Expectation) (tok : Token) (kvs : List (String × Val)) (nowMs : Int) (k : Key) :
    verifyWithKey a tok kvs nowMs k = .ok () ↔
      (tok.alg = "" ∨ k.alg = tok.alg) ∧ k.alg ∈ a.algs ∧
      (k.usable = true ∧ tok.critOk = true ∧ tok.sigOk k.mat = true) ∧
      Spec.wellTyped kvs = true ∧ ClaimsOk a (claimsOf kvs) nowMs := by
  have e1 : (tok.alg = "" ∨ k.alg = tok.alg) ↔ algAgrees tok k = true := by simp [algAgrees]
  have e2 : k.alg ∈ a.algs ↔ a.algs.contains k.alg = true := by simp
  have e3 : (k.usable = true ∧ tok.critOk = true ∧ tok.sigOk k.mat = true) ↔ signedBy tok k = true := by
    simp [signedBy, and_assoc]
  rw [e1, e2, e3]
  unfold verifyWithKey
  rw [decodeClaims_eq]
  cases algAgrees tok k <;> cases a.algs.contains k.alg <;> cases signedBy tok k <;>
    cases Spec.wellTyped kvs <;> simp [validate_ok_iff]

theorem certAccepted_iff (v : Bool) (k : Key) : certAccepted v k = true ↔ (v = true → k.cert ≠ .untrusted) := by
  cases v <;> simp [certAccepted]

theorem selectByKid_ok_iff (v : Bool) (ks : List Key) (kid : String) (k : Key) :
    selectByKid v ks kid = .ok k ↔ ks.filter (fun k' => k'.kid = kid) = [k] ∧ certAccepted v k = true := by
  unfold selectByKid
  cases hf : ks.filter (fun k' => decide (k'.kid = kid)) with
  | nil => simp
  | cons k1 rest =>
    cases rest with
    | nil =>
      by_cases hc : certAccepted v k1 = true
      · simp only [hc, ↓reduceIte, Except.ok.injEq, List.cons.injEq, and_true]
        constructor
        · rintro rfl; exact ⟨rfl, hc⟩
        · rintro ⟨rfl, _⟩; rfl
      · simp only [hc, Bool.false_eq_true, ↓reduceIte, reduceCtorEq, List.cons.injEq, and_true, false_iff,
          not_and]
        rintro rfl; exact hc
    | cons k2 rest2 => simp

/-- key selection: success is always owed to one key of the set -/
theorem verify_ok_iff (a : Expectation) (v : Bool) (ks : List Key) (tok : Token) (kvs : List (String × Val))
    (nowMs : Int) :
    verify a v ks tok kvs nowMs = .ok () ↔
      ∃ k ∈ ks, (tok.kid ≠ "" → ks.filter (fun k' => k'.kid = tok.kid) = [k]) ∧ certAccepted v k = true ∧
        verifyWithKey a tok kvs nowMs k = .ok () := by
  unfold verify
  by_cases hk : tok.kid = ""
  · simp only [hk, ↓reduceIte, ne_eq, not_true_eq_false, false_implies, true_and]
    unfold verifyNoKid
    by_cases hany : ((ks.filter (certAccepted v)).any fun k => okB (verifyWithKey a tok kvs nowMs k)) = true
    · simp only [hany, ↓reduceIte, true_iff]
      obtain ⟨k, hkm, hok⟩ := List.any_eq_true.mp hany
      obtain ⟨hin, hc⟩ := List.mem_filter.mp hkm
      refine ⟨k, hin, hc, ?_⟩
      cases hv : verifyWithKey a tok kvs nowMs k with
      | ok u => cases u; rfl
      | error e => simp [hv, okB] at hok
    · simp only [hany, Bool.false_eq_true, ↓reduceIte, reduceCtorEq, false_iff, not_exists, not_and]
      intro k hin hc hv
      apply hany
      exact List.any_eq_true.mpr ⟨k, List.mem_filter.mpr ⟨hin, hc⟩, by simp [hv, okB]⟩
  · simp only [hk, ↓reduceIte, ne_eq, not_false_eq_true, true_implies]
    cases hs : selectByKid v ks tok.kid with
    | error e =>
      simp only [reduceCtorEq, false_iff, not_exists, not_and]
      intro k _ hf hc
      have := (selectByKid_ok_iff v ks tok.kid k).mpr ⟨hf, hc⟩
      rw [hs] at this; cases this
    | ok k =>
      obtain ⟨hf, hc⟩ := (selectByKid_ok_iff v ks tok.kid k).mp hs
      have hin : k ∈ ks := (List.mem_filter.mp (hf ▸ List.mem_cons_self)).1
      simp only
      constructor
      · intro h; exact ⟨k, hin, hf, hc, h⟩
      · rintro ⟨k', _, hf', _, hv⟩
        rw [hf] at hf'; cases hf'; exact hv

/-- what `verify` establishes, in the vocabulary of the specification (for a token whose `alg` is not empty) -/
theorem verify_ok_iff_entitled (a : Expectation) (v : Bool) (ks : List Key) (tok : Token) (kvs : List (String × Val))
    (nowMs : Int) (halg : tok.alg ≠ "") :
    verify a v ks tok kvs nowMs = .ok () ↔ ∃ k, Entitled a v ks tok kvs nowMs k := by
  rw [verify_ok_iff]
  constructor
  · rintro ⟨k, hin, hdes, hcert, hv⟩
    obtain ⟨halg', hallowed, hsig, hwt, hok⟩ := (verifyWithKey_ok_iff a tok kvs nowMs k).mp hv
    have hagree : k.alg = tok.alg := halg'.resolve_left halg
    obtain ⟨h1, h2, h3, h4, h5, h6⟩ := (claimsOk_claimsOf_iff a kvs nowMs).mp hok
    exact ⟨k, ⟨hin, hdes, (certAccepted_iff v k).mp hcert, hagree, hallowed, hsig, hwt, h1, h2, h3, h4, h5, h6⟩⟩
  · rintro ⟨k, e⟩
    refine ⟨k, e.fromKeySet, e.designated, (certAccepted_iff v k).mpr e.certificate, ?_⟩
    exact (verifyWithKey_ok_iff a tok kvs nowMs k).mpr ⟨Or.inr e.algAgrees, e.algAllowed, e.signed, e.wellTyped,
      (claimsOk_claimsOf_iff a kvs nowMs).mpr
        ⟨e.issuerTrusted, e.audienceOk, e.scopesOk, e.notBefore, e.notExpired, e.issued⟩⟩

/-- a payload without members (the document `null`) never gets through: it names no issuer -/
theorem verify_nil_not_ok (a : Expectation) (v : Bool) (ks : List Key) (tok : Token) (nowMs : Int) :
    verify a v ks tok [] nowMs ≠ .ok () := by
  intro h
  obtain ⟨k, _, _, _, hv⟩ := (verify_ok_iff a v ks tok [] nowMs).mp h
  obtain ⟨_, _, _, _, hok⟩ := (verifyWithKey_ok_iff a tok [] nowMs k).mp hv
  exact hok.issuerTrusted.1 rfl

/-! ## Numbers -/

theorem roundF64Nat_small (a : Nat) (h : a ≤ 2 ^ 53) : roundF64Nat a = a := by
  unfold roundF64Nat
  by_cases hb : a.log2 + 1 ≤ 53
  · simp [hb]
  · have h0 : a ≠ 0 := by
      rintro rfl
      simp at hb
    have h1 : ¬ a < 2 ^ 53 := by
      intro hlt
      have := (Nat.log2_lt h0).mpr hlt
      omega
    have : a = 2 ^ 53 := by omega
    subst this
    decide

theorem roundF64_small (m : Int) (h : m.natAbs ≤ 2 ^ 53) : roundF64 m = m := by
  cases m with
  | ofNat a => simp only [roundF64]; rw [roundF64Nat_small a (by simpa using h)]
  | negSucc a =>
    simp only [roundF64]
    rw [roundF64Nat_small (a + 1) (by simpa [Int.natAbs] using h)]
    rfl

mutual
theorem Val.round_of_floatSafe : ∀ v : Val, v.floatSafe = true → v.round = v
  | .null, _ => rfl
  | .bool _, _ => rfl
  | .str _, _ => rfl
  | .num m 0, h => by
    simp only [Val.floatSafe, decide_eq_true_eq] at h
    simp only [Val.round, roundF64_small m h]
  | .num _ (_ + 1), _ => rfl
  | .arr l, h => by
    simp only [Val.floatSafe] at h
    simp only [Val.round, roundList_of_safe l h]
  | .obj kvs, h => by
    simp only [Val.floatSafe] at h
    simp only [Val.round, roundFields_of_safe kvs h]
theorem roundList_of_safe : ∀ l : List Val, safeList l = true → roundList l = l
  | [], _ => rfl
  | v :: r, h => by
    simp only [safeList, Bool.and_eq_true] at h
    simp only [roundList, Val.round_of_floatSafe v h.1, roundList_of_safe r h.2]
theorem roundFields_of_safe : ∀ kvs : List (String × Val), safeFields kvs = true → roundFields kvs = kvs
  | [], _ => rfl
  | (k, v) :: r, h => by
    simp only [safeFields, Bool.and_eq_true] at h
    simp only [roundFields, Val.round_of_floatSafe v h.1, roundFields_of_safe r h.2]
end

theorem lookup_floatSafe (k : String) : ∀ (kvs : List (String × Val)) (v : Val),
    safeFields kvs = true → lookup k kvs = some v → v.floatSafe = true
  | [], _, _, h => by simp [lookup] at h
  | (k', v') :: r, v, hs, h => by
    simp only [safeFields, Bool.and_eq_true] at hs
    simp only [lookup] at h
    split at h
    · cases h; exact hs.1
    · exact lookup_floatSafe k r v hs.2 h

theorem getElem_floatSafe : ∀ (l : List Val) (i : Nat) (v : Val),
    safeList l = true → l[i]? = some v → v.floatSafe = true
  | [], _, _, _, h => by simp at h
  | v' :: r, 0, v, hs, h => by
    simp only [safeList, Bool.and_eq_true] at hs
    simp only [List.getElem?_cons_zero, Option.some.injEq] at h
    cases h; exact hs.1
  | v' :: r, i + 1, v, hs, h => by
    simp only [safeList, Bool.and_eq_true] at hs
    simp only [List.getElem?_cons_succ] at h
    exact getElem_floatSafe r i v hs.2 h

/-- a part of a float-safe value is float-safe -/
theorem get_floatSafe : ∀ (path : List Seg) (pl v : Val), pl.floatSafe = true → pl.get path = some v →
    v.floatSafe = true
  | [], pl, v, hs, h => by
    simp only [Val.get, Option.some.injEq] at h
    cases h; exact hs
  | s :: r, pl, v, hs, h => by
    cases pl with
    | obj kvs =>
      simp only [Val.get] at h
      cases hl : lookup s.key kvs with
      | none => simp [hl] at h
      | some v' =>
        simp only [hl] at h
        simp only [Val.floatSafe] at hs
        exact get_floatSafe r v' v (lookup_floatSafe _ kvs v' hs hl) h
    | arr l =>
      simp only [Val.get] at h
      cases hi : s.idx with
      | none => simp [hi] at h
      | some i =>
        simp only [hi] at h
        cases hl : l[i]? with
        | none => simp [hl] at h
        | some v' =>
          simp only [hl] at h
          simp only [Val.floatSafe] at hs
          exact get_floatSafe r v' v (getElem_floatSafe l i v' hs hl) h
    | null => simp [Val.get] at h
    | bool _ => simp [Val.get] at h
    | num _ _ => simp [Val.get] at h
    | str _ => simp [Val.get] at h

/-! ## Rounding touches numbers only -/

theorem lookup_roundFields (k : String) : ∀ kvs : List (String × Val),
    lookup k (roundFields kvs) = (lookup k kvs).map Val.round
  | [] => rfl
  | (k', v) :: r => by
    simp only [roundFields, lookup]
    split
    · rfl
    · exact lookup_roundFields k r

theorem getElem_roundList : ∀ (l : List Val) (i : Nat), (roundList l)[i]? = (l[i]?).map Val.round
  | [], _ => by simp [roundList]
  | v :: r, 0 => by simp [roundList]
  | v :: r, i + 1 => by
    simp only [roundList, List.getElem?_cons_succ]
    exact getElem_roundList r i

/-- selecting commutes with rounding: what a path finds in the rounded value is the rounded form of what it finds in
the value itself -/
theorem get_round : ∀ (path : List Seg) (v : Val), v.round.get path = (v.get path).map Val.round
  | [], v => by simp [Val.get]
  | s :: r, v => by
    cases v with
    | obj kvs =>
      simp only [Val.round, Val.get, lookup_roundFields]
      cases lookup s.key kvs with
      | none => rfl
      | some v' => simpa using get_round r v'
    | arr l =>
      simp only [Val.round, Val.get]
      cases s.idx with
      | none => rfl
      | some i =>
        simp only [getElem_roundList]
        cases l[i]? with
        | none => rfl
        | some v' => simpa using get_round r v'
    | null => rfl
    | bool _ => rfl
    | num m e => cases e <;> rfl
    | str _ => rfl

/-- a string is never the result of rounding anything but itself -/
theorem round_eq_str (v : Val) (s : String) : v.round = .str s ↔ v = .str s := by
  cases v with
  | num m e => cases e <;> simp [Val.round]
  | _ => simp [Val.round]

/-! ## Subject -/

theorem subject_accepted_iff (sc : SubjectConf) (pl : Val) (id : String) (attrs : Val) :
    subject sc pl = .accepted id attrs ↔ ∃ attrs₀, SubjectOf sc pl id attrs₀ ∧ attrs = attrs₀.round := by
  unfold subject SubjectOf
  cases hg : pl.get sc.idPath with
  | none => simp
  | some v =>
    simp only [Option.some.injEq, exists_eq_left']
    cases hi : idString v with
    | none => simp
    | some id' =>
      simp only [Option.some.injEq]
      by_cases he : id' = ""
      · subst he
        simp only [↓reduceIte, reduceCtorEq, false_iff, not_exists, not_and]
        rintro _ ⟨rfl, h, _⟩
        exact absurd rfl h
      · simp only [he, ↓reduceIte]
        cases hs : attrsSource sc pl with
        | none => simp
        | some src =>
          cases src with
          | obj kvs =>
            simp only [Outcome.accepted.injEq, Option.some.injEq, Val.obj.injEq]
            constructor
            · rintro ⟨rfl, rfl⟩
              exact ⟨.obj kvs, ⟨rfl, he, kvs, rfl, rfl⟩, rfl⟩
            · rintro ⟨_, ⟨rfl, _, kvs', rfl, rfl⟩, rfl⟩
              exact ⟨rfl, rfl⟩
          | _ => simp

theorem subject_verdict (sc : SubjectConf) (pl : Val) :
    (subject sc pl).verdict = (Spec.subjectOf sc pl).rounded := by
  unfold subject Spec.subjectOf
  cases pl.get sc.idPath with
  | none => rfl
  | some v =>
    simp only [Option.map_some]
    cases idString v with
    | none => rfl
    | some id =>
      simp only
      by_cases he : id = ""
      · simp [he, Outcome.verdict, Verdict.rounded]
      · simp only [he, ↓reduceIte]
        cases attrsSource sc pl with
        | none => rfl
        | some src => cases src <;> rfl

/-! ## The ladder as a whole -/

theorem supported_nonempty_alg (h : Gen.supported.contains "" = false) {alg : String}
    (hs : alg ∈ Gen.supported) : alg ≠ "" := by
  rintro rfl
  have : Gen.supported.contains "" = true := by simpa using hs
  rw [h] at this; cases this

/-- `authenticate` yields a subject exactly in the situations described by `Accepts`; the attributes are those of
the specification with numbers rounded to doubles -/
theorem authenticate_accepted_iff (hempty : Gen.supported.contains "" = false)
    (cfg : Config) (rule : Option Expectation) (w : World) (p : Presented) (nowMs : Int)
    (id : String) (attrs : Val) :
    authenticate cfg rule w p nowMs = .accepted id attrs ↔
      ∃ attrs₀, Accepts cfg rule w p nowMs id attrs₀ ∧ attrs = attrs₀.round := by
  constructor
  · intro h
    unfold authenticate at h
    cases hcfg : cfg.ok with
    | false => simp [hcfg] at h
    | true =>
      simp only [hcfg, Bool.not_true, Bool.false_eq_true, ↓reduceIte] at h
      cases p with
      | absent => simp at h
      | garbage => simp at h
      | token tok =>
        simp only at h
        cases hsup : Gen.supported.contains tok.alg with
        | false =>
          have hsup' : ¬ tok.alg ∈ Gen.supported := by
            intro hm
            have : Gen.supported.contains tok.alg = true := by simpa using hm
            rw [hsup] at this; cases this
          simp [hsup'] at h
        | true =>
          cases hcan : tok.canonical with
          | false => simp [hcan] at h
          | true =>
            simp only [hsup, hcan, Bool.and_self, Bool.not_true, Bool.false_eq_true, ↓reduceIte] at h
            have hmem : tok.alg ∈ Gen.supported := by simpa using hsup
            have halg : tok.alg ≠ "" := supported_nonempty_alg hempty hmem
            cases hpl : tok.payload with
            | none => simp [hpl] at h
            | some pl =>
              simp only [hpl] at h
              cases hkvs : pl.members with
              | none => simp [hkvs] at h
              | some kvs =>
                simp only [hkvs] at h
                cases hmd : resolveMetadata cfg w with
                | error e => simp [hmd] at h
                | ok md =>
                  simp only [hmd] at h
                  cases hjw : w.jwks (endpointOf cfg kvs) with
                  | none => simp [hjw] at h
                  | some ks =>
                    simp only [hjw] at h
                    cases hv : verify (effective cfg rule md.issuer) cfg.validateJwk ks tok kvs nowMs with
                    | error e => simp [hv, finish] at h
                    | ok u =>
                      cases u
                      simp only [hv, finish] at h
                      -- the payload is an object: `null` never verifies
                      cases pl with
                      | obj kvs' =>
                        simp only [Val.members, Option.some.injEq] at hkvs
                        subst hkvs
                        rw [effective_eq_inForce] at hv
                        obtain ⟨k, he⟩ := (verify_ok_iff_entitled _ _ ks tok kvs' nowMs halg).mp hv
                        obtain ⟨attrs₀, hs, rfl⟩ := (subject_accepted_iff _ _ _ _).mp h
                        rw [endpointOf_eq] at hjw
                        exact ⟨attrs₀, ⟨tok, kvs', md, ks, k, hcfg, rfl, hmem, hcan, hpl,
                          (resolveMetadata_ok_iff cfg w md).mp hmd, hjw, he, hs⟩, rfl⟩
                      | null =>
                        simp only [Val.members, Option.some.injEq] at hkvs
                        subst hkvs
                        exact absurd hv (verify_nil_not_ok _ _ _ _ _)
                      | bool _ => simp [Val.members] at hkvs
                      | num _ _ => simp [Val.members] at hkvs
                      | str _ => simp [Val.members] at hkvs
                      | arr _ => simp [Val.members] at hkvs
  · rintro ⟨attrs₀, ⟨tok, kvs, md, ks, k, hcfg, rfl, hmem, hcan, hpl, hmd, hjw, he, hs⟩, rfl⟩
    have hsup : Gen.supported.contains tok.alg = true := by simpa using hmem
    have halg : tok.alg ≠ "" := supported_nonempty_alg hempty hmem
    have hv := (verify_ok_iff_entitled (Spec.inForce cfg rule md.issuer) cfg.validateJwk ks tok kvs nowMs halg).mpr
      ⟨k, he⟩
    rw [← effective_eq_inForce] at hv
    rw [← endpointOf_eq] at hjw
    have hmd' := (resolveMetadata_ok_iff cfg w md).mpr hmd
    unfold authenticate
    simp only [hcfg, Bool.not_true, Bool.false_eq_true, ↓reduceIte, hsup, hcan, Bool.and_self, hpl, Val.members,
      hmd', hjw, hv, finish]
    exact (subject_accepted_iff _ _ _ _).mpr ⟨attrs₀, hs, rfl⟩

/-! ## The executable specification -/

theorem entitles_iff (a : Expectation) (v : Bool) (ks : List Key) (tok : Token) (kvs : List (String × Val))
    (nowMs : Int) (k : Key) (hin : k ∈ ks) :
    Spec.entitles a v ks tok kvs nowMs k = true ↔ Entitled a v ks tok kvs nowMs k := by
  have hnbf : (match Spec.date "nbf" kvs with | some t => decide (t ≤ nowMs / 1000 + a.leewaySec) | none => true) = true ↔
      ∀ t, Spec.date "nbf" kvs = some t → t ≤ nowMs / 1000 + a.leewaySec := by
    cases Spec.date "nbf" kvs <;> simp
  have hexp : (match Spec.date "exp" kvs with | some t => decide (nowMs / 1000 - a.leewaySec < t) | none => true) = true ↔
      ∀ t, Spec.date "exp" kvs = some t → nowMs / 1000 - a.leewaySec < t := by
    cases Spec.date "exp" kvs <;> simp
  have hiat : (match Spec.date "iat" kvs with | some t => decide (t * 1000 ≤ nowMs + a.leewayMs) | none => true) = true ↔
      ∀ t, Spec.date "iat" kvs = some t → t * 1000 ≤ nowMs + a.leewayMs := by
    cases Spec.date "iat" kvs <;> simp
  have hiss : (match Spec.issuer kvs with | some i => decide (i ∈ a.issuers) | none => false) = true ↔
      ∃ i, Spec.issuer kvs = some i ∧ i ∈ a.issuers := by
    cases Spec.issuer kvs <;> simp
  unfold Spec.entitles
  simp only [Bool.and_eq_true, spec_satisfied_iff, Bool.or_eq_true, beq_iff_eq, Bool.not_eq_true',
    bne_iff_ne, ne_eq, List.contains_eq_mem, decide_eq_true_eq, List.isEmpty_iff, List.any_eq_true]
  constructor
  · rintro ⟨⟨⟨⟨⟨⟨⟨⟨⟨⟨⟨⟨⟨h1, h2⟩, h3⟩, h4⟩, h5⟩, h6⟩, h7⟩, hw⟩, h8⟩, h9⟩, h10⟩, h11⟩, h12⟩, h13⟩
    refine ⟨hin, ?_, ?_, h3, h4, ⟨h5, h6, h7⟩, hw, hiss.mp h8, h9, h10, hnbf.mp h11, hexp.mp h12, hiat.mp h13⟩
    · intro hk; exact h1.resolve_left hk
    · intro hv; rcases h2 with h2 | h2
      · rw [hv] at h2; cases h2
      · exact h2
  · intro e
    refine ⟨⟨⟨⟨⟨⟨⟨⟨⟨⟨⟨⟨⟨?_, ?_⟩, e.algAgrees⟩, e.algAllowed⟩, e.signed.1⟩, e.signed.2.1⟩, e.signed.2.2⟩,
      e.wellTyped⟩, hiss.mpr e.issuerTrusted⟩, e.audienceOk⟩, e.scopesOk⟩, hnbf.mpr e.notBefore⟩,
      hexp.mpr e.notExpired⟩, hiat.mpr e.issued⟩
    · by_cases hk : tok.kid = ""
      · exact Or.inl hk
      · exact Or.inr (e.designated hk)
    · cases v
      · exact Or.inl rfl
      · exact Or.inr (e.certificate rfl)

theorem verify_isOk_iff_any (a : Expectation) (v : Bool) (ks : List Key) (tok : Token) (kvs : List (String × Val))
    (nowMs : Int) (halg : tok.alg ≠ "") :
    verify a v ks tok kvs nowMs = .ok () ↔ ks.any (Spec.entitles a v ks tok kvs nowMs) = true := by
  rw [verify_ok_iff_entitled a v ks tok kvs nowMs halg]
  constructor
  · rintro ⟨k, he⟩
    exact List.any_eq_true.mpr ⟨k, he.fromKeySet, (entitles_iff a v ks tok kvs nowMs k he.fromKeySet).mpr he⟩
  · intro hany
    obtain ⟨k, hin, hb⟩ := List.any_eq_true.mp hany
    exact ⟨k, (entitles_iff a v ks tok kvs nowMs k hin).mp hb⟩

theorem finish_error_verdict (sc : SubjectConf) (pl : Val) (r : Except Why Unit) (h : r ≠ .ok ()) :
    (finish sc pl r).verdict = .refused := by
  cases r with
  | error e => rfl
  | ok u => cases u; exact absurd rfl h

/-- the executable specification gives the verdict of the model, up to the rounding of attribute numbers -/
theorem spec_authenticate_eq (hempty : Gen.supported.contains "" = false)
    (cfg : Config) (rule : Option Expectation) (w : World) (p : Presented) (nowMs : Int) :
    (authenticate cfg rule w p nowMs).verdict = (Spec.authenticate cfg rule w p nowMs).rounded := by
  unfold Spec.authenticate authenticate
  by_cases hbad : cfg.jwksMode = true ∧ cfg.assertions.issuers = []
  · have hcfg : cfg.ok = false := by simp [Config.ok, hbad.1, hbad.2]
    simp [hbad, hcfg, Outcome.verdict, Verdict.rounded]
  · have hcfg : cfg.ok = true := by
      simp only [Config.ok, Bool.or_eq_true, Bool.not_eq_true', bne_iff_ne, ne_eq]
      cases hj : cfg.jwksMode with
      | false => exact Or.inl rfl
      | true => exact Or.inr fun hi => hbad ⟨hj, hi⟩
    have this := hbad
    simp only [hcfg]
    simp only [Bool.not_true, Bool.false_eq_true, ↓reduceIte, this]
    cases p with
    | absent => rfl
    | garbage => rfl
    | token tok =>
      simp only
      cases hpl : tok.payload with
      | none =>
        simp only
        split <;> rfl
      | some pl =>
        cases hsup : Gen.supported.contains tok.alg with
        | false =>
          simp only [Bool.false_and, Bool.not_false, ↓reduceIte, Bool.false_eq_true, false_and]
          cases pl <;> rfl
        | true =>
          cases hcan : tok.canonical with
          | false =>
            simp only [Bool.and_false, Bool.not_false, ↓reduceIte, Bool.false_eq_true, and_false]
            cases pl <;> rfl
          | true =>
            have hmem : tok.alg ∈ Gen.supported := by simpa using hsup
            have halg : tok.alg ≠ "" := supported_nonempty_alg hempty hmem
            simp only [Bool.and_self, Bool.not_true, Bool.false_eq_true, ↓reduceIte, and_self]
            cases pl with
            | obj kvs =>
              simp only [Val.members]
              cases hmd : resolveMetadata cfg w with
              | error e =>
                have := (resolveMetadata_error_iff cfg w).mp ⟨e, hmd⟩
                simp only [this]
                rfl
              | ok md =>
                have hmd' := (resolveMetadata_ok_iff cfg w md).mp hmd
                simp only [hmd', endpointOf_eq]
                cases hjw : w.jwks (Spec.endpoint cfg kvs) with
                | none => rfl
                | some ks =>
                  simp only
                  have hv := verify_isOk_iff_any (effective cfg rule md.issuer) cfg.validateJwk ks tok kvs nowMs halg
                  rw [effective_eq_inForce] at hv
                  rw [effective_eq_inForce]
                  cases hany : ks.any (Spec.entitles (Spec.inForce cfg rule md.issuer) cfg.validateJwk ks tok kvs nowMs) with
                  | true =>
                    have := hv.mpr hany
                    simp only [this, finish, ↓reduceIte]
                    exact subject_verdict _ _
                  | false =>
                    simp only [Bool.false_eq_true, ↓reduceIte]
                    apply finish_error_verdict
                    intro hver
                    have := hv.mp hver
                    rw [hany] at this; cases this
            | null =>
              simp only [Val.members]
              cases hmd : resolveMetadata cfg w with
              | error e => rfl
              | ok md =>
                simp only
                cases hjw : w.jwks (endpointOf cfg []) with
                | none => rfl
                | some ks =>
                  simp only
                  exact finish_error_verdict _ _ _ (verify_nil_not_ok _ _ _ _ _)
            | bool _ => rfl
            | num _ _ => rfl
            | str _ => rfl
            | arr _ => rfl

/-! ## The JWK cache -/

/-- every cached key was, at some earlier moment, the key `getKey` selected from the key set served for that url:
the only key with that `kid`, with a valid certificate -/
def Prov (v : Bool) (hist : List World) (cache : Cache) : Prop :=
  ∀ u kid k, cache.find u kid = some k → ∃ w ∈ hist, ∃ ks, w.jwks u = some ks ∧ selectByKid v ks kid = .ok k

theorem prov_nil (v : Bool) (hist : List World) : Prov v hist [] := by
  intro u kid k h
  simp [Cache.find] at h

theorem prov_mono {v : Bool} {hist : List World} {cache : Cache} (w : World) (h : Prov v hist cache) :
    Prov v (w :: hist) cache := by
  intro u kid k hf
  obtain ⟨w', hw', rest⟩ := h u kid k hf
  exact ⟨w', List.mem_cons_of_mem _ hw', rest⟩

/-- what `authenticate` does once token, payload and metadata are settled -/
theorem authenticate_tail (cfg : Config) (rule : Option Expectation) (w : World) (tok : Token) (pl : Val)
    (kvs : List (String × Val)) (md : Metadata) (nowMs : Int)
    (hcfg : cfg.ok = true) (hsc : (Gen.supported.contains tok.alg && tok.canonical) = true)
    (hpl : tok.payload = some pl) (hkvs : pl.members = some kvs) (hmd : resolveMetadata cfg w = .ok md) :
    authenticate cfg rule w (.token tok) nowMs =
      match w.jwks (endpointOf cfg kvs) with
      | none => .rejected .keySet
      | some ks => finish cfg.subject pl (verify (effective cfg rule md.issuer) cfg.validateJwk ks tok kvs nowMs) := by
  unfold authenticate
  simp only [hcfg, Bool.not_true, Bool.false_eq_true, ↓reduceIte, hsc, hpl, hkvs, hmd]
  cases w.jwks (endpointOf cfg kvs) <;> rfl

/-- **The cache preserves provenance.** -/
theorem step_prov (cfg : Config) (rule : Option Expectation) (w : World) (hist : List World) (cache : Cache)
    (p : Presented) (nowMs : Int) (h : Prov cfg.validateJwk hist cache) :
    Prov cfg.validateJwk (w :: hist) (step cfg rule w cache p nowMs).2 := by
  have hm := prov_mono w h
  unfold step
  split
  · exact hm
  · split
    · exact hm
    · exact hm
    · rename_i tok
      split
      · exact hm
      · split
        · exact hm
        · rename_i pl hpl
          split
          · exact hm
          · rename_i kvs hkvs
            split
            · exact hm
            · rename_i md hmd
              simp only
              split
              · split <;> exact hm
              · split
                · exact hm
                · split
                  · exact hm
                  · rename_i ks hks
                    split
                    · exact hm
                    · rename_i k hsel
                      simp only
                      split
                      · intro u kid k' hf
                        simp only [Cache.find] at hf
                        split at hf
                        · rename_i heq
                          cases hf
                          obtain ⟨rfl, rfl⟩ := heq
                          exact ⟨w, List.mem_cons_self, ks, hks, hsel⟩
                        · exact hm u kid k' hf
                      · exact hm

/-- **A request served from the cache is decided like a request on a cold cache against the key set the key was
taken from**: every outcome of `step` is the outcome of `authenticate` against the current metadata and the key-set
endpoint as it answered now or at an earlier moment. -/
theorem step_origin (cfg : Config) (rule : Option Expectation) (w : World) (hist : List World) (cache : Cache)
    (p : Presented) (nowMs : Int) (h : Prov cfg.validateJwk hist cache) :
    ∃ w' ∈ w :: hist,
      (step cfg rule w cache p nowMs).1 = authenticate cfg rule { metadata := w.metadata, jwks := w'.jwks } p nowMs := by
  have self : ∀ o, o = authenticate cfg rule w p nowMs →
      ∃ w' ∈ w :: hist, o = authenticate cfg rule { metadata := w.metadata, jwks := w'.jwks } p nowMs :=
    fun o ho => ⟨w, List.mem_cons_self, ho⟩
  unfold step
  cases hcfg : cfg.ok with
  | false => exact self _ (by unfold authenticate; simp only [hcfg, Bool.not_true, Bool.not_false, Bool.false_eq_true, ↓reduceIte])
  | true =>
    simp only [Bool.not_true, Bool.false_eq_true, ↓reduceIte]
    cases p with
    | absent => exact self _ (by unfold authenticate; simp only [hcfg, Bool.not_true, Bool.not_false, Bool.false_eq_true, ↓reduceIte])
    | garbage => exact self _ (by unfold authenticate; simp only [hcfg, Bool.not_true, Bool.not_false, Bool.false_eq_true, ↓reduceIte])
    | token tok =>
      simp only
      cases hsc : (Gen.supported.contains tok.alg && tok.canonical) with
      | false => exact self _ (by unfold authenticate; simp only [hcfg, hsc, Bool.not_true, Bool.not_false, Bool.false_eq_true, ↓reduceIte])
      | true =>
        simp only [Bool.not_true, Bool.false_eq_true, ↓reduceIte]
        cases hpl : tok.payload with
        | none => exact self _ (by unfold authenticate; simp only [hcfg, hsc, hpl, Bool.not_true, Bool.not_false, Bool.false_eq_true, ↓reduceIte])
        | some pl =>
          simp only
          cases hkvs : pl.members with
          | none => exact self _ (by unfold authenticate; simp only [hcfg, hsc, hpl, hkvs, Bool.not_true, Bool.not_false, Bool.false_eq_true, ↓reduceIte])
          | some kvs =>
            simp only
            cases hmd : resolveMetadata cfg w with
            | error e => exact self _ (by unfold authenticate; simp only [hcfg, hsc, hpl, hkvs, hmd, Bool.not_true, Bool.not_false, Bool.false_eq_true, ↓reduceIte])
            | ok md =>
              simp only
              have tail := fun w' : World => authenticate_tail cfg rule { metadata := w.metadata, jwks := w'.jwks }
                tok pl kvs md nowMs hcfg hsc hpl hkvs hmd
              by_cases hkid : tok.kid = ""
              · simp only [hkid, ↓reduceIte]
                refine ⟨w, List.mem_cons_self, ?_⟩
                rw [tail w]
                cases w.jwks (endpointOf cfg kvs) with
                | none => rfl
                | some ks => simp [verify, hkid]
              · simp only [hkid, ↓reduceIte]
                cases hhit : (if cfg.cacheEnabled = true then cache.find (endpointOf cfg kvs) tok.kid else none) with
                | some k =>
                  simp only
                  have hf : cache.find (endpointOf cfg kvs) tok.kid = some k := by
                    by_cases hc : cfg.cacheEnabled = true
                    · simpa [hc] using hhit
                    · simp [hc] at hhit
                  obtain ⟨w', hw', ks, hks, hsel⟩ := h _ _ _ hf
                  refine ⟨w', List.mem_cons_of_mem _ hw', ?_⟩
                  rw [tail w']
                  simp only [hks, verify, hkid, ↓reduceIte, hsel]
                | none =>
                  simp only
                  refine ⟨w, List.mem_cons_self, ?_⟩
                  rw [tail w]
                  cases w.jwks (endpointOf cfg kvs) with
                  | none => rfl
                  | some ks =>
                    simp only [verify, hkid, ↓reduceIte]
                    cases selectByKid cfg.validateJwk ks tok.kid with
                    | error e => rfl
                    | ok k => rfl

/-- a request on an empty cache is `authenticate` -/
theorem step_nil (cfg : Config) (rule : Option Expectation) (w : World) (p : Presented) (nowMs : Int) :
    (step cfg rule w [] p nowMs).1 = authenticate cfg rule w p nowMs := by
  obtain ⟨w', hw', h⟩ := step_origin cfg rule w [] [] p nowMs (prov_nil _ _)
  simp only [List.mem_cons, List.not_mem_nil, or_false] at hw'
  subst hw'
  exact h

/-- the histories and caches along a run -/
theorem run_origin (cfg : Config) (rule : Option Expectation) :
    ∀ (reqs : List (World × Presented × Int)) (hist : List World) (cache : Cache),
      Prov cfg.validateJwk hist cache →
      ∀ i (hi : i < reqs.length), ∃ w' ∈ (reqs.take (i + 1)).map (·.1) ++ hist,
        (run cfg rule reqs cache)[i]? =
          some (authenticate cfg rule { metadata := reqs[i].1.metadata, jwks := w'.jwks } reqs[i].2.1 reqs[i].2.2)
  | [], _, _, _, i, hi => by simp at hi
  | (w, p, now) :: rest, hist, cache, hprov, i, hi => by
    cases i with
    | zero =>
      obtain ⟨w', hw', h⟩ := step_origin cfg rule w hist cache p now hprov
      refine ⟨w', by simpa using hw', ?_⟩
      simp [run, h]
    | succ j =>
      have hj : j < rest.length := by simpa using hi
      obtain ⟨w', hw', h⟩ := run_origin cfg rule rest (w :: hist) _ (step_prov cfg rule w hist cache p now hprov) j hj
      refine ⟨w', ?_, ?_⟩
      · simp only [List.take_succ_cons, List.map_cons, List.cons_append, List.mem_cons, List.mem_append,
          List.mem_map] at hw' ⊢
        rcases hw' with hw' | hw' | hw'
        · exact Or.inr (Or.inl hw')
        · exact Or.inl hw'
        · exact Or.inr (Or.inr hw')
      · simpa [run] using h

end Heimdall.Jwt
