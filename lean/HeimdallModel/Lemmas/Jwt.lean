import HeimdallModel.Spec.Jwt
/-!
# Helper lemmas for C05: each step of the ladder of `Model/Jwt.lean` characterised declaratively
-/
namespace Heimdall.Jwt

/-! ## Scope matchers -/

theorem strictPrefix_iff (a b : List String) :
    strictPrefix a b = true ↔ ∃ rest, rest ≠ [] ∧ b = a ++ rest := by
  induction a generalizing b with
  | nil =>
    cases b with
    | nil => simp [strictPrefix]
    | cons x xs => simp [strictPrefix]
  | cons x xs ih =>
    cases b with
    | nil => simp [strictPrefix]
    | cons y ys =>
      simp only [strictPrefix, Bool.and_eq_true, beq_iff_eq, ih, List.cons_append, List.cons.injEq]
      constructor
      · rintro ⟨rfl, rest, h, rfl⟩
        exact ⟨rest, h, rfl, rfl⟩
      · rintro ⟨rest, h, rfl, rfl⟩
        exact ⟨rfl, rest, h, rfl⟩

theorem hierCovers1_iff (g r : String) : hierCovers1 g r = true ↔ Covers .hierarchic g r := by
  simp only [hierCovers1, Covers, Bool.or_eq_true, beq_iff_eq, Bool.and_eq_true, Bool.not_eq_true',
    decide_eq_false_iff_not, Nat.not_lt, strictPrefix_iff, gt_iff_lt]

/-- the loop of the wildcard matcher, when `longer` says whether the lengths differ, decides `WildMatch` -/
theorem wildGo_iff (m : String) (ms : List String) (np : List String) :
    ((m :: ms).length ≤ np.length ∧ wildGo ((m :: ms).length != np.length) (m :: ms) np = true) ↔
      WildMatch (m :: ms) np := by
  induction ms generalizing m np with
  | nil =>
    cases np with
    | nil => simp [wildGo]; intro h; cases h
    | cons n ns =>
      cases ns with
      | nil =>
        simp only [List.length_cons, List.length_nil, Nat.le_refl, wildGo, List.isEmpty_nil, bne_self_eq_false,
          Bool.and_false, Bool.false_eq_true, ↓reduceIte, Bool.true_and, Bool.and_true, true_and,
          Bool.or_eq_true, Bool.and_eq_true, beq_iff_eq, bne_iff_ne, ne_eq]
        constructor
        · intro h
          exact .step h .nil
        · intro h
          cases h with
          | star _ _ hn => exact Or.inl ⟨rfl, hn⟩
          | step hp _ => exact hp
      | cons n' ns' =>
        have hlen : ((1 : Nat) != ns'.length + 1 + 1) = true := by simp
        simp only [List.length_cons, List.length_nil, wildGo, List.isEmpty_nil, hlen, ↓reduceIte,
          Bool.and_true, Bool.and_eq_true, beq_iff_eq, Bool.or_eq_true, bne_iff_ne, ne_eq]
        constructor
        · rintro ⟨_, rfl, h⟩
          rcases h with ⟨_, hn⟩ | rfl
          · exact .star _ _ hn
          · exact .star _ _ (by decide)
        · intro h
          refine ⟨by omega, ?_⟩
          cases h with
          | star _ _ hn => exact ⟨rfl, Or.inl ⟨rfl, hn⟩⟩
          | step hp hrest => cases hrest
  | cons m' ms ih =>
    cases np with
    | nil => simp [wildGo]; intro h; cases h
    | cons n ns =>
      have hl : ((m :: m' :: ms).length != (n :: ns).length) = ((m' :: ms).length != ns.length) := by
        simp [List.length_cons]
      rw [hl]
      simp only [wildGo, List.isEmpty_cons, Bool.false_and, Bool.false_eq_true, ↓reduceIte, Bool.true_and,
        Bool.and_eq_true, Bool.or_eq_true, beq_iff_eq, bne_iff_ne, ne_eq, List.length_cons]
      have ih' := ih m' ns
      simp only [List.length_cons] at ih'
      constructor
      · rintro ⟨hle, hp, hgo⟩
        exact .step hp (ih'.mp ⟨by omega, hgo⟩)
      · intro h
        cases h with
        | step hp hrest =>
          obtain ⟨hle, hgo⟩ := ih'.mpr hrest
          exact ⟨by omega, hp, hgo⟩

theorem splitChars_ne_nil (sep : Char) (cs : List Char) : splitChars sep cs ≠ [] := by
  cases cs with
  | nil => simp [splitChars]
  | cons c cs =>
    simp only [splitChars]
    split
    · simp
    · split <;> simp

theorem parts_ne_nil (s : String) : parts s ≠ [] := by
  simp [parts, splitAtChar, splitChars_ne_nil]

theorem wildCovers1_iff (g r : String) : wildCovers1 g r = true ↔ Covers .wildcard g r := by
  show wildCovers1 g r = true ↔ WildMatch (parts g) (parts r)
  unfold wildCovers1
  cases hg : parts g with
  | nil => exact absurd hg (parts_ne_nil g)
  | cons m ms =>
    rw [← wildGo_iff]
    simp only [Bool.and_eq_true, decide_eq_true_eq]

theorem covers1_iff (st : Strategy) (g r : String) : covers1 st g r = true ↔ Covers st g r := by
  cases st with
  | exact => simp [covers1, Covers]
  | hierarchic => exact hierCovers1_iff g r
  | wildcard => exact wildCovers1_iff g r

theorem scopesOk_iff (e : Expectation) (granted : List String) :
    e.scopesOk granted = true ↔ Satisfied e.scopes granted := by
  unfold Expectation.scopesOk Satisfied
  cases e.scopes with
  | none => simp
  | some m =>
    simp only [ScopesMatcher.matches, List.all_eq_true, List.any_eq_true, covers1_iff, Option.some.injEq,
      forall_eq']

/-! ## Assertions -/

/-- the registered-claim conditions of `Entitled` -/
structure ClaimsOk (a : Expectation) (c : Claims) (nowMs : Int) : Prop where
  issuerTrusted : c.iss ∈ a.issuers
  audienceOk : a.audiences = [] ∨ ∃ x ∈ a.audiences, x ∈ c.aud
  scopesOk : Satisfied a.scopes c.granted
  notBefore : ∀ t, c.nbf = some t → t ≤ nowMs / 1000 + a.leewaySec
  notExpired : ∀ t, c.exp = some t → nowMs / 1000 - a.leewaySec < t
  issued : ∀ t, c.iat = some t → t * 1000 ≤ nowMs + a.leewayMs

theorem notYetValid_false_iff (e : Expectation) (nbf : Option Int) (nowMs : Int) :
    notYetValid e nbf nowMs = false ↔ ∀ t, nbf = some t → t ≤ nowMs / 1000 + e.leewaySec := by
  cases nbf with
  | none => simp [notYetValid]
  | some t => simp [notYetValid]

theorem expired_false_iff (e : Expectation) (exp : Option Int) (nowMs : Int) :
    expired e exp nowMs = false ↔ ∀ t, exp = some t → nowMs / 1000 - e.leewaySec < t := by
  cases exp with
  | none => simp [expired]
  | some t => simp [expired]

theorem issuedInFuture_false_iff (e : Expectation) (iat : Option Int) (nowMs : Int) :
    issuedInFuture e iat nowMs = false ↔ ∀ t, iat = some t → t * 1000 ≤ nowMs + e.leewayMs := by
  cases iat with
  | none => simp [issuedInFuture]
  | some t => simp [issuedInFuture]

theorem audienceOk_iff (e : Expectation) (aud : List String) :
    audienceOk e aud = true ↔ (e.audiences = [] ∨ ∃ x ∈ e.audiences, x ∈ aud) := by
  simp [audienceOk]

theorem validate_ok_iff (a : Expectation) (c : Claims) (nowMs : Int) :
    validate a c nowMs = .ok () ↔ ClaimsOk a c nowMs := by
  have key : ClaimsOk a c nowMs ↔
      a.issuers.contains c.iss = true ∧ audienceOk a c.aud = true ∧ notYetValid a c.nbf nowMs = false ∧
      expired a c.exp nowMs = false ∧ issuedInFuture a c.iat nowMs = false ∧ a.scopesOk c.granted = true := by
    rw [audienceOk_iff, notYetValid_false_iff, expired_false_iff, issuedInFuture_false_iff, scopesOk_iff]
    constructor
    · rintro ⟨h1, h2, h3, h4, h5, h6⟩
      exact ⟨by simpa using h1, h2, h4, h5, h6, h3⟩
    · rintro ⟨h1, h2, h4, h5, h6, h3⟩
      exact ⟨by simpa using h1, h2, h3, h4, h5, h6⟩
  rw [key]
  unfold validate
  cases a.issuers.contains c.iss <;> cases audienceOk a c.aud <;> cases notYetValid a c.nbf nowMs <;>
    cases expired a c.exp nowMs <;> cases issuedInFuture a c.iat nowMs <;> cases a.scopesOk c.granted <;> simp

/-! ## Keys -/

theorem verifyWithKey_ok_iff (a : Expectation) (tok : Token) (kvs : List (String × Val)) (nowMs : Int) (k : Key) :
    verifyWithKey a tok kvs nowMs k = .ok () ↔
      (tok.alg = "" ∨ k.alg = tok.alg) ∧ k.alg ∈ a.algs ∧
      (k.usable = true ∧ tok.critOk = true ∧ tok.sigOk k.mat = true) ∧
      ∃ c, decodeClaims kvs = some c ∧ ClaimsOk a c nowMs := by
  have e1 : (tok.alg = "" ∨ k.alg = tok.alg) ↔ algAgrees tok k = true := by simp [algAgrees]
  have e2 : k.alg ∈ a.algs ↔ a.algs.contains k.alg = true := by simp
  have e3 : (k.usable = true ∧ tok.critOk = true ∧ tok.sigOk k.mat = true) ↔ signedBy tok k = true := by
    simp [signedBy, and_assoc]
  rw [e1, e2, e3]
  unfold verifyWithKey
  cases algAgrees tok k <;> cases a.algs.contains k.alg <;> cases signedBy tok k <;>
    cases decodeClaims kvs <;> simp [validate_ok_iff]

theorem certAccepted_iff (v : Bool) (k : Key) : certAccepted v k = true ↔ (v = true → k.cert ≠ .untrusted) := by
  cases v <;> simp [certAccepted]

/-- key selection: success is always owed to one key of the set -/
theorem verify_ok_iff (a : Expectation) (v : Bool) (ks : List Key) (tok : Token) (kvs : List (String × Val))
    (nowMs : Int) :
    verify a v ks tok kvs nowMs = .ok () ↔
      ∃ k ∈ ks, (tok.kid ≠ "" → ks.filter (fun k' => k'.kid = tok.kid) = [k]) ∧ certAccepted v k = true ∧
        verifyWithKey a tok kvs nowMs k = .ok () := by
  unfold verify
  by_cases hk : tok.kid = ""
  · simp only [hk, ↓reduceIte, ne_eq, not_true_eq_false, false_implies, true_and]
    by_cases hany : ((ks.filter (certAccepted v)).any fun k => okB (verifyWithKey a tok kvs nowMs k)) = true
    · simp only [hany, ↓reduceIte, true_iff]
      obtain ⟨k, hkm, hok⟩ := List.any_eq_true.mp hany
      obtain ⟨hin, hc⟩ := List.mem_filter.mp hkm
      refine ⟨k, hin, hc, ?_⟩
      cases hv : verifyWithKey a tok kvs nowMs k with
      | ok u => cases u; rfl
      | error e => simp [hv, okB] at hok
    · simp only [hany, Bool.false_eq_true, ↓reduceIte, reduceCtorEq, false_iff, not_exists, not_and]
      intro k hin hc hv
      apply hany
      exact List.any_eq_true.mpr ⟨k, List.mem_filter.mpr ⟨hin, hc⟩, by simp [hv, okB]⟩
  · simp only [hk, ↓reduceIte, ne_eq, not_false_eq_true, true_implies]
    cases hf : ks.filter (fun k' => decide (k'.kid = tok.kid)) with
    | nil =>
      simp only [reduceCtorEq, false_iff, not_exists, not_and]
      intro k _ h; cases h
    | cons k rest =>
      cases rest with
      | nil =>
        have hin : k ∈ ks := (List.mem_filter.mp (hf ▸ List.mem_cons_self)).1
        by_cases hc : certAccepted v k = true
        · simp only [hc, ↓reduceIte]
          constructor
          · intro h; exact ⟨k, hin, rfl, hc, h⟩
          · rintro ⟨k', _, he, _, hv⟩
            cases he; exact hv
        · simp only [hc, Bool.false_eq_true, ↓reduceIte, reduceCtorEq, false_iff, not_exists, not_and]
          intro k' _ he hc'
          cases he; exact absurd hc' hc
      | cons k2 rest2 =>
        simp only [reduceCtorEq, false_iff, not_exists, not_and]
        intro k' _ h; cases h

/-! ## Subject -/

theorem subject_accepted_iff (sc : SubjectConf) (pl : Val) (id : String) (attrs : Val) :
    subject sc pl = .accepted id attrs ↔ SubjectOf sc pl id attrs := by
  unfold subject SubjectOf
  cases hg : pl.get sc.idPath with
  | none => simp
  | some v =>
    simp only [Option.some.injEq, exists_eq_left']
    cases hi : idString v with
    | none => simp
    | some id' =>
      simp only [Option.some.injEq]
      by_cases he : id' = ""
      · subst he
        simp only [↓reduceIte, reduceCtorEq, false_iff]
        rintro ⟨rfl, h, _⟩
        exact h rfl
      · simp only [he, ↓reduceIte]
        cases hs : attrsSource sc pl with
        | none => simp
        | some src =>
          cases src with
          | obj kvs =>
            simp only [Outcome.accepted.injEq, Option.some.injEq, Val.obj.injEq]
            constructor
            · rintro ⟨rfl, rfl⟩
              exact ⟨rfl, he, kvs, rfl, rfl⟩
            · rintro ⟨rfl, _, kvs', rfl, rfl⟩
              exact ⟨rfl, rfl⟩
          | _ => simp

/-! ## The ladder as a whole -/

/-- what `verify` establishes, in the vocabulary of the specification (for a token whose `alg` is not empty) -/
theorem verify_ok_iff_entitled (a : Expectation) (v : Bool) (ks : List Key) (tok : Token) (kvs : List (String × Val))
    (nowMs : Int) (halg : tok.alg ≠ "") :
    verify a v ks tok kvs nowMs = .ok () ↔
      ∃ c k, decodeClaims kvs = some c ∧ Entitled a v ks tok c nowMs k := by
  rw [verify_ok_iff]
  constructor
  · rintro ⟨k, hin, hdes, hcert, hv⟩
    obtain ⟨halg', hallowed, hsig, c, hc, hok⟩ := (verifyWithKey_ok_iff a tok kvs nowMs k).mp hv
    have hagree : k.alg = tok.alg := halg'.resolve_left halg
    exact ⟨c, k, hc, ⟨hin, hdes, (certAccepted_iff v k).mp hcert, hagree, hallowed, hsig, hok.issuerTrusted,
      hok.audienceOk, hok.scopesOk, hok.notBefore, hok.notExpired, hok.issued⟩⟩
  · rintro ⟨c, k, hc, e⟩
    refine ⟨k, e.fromKeySet, e.designated, (certAccepted_iff v k).mpr e.certificate, ?_⟩
    exact (verifyWithKey_ok_iff a tok kvs nowMs k).mpr ⟨Or.inr e.algAgrees, e.algAllowed, e.signed, c, hc,
      ⟨e.issuerTrusted, e.audienceOk, e.scopesOk, e.notBefore, e.notExpired, e.issued⟩⟩

theorem supported_nonempty_alg (h : Gen.supported.contains "" = false) {alg : String}
    (hs : alg ∈ Gen.supported) : alg ≠ "" := by
  rintro rfl
  have : Gen.supported.contains "" = true := by simpa using hs
  rw [h] at this; cases this

/-- `authenticate` yields a subject exactly in the situations described by `Accepts` -/
theorem authenticate_accepted_iff (hempty : Gen.supported.contains "" = false)
    (cfg : Config) (rule : Option Expectation) (w : World) (p : Presented) (nowMs : Int)
    (id : String) (attrs : Val) :
    authenticate cfg rule w p nowMs = .accepted id attrs ↔ Accepts cfg rule w p nowMs id attrs := by
  constructor
  · intro h
    unfold authenticate at h
    cases hcfg : cfg.ok with
    | false => simp [hcfg] at h
    | true =>
      simp only [hcfg, Bool.not_true, Bool.false_eq_true, ↓reduceIte] at h
      cases p with
      | absent => simp at h
      | garbage => simp at h
      | token tok =>
        simp only at h
        cases hsup : Gen.supported.contains tok.alg with
        | false =>
          have hsup' : ¬ tok.alg ∈ Gen.supported := by
            intro hm
            have : Gen.supported.contains tok.alg = true := by simpa using hm
            rw [hsup] at this; cases this
          simp [hsup'] at h
        | true =>
          simp only [hsup, Bool.not_true, Bool.false_eq_true, ↓reduceIte] at h
          have hmem : tok.alg ∈ Gen.supported := by simpa using hsup
          have halg : tok.alg ≠ "" := supported_nonempty_alg hempty hmem
          cases hpl : tok.payload with
          | none => simp [hpl] at h
          | some pl =>
            simp only [hpl] at h
            cases hkvs : pl.members with
            | none => simp [hkvs] at h
            | some kvs =>
              simp only [hkvs] at h
              cases hmd : resolveMetadata cfg w with
              | error e => simp [hmd] at h
              | ok md =>
                simp only [hmd] at h
                cases hjw : w.jwks with
                | none => simp [hjw] at h
                | some ks =>
                  simp only [hjw] at h
                  cases hv : verify (effective cfg rule md.issuer) cfg.validateJwk ks tok kvs nowMs with
                  | error e => simp [hv] at h
                  | ok u =>
                    cases u
                    simp only [hv] at h
                    obtain ⟨c, k, hc, he⟩ := (verify_ok_iff_entitled _ _ ks tok kvs nowMs halg).mp hv
                    exact ⟨tok, pl, kvs, md, ks, c, k, hcfg, rfl, hmem, hpl, hkvs, hmd, hjw, hc, he,
                      (subject_accepted_iff _ _ _ _).mp h⟩
  · rintro ⟨tok, pl, kvs, md, ks, c, k, hcfg, rfl, hmem, hpl, hkvs, hmd, hjw, hc, he, hs⟩
    have hsup : Gen.supported.contains tok.alg = true := by simpa using hmem
    have halg : tok.alg ≠ "" := supported_nonempty_alg hempty hmem
    have hv := (verify_ok_iff_entitled (effective cfg rule md.issuer) cfg.validateJwk ks tok kvs nowMs halg).mpr
      ⟨c, k, hc, he⟩
    unfold authenticate
    simp only [hcfg, Bool.not_true, Bool.false_eq_true, ↓reduceIte, hsup, hpl, hkvs, hmd, hjw, hv]
    exact (subject_accepted_iff _ _ _ _).mpr hs

/-! ## The executable specification -/

theorem entitledB_iff (a : Expectation) (v : Bool) (ks : List Key) (tok : Token) (c : Claims) (nowMs : Int)
    (k : Key) (hin : k ∈ ks) :
    Spec.entitledB a v ks tok c nowMs k = true ↔ Entitled a v ks tok c nowMs k := by
  have hnbf : (match c.nbf with | some t => decide (t ≤ nowMs / 1000 + a.leewaySec) | none => true) = true ↔
      ∀ t, c.nbf = some t → t ≤ nowMs / 1000 + a.leewaySec := by
    cases c.nbf <;> simp
  have hexp : (match c.exp with | some t => decide (nowMs / 1000 - a.leewaySec < t) | none => true) = true ↔
      ∀ t, c.exp = some t → nowMs / 1000 - a.leewaySec < t := by
    cases c.exp <;> simp
  have hiat : (match c.iat with | some t => decide (t * 1000 ≤ nowMs + a.leewayMs) | none => true) = true ↔
      ∀ t, c.iat = some t → t * 1000 ≤ nowMs + a.leewayMs := by
    cases c.iat <;> simp
  unfold Spec.entitledB
  simp only [Bool.and_eq_true, scopesOk_iff, Bool.or_eq_true, beq_iff_eq, Bool.not_eq_true',
    bne_iff_ne, ne_eq, List.contains_eq_mem, decide_eq_true_eq, List.isEmpty_iff, List.any_eq_true]
  constructor
  · rintro ⟨⟨⟨⟨⟨⟨⟨⟨⟨⟨⟨⟨h1, h2⟩, h3⟩, h4⟩, h5⟩, h6⟩, h7⟩, h8⟩, h9⟩, h10⟩, h11⟩, h12⟩, h13⟩
    refine ⟨hin, ?_, ?_, h3, h4, ⟨h5, h6, h7⟩, h8, h9, h10, hnbf.mp h11, hexp.mp h12, hiat.mp h13⟩
    · intro hk; exact h1.resolve_left hk
    · intro hv; rcases h2 with h2 | h2
      · rw [hv] at h2; cases h2
      · exact h2
  · intro e
    refine ⟨⟨⟨⟨⟨⟨⟨⟨⟨⟨⟨⟨?_, ?_⟩, e.algAgrees⟩, e.algAllowed⟩, e.signed.1⟩, e.signed.2.1⟩, e.signed.2.2⟩,
      e.issuerTrusted⟩, e.audienceOk⟩, e.scopesOk⟩, hnbf.mpr e.notBefore⟩, hexp.mpr e.notExpired⟩, hiat.mpr e.issued⟩
    · by_cases hk : tok.kid = ""
      · exact Or.inl hk
      · exact Or.inr (e.designated hk)
    · cases v
      · exact Or.inl rfl
      · exact Or.inr (e.certificate rfl)

theorem verify_isOk_iff_any (a : Expectation) (v : Bool) (ks : List Key) (tok : Token) (kvs : List (String × Val))
    (nowMs : Int) (halg : tok.alg ≠ "") :
    verify a v ks tok kvs nowMs = .ok () ↔
      ∃ c, decodeClaims kvs = some c ∧ ks.any (Spec.entitledB a v ks tok c nowMs) = true := by
  rw [verify_ok_iff_entitled a v ks tok kvs nowMs halg]
  constructor
  · rintro ⟨c, k, hc, he⟩
    exact ⟨c, hc, List.any_eq_true.mpr ⟨k, he.fromKeySet, (entitledB_iff a v ks tok c nowMs k he.fromKeySet).mpr he⟩⟩
  · rintro ⟨c, hc, hany⟩
    obtain ⟨k, hin, hb⟩ := List.any_eq_true.mp hany
    exact ⟨c, k, hc, (entitledB_iff a v ks tok c nowMs k hin).mp hb⟩

/-- the executable specification gives the verdict of the model -/
theorem spec_authenticate_eq (hempty : Gen.supported.contains "" = false)
    (cfg : Config) (rule : Option Expectation) (w : World) (p : Presented) (nowMs : Int) :
    Spec.authenticate cfg rule w p nowMs = (authenticate cfg rule w p nowMs).verdict := by
  unfold Spec.authenticate authenticate
  cases hcfg : cfg.ok with
  | false => simp [Outcome.verdict]
  | true =>
    simp only [Bool.not_true, Bool.false_eq_true, ↓reduceIte]
    cases p with
    | absent => simp [Spec.preconditions, Outcome.verdict]
    | garbage => simp [Spec.preconditions, Outcome.verdict]
    | token tok =>
      simp only [Spec.preconditions]
      cases hsup : Gen.supported.contains tok.alg with
      | false => simp [Outcome.verdict]
      | true =>
        have hmem : tok.alg ∈ Gen.supported := by simpa using hsup
        have halg : tok.alg ≠ "" := supported_nonempty_alg hempty hmem
        simp only [↓reduceIte, Bool.not_true, Bool.false_eq_true, Option.bind_eq_bind, Option.pure_def]
        cases hpl : tok.payload with
        | none => simp [Outcome.verdict]
        | some pl =>
          simp only [Option.bind_some]
          cases hkvs : pl.members with
          | none => simp [Outcome.verdict]
          | some kvs =>
            simp only [Option.bind_some]
            cases hmd : resolveMetadata cfg w with
            | error e => simp [Except.toOption, Outcome.verdict]
            | ok md =>
              simp only [Except.toOption, Option.bind_some]
              cases hjw : w.jwks with
              | none => simp [Outcome.verdict]
              | some ks =>
                simp only [Option.bind_some]
                have hv := verify_isOk_iff_any (effective cfg rule md.issuer) cfg.validateJwk ks tok kvs nowMs halg
                cases hc : decodeClaims kvs with
                | none =>
                  simp only [Option.bind_none]
                  cases hver : verify (effective cfg rule md.issuer) cfg.validateJwk ks tok kvs nowMs with
                  | error e => simp [Outcome.verdict]
                  | ok u =>
                    cases u
                    obtain ⟨c, hc', _⟩ := hv.mp hver
                    rw [hc] at hc'; cases hc'
                | some c =>
                  simp only [Option.bind_some]
                  cases hany : ks.any (Spec.entitledB (effective cfg rule md.issuer) cfg.validateJwk ks tok c nowMs) with
                  | true =>
                    have := hv.mpr ⟨c, hc, hany⟩
                    simp [this]
                  | false =>
                    cases hver : verify (effective cfg rule md.issuer) cfg.validateJwk ks tok kvs nowMs with
                    | error e => simp [Outcome.verdict]
                    | ok u =>
                      cases u
                      obtain ⟨c', hc', hany'⟩ := hv.mp hver
                      rw [hc] at hc'; cases hc'
                      rw [hany] at hany'; cases hany'

end Heimdall.Jwt
