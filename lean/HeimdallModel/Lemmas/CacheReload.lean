import HeimdallModel.Lemmas.CacheExec
import HeimdallModel.Model.CacheReload
/-!
# Lemmas about histories with reloads

A history of requests and reloads is the plain history of its requests, each paired with the state in force
(`runEv_eq_run`), so everything proved about `run` carries over; the memoising mechanism is evaluated on the
three-event history request / reload / same request.
-/
namespace Heimdall.CacheExec
open Heimdall.CacheKey

variable {St Req Resp : Type}

theorem runEv_eq_run (m : Mech (St × Req) Resp) :
    ∀ (h : List (Event St Req)) (s : St) (st : Store Resp), runEv m s st h = run m st (inForce s h)
  | [], _, _ => rfl
  | .req t r :: h, s, st => by simp only [runEv, inForce, run, runEv_eq_run m h]
  | .reload s' :: h, _, st => by simp only [runEv, inForce, runEv_eq_run m h]

/-- a history without reloads is a plain history -/
theorem inForce_no_reload (s : St) (h : List (Nat × Req)) :
    inForce s (h.map fun tr => Event.req tr.1 tr.2) = h.map fun tr => (tr.1, (s, tr.2)) := by
  induction h with
  | nil => rfl
  | cons tr h ih => simp only [List.map_cons, inForce, ih]

theorem direct_stateful (m : Mech KReq Resp) (x : Overlay × KReq) :
    direct (stateful m) x = direct m (x.2.withState x.1) := rfl

theorem stateful_sound (m : Mech KReq Resp) (xs : List (Overlay × KReq))
    (hs : KeySoundOn m (xs.map fun x => x.2.withState x.1)) : KeySoundOn (stateful m) xs := by
  intro x hx x' hx' hk
  exact hs _ (List.mem_map.mpr ⟨x, hx, rfl⟩) _ (List.mem_map.mpr ⟨x', hx', rfl⟩) hk

theorem stateful_lossless (m : Mech KReq Resp) (hl : Lossless m) : Lossless (stateful m) := hl

/-- the first request against the memoising mechanism: nothing is cached yet, the memo is the current state -/
theorem memo_first (m : Mech (St × Req) Resp) (s : St) (r : Req) (v : Resp) (t : Nat)
    (hf : m.fresh (s, r) = some v) (ha : m.accept (s, r) v = true) (hen : m.enabled (s, r) = true)
    (httl : m.ttl (s, r) v > 0) :
    (step (memoised m) Store.empty t ((s, s), r)).out = .ok v ∧
      (step (memoised m) Store.empty t ((s, s), r)).calls = 1 ∧ (step (memoised m) Store.empty t ((s, s), r)).hit = false ∧
      (step (memoised m) Store.empty t ((s, s), r)).store (m.key (s, r)) = some ⟨v, t + m.ttl (s, r) v⟩ := by
  simp [step, memoised, Store.get, Store.empty, Store.set, hf, ha, hen, httl]

/-- a later request whose memoised key finds a live entry is served that entry, whatever the current state is -/
theorem memo_hit (m : Mech (St × Req) Resp) (hl : Lossless m) (st : Store Resp) (s s' : St) (r : Req) (v : Resp)
    (t' exp : Nat) (hst : st (m.key (s, r)) = some ⟨v, exp⟩) (hlive : t' < exp)
    (hen' : m.enabled (s', r) = true) (hpass : m.recheck = false ∨ m.accept (s', r) v = true) :
    (step (memoised m) st t' ((s, s'), r)).out = .ok v ∧ (step (memoised m) st t' ((s, s'), r)).calls = 0 ∧
      (step (memoised m) st t' ((s, s'), r)).hit = true := by
  have hg : st.get (m.key (s, r)) t' = some v := by simp [Store.get, hst, hlive]
  have hc : ¬ (m.recheck = true ∧ m.accept (s', r) v = false) := by
    rcases hpass with h | h <;> simp [h]
  simp [step, memoised, hen', hg, hc, hl v]

end Heimdall.CacheExec
