import HeimdallModel.Lemmas.Config
import HeimdallModel.Spec.ConfigLeaf
/-! Helper lemmas for the value part of property C20. Core Lean only. -/
namespace Heimdall.Config

theorem digitChar_ne_minus (d : Nat) : digitChar d ≠ '-' := by
  unfold digitChar
  split <;> decide

theorem natDigits_no_minus (n : Nat) : ∀ c ∈ natDigits n, c ≠ '-' := by
  induction n using Nat.strongRecOn with
  | _ n ih =>
    rw [natDigits]
    split
    · intro c hc; simp at hc; subst hc; exact digitChar_ne_minus n
    · intro c hc
      simp only [List.mem_append, List.mem_singleton] at hc
      rcases hc with hc | hc
      · exact ih (n / 10) (by omega) c hc
      · subst hc; exact digitChar_ne_minus _

theorem parseCanon_of_no_minus (r : List Char) (h : ∀ c ∈ r, c ≠ '-') :
    parseCanon? r = (parseNat? r).bind fun k => if natDigits k = r then some (k : Int) else none := by
  cases r with
  | nil => rfl
  | cons c t =>
    have hc : c ≠ '-' := h c (by simp)
    unfold parseCanon?
    split
    · next r' heq => simp at heq; exact absurd heq.1 hc
    · rfl

theorem parseCanon_natDigits (k : Nat) : parseCanon? (natDigits k) = some (k : Int) := by
  rw [parseCanon_of_no_minus _ (natDigits_no_minus k), parseNat_natDigits]
  simp

theorem natDigits_zero : natDigits 0 = ['0'] := by
  rw [natDigits]; simp [digitChar]

theorem natDigits_inj {a b : Nat} (h : natDigits a = natDigits b) : a = b := by
  have ha := parseNat_natDigits a
  rw [h, parseNat_natDigits] at ha
  exact (Option.some.inj ha).symm

/-- reading back what `showInt` writes -/
theorem parseCanon_showInt (n : Int) : parseCanon? (showInt n) = some n := by
  cases n with
  | ofNat k => exact parseCanon_natDigits k
  | negSucc k =>
    simp only [showInt, parseCanon?, parseNat_natDigits, Option.bind_some]
    simp [Int.negSucc_eq]

theorem showInt_inj {a b : Int} (h : showInt a = showInt b) : a = b := by
  have := parseCanon_showInt a
  rw [h, parseCanon_showInt] at this
  exact (Option.some.inj this).symm

end Heimdall.Config
