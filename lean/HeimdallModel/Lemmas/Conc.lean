import HeimdallModel.Model.Conc
/-! Invariants of the copy-on-write protocol machine and their preservation by every step of every thread —
lookups and changes that panic included — under the deferred release discipline (`Discipline.deferred`). -/
namespace Heimdall.Conc

variable {K T Op Req Ans : Type}

@[simp] theorem upd_same {α} (f : Nat → α) (i v) : upd f i v i = v := by simp [upd]
theorem upd_other {α} (f : Nat → α) (i v j) (h : j ≠ i) : upd f i v j = f j := by simp [upd, h]

theorem run_snoc (s : Seq K T Op Req Ans) (ops : List Op) (op : Op) :
    run s (ops ++ [op]) = (s.apply (run s ops) op).getD (run s ops) := by
  simp [run, List.foldl_append]

/-- relation between shared state and the commit log, depending on where the holder of `knownRulesMutex` is -/
def holderOk (s : Seq K T Op Req Ans) (c : Config K T Op Req Ans) : Thread K T Op Req Ans → Prop
  | .writer _ .locked _ => (c.known, c.index) = run s c.log
  | .writer op .failed _ => (c.known, c.index) = run s c.log ∧ s.apply (run s c.log) op = none
  | .writer _ .readK loc => (c.known, c.index) = run s c.log ∧ loc.1 = c.known
  | .writer _ .cloned loc => (c.known, c.index) = run s c.log ∧ loc = (c.known, c.index)
  | .writer op .computed st' => (c.known, c.index) = run s c.log ∧ s.apply (run s c.log) op = some st'
  | .writer op .knownWritten st' | .writer op .rwWaiting st' | .writer op .rwHeld st' =>
      c.index = (run s c.log).2 ∧ c.known = st'.1 ∧ s.apply (run s c.log) op = some st'
  | .writer _ .indexWritten _ | .writer _ .rwReleased _ => (c.known, c.index) = run s c.log
  | _ => False

def inCS : Thread K T Op Req Ans → Prop
  | .writer _ pc _ => pc ≠ .idle ∧ pc ≠ .doneOk ∧ pc ≠ .doneFail ∧ pc ≠ .crashed
  | .reader .. => False

structure Inv (s : Seq K T Op Req Ans) (c : Config K T Op Req Ans) : Prop where
  free    : c.wlock = none → (c.known, c.index) = run s c.log
  held    : ∀ i, c.wlock = some i → holderOk s c (c.threads i)
  outside : ∀ j, c.wlock ≠ some j → ¬ inCS (c.threads j)
  /-- the published index is always the index of the sequential run of the commit log -/
  index   : c.index = (run s c.log).2
  /-- atomic snapshot: every computed answer is the lookup in the index after a prefix of the log that contains
      everything committed before the lookup started -/
  answers : ∀ j rq pc a st n, c.threads j = .reader rq pc (some a) st n →
              st ≤ n ∧ n ≤ c.log.length ∧ a = s.look (run s (c.log.take n)).2 rq
  starts  : ∀ j rq pc a st n, c.threads j = .reader rq pc a st n → st ≤ c.log.length

theorem answers_upd (s : Seq K T Op Req Ans) (c : Config K T Op Req Ans) (log' : List Op)
    (i : Nat) (t : Thread K T Op Req Ans)
    (hlog : ∃ ext, log' = c.log ++ ext)
    (hold : ∀ j rq pc a st n, c.threads j = .reader rq pc (some a) st n →
              st ≤ n ∧ n ≤ c.log.length ∧ a = s.look (run s (c.log.take n)).2 rq)
    (hnew : ∀ rq pc a st n, t = .reader rq pc (some a) st n →
              st ≤ n ∧ n ≤ log'.length ∧ a = s.look (run s (log'.take n)).2 rq) :
    ∀ j rq pc a st n, upd c.threads i t j = .reader rq pc (some a) st n →
              st ≤ n ∧ n ≤ log'.length ∧ a = s.look (run s (log'.take n)).2 rq := by
  intro j rq pc a st n hj
  by_cases e : j = i
  · subst e; simp at hj; exact hnew rq pc a st n hj
  · obtain ⟨ext, rfl⟩ := hlog
    have := hold j rq pc a st n (by simpa [upd_other _ _ _ _ e] using hj)
    refine ⟨this.1, by simp; omega, ?_⟩
    rw [List.take_append_of_le_length this.2.1]; exact this.2.2

theorem starts_upd (c : Config K T Op Req Ans) (log' : List Op)
    (i : Nat) (t : Thread K T Op Req Ans) (hlen : c.log.length ≤ log'.length)
    (hold : ∀ j rq pc a st n, c.threads j = .reader rq pc a st n → st ≤ c.log.length)
    (hnew : ∀ rq pc a st n, t = .reader rq pc a st n → st ≤ log'.length) :
    ∀ j rq pc a st n, upd c.threads i t j = .reader rq pc a st n → st ≤ log'.length := by
  intro j rq pc a st n hj
  by_cases e : j = i
  · subst e; simp at hj; exact hnew rq pc a st n hj
  · have := hold j rq pc a st n (by simpa [upd_other _ _ _ _ e] using hj)
    omega

theorem outside_upd (c : Config K T Op Req Ans) (i : Nat) (t : Thread K T Op Req Ans) (w' : Option Nat)
    (hold : ∀ j, c.wlock ≠ some j → ¬ inCS (c.threads j))
    (hw : ∀ j, j ≠ i → w' ≠ some j → c.wlock ≠ some j)
    (hi : w' ≠ some i → ¬ inCS t) :
    ∀ j, w' ≠ some j → ¬ inCS (upd c.threads i t j) := by
  intro j hj
  by_cases e : j = i
  · subst e; simpa using hi hj
  · simpa [upd_other _ _ _ _ e] using hold j (hw j e hj)

/-- a writer step inside the critical section that changes neither locks nor shared state nor the log -/
theorem inv_local (s : Seq K T Op Req Ans) (c : Config K T Op Req Ans) (i : Nat) (op : Op) (pc pc' : WPc)
    (loc loc' : K × T) (hi : Inv s c) (h : c.threads i = .writer op pc loc) (hl : c.wlock = some i)
    (hcs : inCS (Thread.writer (K := K) (T := T) (Req := Req) (Ans := Ans) op pc' loc'))
    (hok : holderOk s c (.writer op pc loc) →
      holderOk s { c with threads := upd c.threads i (.writer op pc' loc') } (.writer op pc' loc')) :
    Inv s { c with threads := upd c.threads i (.writer op pc' loc') } := by
  have hh := hi.held i hl
  rw [h] at hh
  refine ⟨by simp [hl], ?_, ?_, hi.index, ?_, ?_⟩
  · intro k hk; simp [hl] at hk; subst hk
    simp only [upd_same]; exact hok hh
  · exact outside_upd c i _ _ hi.outside (fun j _ hj => hj) (by simp [hl])
  · exact answers_upd s c c.log i _ ⟨[], by simp⟩ hi.answers (by simp)
  · exact starts_upd c c.log i _ (Nat.le_refl _) hi.starts (by simp)

theorem holder_of_inCS (s : Seq K T Op Req Ans) (c : Config K T Op Req Ans) (hi : Inv s c) (i : Nat)
    (hin : inCS (c.threads i)) : c.wlock = some i :=
  Classical.byContradiction fun hne => hi.outside i hne hin

theorem inv_step (s : Seq K T Op Req Ans) (c c' : Config K T Op Req Ans)
    (hi : Inv s c) (hs : Step .deferred s c c') : Inv s c' := by
  cases hs with
  | wPanicLeaked hd _ i op pc loc h hpc hl => cases hd
  | rPanicLeaked hd _ i rq st h => cases hd
  | wPanicReleased hd _ i op pc loc h hpc hl =>
    have hh := hi.held i hl
    rw [h] at hh
    have hst : (c.known, c.index) = run s c.log := by
      rcases hpc with rfl | rfl <;> (simp only [holderOk] at hh; exact hh.1)
    refine ⟨fun _ => hst, by simp, ?_, hi.index, ?_, ?_⟩
    · refine outside_upd c i _ _ hi.outside ?_ (by simp [inCS])
      intro j hji _ hc; rw [hl] at hc; exact hji (Option.some.inj hc).symm
    · exact answers_upd s c c.log i _ ⟨[], by simp⟩ hi.answers (by simp)
    · exact starts_upd c c.log i _ (Nat.le_refl _) hi.starts (by simp)
  | rPanicReleased hd _ i rq st h =>
    have hni : c.wlock ≠ some i := by
      intro hl; have := hi.held i hl; rw [h] at this; simp [holderOk] at this
    have hst := hi.starts i _ _ _ _ _ h
    refine ⟨hi.free, ?_, ?_, hi.index, ?_, ?_⟩
    · intro k hk
      have : k ≠ i := fun e => hni (e ▸ hk)
      have hk' := hi.held k hk
      simp only [upd_other _ _ _ _ this]
      cases hc : c.threads k <;> simp_all [holderOk]
    · exact outside_upd c i _ _ hi.outside (fun j _ hj => hj) (by simp [inCS])
    · exact answers_upd s c c.log i _ ⟨[], by simp⟩ hi.answers (by simp)
    · exact starts_upd c c.log i _ (Nat.le_refl _) hi.starts (by
        intro rq' pc a st' n he; simp at he; omega)
  | wLock _ i op loc h free =>
    refine ⟨by simp, ?_, ?_, hi.index, ?_, ?_⟩
    · intro k hk; simp at hk; subst hk; simpa [holderOk] using hi.free free
    · exact outside_upd c i _ _ hi.outside (by simp [free]) (by simp)
    · exact answers_upd s c c.log i _ ⟨[], by simp⟩ hi.answers (by simp)
    · exact starts_upd c c.log i _ (Nat.le_refl _) hi.starts (by simp)
  | wReadKnown _ i op loc h hl =>
    exact inv_local s c i op _ _ _ _ hi h hl (by simp [inCS]) (by intro hh; simpa [holderOk] using hh)
  | wClone _ i op loc h hl =>
    refine inv_local s c i op _ _ _ _ hi h hl (by simp [inCS]) ?_
    intro hh
    simp only [holderOk] at hh ⊢
    exact ⟨hh.1, by rw [hh.2]⟩
  | wComputeOk _ i op loc st' h hl ha =>
    refine inv_local s c i op _ _ _ _ hi h hl (by simp [inCS]) ?_
    intro hh
    simp only [holderOk] at hh ⊢
    exact ⟨hh.1, by rw [← hh.1, ← hh.2]; exact ha⟩
  | wComputeErr _ i op loc h hl ha =>
    refine inv_local s c i op _ _ _ _ hi h hl (by simp [inCS]) ?_
    intro hh
    simp only [holderOk] at hh ⊢
    exact ⟨hh.1, by rw [← hh.1, ← hh.2]; exact ha⟩
  | wFail _ i op loc h hl =>
    have hh := hi.held i hl
    rw [h] at hh; simp only [holderOk] at hh
    refine ⟨fun _ => hh.1, by simp, ?_, hi.index, ?_, ?_⟩
    · refine outside_upd c i _ _ hi.outside ?_ (by simp [inCS])
      intro j hji _ hc; rw [hl] at hc; exact hji (Option.some.inj hc).symm
    · exact answers_upd s c c.log i _ ⟨[], by simp⟩ hi.answers (by simp)
    · exact starts_upd c c.log i _ (Nat.le_refl _) hi.starts (by simp)
  | wKnown _ i op st' h hl =>
    have hh := hi.held i hl
    rw [h] at hh; simp only [holderOk] at hh
    refine ⟨by simp [hl], ?_, ?_, hi.index, ?_, ?_⟩
    · intro k hk; simp [hl] at hk; subst hk
      simp only [upd_same, holderOk]
      exact ⟨hi.index, trivial, hh.2⟩
    · exact outside_upd c i _ _ hi.outside (fun j _ hj => hj) (by simp [hl])
    · exact answers_upd s c c.log i _ ⟨[], by simp⟩ hi.answers (by simp)
    · exact starts_upd c c.log i _ (Nat.le_refl _) hi.starts (by simp)
  | wRWRequest _ i op st' h free =>
    have hl := holder_of_inCS s c hi i (by rw [h]; simp [inCS])
    have hh := hi.held i hl
    rw [h] at hh; simp only [holderOk] at hh
    refine ⟨by simp [hl], ?_, ?_, hi.index, ?_, ?_⟩
    · intro k hk; simp [hl] at hk; subst hk
      simpa [holderOk] using hh
    · exact outside_upd c i _ _ hi.outside (fun j _ hj => hj) (by simp [hl])
    · exact answers_upd s c c.log i _ ⟨[], by simp⟩ hi.answers (by simp)
    · exact starts_upd c c.log i _ (Nat.le_refl _) hi.starts (by simp)
  | wRWAcquire _ i op st' h hrw nor =>
    have hl := holder_of_inCS s c hi i (by rw [h]; simp [inCS])
    have hh := hi.held i hl
    rw [h] at hh; simp only [holderOk] at hh
    refine ⟨by simp [hl], ?_, ?_, hi.index, ?_, ?_⟩
    · intro k hk; simp [hl] at hk; subst hk
      simpa [holderOk] using hh
    · exact outside_upd c i _ _ hi.outside (fun j _ hj => hj) (by simp [hl])
    · exact answers_upd s c c.log i _ ⟨[], by simp⟩ hi.answers (by simp)
    · exact starts_upd c c.log i _ (Nat.le_refl _) hi.starts (by simp)
  | wIndex _ i op st' h hrw =>
    have hl := holder_of_inCS s c hi i (by rw [h]; simp [inCS])
    have hh := hi.held i hl
    rw [h] at hh; simp only [holderOk] at hh
    have hrun : run s (c.log ++ [op]) = st' := by rw [run_snoc, hh.2.2]; rfl
    refine ⟨by simp [hl], ?_, ?_, by simp [hrun], ?_, ?_⟩
    · intro k hk; simp [hl] at hk; subst hk
      simp only [upd_same, holderOk, hrun]
      rw [hh.2.1]
    · exact outside_upd c i _ _ hi.outside (fun j _ hj => hj) (by simp [hl])
    · exact answers_upd s c (c.log ++ [op]) i _ ⟨[op], rfl⟩ hi.answers (by simp)
    · exact starts_upd c (c.log ++ [op]) i _ (by simp) hi.starts (by simp)
  | wRWUnlock _ i op st' h hrw =>
    have hl := holder_of_inCS s c hi i (by rw [h]; simp [inCS])
    have hh := hi.held i hl
    rw [h] at hh; simp only [holderOk] at hh
    refine ⟨by simp [hl], ?_, ?_, hi.index, ?_, ?_⟩
    · intro k hk; simp [hl] at hk; subst hk
      simpa [holderOk] using hh
    · exact outside_upd c i _ _ hi.outside (fun j _ hj => hj) (by simp [hl])
    · exact answers_upd s c c.log i _ ⟨[], by simp⟩ hi.answers (by simp)
    · exact starts_upd c c.log i _ (Nat.le_refl _) hi.starts (by simp)
  | wUnlock _ i op st' h hl =>
    have hh := hi.held i hl
    rw [h] at hh; simp only [holderOk] at hh
    refine ⟨fun _ => hh, by simp, ?_, hi.index, ?_, ?_⟩
    · refine outside_upd c i _ _ hi.outside ?_ (by simp [inCS])
      intro j hji _ hc; rw [hl] at hc; exact hji (Option.some.inj hc).symm
    · exact answers_upd s c c.log i _ ⟨[], by simp⟩ hi.answers (by simp)
    · exact starts_upd c c.log i _ (Nat.le_refl _) hi.starts (by simp)
  | rLock _ i rq h free =>
    have hni : c.wlock ≠ some i := by
      intro hl; have := hi.held i hl; rw [h] at this; simp [holderOk] at this
    refine ⟨hi.free, ?_, ?_, hi.index, ?_, ?_⟩
    · intro k hk
      have : k ≠ i := fun e => hni (e ▸ hk)
      have hk' := hi.held k hk
      simp only [upd_other _ _ _ _ this]
      cases hc : c.threads k <;> simp_all [holderOk]
    · exact outside_upd c i _ _ hi.outside (fun j _ hj => hj) (by simp [inCS])
    · exact answers_upd s c c.log i _ ⟨[], by simp⟩ hi.answers (by simp)
    · exact starts_upd c c.log i _ (Nat.le_refl _) hi.starts (by
        intro rq' pc a st n he; simp at he; omega)
  | rSearch _ i rq st h =>
    have hni : c.wlock ≠ some i := by
      intro hl; have := hi.held i hl; rw [h] at this; simp [holderOk] at this
    have hst := hi.starts i _ _ _ _ _ h
    refine ⟨hi.free, ?_, ?_, hi.index, ?_, ?_⟩
    · intro k hk
      have : k ≠ i := fun e => hni (e ▸ hk)
      have hk' := hi.held k hk
      simp only [upd_other _ _ _ _ this]
      cases hc : c.threads k <;> simp_all [holderOk]
    · exact outside_upd c i _ _ hi.outside (fun j _ hj => hj) (by simp [inCS])
    · refine answers_upd s c c.log i _ ⟨[], by simp⟩ hi.answers ?_
      intro rq' pc a st' n he
      simp at he
      obtain ⟨rfl, _, rfl, rfl, rfl⟩ := he
      simp [hi.index, hst]
    · exact starts_upd c c.log i _ (Nat.le_refl _) hi.starts (by
        intro rq' pc a st' n he; simp at he; omega)
  | rUnlock _ i rq a st n h =>
    have hni : c.wlock ≠ some i := by
      intro hl; have := hi.held i hl; rw [h] at this; simp [holderOk] at this
    have hst := hi.starts i _ _ _ _ _ h
    refine ⟨hi.free, ?_, ?_, hi.index, ?_, ?_⟩
    · intro k hk
      have : k ≠ i := fun e => hni (e ▸ hk)
      have hk' := hi.held k hk
      simp only [upd_other _ _ _ _ this]
      cases hc : c.threads k <;> simp_all [holderOk]
    · exact outside_upd c i _ _ hi.outside (fun j _ hj => hj) (by simp [inCS])
    · refine answers_upd s c c.log i _ ⟨[], by simp⟩ hi.answers ?_
      intro rq' pc a' st' n' he
      simp at he
      obtain ⟨h1, _, h3, h4, h5⟩ := he
      subst h1 h3 h4 h5
      exact hi.answers i _ .searched _ _ _ h
    · exact starts_upd c c.log i _ (Nat.le_refl _) hi.starts (by
        intro rq' pc a' st' n' he; simp at he; omega)

theorem inv_initial (s : Seq K T Op Req Ans) (c : Config K T Op Req Ans) (h : Initial s c) : Inv s c := by
  obtain ⟨h1, h2, h3, h4, h5, h6, _, h7⟩ := h
  refine ⟨fun _ => by simp [h1, h5, run], by simp [h2], ?_, by simp [h5, run, ← h1], ?_, ?_⟩
  · intro j _
    rcases h7 j with ⟨op, loc, e⟩ | ⟨rq, e⟩ <;> simp [e, inCS]
  · intro j rq pc a st n hj
    rcases h7 j with ⟨op, loc, e⟩ | ⟨rq', e⟩ <;> simp [e] at hj
  · intro j rq pc a st n hj
    rcases h7 j with ⟨op, loc, e⟩ | ⟨rq', e⟩ <;> simp [e] at hj
    omega

theorem inv_reachable (s : Seq K T Op Req Ans) (c : Config K T Op Req Ans) (h : Reachable .deferred s c) :
    Inv s c := by
  induction h with
  | init c hc => exact inv_initial s c hc
  | step c c' _ hs ih => exact inv_step s c c' ih hs

end Heimdall.Conc
