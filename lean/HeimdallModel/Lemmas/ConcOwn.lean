import HeimdallModel.Lemmas.Conc
/-! Ownership of the commit log: every successfully completed change is in the log exactly once. -/
namespace Heimdall.Conc

variable {K T Op Req Ans : Type}

/-- the writer has published its change -/
def committed : Thread K T Op Req Ans → Prop
  | .writer _ pc _ => pc = .indexWritten ∨ pc = .rwReleased ∨ pc = .doneOk
  | _ => False

def opOf : Thread K T Op Req Ans → Option Op
  | .writer op _ _ => some op
  | _ => none

structure OInv (c : Config K T Op Req Ans) : Prop where
  nodup : c.owners.Nodup
  mem   : ∀ j, j ∈ c.owners ↔ committed (c.threads j)
  ops   : c.owners.map (fun j => opOf (c.threads j)) = c.log.map some

theorem oinv_of_eq (c c' : Config K T Op Req Ans) (i : Nat) (t : Thread K T Op Req Ans)
    (hlog : c'.log = c.log) (hown : c'.owners = c.owners) (ht : c'.threads = upd c.threads i t)
    (hcom : committed t ↔ committed (c.threads i)) (hop : opOf t = opOf (c.threads i))
    (h : OInv c) : OInv c' := by
  refine ⟨by rw [hown]; exact h.nodup, ?_, ?_⟩
  · intro j; rw [hown, ht]
    by_cases e : j = i
    · subst e; rw [upd_same, hcom]; exact h.mem j
    · rw [upd_other _ _ _ _ e]; exact h.mem j
  · rw [hown, hlog, ← h.ops, ht]
    apply List.map_congr_left
    intro j _
    by_cases e : j = i
    · subst e; rw [upd_same, hop]
    · rw [upd_other _ _ _ _ e]

theorem oinv_step (s : Seq K T Op Req Ans) (c c' : Config K T Op Req Ans)
    (ho : OInv c) (hs : Step s c c') : OInv c' := by
  cases hs with
  | wLock i op loc h free =>
    exact oinv_of_eq c _ i _ rfl rfl rfl (by simp [h, committed]) (by simp [h, opOf]) ho
  | wReadKnown i op loc h hl =>
    exact oinv_of_eq c _ i _ rfl rfl rfl (by simp [h, committed]) (by simp [h, opOf]) ho
  | wClone i op loc h hl =>
    exact oinv_of_eq c _ i _ rfl rfl rfl (by simp [h, committed]) (by simp [h, opOf]) ho
  | wComputeOk i op loc st' h hl ha =>
    exact oinv_of_eq c _ i _ rfl rfl rfl (by simp [h, committed]) (by simp [h, opOf]) ho
  | wComputeErr i op loc h hl ha =>
    exact oinv_of_eq c _ i _ rfl rfl rfl (by simp [h, committed]) (by simp [h, opOf]) ho
  | wFail i op loc h hl =>
    exact oinv_of_eq c _ i _ rfl rfl rfl (by simp [h, committed]) (by simp [h, opOf]) ho
  | wKnown i op st' h hl =>
    exact oinv_of_eq c _ i _ rfl rfl rfl (by simp [h, committed]) (by simp [h, opOf]) ho
  | wRWLock i op st' h free nor =>
    exact oinv_of_eq c _ i _ rfl rfl rfl (by simp [h, committed]) (by simp [h, opOf]) ho
  | wRWUnlock i op st' h hl =>
    exact oinv_of_eq c _ i _ rfl rfl rfl (by simp [h, committed]) (by simp [h, opOf]) ho
  | wUnlock i op st' h hl =>
    exact oinv_of_eq c _ i _ rfl rfl rfl (by simp [h, committed]) (by simp [h, opOf]) ho
  | rLock i rq h free =>
    exact oinv_of_eq c _ i _ rfl rfl rfl (by simp [h, committed]) (by simp [h, opOf]) ho
  | rSearch i rq st h =>
    exact oinv_of_eq c _ i _ rfl rfl rfl (by simp [h, committed]) (by simp [h, opOf]) ho
  | rUnlock i rq a st n h =>
    exact oinv_of_eq c _ i _ rfl rfl rfl (by simp [h, committed]) (by simp [h, opOf]) ho
  | wIndex i op st' h hl =>
    have hni : i ∉ c.owners := by
      intro hm; have := (ho.mem i).mp hm; rw [h] at this; simp [committed] at this
    refine ⟨?_, ?_, ?_⟩
    · simp only
      rw [List.nodup_append]
      exact ⟨ho.nodup, by simp, by
        intro a ha b hb
        simp only [List.mem_singleton] at hb
        subst hb
        intro e; subst e; exact hni ha⟩
    · intro j
      simp only [List.mem_append, List.mem_singleton]
      by_cases e : j = i
      · subst e; simp [committed]
      · simp only [upd_other _ _ _ _ e, e, or_false]; exact ho.mem j
    · simp only [List.map_append, List.map_cons, List.map_nil, upd_same]
      have hop : opOf (Thread.writer (K := K) (T := T) (Req := Req) (Ans := Ans) op .indexWritten st') = some op := rfl
      rw [hop]
      congr 1
      rw [← ho.ops]
      apply List.map_congr_left
      intro j hj
      have : j ≠ i := fun e => hni (e ▸ hj)
      rw [upd_other _ _ _ _ this]

theorem oinv_initial (s : Seq K T Op Req Ans) (c : Config K T Op Req Ans) (h : Initial s c) : OInv c := by
  obtain ⟨_, _, _, _, h5, h6, _, h8⟩ := h
  refine ⟨by simp [h6], ?_, by simp [h5, h6]⟩
  intro j
  rcases h8 j with ⟨op, loc, e⟩ | ⟨rq, e⟩ <;> simp [e, h6, committed]

theorem oinv_reachable (s : Seq K T Op Req Ans) (c : Config K T Op Req Ans) (h : Reachable s c) : OInv c := by
  induction h with
  | init c hc => exact oinv_initial s c hc
  | step c c' _ hs ih => exact oinv_step s c c' ih hs

end Heimdall.Conc
