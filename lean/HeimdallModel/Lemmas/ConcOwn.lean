import HeimdallModel.Lemmas.Conc
/-! Ownership of the commit log: every successfully completed change is in the log exactly once (whatever the
release discipline, whatever number of lookups and changes panic). -/
namespace Heimdall.Conc

variable {K T Op Req Ans : Type}

/-- the writer has published its change -/
def committed : Thread K T Op Req Ans → Prop
  | .writer _ pc _ => pc = .indexWritten ∨ pc = .rwReleased ∨ pc = .doneOk
  | _ => False

def opOf : Thread K T Op Req Ans → Option Op
  | .writer op _ _ => some op
  | _ => none

structure OInv (c : Config K T Op Req Ans) : Prop where
  nodup : c.owners.Nodup
  mem   : ∀ j, j ∈ c.owners ↔ committed (c.threads j)
  ops   : c.owners.map (fun j => opOf (c.threads j)) = c.log.map some

theorem oinv_of_eq (c c' : Config K T Op Req Ans) (i : Nat) (t : Thread K T Op Req Ans)
    (hlog : c'.log = c.log) (hown : c'.owners = c.owners) (ht : c'.threads = upd c.threads i t)
    (hcom : committed t ↔ committed (c.threads i)) (hop : opOf t = opOf (c.threads i))
    (h : OInv c) : OInv c' := by
  refine ⟨by rw [hown]; exact h.nodup, ?_, ?_⟩
  · intro j; rw [hown, ht]
    by_cases e : j = i
    · subst e; rw [upd_same, hcom]; exact h.mem j
    · rw [upd_other _ _ _ _ e]; exact h.mem j
  · rw [hown, hlog, ← h.ops, ht]
    apply List.map_congr_left
    intro j _
    by_cases e : j = i
    · subst e; rw [upd_same, hop]
    · rw [upd_other _ _ _ _ e]

theorem oinv_step (d : Discipline) (s : Seq K T Op Req Ans) (c c' : Config K T Op Req Ans)
    (ho : OInv c) (hs : Step d s c c') : OInv c' := by
  cases hs with
  | wPanicReleased hd _ i op pc loc h hpc hl =>
    refine oinv_of_eq c _ i _ rfl rfl rfl ?_ (by simp [h, opOf]) ho
    rcases hpc with rfl | rfl <;> simp [h, committed]
  | wPanicLeaked hd _ i op pc loc h hpc hl =>
    refine oinv_of_eq c _ i _ rfl rfl rfl ?_ (by simp [h, opOf]) ho
    rcases hpc with rfl | rfl <;> simp [h, committed]
  | rPanicReleased hd _ i rq st h =>
    exact oinv_of_eq c _ i _ rfl rfl rfl (by simp [h, committed]) (by simp [h, opOf]) ho
  | rPanicLeaked hd _ i rq st h =>
    exact oinv_of_eq c _ i _ rfl rfl rfl (by simp [h, committed]) (by simp [h, opOf]) ho
  | wLock _ i op loc h free =>
    exact oinv_of_eq c _ i _ rfl rfl rfl (by simp [h, committed]) (by simp [h, opOf]) ho
  | wReadKnown _ i op loc h hl =>
    exact oinv_of_eq c _ i _ rfl rfl rfl (by simp [h, committed]) (by simp [h, opOf]) ho
  | wClone _ i op loc h hl =>
    exact oinv_of_eq c _ i _ rfl rfl rfl (by simp [h, committed]) (by simp [h, opOf]) ho
  | wComputeOk _ i op loc st' h hl ha =>
    exact oinv_of_eq c _ i _ rfl rfl rfl (by simp [h, committed]) (by simp [h, opOf]) ho
  | wComputeErr _ i op loc h hl ha =>
    exact oinv_of_eq c _ i _ rfl rfl rfl (by simp [h, committed]) (by simp [h, opOf]) ho
  | wFail _ i op loc h hl =>
    exact oinv_of_eq c _ i _ rfl rfl rfl (by simp [h, committed]) (by simp [h, opOf]) ho
  | wKnown _ i op st' h hl =>
    exact oinv_of_eq c _ i _ rfl rfl rfl (by simp [h, committed]) (by simp [h, opOf]) ho
  | wRWRequest _ i op st' h free =>
    exact oinv_of_eq c _ i _ rfl rfl rfl (by simp [h, committed]) (by simp [h, opOf]) ho
  | wRWAcquire _ i op st' h hl nor =>
    exact oinv_of_eq c _ i _ rfl rfl rfl (by simp [h, committed]) (by simp [h, opOf]) ho
  | wRWUnlock _ i op st' h hl =>
    exact oinv_of_eq c _ i _ rfl rfl rfl (by simp [h, committed]) (by simp [h, opOf]) ho
  | wUnlock _ i op st' h hl =>
    exact oinv_of_eq c _ i _ rfl rfl rfl (by simp [h, committed]) (by simp [h, opOf]) ho
  | rLock _ i rq h free =>
    exact oinv_of_eq c _ i _ rfl rfl rfl (by simp [h, committed]) (by simp [h, opOf]) ho
  | rSearch _ i rq st h =>
    exact oinv_of_eq c _ i _ rfl rfl rfl (by simp [h, committed]) (by simp [h, opOf]) ho
  | rUnlock _ i rq a st n h =>
    exact oinv_of_eq c _ i _ rfl rfl rfl (by simp [h, committed]) (by simp [h, opOf]) ho
  | wIndex _ i op st' h hl =>
    have hni : i ∉ c.owners := by
      intro hm; have := (ho.mem i).mp hm; rw [h] at this; simp [committed] at this
    refine ⟨?_, ?_, ?_⟩
    · simp only
      rw [List.nodup_append]
      exact ⟨ho.nodup, by simp, by
        intro a ha b hb
        simp only [List.mem_singleton] at hb
        subst hb
        intro e; subst e; exact hni ha⟩
    · intro j
      simp only [List.mem_append, List.mem_singleton]
      by_cases e : j = i
      · subst e; simp [committed]
      · simp only [upd_other _ _ _ _ e, e, or_false]; exact ho.mem j
    · simp only [List.map_append, List.map_cons, List.map_nil, upd_same]
      have hop : opOf (Thread.writer (K := K) (T := T) (Req := Req) (Ans := Ans) op .indexWritten st') = some op := rfl
      rw [hop]
      congr 1
      rw [← ho.ops]
      apply List.map_congr_left
      intro j hj
      have : j ≠ i := fun e => hni (e ▸ hj)
      rw [upd_other _ _ _ _ this]

theorem oinv_initial (s : Seq K T Op Req Ans) (c : Config K T Op Req Ans) (h : Initial s c) : OInv c := by
  obtain ⟨_, _, _, _, h5, h6, _, h8⟩ := h
  refine ⟨by simp [h6], ?_, by simp [h5, h6]⟩
  intro j
  rcases h8 j with ⟨op, loc, e⟩ | ⟨rq, e⟩ <;> simp [e, h6, committed]

theorem oinv_reachable (d : Discipline) (s : Seq K T Op Req Ans) (c : Config K T Op Req Ans)
    (h : Reachable d s c) : OInv c := by
  induction h with
  | init c hc => exact oinv_initial s c hc
  | step c c' _ hs ih => exact oinv_step d s c c' ih hs

end Heimdall.Conc
