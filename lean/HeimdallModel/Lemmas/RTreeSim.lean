import HeimdallModel.Lemmas.RTreeDel
import HeimdallModel.Props.C02
/-!
# Every history of `Add` / `Delete`: the byte-level tree simulates the table

The per-operation theorems of `RTreeRefine` / `RTreeAdd` / `RTreeDel` chained: starting from the empty tree and the
empty table, any sequence of `Add` / `Delete` calls fails or succeeds alike on both, the tree stays well formed, its
abstraction stays (extensionally) the table, and therefore every lookup answers alike.  The theorems of
`Props/C02` about the table then speak about the byte-level tree (`rtree_most_specific`).
-/
namespace Heimdall
namespace RTree
variable {V : Type}

/-- one call of the tree API -/
inductive TOp (V : Type) where
  | add (expr : String) (v : V) (bt : Bool)
  | del (expr : String) (p : V → Bool)

def stepR (canAdd : List V → V → Bool) (t : RTree V) : TOp V → Option (RTree V)
  | .add e v bt => (RTree.add canAdd t e v bt).toOption
  | .del e p => RTree.delete t e p

def stepT (canAdd : List V → V → Bool) (T : Table V) : TOp V → Option (Table V)
  | .add e v bt => (Heimdall.add canAdd T e v bt).toOption
  | .del e p => Heimdall.del T e p

/-- the tree is well formed and stands for the table -/
def Sim (t : RTree V) (T : Table V) : Prop :=
  t.WF ∧ NodupPats T ∧ ∀ q, getNode t.abs q = getNode T q

theorem sim_empty : Sim (empty : RTree V) ([] : Table V) := by
  refine ⟨wf_empty, List.Pairwise.nil, fun q => ?_⟩
  unfold abs empty
  rw [absAux_eq]
  simp [absOwn, absStatics_nil, absWild_none, absCatch]

/-- `Heimdall.add` only looks at the table through `getNode` -/
theorem add_congr (canAdd : List V → V → Bool) (T₁ T₂ : Table V) (h : ∀ q, getNode T₁ q = getNode T₂ q)
    (expr : String) (v : V) (bt : Bool) :
    match Heimdall.add canAdd T₁ expr v bt, Heimdall.add canAdd T₂ expr v bt with
    | .ok T₁', .ok T₂' => ∀ q, getNode T₁' q = getNode T₂' q
    | .error e₁, .error e₂ => e₁ = e₂
    | _, _ => False := by
  unfold Heimdall.add
  cases parsePat expr with
  | error e => simp
  | ok pk =>
    obtain ⟨pat, ks⟩ := pk
    simp only
    have h1 := addPat_spec canAdd v bt T₁ pat ks
    have h2 := addPat_spec canAdd v bt T₂ pat ks
    have hs : addSpec canAdd v bt T₁ pat ks = addSpec canAdd v bt T₂ pat ks := by
      unfold addSpec; rw [h]
    rw [hs] at h1
    cases hsp : addSpec canAdd v bt T₂ pat ks with
    | error e =>
      rw [hsp] at h1 h2
      cases ha1 : addPat canAdd T₁ pat ks v bt with
      | error e1 =>
        cases ha2 : addPat canAdd T₂ pat ks v bt with
        | error e2 => rw [ha1] at h1; rw [ha2] at h2; simp only at h1 h2 ⊢; rw [← h1, ← h2]
        | ok T2' => rw [ha2] at h2; exact h2.elim
      | ok T1' => rw [ha1] at h1; exact h1.elim
    | ok x =>
      rw [hsp] at h1 h2
      cases ha1 : addPat canAdd T₁ pat ks v bt with
      | error e1 => rw [ha1] at h1; exact h1.elim
      | ok T1' =>
        cases ha2 : addPat canAdd T₂ pat ks v bt with
        | error e2 => rw [ha2] at h2; exact h2.elim
        | ok T2' =>
          rw [ha1] at h1; rw [ha2] at h2
          simp only at h1 h2 ⊢
          intro q
          rw [h1 q, h2 q, h q]

/-- `Heimdall.del` only looks at the table through `getNode` -/
theorem del_congr (T₁ T₂ : Table V) (hn₁ : NodupPats T₁) (hn₂ : NodupPats T₂)
    (h : ∀ q, getNode T₁ q = getNode T₂ q) (expr : String) (p : V → Bool) :
    match Heimdall.del T₁ expr p, Heimdall.del T₂ expr p with
    | some T₁', some T₂' => ∀ q, getNode T₁' q = getNode T₂' q
    | none, none => True
    | _, _ => False := by
  unfold Heimdall.del
  have h1 := delPat_spec p T₁ hn₁ (parseDel expr)
  have h2 := delPat_spec p T₂ hn₂ (parseDel expr)
  have hs : delSpec p T₁ (parseDel expr) = delSpec p T₂ (parseDel expr) := by
    unfold delSpec; rw [h]
  rw [hs] at h1
  cases hsp : delSpec p T₂ (parseDel expr) with
  | none =>
    rw [hsp] at h1 h2
    cases hd1 : delPat T₁ (parseDel expr) p with
    | none =>
      cases hd2 : delPat T₂ (parseDel expr) p with
      | none => trivial
      | some T2' => rw [hd2] at h2; exact h2.elim
    | some T1' => rw [hd1] at h1; exact h1.elim
  | some x =>
    rw [hsp] at h1 h2
    cases hd1 : delPat T₁ (parseDel expr) p with
    | none => rw [hd1] at h1; exact h1.elim
    | some T1' =>
      cases hd2 : delPat T₂ (parseDel expr) p with
      | none => rw [hd2] at h2; exact h2.elim
      | some T2' =>
        rw [hd1] at h1; rw [hd2] at h2
        simp only at h1 h2 ⊢
        intro q
        rw [h1 q, h2 q, h q]

/-- one operation: both sides fail, or both succeed and the simulation continues -/
theorem sim_step (canAdd : List V → V → Bool) (t : RTree V) (T : Table V) (h : Sim t T) (op : TOp V) :
    match stepR canAdd t op, stepT canAdd T op with
    | some t', some T' => Sim t' T'
    | none, none => True
    | _, _ => False := by
  obtain ⟨hwf, hnd, hget⟩ := h
  cases op with
  | add e v bt =>
    simp only [stepR, stepT]
    have h1 := rtree_add_refines canAdd t hwf e v bt
    have h2 := add_congr canAdd t.abs T hget e v bt
    cases hr : RTree.add canAdd t e v bt with
    | error er =>
      rw [hr] at h1
      cases ha : Heimdall.add canAdd t.abs e v bt with
      | ok Ta => rw [ha] at h1; exact h1.elim
      | error ea =>
        rw [ha] at h2
        cases hT : Heimdall.add canAdd T e v bt with
        | ok T' => rw [hT] at h2; exact h2.elim
        | error eT => simp [Except.toOption]
    | ok t' =>
      rw [hr] at h1
      cases ha : Heimdall.add canAdd t.abs e v bt with
      | error ea => rw [ha] at h1; exact h1.elim
      | ok Ta =>
        rw [ha] at h1 h2
        cases hT : Heimdall.add canAdd T e v bt with
        | error eT => rw [hT] at h2; exact h2.elim
        | ok T' =>
          rw [hT] at h2
          simp only [Except.toOption] at h1 h2 ⊢
          refine ⟨add_wf canAdd t t' e v bt hwf hr, ?_, fun q => (h1 q).trans (h2 q)⟩
          unfold Heimdall.add at hT
          cases hp : parsePat e with
          | error pe => rw [hp] at hT; cases hT
          | ok pk =>
            obtain ⟨pat, ks⟩ := pk
            rw [hp] at hT
            exact nodup_addPat canAdd T T' pat ks v bt hnd hT
  | del e p =>
    simp only [stepR, stepT]
    have h1 := rtree_delete_refines t hwf e p
    have h2 := del_congr t.abs T (nodup_abs t hwf) hnd hget e p
    cases hr : RTree.delete t e p with
    | none =>
      rw [hr] at h1
      cases ha : Heimdall.del t.abs e p with
      | some Ta => rw [ha] at h1; exact h1.elim
      | none =>
        rw [ha] at h2
        cases hT : Heimdall.del T e p with
        | some T' => rw [hT] at h2; exact h2.elim
        | none => trivial
    | some t' =>
      rw [hr] at h1
      cases ha : Heimdall.del t.abs e p with
      | none => rw [ha] at h1; exact h1.elim
      | some Ta =>
        rw [ha] at h1 h2
        cases hT : Heimdall.del T e p with
        | none => rw [hT] at h2; exact h2.elim
        | some T' =>
          rw [hT] at h2
          simp only at h1 h2 ⊢
          exact ⟨delete_wf t t' e p hwf hr, nodup_delPat T T' (parseDel e) p hnd hT,
            fun q => (h1 q).trans (h2 q)⟩

/-- a history: operations applied one after the other; a failing operation is skipped (its clone is thrown away) -/
def runR (canAdd : List V → V → Bool) : RTree V → List (TOp V) → RTree V
  | t, [] => t
  | t, op :: ops => runR canAdd ((stepR canAdd t op).getD t) ops

def runT (canAdd : List V → V → Bool) : Table V → List (TOp V) → Table V
  | T, [] => T
  | T, op :: ops => runT canAdd ((stepT canAdd T op).getD T) ops

theorem sim_run (canAdd : List V → V → Bool) (ops : List (TOp V)) (t : RTree V) (T : Table V) (h : Sim t T) :
    Sim (runR canAdd t ops) (runT canAdd T ops) := by
  induction ops generalizing t T with
  | nil => exact h
  | cons op ops ih =>
    unfold runR runT
    have hs := sim_step canAdd t T h op
    cases hr : stepR canAdd t op with
    | none =>
      cases hT : stepT canAdd T op with
      | none => exact ih t T h
      | some T' => rw [hr, hT] at hs; exact hs.elim
    | some t' =>
      cases hT : stepT canAdd T op with
      | none => rw [hr, hT] at hs; exact hs.elim
      | some T' => rw [hr, hT] at hs; exact ih t' T' hs

/-- **Every history.** After any sequence of `Add` / `Delete` calls from the empty tree (failed calls discarded, as
the repository does with its clone) the byte-level tree is well formed, and `Tree.Find` answers every request with
every matcher exactly as the table model after the same calls. -/
theorem rtree_history_refines (canAdd : List V → V → Bool) (ops : List (TOp V))
    (m : V → List String → List String → Bool) (path : String) :
    (runR canAdd empty ops).WF ∧
    findNode m (runR canAdd empty ops) path.toList [] = Heimdall.find m (runT canAdd [] ops) (tokenize path) [] ∧
    RTree.find m (runR canAdd empty ops) path = lookup m (runT canAdd [] ops) path := by
  obtain ⟨hwf, _, hget⟩ := sim_run canAdd ops empty [] sim_empty
  have h1 := rtree_find_refines _ hwf m path
  have h2 := find_congr m _ _ hget (tokenize path) []
  refine ⟨hwf, h1.trans h2, ?_⟩
  rw [rtree_lookup_refines _ hwf m path]
  unfold lookup
  rw [h2]

/-- **Most specific match wins, on the byte-level tree** (`Props.C02.c02_most_specific` through the refinement). -/
theorem rtree_most_specific (t : RTree V) (h : t.WF) (m : V → List String → List String → Bool) (path : String)
    (f : Found V) (hf : (findNode m t path.toList []).1 = some f) :
    ∃ n ∈ t.abs, matchCaps n.pat (tokenize path) = some f.caps ∧ f.keys = n.keys ∧
      n.values.find? (fun v => m v n.keys f.caps) = some f.value ∧
      ∀ n' ∈ t.abs, ∀ caps', matchCaps n'.pat (tokenize path) = some caps' → specLt n'.pat n.pat = true →
        accepts m n' caps' = false ∧ n'.bt = true := by
  rw [rtree_find_refines t h m path] at hf
  exact Props.C02.c02_most_specific m t.abs (nodup_abs t h) (tokenize path) f hf

/-- **No rule only if shadowed, on the byte-level tree** (`Props.C02.c02_none_only_if_shadowed`). -/
theorem rtree_none_only_if_shadowed (t : RTree V) (h : t.WF) (m : V → List String → List String → Bool)
    (path : String) (hf : (findNode m t path.toList []).1 = none) :
    ∀ n ∈ t.abs, ∀ caps, matchCaps n.pat (tokenize path) = some caps → accepts m n caps = true →
      ∃ n' ∈ t.abs, ∃ caps', matchCaps n'.pat (tokenize path) = some caps' ∧ specLt n'.pat n.pat = true ∧
        accepts m n' caps' = false ∧ n'.bt = false := by
  rw [rtree_find_refines t h m path] at hf
  exact Props.C02.c02_none_only_if_shadowed m t.abs (nodup_abs t h) (tokenize path) hf

/-! ## the hypotheses are satisfiable: a non-trivial well-formed tree -/

/-- `/ab` and `/ac` (sharing the split node `a`), `/:x`, `/:x/`, `/*r` -/
def exampleTree : RTree Nat :=
  ⟨[], 0, [('/', ⟨['/'], 4,
      [('a', ⟨['a'], 2, [('b', ⟨['b'], 1, [], none, none, [1], [], true⟩),
                          ('c', ⟨['c'], 1, [], none, none, [2], [], false⟩)], none, none, [], [], true⟩)],
      some ⟨"wildcard".toList, 0, [('/', ⟨['/'], 1, [], none, none, [4], ["x"], true⟩)], none, none, [3], ["x"], true⟩,
      some ⟨['r'], 0, [], none, none, [5], ["r"], true⟩, [], [], true⟩)], none, none, [], [], true⟩

example : exampleTree.WF := by decide
example : (findNode (fun v _ _ => v == 3) exampleTree "/zz".toList []).1.map (·.caps) = some ["zz"] := by decide
example : (findNode (fun v _ _ => v == 2) exampleTree "/ac".toList []).1.map (·.value) = some 2 := by decide
example : (findNode (fun v _ _ => v == 5) exampleTree "/ac/d".toList []).1.map (·.caps) = some ["ac/d"] := by decide

end RTree
end Heimdall
