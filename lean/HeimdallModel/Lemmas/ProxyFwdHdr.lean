import HeimdallModel.Model.ProxyFwd
/-!
Helper lemmas for C15, part 3: header maps as flat lists — the values of a name after `Set`, `Del`, sorting, the
pipeline loop and the cookie loop of `rewriteRequest`.
-/
namespace Heimdall.ProxyFwd
open Heimdall

theorem values_nil (k : Bytes) : values [] k = [] := rfl

theorem values_append (a b : Hdrs) (k : Bytes) : values (a ++ b) k = values a k ++ values b k := by
  simp [values, List.filter_append]

theorem values_cons (x : Bytes × Bytes) (l : Hdrs) (k : Bytes) :
    values (x :: l) k = if x.1 = k then x.2 :: values l k else values l k := by
  unfold values
  by_cases h : x.1 = k <;> simp [List.filter_cons, h]

theorem values_del (k' : Bytes) (h : Hdrs) (k : Bytes) :
    values (del k' h) k = if k = k' then [] else values h k := by
  unfold values del
  rw [List.filter_filter]
  by_cases hk : k = k'
  · subst hk
    simp only [if_true, List.map_eq_nil_iff, List.filter_eq_nil_iff]
    intro x _
    simp
  · simp only [hk, if_false]
    congr 1
    apply List.filter_congr
    intro x _
    by_cases hx : x.1 = k
    · simp [hx, hk]
    · simp [hx]

theorem values_set (k' v : Bytes) (h : Hdrs) (k : Bytes) :
    values (set k' v h) k = if k = k' then [v] else values h k := by
  unfold set
  rw [values_append, values_del, values_cons]
  by_cases hk : k = k'
  · subst hk; simp [values_nil]
  · have : ¬ k' = k := fun e => hk e.symm
    simp [hk, this, values_nil]

theorem get_set (k' v : Bytes) (h : Hdrs) (k : Bytes) : get (set k' v h) k = if k = k' then v else get h k := by
  unfold get
  rw [values_set]
  by_cases hk : k = k' <;> simp [hk]

theorem get_del (k' : Bytes) (h : Hdrs) (k : Bytes) : get (del k' h) k = if k = k' then [] else get h k := by
  unfold get
  rw [values_del]
  by_cases hk : k = k' <;> simp [hk]

theorem values_filter (p : Bytes → Bool) (h : Hdrs) (k : Bytes) :
    values (h.filter fun x => p x.1) k = if p k then values h k else [] := by
  unfold values
  rw [List.filter_filter]
  by_cases hp : p k = true
  · simp only [hp, if_true]
    congr 1
    apply List.filter_congr
    intro x _
    by_cases hx : x.1 = k
    · simp [hx, hp]
    · simp [hx]
  · simp only [hp, Bool.false_eq_true, if_false, List.map_eq_nil_iff, List.filter_eq_nil_iff]
    intro x _
    by_cases hx : x.1 = k
    · simp [hx, hp]
    · simp [hx]

/-! ### sorting by name keeps the values of every name in order -/

theorem ltBytes_irrefl (a : Bytes) : ltBytes a a = false := by
  induction a with
  | nil => rfl
  | cons c t ih => simp [ltBytes, ih]

theorem filter_insertByKey (x : Bytes × Bytes) (l : Hdrs) (k : Bytes) :
    (insertByKey x l).filter (·.1 = k) = if x.1 = k then x :: l.filter (·.1 = k) else l.filter (·.1 = k) := by
  induction l with
  | nil => by_cases h : x.1 = k <;> simp [insertByKey, h]
  | cons y l ih =>
    unfold insertByKey
    by_cases hlt : ltBytes y.1 x.1 = true
    · simp only [hlt, if_true, List.filter_cons, ih]
      by_cases hx : x.1 = k
      · have hy : ¬ y.1 = k := by
          intro e
          rw [e, ← hx, ltBytes_irrefl] at hlt
          exact Bool.noConfusion hlt
        simp [hx, hy]
      · simp [hx]
    · simp only [hlt, Bool.false_eq_true, if_false, List.filter_cons]
      by_cases hx : x.1 = k <;> simp [hx]

theorem values_sortByKey (l : Hdrs) (k : Bytes) : values (sortByKey l) k = values l k := by
  unfold values
  induction l with
  | nil => rfl
  | cons x l ih =>
    simp only [sortByKey, filter_insertByKey, List.filter_cons]
    by_cases hx : x.1 = k
    · simp only [hx, if_true, decide_true, List.map_cons]; rw [ih]
    · simp only [hx, if_false, decide_false, Bool.false_eq_true]; exact ih

/-! ### the pipeline loop: `for k := range uh { Out.Header.Set(k, uh.Get(k)) }` -/

theorem firstOfEach_filter (l : Hdrs) (k : Bytes) :
    (firstOfEach l).filter (·.1 = k) = ((l.filter (·.1 = k)).head?).toList := by
  induction l with
  | nil => rfl
  | cons x l ih =>
    simp only [firstOfEach, List.filter_cons]
    by_cases hx : x.1 = k
    · simp only [hx, decide_true, if_true, List.head?_cons, Option.toList_some, List.cons.injEq, true_and]
      rw [List.filter_filter, List.filter_eq_nil_iff]
      intro y _
      by_cases hy : y.1 = k <;> simp [hy]
    · simp only [hx, decide_false, Bool.false_eq_true, if_false]
      rw [List.filter_filter, ← ih]
      apply List.filter_congr
      intro y _
      by_cases hy : y.1 = k
      · have : ¬ k = x.1 := fun e => hx e.symm
        simp [hy, this]
      · simp [hy]

/-- first value of a name -/
def firstValue (l : Hdrs) (k : Bytes) : Option Bytes := ((l.filter (·.1 = k)).head?).map (·.2)

theorem values_firstOfEach (l : Hdrs) (k : Bytes) : values (firstOfEach l) k = (firstValue l k).toList := by
  unfold values firstValue
  rw [firstOfEach_filter]
  cases (l.filter (·.1 = k)).head? <;> rfl

theorem get_firstOfEach (l : Hdrs) (k : Bytes) : get (firstOfEach l) k = (firstValue l k).getD [] := by
  unfold get
  rw [values_firstOfEach]
  cases firstValue l k <;> rfl

theorem values_foldl_set (l : Hdrs) (h : Hdrs) (k : Bytes) :
    values (l.foldl (fun h kv => set kv.1 kv.2 h) h) k =
      match (l.filter (·.1 = k)).getLast? with
      | some x => [x.2]
      | none => values h k := by
  induction l generalizing h with
  | nil => rfl
  | cons x l ih =>
    simp only [List.foldl_cons, ih, List.filter_cons]
    by_cases hx : x.1 = k
    · simp only [hx, decide_true, if_true]
      cases hl : l.filter (·.1 = k) with
      | nil => subst hx; simp [values_set]
      | cons y m =>
        rw [List.getLast?_cons_cons]
        cases hg : (y :: m).getLast? with
        | none => simp at hg
        | some z => rfl
    · simp only [hx, decide_false, Bool.false_eq_true, if_false]
      have hk : ¬ k = x.1 := fun e => hx e.symm
      cases (l.filter (·.1 = k)).getLast? with
      | none => simp [values_set, hk]
      | some _ => rfl

/-- after the loop a name carries the first value the pipeline produced for it, other names are untouched -/
theorem values_pipe (ph : Hdrs) (h : Hdrs) (k : Bytes) :
    values ((firstOfEach ph).foldl (fun h kv => set kv.1 kv.2 h) h) k =
      match firstValue ph k with
      | some v => [v]
      | none => values h k := by
  rw [values_foldl_set, firstOfEach_filter]
  unfold firstValue
  cases (ph.filter (·.1 = k)).head? <;> rfl

/-! ### the cookie loop touches `Cookie` only -/

theorem values_addCookie (h : Hdrs) (c : Bytes × Bytes) (k : Bytes) (hk : k ≠ hCookie) :
    values (addCookie h c) k = values h k := by
  unfold addCookie
  split <;> simp [values_set, hk]

theorem values_foldl_addCookie (cs : List (Bytes × Bytes)) (h : Hdrs) (k : Bytes) (hk : k ≠ hCookie) :
    values (cs.foldl addCookie h) k = values h k := by
  induction cs generalizing h with
  | nil => rfl
  | cons c cs ih => simp only [List.foldl_cons, ih, values_addCookie h c k hk]

/-! ### canonical names, trusted-proxy middleware -/

theorem values_canonHeaders (h : Hdrs) (k : Bytes) :
    values (canonHeaders h) k = (h.filter fun x => canonicalKey x.1 = k).map (·.2) := by
  unfold values canonHeaders
  induction h with
  | nil => rfl
  | cons x l ih =>
    simp only [List.map_cons, List.filter_cons]
    by_cases hx : canonicalKey x.1 = k <;> simp [hx, ih]

theorem firstValue_canonHeaders (h : Hdrs) (k : Bytes) :
    firstValue (canonHeaders h) k = ((h.filter fun x => canonicalKey x.1 = k).head?).map (·.2) := by
  unfold firstValue canonHeaders
  induction h with
  | nil => rfl
  | cons x l ih =>
    simp only [List.map_cons, List.filter_cons]
    by_cases hx : canonicalKey x.1 = k
    · simp [hx]
    · simp only [hx, decide_false, Bool.false_eq_true, if_false]
      exact ih

theorem values_trustStrip (t : Bool) (h : Hdrs) (k : Bytes) :
    values (trustStrip t h) k = if t || !untrustedHeaders.contains k then values h k else [] := by
  unfold trustStrip
  cases t with
  | true => simp
  | false =>
    simp only [Bool.false_eq_true, if_false, Bool.false_or]
    exact values_filter (fun n => !untrustedHeaders.contains n) h k

end Heimdall.ProxyFwd
