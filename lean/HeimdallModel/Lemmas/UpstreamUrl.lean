import HeimdallModel.Lemmas.UrlEscape
import HeimdallModel.Model.UpstreamUrl
/-!
Closed forms of `URL.EscapedPath`, `escape(…, encodePath)` and `URLRewriter.Rewrite` on paths given as sequences of
units (`PU`): helper lemmas of property C08 (path sent upstream).
-/
namespace Heimdall
open Upstream

/-- a unit that may stand in a path as it is: `validEncoded` accepts it -/
def PU.sendable : PU → Prop
  | .lit c => validPathChar c = true ∧ c ≠ '%'
  | .esc a b => isHex a = true ∧ isHex b = true

theorem PU.sendable.wf {u : PU} (h : u.sendable) : u.wf := by
  cases u with
  | lit c => exact h.2
  | esc a b => exact h

theorem sendable_wf {us : List PU} (h : ∀ u ∈ us, u.sendable) : ∀ u ∈ us, u.wf :=
  fun u hu => (h u hu).wf

theorem isHex_isAlnum (a : Char) (h : isHex a = true) : isAlnum a = true := by
  unfold isHex at h
  unfold isAlnum
  simp only [Bool.or_eq_true, Bool.and_eq_true, decide_eq_true_eq, Char.le_def, UInt32.le_iff_toNat_le] at h ⊢
  have e1 : '0'.val.toNat = 48 := rfl
  have e2 : '9'.val.toNat = 57 := rfl
  have e3 : 'a'.val.toNat = 97 := rfl
  have e4 : 'f'.val.toNat = 102 := rfl
  have e5 : 'A'.val.toNat = 65 := rfl
  have e6 : 'F'.val.toNat = 70 := rfl
  have e7 : 'Z'.val.toNat = 90 := rfl
  have e8 : 'z'.val.toNat = 122 := rfl
  rw [e1, e2, e3, e4, e5, e6] at h
  rw [e1, e2, e3, e5, e7, e8]
  omega

theorem isHex_validPathChar (a : Char) (h : isHex a = true) : validPathChar a = true := by
  unfold validPathChar shouldEscapePath
  simp [isHex_isAlnum a h]

theorem percent_validPathChar : validPathChar '%' = true := by decide

theorem renderU_append (a b : List PU) : renderU (a ++ b) = renderU a ++ renderU b := by
  simp [renderU]

theorem renderU_cons (u : PU) (us : List PU) : renderU (u :: us) = u.render ++ renderU us := by
  simp [renderU]

theorem renderU_ne_nil {us : List PU} (h : us ≠ []) : (renderU us).isEmpty = false := by
  cases us with
  | nil => exact absurd rfl h
  | cons u rest => cases u <;> simp [renderU, PU.render]

theorem validEncodedL_render (us : List PU) (h : ∀ u ∈ us, u.sendable) : validEncodedL (renderU us) = true := by
  induction us with
  | nil => rfl
  | cons u rest ih =>
    have ih' := ih (fun x hx => h x (by simp [hx]))
    have hu := h u (by simp)
    rw [renderU_cons]
    unfold validEncodedL at ih' ⊢
    rw [List.all_append, ih', Bool.and_true]
    cases u with
    | lit c => simp [PU.render, hu.1]
    | esc a b =>
      simp [PU.render, percent_validPathChar, isHex_validPathChar a hu.1, isHex_validPathChar b hu.2]

/-- **`EscapedPath()` of a URL whose raw path is a valid spelling of its path is that spelling.** -/
theorem escapedPathL_render (us : List PU) (h : ∀ u ∈ us, u.sendable) :
    escapedPathL (us.map PU.dec) (renderU us) = renderU us := by
  unfold escapedPathL
  by_cases he : us = []
  · subst he
    simp [renderU, escapePathL]
  · rw [renderU_ne_nil he, validEncodedL_render us h, pathUnescapeL_render us (sendable_wf h)]
    simp

/-! ### `escape(s, encodePath)` unit by unit -/

/-- what `escape` makes of one octet -/
def escUnit (c : Char) : PU :=
  if shouldEscapePath c then .esc (hexDigitUpper (c.toNat / 16 % 16)) (hexDigitUpper (c.toNat % 16)) else .lit c

theorem escapePathL_eq (p : List Char) : escapePathL p = renderU (p.map escUnit) := by
  induction p with
  | nil => rfl
  | cons c t ih =>
    rw [List.map_cons, renderU_cons, ← ih]
    unfold escUnit
    by_cases hc : shouldEscapePath c <;> simp [escapePathL, hc, PU.render]

theorem escapePathL_append (a b : List Char) : escapePathL (a ++ b) = escapePathL a ++ escapePathL b := by
  rw [escapePathL_eq, escapePathL_eq, escapePathL_eq, List.map_append, renderU_append]

theorem shouldEscape_percent : shouldEscapePath '%' = true := by decide
theorem shouldEscape_slash : shouldEscapePath '/' = false := by decide

theorem escUnit_sendable (c : Char) : (escUnit c).sendable := by
  unfold escUnit
  by_cases hc : shouldEscapePath c
  · simp only [hc, if_true]
    exact ⟨isHex_hexDigitUpper ⟨c.toNat / 16 % 16, Nat.mod_lt _ (by decide)⟩,
           isHex_hexDigitUpper ⟨c.toNat % 16, Nat.mod_lt _ (by decide)⟩⟩
  · have hcf : shouldEscapePath c = false := by simpa using hc
    simp only [hcf, Bool.false_eq_true, if_false]
    refine ⟨by simp [validPathChar, hcf], ?_⟩
    intro e
    rw [e, shouldEscape_percent] at hcf
    cases hcf

theorem escUnits_sendable (p : List Char) : ∀ u ∈ p.map escUnit, u.sendable := by
  intro u hu
  obtain ⟨c, _, rfl⟩ := List.mem_map.mp hu
  exact escUnit_sendable c

theorem escUnit_dec (c : Char) (hb : c.toNat < 256) : (escUnit c).dec = c := by
  unfold escUnit
  by_cases hc : shouldEscapePath c
  · simp only [hc, if_true, PU.dec, octet]
    have h1 := unhex_hexDigitUpper ⟨c.toNat / 16 % 16, Nat.mod_lt _ (by decide)⟩
    have h2 := unhex_hexDigitUpper ⟨c.toNat % 16, Nat.mod_lt _ (by decide)⟩
    simp only at h1 h2
    rw [h1, h2]
    have : 16 * (c.toNat / 16 % 16) + c.toNat % 16 = c.toNat := by omega
    rw [this]
    exact Char.ofNat_toNat c
  · simp [hc, PU.dec]

theorem escUnits_dec (p : List Char) (hb : ∀ c ∈ p, c.toNat < 256) : (p.map escUnit).map PU.dec = p := by
  induction p with
  | nil => rfl
  | cons c t ih =>
    simp only [List.map_cons]
    rw [escUnit_dec c (hb c (by simp)), ih (fun x hx => hb x (by simp [hx]))]

/-- `escape` never writes an encoded slash: the octet `/` is not escaped, and no other octet has the escape `%2F` -/
theorem escUnit_not_slash (c : Char) (hb : c.toNat < 256) : (escUnit c).isSlash = false := by
  unfold escUnit
  by_cases hc : shouldEscapePath c
  · simp only [hc, if_true, PU.isSlash]
    cases hs : (decide (hexDigitUpper (c.toNat / 16 % 16) = '2') &&
        (decide (hexDigitUpper (c.toNat % 16) = 'F') || decide (hexDigitUpper (c.toNat % 16) = 'f'))) with
    | false => rfl
    | true =>
      exfalso
      simp only [Bool.and_eq_true, Bool.or_eq_true, decide_eq_true_eq] at hs
      have k1 : ∀ n : Fin 16, hexDigitUpper n.val = '2' → n.val = 2 := by decide
      have k2 : ∀ n : Fin 16, (hexDigitUpper n.val = 'F' ∨ hexDigitUpper n.val = 'f') → n.val = 15 := by decide
      have a1 := k1 ⟨c.toNat / 16 % 16, Nat.mod_lt _ (by decide)⟩ hs.1
      have a2 := k2 ⟨c.toNat % 16, Nat.mod_lt _ (by decide)⟩ hs.2
      simp only at a1 a2
      have h47 : c.toNat = 47 := by omega
      have : c = '/' := by rw [← Char.ofNat_toNat c, h47]
      rw [this, shouldEscape_slash] at hc
      cases hc
  · simp [hc, PU.isSlash]

theorem escapePathL_no_encoded_slash (p : List Char) (hb : ∀ c ∈ p, c.toNat < 256) :
    containsEncodedSlashL (escapePathL p) = false := by
  rw [escapePathL_eq, containsEncodedSlashL_render _ (sendable_wf (escUnits_sendable p))]
  rw [List.any_eq_false]
  intro u hu
  obtain ⟨c, hc, rfl⟩ := List.mem_map.mp hu
  simp [escUnit_not_slash c (hb c hc)]

theorem escapePathL_star : escapePathL ['*'] = ['%', '2', 'A'] := by decide

/-! ### The literal cut -/

theorem stripPrefix?_append (pre s : List Char) : stripPrefix? pre (pre ++ s) = some s := by
  induction pre with
  | nil => cases s <;> rfl
  | cons p ps ih => simp [stripPrefix?, ih]

theorem cutPrefixL_nil (s : List Char) : cutPrefixL [] s = s := by
  cases s <;> rfl

theorem cutPrefixL_append (pre s : List Char) : cutPrefixL pre (pre ++ s) = s := by
  unfold cutPrefixL
  rw [stripPrefix?_append]
  rfl

/-! ### `URLRewriter.Rewrite` -/

/-- settings that keep the raw path: the rewritten URL spells its path `add ++ (received spelling, prefix cut)` -/
theorem rewritePath_kept (r : RewriteCfg) (us as ws : List PU)
    (hus : ∀ u ∈ us, u.sendable) (hne : us ≠ []) (has : ∀ u ∈ as, u.sendable) (hws : ∀ u ∈ ws, u.sendable)
    (hadd : r.add.toList = renderU as) (hcut : cutPrefixL r.strip.toList (renderU us) = renderU ws) :
    rewritePath r (us.map PU.dec) (renderU us) = ((as ++ ws).map PU.dec, renderU (as ++ ws)) := by
  have hall : ∀ u ∈ as ++ ws, u.sendable := by
    intro u hu
    rcases List.mem_append.mp hu with h | h
    · exact has u h
    · exact hws u h
  unfold rewritePath
  simp only [escapedPathL_render us hus, hadd, hcut, ← renderU_append, renderU_ne_nil hne,
    pathUnescapeL_render _ (sendable_wf hall), Option.getD_some]
  simp

theorem upstreamPath_kept (esh : SlashHandling) (hesh : esh ≠ .on) (q : ReqView) (r : RewriteCfg) (us as ws : List PU)
    (hraw : q.rawPath.toList = renderU us) (hpath : q.path.toList = us.map PU.dec)
    (hus : ∀ u ∈ us, u.sendable) (hne : us ≠ []) (has : ∀ u ∈ as, u.sendable) (hws : ∀ u ∈ ws, u.sendable)
    (hadd : r.add.toList = renderU as) (hcut : cutPrefixL r.strip.toList (renderU us) = renderU ws) :
    upstreamPath esh (some r) q = renderU (as ++ ws) := by
  have hall : ∀ u ∈ as ++ ws, u.sendable := by
    intro u hu
    rcases List.mem_append.mp hu with h | h
    · exact has u h
    · exact hws u h
  unfold upstreamPath
  simp only [hesh, if_false, hraw, hpath, rewritePath_kept r us as ws hus hne has hws hadd hcut]
  exact escapedPathL_render _ hall

theorem upstreamPath_kept_no_rewrite (esh : SlashHandling) (hesh : esh ≠ .on) (q : ReqView) (us : List PU)
    (hraw : q.rawPath.toList = renderU us) (hpath : q.path.toList = us.map PU.dec)
    (hus : ∀ u ∈ us, u.sendable) :
    upstreamPath esh none q = renderU us := by
  unfold upstreamPath
  simp only [hesh, if_false, hraw, hpath]
  exact escapedPathL_render _ hus

/-- setting `on` (the raw path is dropped): the rewritten URL is the default encoding of the decoded, rewritten path -/
theorem upstreamPath_on (q : ReqView) (r : RewriteCfg) (pd ad wd : List Char)
    (hpath : q.path.toList = pd) (hstar : pd ≠ ['*']) (hb : ∀ c ∈ ad ++ wd, c.toNat < 256)
    (hadd : r.add.toList = escapePathL ad)
    (hcut : cutPrefixL r.strip.toList (escapePathL pd) = escapePathL wd) :
    upstreamPath .on (some r) q = escapePathL (ad ++ wd) := by
  have hep : escapedPathL pd [] = escapePathL pd := by
    unfold escapedPathL
    simp [hstar]
  have hdec : pathUnescapeL (escapePathL (ad ++ wd)) = some (ad ++ wd) := by
    rw [escapePathL_eq, pathUnescapeL_render _ (sendable_wf (escUnits_sendable _)), escUnits_dec _ hb]
  unfold upstreamPath rewritePath
  simp only [if_true, hpath, hep, hadd, hcut, ← escapePathL_append, hdec, Option.getD_some, List.isEmpty_nil]
  by_cases hx : ad ++ wd = escapePathL (ad ++ wd)
  · -- nothing had to be escaped: no raw path is kept, `EscapedPath` encodes the path again
    have hns : ad ++ wd ≠ ['*'] := by
      intro e
      rw [e, escapePathL_star] at hx
      cases hx
    simp only [← hx, ne_eq, not_true_eq_false, if_false]
    unfold escapedPathL
    simp [hns]
    exact hx.symm
  · simp only [ne_eq, hx, not_false_eq_true, if_true]
    have := escapedPathL_render ((ad ++ wd).map escUnit) (escUnits_sendable _)
    rw [escUnits_dec _ hb, ← escapePathL_eq] at this
    exact this

theorem upstreamPath_on_no_rewrite (q : ReqView) (pd : List Char) (hpath : q.path.toList = pd) (hstar : pd ≠ ['*']) :
    upstreamPath .on none q = escapePathL pd := by
  unfold upstreamPath escapedPathL
  simp [hpath, hstar]

/-! ### Octets -/

theorem unhex_lt (c : Char) : unhex c < 16 := by
  unfold unhex
  have e1 : '0'.toNat = 48 := rfl
  have e2 : 'a'.toNat = 97 := rfl
  have e3 : 'A'.toNat = 65 := rfl
  by_cases h1 : ('0' ≤ c && c ≤ '9') = true
  · simp only [h1, if_true]
    simp only [Bool.and_eq_true, decide_eq_true_eq, Char.le_def, UInt32.le_iff_toNat_le] at h1
    have e : c.val.toNat = c.toNat := rfl
    have f1 : '0'.val.toNat = 48 := rfl
    have f2 : '9'.val.toNat = 57 := rfl
    rw [e, f1, f2] at h1
    omega
  · simp only [h1, Bool.false_eq_true, if_false]
    by_cases h2 : ('a' ≤ c && c ≤ 'f') = true
    · simp only [h2, if_true]
      simp only [Bool.and_eq_true, decide_eq_true_eq, Char.le_def, UInt32.le_iff_toNat_le] at h2
      have e : c.val.toNat = c.toNat := rfl
      have f1 : 'a'.val.toNat = 97 := rfl
      have f2 : 'f'.val.toNat = 102 := rfl
      rw [e, f1, f2] at h2
      omega
    · simp only [h2, Bool.false_eq_true, if_false]
      by_cases h3 : ('A' ≤ c && c ≤ 'F') = true
      · simp only [h3, if_true]
        simp only [Bool.and_eq_true, decide_eq_true_eq, Char.le_def, UInt32.le_iff_toNat_le] at h3
        have e : c.val.toNat = c.toNat := rfl
        have f1 : 'A'.val.toNat = 65 := rfl
        have f2 : 'F'.val.toNat = 70 := rfl
        rw [e, f1, f2] at h3
        omega
      · simp [h3]

theorem octet_lt (a b : Char) : (octet a b).toNat < 256 := by
  unfold octet
  have ha := unhex_lt a
  have hb := unhex_lt b
  have key : ∀ h l : Fin 16, (Char.ofNat (16 * h.val + l.val)).toNat < 256 := by decide
  exact key ⟨unhex a, ha⟩ ⟨unhex b, hb⟩

/-- decoding octets gives octets -/
theorem dec_byte (u : PU) (hb : u.byte) : u.dec.toNat < 256 := by
  cases u with
  | lit c => exact hb
  | esc a b => exact octet_lt a b

theorem decs_byte (us : List PU) (hb : ∀ u ∈ us, u.byte) : ∀ c ∈ us.map PU.dec, c.toNat < 256 := by
  intro c hc
  obtain ⟨u, hu, rfl⟩ := List.mem_map.mp hc
  exact dec_byte u (hb u hu)

/-- the octets the request context leaves as they are, are the ones `validEncoded` accepts -/
theorem allowed_validPathChar (c : Char) (hc : pathOctetAllowed c = true) : validPathChar c = true := by
  unfold pathOctetAllowed at hc
  cases h : c.isAlphanum with
  | false =>
    simp [h] at hc
    rcases hc with rfl | rfl | rfl | rfl | rfl | rfl | rfl | rfl | rfl | rfl | rfl | rfl | rfl | rfl | rfl | rfl | rfl |
      rfl | rfl | rfl | rfl <;> decide
  | true =>
    have : isAlnum c = true := by
      unfold isAlnum
      simp only [Char.isAlphanum, Char.isAlpha, Char.isUpper, Char.isLower, Char.isDigit, Bool.or_eq_true,
        Bool.and_eq_true, decide_eq_true_eq, ge_iff_le, Char.le_def, UInt32.le_iff_toNat_le] at h ⊢
      have e1 : '0'.val.toNat = 48 := rfl
      have e2 : '9'.val.toNat = 57 := rfl
      have e3 : 'a'.val.toNat = 97 := rfl
      have e5 : 'A'.val.toNat = 65 := rfl
      have e7 : 'Z'.val.toNat = 90 := rfl
      have e8 : 'z'.val.toNat = 122 := rfl
      rw [e1, e2, e3, e5, e7, e8] at h ⊢
      omega
    simp [validPathChar, shouldEscapePath, this]

theorem receivedUnits_sendable (us : List PU) (hwf : ∀ u ∈ us, u.wf) : ∀ u ∈ us.map receivedUnit, u.sendable := by
  intro u hu
  obtain ⟨x, hx, rfl⟩ := List.mem_map.mp hu
  have hw := hwf x hx
  cases x with
  | esc a b => exact hw
  | lit c =>
    by_cases hc : pathOctetAllowed c
    · simp only [receivedUnit, hc, if_true]
      exact ⟨allowed_validPathChar c hc, hw⟩
    · simp only [receivedUnit, hc]
      exact ⟨isHex_hexDigitUpper ⟨c.toNat / 16 % 16, Nat.mod_lt _ (by decide)⟩,
             isHex_hexDigitUpper ⟨c.toNat % 16, Nat.mod_lt _ (by decide)⟩⟩

/-! ### Re-spellings -/

theorem isAlnum_isAlphanum (c : Char) (h : isAlnum c = true) : c.isAlphanum = true := by
  unfold isAlnum at h
  simp only [Char.isAlphanum, Char.isAlpha, Char.isUpper, Char.isLower, Char.isDigit, Bool.or_eq_true,
    Bool.and_eq_true, decide_eq_true_eq, ge_iff_le, Char.le_def, UInt32.le_iff_toNat_le] at h ⊢
  have e1 : '0'.val.toNat = 48 := rfl
  have e2 : '9'.val.toNat = 57 := rfl
  have e3 : 'a'.val.toNat = 97 := rfl
  have e5 : 'A'.val.toNat = 65 := rfl
  have e7 : 'Z'.val.toNat = 90 := rfl
  have e8 : 'z'.val.toNat = 122 := rfl
  rw [e1, e2, e3, e5, e7, e8] at h ⊢
  omega

theorem unreserved_allowed (c : Char) (h : isUnreserved c = true) : pathOctetAllowed c = true := by
  unfold isUnreserved at h
  unfold pathOctetAllowed
  simp only [Bool.or_eq_true, decide_eq_true_eq] at h
  rcases h with ((((h | h) | h) | h) | h)
  · have : isAlnum c = true := by
      unfold isAlnum
      simp only [Bool.or_eq_true]
      exact h
    simp [isAlnum_isAlphanum c this]
  all_goals (subst h; decide)

/-- a re-spelling of the request line is a re-spelling of the raw path of the request view -/
theorem Reenc.received {us us' : List PU} (h : Reenc us us') : Reenc (us.map receivedUnit) (us'.map receivedUnit) := by
  induction h with
  | nil => exact .nil
  | keep u _ ih => exact .keep _ ih
  | enc c a b hc ha hb ho _ ih =>
    simp only [List.map_cons, receivedUnit, unreserved_allowed c hc, if_true]
    exact .enc c a b hc ha hb ho ih


theorem Reenc.sendable {us us' : List PU} (h : Reenc us us') (hs : ∀ u ∈ us, u.sendable) : ∀ u ∈ us', u.sendable := by
  induction h with
  | nil => intro u hu; cases hu
  | keep u _ ih =>
    intro x hx
    rcases List.mem_cons.mp hx with rfl | hx
    · exact hs _ (by simp)
    · exact ih (fun y hy => hs y (by simp [hy])) x hx
  | enc c a b _ ha hb _ _ ih =>
    intro x hx
    rcases List.mem_cons.mp hx with rfl | hx
    · exact ⟨ha, hb⟩
    · exact ih (fun y hy => hs y (by simp [hy])) x hx

theorem Reenc.ne_nil {us us' : List PU} (h : Reenc us us') (hne : us ≠ []) : us' ≠ [] := by
  cases h with
  | nil => exact absurd rfl hne
  | keep u _ => simp
  | enc c a b _ _ _ _ _ => simp

theorem Reenc.refl (us : List PU) : Reenc us us := by
  induction us with
  | nil => exact .nil
  | cons u rest ih => exact .keep u ih

theorem Reenc.append_left (ps : List PU) {us us' : List PU} (h : Reenc us us') : Reenc (ps ++ us) (ps ++ us') := by
  induction ps with
  | nil => exact h
  | cons p rest ih => exact .keep p ih

/-! ### no `?` in an escaped path (the request target written by the proxy splits at the first `?`) -/

theorem qmark_not_valid : validPathChar '?' = false := by decide

theorem no_qmark_of_validEncoded (s : List Char) (h : validEncodedL s = true) : '?' ∉ s := by
  intro hm
  have := List.all_eq_true.mp h '?' hm
  rw [qmark_not_valid] at this
  cases this

theorem escapedPathL_no_qmark (path raw : List Char) : '?' ∉ escapedPathL path raw := by
  unfold escapedPathL
  split
  · rename_i h
    simp only [Bool.and_eq_true] at h
    exact no_qmark_of_validEncoded raw h.1.2
  · split
    · simp
    · rw [escapePathL_eq]
      exact no_qmark_of_validEncoded _ (validEncodedL_render _ (escUnits_sendable path))

/-- the path the rule computes for the upstream never contains a `?` -/
theorem upstreamPath_no_qmark (esh : SlashHandling) (rw : Option RewriteCfg) (q : ReqView) :
    '?' ∉ upstreamPath esh rw q := by
  unfold upstreamPath
  cases rw with
  | none => exact escapedPathL_no_qmark _ _
  | some r => exact escapedPathL_no_qmark _ _

theorem takeWhile_no_qmark (p rest : List Char) (h : '?' ∉ p) :
    (p ++ '?' :: rest).takeWhile (· ≠ '?') = p := by
  induction p with
  | nil => simp
  | cons c t ih =>
    have hc : c ≠ '?' := fun e => h (e ▸ List.mem_cons_self ..)
    have ht : '?' ∉ t := fun hm => h (List.mem_cons_of_mem _ hm)
    have hd : decide (c ≠ '?') = true := by simp [hc]
    simp only [List.cons_append, List.takeWhile_cons, hd, if_true, ih ht]

theorem takeWhile_no_qmark_all (p : List Char) (h : '?' ∉ p) : p.takeWhile (· ≠ '?') = p := by
  induction p with
  | nil => rfl
  | cons c t ih =>
    have hc : c ≠ '?' := fun e => h (e ▸ List.mem_cons_self ..)
    have ht : '?' ∉ t := fun hm => h (List.mem_cons_of_mem _ hm)
    have hd : decide (c ≠ '?') = true := by simp [hc]
    simp only [List.cons_append, List.takeWhile_cons, hd, if_true, ih ht]

/-! ### Dot segments

`.` is an unreserved octet: `.`, `%2E` and `%2e` spell the same octet, so `.`, `..`, `%2E`, `%2e%2E`, `.%2E` … spell the
same segment.  Which segments of a path are dot segments can only be said of the decoded path. -/

/-- `seg` spells a dot segment: `.` or `..`, any of the dots percent-encoded, either hex case -/
def DotSpelling (seg : List PU) : Prop := Reenc [.lit '.'] seg ∨ Reenc [.lit '.', .lit '.'] seg

theorem dot_sendable : (PU.lit '.').sendable := ⟨by decide, by decide⟩

theorem DotSpelling.sendable {seg : List PU} (h : DotSpelling seg) : ∀ u ∈ seg, u.sendable := by
  rcases h with h | h
  · exact h.sendable (by intro u hu; simp only [List.mem_cons, List.not_mem_nil, or_false] at hu; subst hu; exact dot_sendable)
  · exact h.sendable (by
      intro u hu
      simp only [List.mem_cons, List.not_mem_nil, or_false] at hu
      rcases hu with rfl | rfl <;> exact dot_sendable)

/-- whatever the spelling, a dot segment decodes to `.` or `..` -/
theorem DotSpelling.dec {seg : List PU} (h : DotSpelling seg) : seg.map PU.dec = ['.'] ∨ seg.map PU.dec = ['.', '.'] := by
  rcases h with h | h
  · exact .inl (by rw [h.dec_eq]; rfl)
  · exact .inr (by rw [h.dec_eq]; rfl)

theorem DotSpelling.ne_nil {seg : List PU} (h : DotSpelling seg) : seg ≠ [] := by
  rcases h with h | h <;> exact h.ne_nil (by simp)

theorem DotSpelling.byte {seg : List PU} (h : DotSpelling seg) : ∀ u ∈ seg, u.byte := by
  have aux : ∀ {us us' : List PU}, Reenc us us' → (∀ u ∈ us, u.byte) → ∀ u ∈ us', u.byte := by
    intro us us' hr
    induction hr with
    | nil => intro _ u hu; cases hu
    | keep u _ ih =>
      intro hs x hx
      rcases List.mem_cons.mp hx with rfl | hx
      · exact hs _ (by simp)
      · exact ih (fun y hy => hs y (by simp [hy])) x hx
    | enc c a b _ _ _ _ _ ih =>
      intro hs x hx
      rcases List.mem_cons.mp hx with rfl | hx
      · trivial
      · exact ih (fun y hy => hs y (by simp [hy])) x hx
  have hd : (PU.lit '.').byte := by show '.'.toNat < 256; decide
  rcases h with h | h
  · exact aux h (by intro u hu; simp only [List.mem_cons, List.not_mem_nil, or_false] at hu; subst hu; exact hd)
  · exact aux h (by
      intro u hu
      simp only [List.mem_cons, List.not_mem_nil, or_false] at hu
      rcases hu with rfl | rfl <;> exact hd)

/-- the default encoding leaves the dots of a dot segment as they are -/
theorem DotSpelling.escape_dec {seg : List PU} (h : DotSpelling seg) :
    escapePathL (seg.map PU.dec) = seg.map PU.dec := by
  rcases h.dec with e | e <;> rw [e] <;> decide

theorem Reenc.append_right {us us' : List PU} (h : Reenc us us') (post : List PU) : Reenc (us ++ post) (us' ++ post) := by
  induction h with
  | nil => exact Reenc.refl _
  | keep u _ ih => exact .keep u ih
  | enc c a b hc ha hb ho _ ih => exact .enc c a b hc ha hb ho ih

/-- the default encoding of a byte string decodes to that string -/
theorem pathUnescapeL_escapePathL (p : List Char) (hb : ∀ c ∈ p, c.toNat < 256) :
    pathUnescapeL (escapePathL p) = some p := by
  rw [escapePathL_eq, pathUnescapeL_render _ (sendable_wf (escUnits_sendable _)), escUnits_dec _ hb]

end Heimdall
