import HeimdallModel.Model.SignerConc
/-!
# The invariant of the signer machine (C16)

`Inv good c`: a global part (read/write exclusion, the three guarded fields name one generation whenever no loader
holds the lock, the phases of the loader that holds it) and a part per thread (`ThreadOk`).  `good` is any predicate
on generations that the initial generation and every loader's parse result satisfy.
-/
namespace Heimdall.SignerConc

variable {S : Type}

theorem upd_same {α : Type} (f : Nat → α) (i : Nat) (v : α) : upd f i v i = v := by simp [upd]

theorem upd_other {α : Type} (f : Nat → α) (i j : Nat) (v : α) (h : j ≠ i) : upd f i v j = f j := by simp [upd, h]

def LPc.locked : LPc → Bool
  | .wHeld | .wroteJwk | .wroteKey | .wrotePub => true
  | _ => false

/-- what is known about thread `i` in state `t`, given the read holders, the published generation, the commit log
and the write holder -/
def ThreadOk (good : S → Prop) (rset : List Nat) (pub : S) (log : List S) (w : Option Nat) (i : Nat) :
    Thread S → Prop
  | .signer .idle _ _ _ => w ≠ some i
  | .signer .rHeld _ _ _ => w ≠ some i ∧ i ∈ rset
  | .signer .gotJwk a _ n => w ≠ some i ∧ i ∈ rset ∧ a = some pub ∧ n = log.length
  | .signer .gotKey a b n => w ≠ some i ∧ i ∈ rset ∧ a = some pub ∧ b = some pub ∧ n = log.length
  | .signer .done a b n => w ≠ some i ∧ ∃ s, a = some s ∧ b = some s ∧ (log.take n).getLast? = some s ∧ n ≤ log.length
  | .reader .idle _ _ => w ≠ some i
  | .reader .rHeld _ _ => w ≠ some i ∧ i ∈ rset
  | .reader .got p n => w ≠ some i ∧ i ∈ rset ∧ p = some pub ∧ n = log.length
  | .reader .done p n => w ≠ some i ∧ ∃ s, p = some s ∧ (log.take n).getLast? = some s ∧ n ≤ log.length
  | .loader new pc => good new ∧ (pc.locked = true ↔ w = some i)

/-- the guarded fields during the critical section of the loader that holds the lock -/
def Phase (jwk key pub : S) (log : List S) (new : S) : LPc → Prop
  | .wHeld => jwk = pub ∧ key = pub ∧ log.getLast? = some pub
  | .wroteJwk => jwk = new ∧ key = pub ∧ log.getLast? = some pub
  | .wroteKey => jwk = new ∧ key = new ∧ log.getLast? = some pub
  | .wrotePub => jwk = new ∧ key = new ∧ pub = new ∧ log.getLast? = some new
  | _ => False

structure Global (good : S → Prop) (c : Config S) : Prop where
  goodLog : ∀ s ∈ c.log, good s
  excl    : ∀ i, c.writer = some i → c.rset = []
  quiet   : c.writer = none → c.jwk = c.pub ∧ c.key = c.pub ∧ c.log.getLast? = some c.pub
  held    : ∀ i, c.writer = some i → ∃ new pc, c.threads i = .loader new pc ∧ Phase c.jwk c.key c.pub c.log new pc

def Inv (good : S → Prop) (c : Config S) : Prop :=
  Global good c ∧ ∀ j, ThreadOk good c.rset c.pub c.log c.writer j (c.threads j)

/-! ## stability of `ThreadOk` under the changes other threads make -/

theorem ok_rset_cons (good : S → Prop) (rset pub log w) (i j : Nat) (t : Thread S)
    (h : ThreadOk good rset pub log w j t) : ThreadOk good (i :: rset) pub log w j t := by
  cases t with
  | signer pc a b n => cases pc <;> simp_all [ThreadOk]
  | reader pc p n => cases pc <;> simp_all [ThreadOk]
  | loader new pc => exact h

theorem ok_rset_erase (good : S → Prop) (rset pub log w) (i j : Nat) (t : Thread S) (hne : j ≠ i)
    (h : ThreadOk good rset pub log w j t) : ThreadOk good (rset.erase i) pub log w j t := by
  have key : j ∈ rset → j ∈ rset.erase i := fun hm => (List.mem_erase_of_ne hne).mpr hm
  cases t with
  | signer pc a b n => cases pc <;> simp_all [ThreadOk]
  | reader pc p n => cases pc <;> simp_all [ThreadOk]
  | loader new pc => exact h

theorem ok_lock (good : S → Prop) (pub : S) (log : List S) (k j : Nat) (t : Thread S) (hne : j ≠ k)
    (h : ThreadOk good [] pub log none j t) : ThreadOk good [] pub log (some k) j t := by
  have hk : some k ≠ some j := fun e => hne (Option.some.inj e).symm
  cases t with
  | signer pc a b n => cases pc <;> simp_all [ThreadOk]
  | reader pc p n => cases pc <;> simp_all [ThreadOk]
  | loader new pc =>
    refine ⟨h.1, ?_⟩
    have h2 := h.2
    constructor
    · intro hl; have := h2.mp hl; cases this
    · intro e; exact absurd e hk

theorem take_append_le (l : List S) (x : S) (n : Nat) (h : n ≤ l.length) : (l ++ [x]).take n = l.take n := by
  rw [List.take_append_of_le_length h]

theorem ok_commit (good : S → Prop) (pub new : S) (log : List S) (w : Option Nat) (j : Nat) (t : Thread S)
    (h : ThreadOk good [] pub log w j t) : ThreadOk good [] new (log ++ [new]) w j t := by
  cases t with
  | signer pc a b n =>
    cases pc with
    | idle => exact h
    | rHeld => exact absurd h.2 (by simp)
    | gotJwk => exact absurd h.2.1 (by simp)
    | gotKey => exact absurd h.2.1 (by simp)
    | done =>
      obtain ⟨hw, s, ha, hb, hl, hn⟩ := h
      refine ⟨hw, s, ha, hb, ?_, ?_⟩
      · rw [take_append_le _ _ _ hn]; exact hl
      · simp; omega
  | reader pc p n =>
    cases pc with
    | idle => exact h
    | rHeld => exact absurd h.2 (by simp)
    | got => exact absurd h.2.1 (by simp)
    | done =>
      obtain ⟨hw, s, hp, hl, hn⟩ := h
      refine ⟨hw, s, hp, ?_, ?_⟩
      · rw [take_append_le _ _ _ hn]; exact hl
      · simp; omega
  | loader new' pc => exact h

theorem ok_unlock (good : S → Prop) (rset : List Nat) (pub : S) (log : List S) (k j : Nat) (t : Thread S)
    (hne : j ≠ k) (h : ThreadOk good rset pub log (some k) j t) : ThreadOk good rset pub log none j t := by
  have hk : some k ≠ some j := fun e => hne (Option.some.inj e).symm
  cases t with
  | signer pc a b n => cases pc <;> simp_all [ThreadOk]
  | reader pc p n => cases pc <;> simp_all [ThreadOk]
  | loader new pc =>
    refine ⟨h.1, ?_⟩
    constructor
    · intro hl; exact absurd (h.2.mp hl) hk
    · intro e; cases e



/-! ## the invariant is inductive -/

theorem threads_upd (good : S → Prop) (rset pub log w) (thr : Nat → Thread S) (i : Nat) (t' : Thread S)
    (hi : ThreadOk good rset pub log w i t')
    (ho : ∀ j, j ≠ i → ThreadOk good rset pub log w j (thr j)) :
    ∀ j, ThreadOk good rset pub log w j (upd thr i t' j) := by
  intro j
  by_cases e : j = i
  · subst e; rw [upd_same]; exact hi
  · rw [upd_other _ _ _ _ e]; exact ho j e

/-- a thread that holds the read lock excludes every writer -/
theorem no_writer_of_reader (good : S → Prop) (c : Config S) (G : Global good c) (i : Nat) (hm : i ∈ c.rset) :
    c.writer = none := by
  cases hw : c.writer with
  | none => rfl
  | some k =>
    have := G.excl k hw
    rw [this] at hm
    cases hm

theorem inv_init (good : S → Prop) (s0 : S) (c : Config S) (h0 : good s0) (hg : ∀ i new pc, c.threads i = .loader new pc → good new)
    (hi : Initial s0 c) : Inv good c := by
  obtain ⟨hj, hk, hp, hw, hr, hl, ht⟩ := hi
  refine ⟨⟨?_, ?_, ?_, ?_⟩, ?_⟩
  · intro s hs; rw [hl] at hs; simp at hs; subst hs; exact h0
  · intro i hi; rw [hw] at hi; cases hi
  · intro _; rw [hj, hk, hp, hl]; simp
  · intro i hi; rw [hw] at hi; cases hi
  · intro j
    rcases ht j with h | h | ⟨new, h⟩
    · rw [h, hw]; simp [ThreadOk]
    · rw [h, hw]; simp [ThreadOk]
    · rw [h, hw]; exact ⟨hg j new _ h, by simp [LPc.locked]⟩

theorem inv_step (good : S → Prop) (c c' : Config S) (hinv : Inv good c) (hs : Step c c') : Inv good c' := by
  obtain ⟨G, T⟩ := hinv
  cases hs with
  | sLock i h free =>
    have Ti := T i; rw [h] at Ti
    refine ⟨⟨G.goodLog, ?_, G.quiet, ?_⟩, ?_⟩
    · intro k hk; exact absurd (free ▸ hk) (by simp)
    · intro k hk; exact absurd (free ▸ hk) (by simp)
    · exact threads_upd _ _ _ _ _ _ _ _ ⟨Ti, List.mem_cons_self ..⟩ (fun j _ => ok_rset_cons _ _ _ _ _ _ _ _ (T j))
  | sReadJwk i h =>
    have Ti := T i; rw [h] at Ti
    have hw := no_writer_of_reader good c G i Ti.2
    have hq := G.quiet hw
    refine ⟨⟨G.goodLog, G.excl, G.quiet, ?_⟩, ?_⟩
    · intro k hk; exact absurd (hw ▸ hk) (by simp)
    · exact threads_upd _ _ _ _ _ _ _ _ ⟨Ti.1, Ti.2, by rw [hq.1], rfl⟩ (fun j _ => T j)
  | sReadKey i a n h =>
    have Ti := T i; rw [h] at Ti
    have hw := no_writer_of_reader good c G i Ti.2.1
    have hq := G.quiet hw
    refine ⟨⟨G.goodLog, G.excl, G.quiet, ?_⟩, ?_⟩
    · intro k hk; exact absurd (hw ▸ hk) (by simp)
    · exact threads_upd _ _ _ _ _ _ _ _ ⟨Ti.1, Ti.2.1, Ti.2.2.1, by rw [hq.2.1], Ti.2.2.2⟩ (fun j _ => T j)
  | sUnlock i a b n h =>
    have Ti := T i; rw [h] at Ti
    have hw := no_writer_of_reader good c G i Ti.2.1
    have hq := G.quiet hw
    refine ⟨⟨G.goodLog, ?_, G.quiet, ?_⟩, ?_⟩
    · intro k hk; exact absurd (hw ▸ hk) (by simp)
    · intro k hk; exact absurd (hw ▸ hk) (by simp)
    · refine threads_upd _ _ _ _ _ _ _ _ ⟨Ti.1, c.pub, Ti.2.2.1, Ti.2.2.2.1, ?_, ?_⟩
        (fun j hj => ok_rset_erase _ _ _ _ _ _ _ _ hj (T j))
      · rw [Ti.2.2.2.2, List.take_length]; exact hq.2.2
      · rw [Ti.2.2.2.2]; exact Nat.le_refl _
  | rLock i h free =>
    have Ti := T i; rw [h] at Ti
    refine ⟨⟨G.goodLog, ?_, G.quiet, ?_⟩, ?_⟩
    · intro k hk; exact absurd (free ▸ hk) (by simp)
    · intro k hk; exact absurd (free ▸ hk) (by simp)
    · exact threads_upd _ _ _ _ _ _ _ _ ⟨Ti, List.mem_cons_self ..⟩ (fun j _ => ok_rset_cons _ _ _ _ _ _ _ _ (T j))
  | rRead i h =>
    have Ti := T i; rw [h] at Ti
    have hw := no_writer_of_reader good c G i Ti.2
    refine ⟨⟨G.goodLog, G.excl, G.quiet, ?_⟩, ?_⟩
    · intro k hk; exact absurd (hw ▸ hk) (by simp)
    · exact threads_upd _ _ _ _ _ _ _ _ ⟨Ti.1, Ti.2, rfl, rfl⟩ (fun j _ => T j)
  | rUnlock i p n h =>
    have Ti := T i; rw [h] at Ti
    have hw := no_writer_of_reader good c G i Ti.2.1
    have hq := G.quiet hw
    refine ⟨⟨G.goodLog, ?_, G.quiet, ?_⟩, ?_⟩
    · intro k hk; exact absurd (hw ▸ hk) (by simp)
    · intro k hk; exact absurd (hw ▸ hk) (by simp)
    · refine threads_upd _ _ _ _ _ _ _ _ ⟨Ti.1, c.pub, Ti.2.2.1, ?_, ?_⟩
        (fun j hj => ok_rset_erase _ _ _ _ _ _ _ _ hj (T j))
      · rw [Ti.2.2.2, List.take_length]; exact hq.2.2
      · rw [Ti.2.2.2]; exact Nat.le_refl _
  | lFail i new h =>
    have Ti := T i; rw [h] at Ti
    have hni : c.writer ≠ some i := fun e => by have := Ti.2.mpr e; cases this
    refine ⟨⟨G.goodLog, G.excl, G.quiet, ?_⟩, ?_⟩
    · intro k hk
      have hne : k ≠ i := fun e => hni (e ▸ hk)
      obtain ⟨nw, pc, ht, hp⟩ := G.held k hk
      exact ⟨nw, pc, by simp only [upd_other _ _ _ _ hne]; exact ht, hp⟩
    · exact threads_upd _ _ _ _ _ _ _ _ ⟨Ti.1, ⟨(fun x => by cases x), fun e => absurd e hni⟩⟩ (fun j _ => T j)
  | lParse i new h =>
    have Ti := T i; rw [h] at Ti
    have hni : c.writer ≠ some i := fun e => by have := Ti.2.mpr e; cases this
    refine ⟨⟨G.goodLog, G.excl, G.quiet, ?_⟩, ?_⟩
    · intro k hk
      have hne : k ≠ i := fun e => hni (e ▸ hk)
      obtain ⟨nw, pc, ht, hp⟩ := G.held k hk
      exact ⟨nw, pc, by simp only [upd_other _ _ _ _ hne]; exact ht, hp⟩
    · exact threads_upd _ _ _ _ _ _ _ _ ⟨Ti.1, ⟨(fun x => by cases x), fun e => absurd e hni⟩⟩ (fun j _ => T j)
  | lLock i new h free nor =>
    have Ti := T i; rw [h] at Ti
    have hq := G.quiet free
    refine ⟨⟨G.goodLog, ?_, ?_, ?_⟩, ?_⟩
    · intro k _; exact nor
    · intro hk; cases hk
    · intro k hk
      have : k = i := (Option.some.inj hk).symm
      subst this
      exact ⟨new, .wHeld, upd_same _ _ _, hq⟩
    · refine threads_upd _ _ _ _ _ _ _ _ ⟨Ti.1, ⟨fun _ => rfl, fun _ => rfl⟩⟩ ?_
      intro j hj
      have Tj := T j
      rw [nor, free] at Tj
      show ThreadOk good c.rset c.pub c.log (some i) j (c.threads j)
      rw [nor]
      exact ok_lock _ _ _ _ _ _ hj Tj
  | lWriteJwk i new h hl =>
    have Ti := T i; rw [h] at Ti
    obtain ⟨nw, pc, ht, hp⟩ := G.held i hl
    rw [h] at ht; cases ht
    refine ⟨⟨G.goodLog, G.excl, ?_, ?_⟩, ?_⟩
    · intro hk; exact absurd (hl ▸ hk) (by simp)
    · intro k hk
      have : k = i := Option.some.inj (hk.symm.trans hl)
      subst this
      exact ⟨new, .wroteJwk, upd_same _ _ _, rfl, hp.2.1, hp.2.2⟩
    · exact threads_upd _ _ _ _ _ _ _ _ ⟨Ti.1, ⟨fun _ => hl, fun _ => rfl⟩⟩ (fun j _ => T j)
  | lWriteKey i new h hl =>
    have Ti := T i; rw [h] at Ti
    obtain ⟨nw, pc, ht, hp⟩ := G.held i hl
    rw [h] at ht; cases ht
    refine ⟨⟨G.goodLog, G.excl, ?_, ?_⟩, ?_⟩
    · intro hk; exact absurd (hl ▸ hk) (by simp)
    · intro k hk
      have : k = i := Option.some.inj (hk.symm.trans hl)
      subst this
      exact ⟨new, .wroteKey, upd_same _ _ _, hp.1, rfl, hp.2.2⟩
    · exact threads_upd _ _ _ _ _ _ _ _ ⟨Ti.1, ⟨fun _ => hl, fun _ => rfl⟩⟩ (fun j _ => T j)
  | lWritePub i new h hl =>
    have Ti := T i; rw [h] at Ti
    obtain ⟨nw, pc, ht, hp⟩ := G.held i hl
    rw [h] at ht; cases ht
    have hr := G.excl i hl
    refine ⟨⟨?_, G.excl, ?_, ?_⟩, ?_⟩
    · intro s hs
      rcases List.mem_append.mp hs with hs | hs
      · exact G.goodLog s hs
      · simp at hs; subst hs; exact Ti.1
    · intro hk; exact absurd (hl ▸ hk) (by simp)
    · intro k hk
      have : k = i := Option.some.inj (hk.symm.trans hl)
      subst this
      exact ⟨new, .wrotePub, upd_same _ _ _, hp.1, hp.2.1, rfl, by simp⟩
    · refine threads_upd _ _ _ _ _ _ _ _ ⟨Ti.1, ⟨fun _ => hl, fun _ => rfl⟩⟩ ?_
      intro j _
      have Tj := T j
      rw [hr] at Tj
      show ThreadOk good c.rset new (c.log ++ [new]) c.writer j (c.threads j)
      rw [hr]
      exact ok_commit _ _ _ _ _ _ _ Tj
  | lUnlock i new h hl =>
    have Ti := T i; rw [h] at Ti
    obtain ⟨nw, pc, ht, hp⟩ := G.held i hl
    rw [h] at ht; cases ht
    refine ⟨⟨G.goodLog, ?_, ?_, ?_⟩, ?_⟩
    · intro k hk; cases hk
    · intro _; exact ⟨hp.1.trans hp.2.2.1.symm, hp.2.1.trans hp.2.2.1.symm, by rw [hp.2.2.1]; exact hp.2.2.2⟩
    · intro k hk; cases hk
    · refine threads_upd _ _ _ _ _ _ _ _ ⟨Ti.1, ⟨(fun x => by cases x), (fun e => by cases e)⟩⟩ ?_
      intro j hj
      have Tj := T j
      rw [hl] at Tj
      exact ok_unlock _ _ _ _ _ _ _ hj Tj

theorem inv_reachable (good : S → Prop) (s0 : S) (c0 c : Config S) (h0 : good s0) (hi : Initial s0 c0)
    (hg : ∀ i new pc, c0.threads i = .loader new pc → good new)
    (hr : Reachable c0 c) : Inv good c := by
  induction hr with
  | init => exact inv_init good s0 c0 h0 hg hi
  | step c c' _ hs ih => exact inv_step good c c' ih hs

end Heimdall.SignerConc
