import HeimdallModel.Lemmas.RTreeAdd
/-!
# The abstraction has no duplicate expressions; `RTree.delete` preserves well-formedness and commutes with the abstraction
-/
namespace Heimdall
namespace RTree
variable {V : Type}

/-! ## no two entries of the abstraction carry the same expression -/

theorem nodup_map_pushAll {T : Table V} (h : NodupPats T) (ps : List PTok) : NodupPats (T.map (pushAll ps)) := by
  unfold NodupPats at *
  rw [List.pairwise_map]
  refine h.imp ?_
  intro a b hab e
  exact hab (List.append_cancel_left e)

theorem mem_absStatics {l : List (Char × RTree V)} {acc : List Char} {nd : Node V}
    (h : nd ∈ absStatics l acc) : ∃ e ∈ l, nd ∈ absChild e.2 acc := by
  induction l with
  | nil => rw [absStatics_nil] at h; cases h
  | cons e l ih =>
    obtain ⟨i, ch⟩ := e
    rw [absStatics_cons] at h
    rcases List.mem_append.mp h with h | h
    · exact ⟨(i, ch), List.mem_cons_self, h⟩
    · obtain ⟨e, he, hm⟩ := ih h
      exact ⟨e, List.mem_cons_of_mem _ he, hm⟩

theorem nodup_absStatics (l : List (Char × RTree V)) (hedge : ∀ e ∈ l, edgeOk e.1 e.2 = true)
    (hnodup : l.Pairwise (fun a b => a.1 ≠ b.1)) (acc : List Char)
    (hch : ∀ e ∈ l, NodupPats (absChild e.2 acc)) : NodupPats (absStatics l acc) := by
  induction l with
  | nil => rw [absStatics_nil]; exact List.Pairwise.nil
  | cons e l ih =>
    obtain ⟨i, ch⟩ := e
    rw [List.pairwise_cons] at hnodup
    rw [absStatics_cons]
    unfold NodupPats
    rw [List.pairwise_append]
    refine ⟨hch (i, ch) List.mem_cons_self,
      ih (fun e he => hedge e (List.mem_cons_of_mem _ he)) hnodup.2 (fun e he => hch e (List.mem_cons_of_mem _ he)),
      ?_⟩
    intro a ha b hb heq
    obtain ⟨e, he, hm⟩ := mem_absStatics hb
    have h1 := route_absChild (hedge (i, ch) List.mem_cons_self) acc a ha
    have h2 := route_absChild (hedge e (List.mem_cons_of_mem _ he)) acc b hm
    rw [heq, h2] at h1
    injection h1 with h1
    exact hnodup.1 e he h1.symm

theorem getNode_none_iff {T : Table V} {p : List PTok} : getNode T p = none ↔ ∀ nd ∈ T, nd.pat ≠ p := by
  unfold getNode
  rw [List.find?_eq_none]
  constructor
  · intro h nd hnd; simpa using h nd hnd
  · intro h nd hnd; simpa using h nd hnd

/-- **the abstraction of a well-formed tree has no duplicate expressions** (node level) -/
theorem nodup_absAux : ∀ (t : RTree V) (seg : Bool) (d : Nat) (acc : List Char), wfAt seg d t = true →
    (seg = true → acc = []) → (seg = false → acc ≠ []) → NodupPats (absAux t acc) := by
  intro t
  induction t using RTree.induct with
  | h t ihs ihw _ =>
    intro seg d acc hwf hseg1 hseg0
    have W := (wfAt_iff seg d t).mp hwf
    have hflat : acc ≠ [] → t.wild = none ∧ t.catchAll = none := by
      intro h
      apply W.hseg
      cases seg with
      | false => rfl
      | true => exact absurd (hseg1 rfl) h
    have hrest := getNode_none_iff.mp (getNode_rest_flush W acc hflat)
    have hS : NodupPats (absStatics t.statics acc) := by
      refine nodup_absStatics _ W.hedge W.hnodup acc ?_
      intro e he
      have hedge := W.hedge e he
      have hw := W.hst e he
      by_cases hi : e.1 = '/'
      · have hp : e.2.path = ['/'] := edge_slash (hi ▸ hedge)
        rw [absChild_slash hp]
        refine nodup_map_pushAll ?_ _
        rw [hp] at hw
        exact ihs e he true d [] hw (fun _ => rfl) (by simp)
      · obtain ⟨hne, _⟩ := edge_noslash hedge hi
        obtain ⟨⟨r, hr⟩, _⟩ := edge_path hedge
        rw [absChild_noslash hne]
        have hseg : (e.2.path == ['/']) = false := by simpa using hne
        rw [hseg] at hw
        exact ihs e he false d _ hw (by simp) (fun _ => by rw [hr]; simp)
    rw [absAux_eq]
    unfold NodupPats
    rw [List.pairwise_append]
    refine ⟨?_, ?_, ?_⟩
    · unfold absOwn; split
      · exact List.Pairwise.nil
      · exact List.pairwise_singleton _ _
    · by_cases hacc : acc = []
      · subst hacc
        rw [List.pairwise_append]
        refine ⟨hS, ?_, ?_⟩
        · rw [List.pairwise_append]
          refine ⟨?_, ?_, ?_⟩
          · cases hw : t.wild with
            | none => rw [absWild_none]; exact List.Pairwise.nil
            | some w =>
              rw [absWild_some]
              exact nodup_map_pushAll (ihw w hw true (d + 1) [] (W.hw w hw) (fun _ => rfl) (by simp)) _
          · unfold absCatch
            cases t.catchAll with
            | none => exact List.Pairwise.nil
            | some ca =>
              simp only
              split
              · exact List.Pairwise.nil
              · exact List.pairwise_singleton _ _
          · intro a ha b hb heq
            obtain ⟨q, r, hq, hq'⟩ := allStart_absWild_nil _ a ha
            obtain ⟨q2, r2, hq2, hq2'⟩ := allStart_absCatch_nil _ b hb
            rw [hq, hq2, hq', hq2'] at heq
            cases heq
        · intro a ha b hb heq
          obtain ⟨q, r, hq, s, hs⟩ := allLit_absStatics_nil W.hedge a ha
          rcases List.mem_append.mp hb with hb | hb
          · obtain ⟨q2, r2, hq2, hq2'⟩ := allStart_absWild_nil _ b hb
            rw [hq, hq2, hs, hq2'] at heq
            cases heq
          · obtain ⟨q2, r2, hq2, hq2'⟩ := allStart_absCatch_nil _ b hb
            rw [hq, hq2, hs, hq2'] at heq
            cases heq
      · obtain ⟨h1, h2⟩ := hflat hacc
        rw [h1, h2, absWild_none]
        simp only [absCatch, List.append_nil]
        exact hS
    · intro a ha b hb
      unfold absOwn at ha
      split at ha
      · cases ha
      · simp only [List.mem_singleton] at ha
        subst ha
        exact (hrest b hb).symm

/-- **the abstraction of a well-formed tree has no duplicate expressions** -/
theorem nodup_abs (t : RTree V) (h : t.WF) : NodupPats t.abs :=
  nodup_absAux t true 0 [] h (fun _ => rfl) (by simp)


/-! ## `delNode`, unfolded -/

theorem delNode_nil (p : V → Bool) (n : RTree V) (inStatic : Bool) : delNode p n [] inStatic = delLeaf p n := by
  obtain ⟨path, prio, statics, wild, catchAll, values, keys, bt⟩ := n
  simp only [delNode]

theorem delNode_cons (p : V → Bool) (n : RTree V) (token : Char) (ptail : List Char) (inStatic : Bool) :
    delNode p n (token :: ptail) inStatic =
    if !inStatic && token = ':' then
      (delWild p n.wild (afterSeg ptail)).map fun w' => finishChild n .wild w' token
    else if !inStatic && token = '*' then
      match n.catchAll with
      | none => none
      | some ca => (delLeaf p ca).map fun ca' => finishChild n .catchAll ca' token
    else
      (delStatic p n.statics (delTok inStatic token ptail).1 (delTok inStatic token ptail).2).map fun ch' =>
        finishChild n .static ch' (delTok inStatic token ptail).1 := by
  obtain ⟨path, prio, statics, wild, catchAll, values, keys, bt⟩ := n
  simp only [delNode]
  rfl

theorem delStatic_nil (p : V → Bool) (c : Char) (cs : List Char) :
    delStatic p ([] : List (Char × RTree V)) c cs = none := by
  simp only [delStatic]

theorem delStatic_cons (p : V → Bool) (i : Char) (ch : RTree V) (rest : List (Char × RTree V)) (c : Char)
    (cs : List Char) :
    delStatic p ((i, ch) :: rest) c cs =
      if i = c then
        if ch.path.isPrefixOf cs then delNode p ch (cs.drop ch.path.length) (c != '/') else none
      else delStatic p rest c cs := by
  simp only [delStatic]

theorem delWild_none (p : V → Bool) (cs : List Char) : delWild p (none : Option (RTree V)) cs = none := by
  simp only [delWild]

theorem delWild_some (p : V → Bool) (w : RTree V) (cs : List Char) :
    delWild p (some w) cs = delNode p w cs false := by
  simp only [delWild]

/-- a successful `delStatic` went into the first edge with the index -/
theorem delStatic_some {p : V → Bool} {l : List (Char × RTree V)} {c : Char} {cs : List Char} {ch' : RTree V}
    (h : delStatic p l c cs = some ch') :
    ∃ pre ch post, l = pre ++ (c, ch) :: post ∧ (∀ e ∈ pre, e.1 ≠ c) ∧ ch.path.isPrefixOf cs = true ∧
      delNode p ch (cs.drop ch.path.length) (c != '/') = some ch' := by
  induction l with
  | nil => rw [delStatic_nil] at h; cases h
  | cons e l ih =>
    obtain ⟨i, x⟩ := e
    rw [delStatic_cons] at h
    by_cases hic : i = c
    · rw [if_pos hic] at h
      by_cases hp : x.path.isPrefixOf cs = true
      · rw [if_pos hp] at h
        exact ⟨[], x, l, by simp [hic], by simp, hp, h⟩
      · rw [if_neg hp] at h; cases h
    · rw [if_neg hic] at h
      obtain ⟨pre, ch, post, h1, h2, h3, h4⟩ := ih h
      refine ⟨(i, x) :: pre, ch, post, by rw [h1]; rfl, ?_, h3, h4⟩
      intro e he
      rcases List.mem_cons.mp he with rfl | he
      · exact hic
      · exact h2 e he

theorem setEdge_decomp {pre post : List (Char × RTree V)} {c : Char} {ch : RTree V} (x : RTree V)
    (hpre : ∀ e ∈ pre, e.1 ≠ c) : setEdge (pre ++ (c, ch) :: post) c x = pre ++ (c, x) :: post := by
  induction pre with
  | nil => simp [setEdge]
  | cons e pre ih =>
    obtain ⟨i, y⟩ := e
    have hi : i ≠ c := hpre (i, y) List.mem_cons_self
    simp only [List.cons_append, setEdge, if_neg hi]
    rw [ih (fun e he => hpre e (List.mem_cons_of_mem _ he))]

theorem delEdge_decomp {pre post : List (Char × RTree V)} {c : Char} {ch : RTree V}
    (hpre : ∀ e ∈ pre, e.1 ≠ c) : delEdge (pre ++ (c, ch) :: post) c = pre ++ post := by
  induction pre with
  | nil => simp [delEdge]
  | cons e pre ih =>
    obtain ⟨i, y⟩ := e
    have hi : i ≠ c := hpre (i, y) List.mem_cons_self
    simp only [List.cons_append, delEdge, if_neg hi]
    rw [ih (fun e he => hpre e (List.mem_cons_of_mem _ he))]


/-! ## `delete` preserves well-formedness -/

/-- inversion of a successful `delLeaf` -/
theorem delLeaf_ok {p : V → Bool} {n n' : RTree V} (h : delLeaf p n = some n') :
    n.values ≠ [] ∧ (n.values.filter (fun v => !p v)).length ≠ n.values.length ∧
    n' = (if (n.values.filter (fun v => !p v)).isEmpty then { n with values := [], keys := [], bt := true }
          else { n with values := n.values.filter (fun v => !p v) }) := by
  unfold delLeaf at h
  by_cases h1 : n.values.isEmpty = true
  · rw [if_pos h1] at h; cases h
  · rw [if_neg h1] at h
    simp only at h
    by_cases h2 : (n.values.filter (fun v => !p v)).length = n.values.length
    · rw [if_pos h2] at h; cases h
    · rw [if_neg h2] at h
      refine ⟨by simpa using h1, h2, ?_⟩
      by_cases h3 : (n.values.filter (fun v => !p v)).isEmpty = true
      · rw [if_pos h3] at h ⊢; injection h with h; exact h.symm
      · rw [if_neg h3] at h ⊢; injection h with h; exact h.symm

theorem delLeaf_fields {p : V → Bool} {n n' : RTree V} (h : delLeaf p n = some n') :
    n'.path = n.path ∧ n'.statics = n.statics ∧ n'.wild = n.wild ∧ n'.catchAll = n.catchAll ∧
      n'.priority = n.priority := by
  obtain ⟨_, _, rfl⟩ := delLeaf_ok h
  split <;> exact ⟨rfl, rfl, rfl, rfl, rfl⟩

theorem delLeaf_wf {p : V → Bool} {seg : Bool} {d : Nat} {n n' : RTree V} (hw : wfAt seg d n = true)
    (h : delLeaf p n = some n') : wfAt seg d n' = true := by
  obtain ⟨hv, _, rfl⟩ := delLeaf_ok h
  have W := (wfAt_iff _ _ _).mp hw
  rw [wfAt_iff]
  split
  · exact ⟨W.hseg, fun _ => rfl, fun h => absurd rfl h, W.hnodup, W.hedge, W.hst, W.hw, W.hc, W.hwo⟩
  · rename_i hne
    refine ⟨W.hseg, ?_, fun _ => W.hkeys hv, W.hnodup, W.hedge, W.hst, W.hw, W.hc, W.hwo⟩
    intro h0
    simp only at h0
    rw [h0] at hne
    exact absurd rfl hne

/-- the two outcomes of the merge step of `deleteChild` -/
theorem mergeChild_cases (ch : RTree V) :
    (mergeChild ch = (ch, false)) ∨
    (∃ i gc, ch.statics = [(i, gc)] ∧ i ≠ '/' ∧ ch.path ≠ ['/'] ∧
      mergeChild ch = ({ gc with path := ch.path ++ gc.path }, true)) := by
  unfold mergeChild
  split
  · rename_i i gc heq
    by_cases h : i ≠ '/' ∧ ch.path ≠ ['/']
    · right; rw [if_pos h]; exact ⟨i, gc, heq, h.1, h.2, rfl⟩
    · left; rw [if_neg h]
  · left; rfl

/-- `WFNode` of a node whose static edges are replaced -/
theorem WFNode.withStatics {seg : Bool} {d : Nat} {n : RTree V} (W : WFNode seg d n) (l : List (Char × RTree V))
    (hnodup : l.Pairwise (fun a b => a.1 ≠ b.1)) (hedge : ∀ e ∈ l, edgeOk e.1 e.2 = true)
    (hst : ∀ e ∈ l, wfAt (e.2.path == ['/']) d e.2 = true) : WFNode seg d { n with statics := l } :=
  ⟨W.hseg, W.hkeys0, W.hkeys, hnodup, hedge, hst, W.hw, W.hc, W.hwo⟩

theorem pairwise_remove {pre post : List (Char × RTree V)} {x : Char × RTree V}
    (h : (pre ++ x :: post).Pairwise (fun a b => a.1 ≠ b.1)) : (pre ++ post).Pairwise (fun a b => a.1 ≠ b.1) := by
  rw [List.pairwise_append] at h ⊢
  obtain ⟨h1, h2, h3⟩ := h
  rw [List.pairwise_cons] at h2
  exact ⟨h1, h2.2, fun a ha b hb => h3 a ha b (List.mem_cons_of_mem _ hb)⟩

theorem hasNoChildren_iff (t : RTree V) :
    hasNoChildren t = true ↔ t.statics = [] ∧ t.wild = none ∧ t.catchAll = none := by
  unfold hasNoChildren
  simp only [Bool.and_eq_true, List.isEmpty_iff, Option.isNone_iff_eq_none, and_assoc]

/-- the static link: the updated child stays, is merged with its only grandchild, or is pruned -/
theorem finishStatic_wf {seg : Bool} {d : Nat} {n : RTree V} (W : WFNode seg d n)
    {pre post : List (Char × RTree V)} {idx : Char} {ch ch' : RTree V}
    (hst : n.statics = pre ++ (idx, ch) :: post) (hpre : ∀ e ∈ pre, e.1 ≠ idx)
    (hw' : wfAt (ch.path == ['/']) d ch' = true) (hp : ch'.path = ch.path) :
    WFNode seg d (finishChild n .static ch' idx) ∧ (finishChild n .static ch' idx).path = n.path := by
  have hmem : (idx, ch) ∈ n.statics := by rw [hst]; simp
  have he := W.hedge _ hmem
  have he' : edgeOk idx ch' = true := edgeOk_path hp he
  have hnd := W.hnodup
  rw [hst] at hnd
  have hmem_pre : ∀ e ∈ pre, e ∈ n.statics := fun e h => by rw [hst]; simp [h]
  have hmem_post : ∀ e ∈ post, e ∈ n.statics := fun e h => by rw [hst]; simp [h]
  -- the node with the edge's child replaced by a well-formed `x`
  have hrepl : ∀ x : RTree V, edgeOk idx x = true → wfAt (x.path == ['/']) d x = true →
      WFNode seg d { n with statics := pre ++ (idx, x) :: post } := by
    intro x hx1 hx2
    refine W.withStatics _ (pairwise_fst_congr (by simp) hnd) ?_ ?_
    · intro e hm
      simp only [List.mem_append, List.mem_cons] at hm
      rcases hm with h | rfl | h
      · exact W.hedge e (hmem_pre e h)
      · exact hx1
      · exact W.hedge e (hmem_post e h)
    · intro e hm
      simp only [List.mem_append, List.mem_cons] at hm
      rcases hm with h | rfl | h
      · exact W.hst e (hmem_pre e h)
      · exact hx2
      · exact W.hst e (hmem_post e h)
  have hrem : WFNode seg d { n with statics := pre ++ post } := by
    refine W.withStatics _ (pairwise_remove hnd) ?_ ?_
    · intro e hm
      rcases List.mem_append.mp hm with h | h
      · exact W.hedge e (hmem_pre e h)
      · exact W.hedge e (hmem_post e h)
    · intro e hm
      rcases List.mem_append.mp hm with h | h
      · exact W.hst e (hmem_pre e h)
      · exact W.hst e (hmem_post e h)
  have hw'' : wfAt (ch'.path == ['/']) d ch' = true := by rw [hp]; exact hw'
  unfold finishChild
  by_cases hv : ch'.values.isEmpty = true
  · rw [if_pos hv]
    unfold deleteChild
    rcases mergeChild_cases ch' with hm | ⟨i, gc, hgc, hi, hpne, hm⟩
    · rw [hm]
      simp only [Bool.false_and, Bool.false_eq_true, if_false]
      rw [hst, setEdge_decomp ch' hpre]
      by_cases hnc : hasNoChildren ch' = true
      · rw [if_pos hnc]
        simp only
        rw [delEdge_decomp hpre]
        exact ⟨hrem, by first | rfl | trivial⟩
      · rw [if_neg hnc]
        exact ⟨hrepl ch' he' hw'', by first | rfl | trivial⟩
    · rw [hm]
      simp only [Bool.true_and]
      rw [hst, setEdge_decomp _ hpre]
      -- the merged node is a well-formed child for this edge
      have W' := (wfAt_iff _ _ _).mp hw''
      have hgm : (i, gc) ∈ ch'.statics := by rw [hgc]; simp
      have hge := W'.hedge _ hgm
      have hgw := W'.hst _ hgm
      obtain ⟨hgne, hgns⟩ := edge_noslash hge hi
      obtain ⟨⟨r, hr⟩, hcs⟩ := edge_path he'
      have hns' : '/' ∉ ch'.path := by
        rcases hcs with h | h
        · exact absurd h hpne
        · exact h
      have hme : edgeOk idx ({ gc with path := ch'.path ++ gc.path } : RTree V) = true := by
        rw [edgeOk_iff]
        refine ⟨⟨r ++ gc.path, by simp [hr]⟩, Or.inr ?_⟩
        intro h
        rcases List.mem_append.mp h with h | h
        · exact hns' h
        · exact hgns h
      have hmw : wfAt ((ch'.path ++ gc.path) == ['/']) d ({ gc with path := ch'.path ++ gc.path } : RTree V)
          = true := by
        have h1 : ((ch'.path ++ gc.path) == ['/']) = false := by
          simp only [beq_eq_false_iff_ne, ne_eq]
          intro e
          have : '/' ∈ ch'.path ++ gc.path := by rw [e]; simp
          rcases List.mem_append.mp this with h | h
          · exact hns' h
          · exact hgns h
        have h2 : (gc.path == ['/']) = false := by simpa using hgne
        rw [h1]
        rw [h2] at hgw
        exact wfAt_congr hgw rfl rfl rfl rfl rfl
      by_cases hmv : (!({ gc with path := ch'.path ++ gc.path } : RTree V).values.isEmpty) = true
      · rw [if_pos hmv]
        exact ⟨hrepl _ hme hmw, by first | rfl | trivial⟩
      · rw [if_neg hmv]
        by_cases hnc : hasNoChildren ({ gc with path := ch'.path ++ gc.path } : RTree V) = true
        · rw [if_pos hnc]
          simp only
          rw [delEdge_decomp hpre]
          exact ⟨hrem, by first | rfl | trivial⟩
        · rw [if_neg hnc]
          exact ⟨hrepl _ hme hmw, by first | rfl | trivial⟩
  · rw [if_neg hv]
    simp only
    rw [hst, setEdge_decomp ch' hpre]
    exact ⟨hrepl ch' he' hw'', by first | rfl | trivial⟩


theorem mergeChild_wildOk {w : RTree V} (hwo : wildOk w = true) : mergeChild w = (w, false) := by
  rcases mergeChild_cases w with h | ⟨i, gc, hgc, hi, _, _⟩
  · exact h
  · have := ((wildOk_iff w).mp hwo).2.2 (i, gc) (by rw [hgc]; simp)
    exact absurd this hi

theorem finishWild_wf {seg : Bool} {d : Nat} {n w w' : RTree V} (W : WFNode seg d n) (hw : n.wild = some w)
    (hw' : wfAt true (d + 1) w' = true) (hwo' : wildOk w' = true) (token : Char) :
    WFNode seg d (finishChild n .wild w' token) ∧ (finishChild n .wild w' token).path = n.path := by
  have hseg : seg = true := by
    cases seg with
    | true => rfl
    | false => have := (W.hseg rfl).1; rw [hw] at this; cases this
  subst hseg
  have hsome : WFNode true d { n with wild := some w' } :=
    ⟨fun h => (by cases h), W.hkeys0, W.hkeys, W.hnodup, W.hedge, W.hst,
      fun x hx => (by simp only [Option.some.injEq] at hx; subst hx; exact hw'), W.hc,
      fun x hx => (by simp only [Option.some.injEq] at hx; subst hx; exact hwo')⟩
  have hnone : WFNode true d { n with wild := none } :=
    ⟨fun h => (by cases h), W.hkeys0, W.hkeys, W.hnodup, W.hedge, W.hst,
      fun x hx => (by cases hx), W.hc, fun x hx => (by cases hx)⟩
  unfold finishChild
  by_cases hv : w'.values.isEmpty = true
  · rw [if_pos hv]
    unfold deleteChild
    rw [mergeChild_wildOk hwo']
    simp only [Bool.false_and, Bool.false_eq_true, if_false]
    by_cases hnc : hasNoChildren w' = true
    · rw [if_pos hnc]; exact ⟨hnone, by first | rfl | trivial⟩
    · rw [if_neg hnc]; exact ⟨hsome, by first | rfl | trivial⟩
  · rw [if_neg hv]; exact ⟨hsome, by first | rfl | trivial⟩

theorem finishCatch_wf {p : V → Bool} {seg : Bool} {d : Nat} {n ca ca' : RTree V} (W : WFNode seg d n)
    (hc : n.catchAll = some ca) (hdel : delLeaf p ca = some ca') (token : Char) :
    WFNode seg d (finishChild n .catchAll ca' token) ∧ (finishChild n .catchAll ca' token).path = n.path := by
  have hseg : seg = true := by
    cases seg with
    | true => rfl
    | false => have := (W.hseg rfl).2; rw [hc] at this; cases this
  subst hseg
  have hco := W.hc ca hc
  obtain ⟨hfp, hfs, hfw, hfc, _⟩ := delLeaf_fields hdel
  obtain ⟨_, _, hca'⟩ := delLeaf_ok hdel
  have hnc : hasNoChildren ca' = true := by
    unfold catchOk at hco
    simp only [Bool.and_eq_true] at hco
    rw [hasNoChildren_iff] at hco ⊢
    rw [hfs, hfw, hfc]; exact hco.2
  have hnone : WFNode true d { n with catchAll := none } :=
    ⟨fun h => (by cases h), W.hkeys0, W.hkeys, W.hnodup, W.hedge, W.hst, W.hw,
      fun x hx => (by cases hx), W.hwo⟩
  unfold finishChild
  by_cases hv : ca'.values.isEmpty = true
  · rw [if_pos hv]
    unfold deleteChild
    have hm : mergeChild ca' = (ca', false) := by
      rcases mergeChild_cases ca' with h | ⟨i, gc, hgc, _, _, _⟩
      · exact h
      · rw [hasNoChildren_iff] at hnc; rw [hnc.1] at hgc; cases hgc
    rw [hm]
    simp only [Bool.false_and, Bool.false_eq_true, if_false]
    rw [if_pos hnc]
    exact ⟨hnone, by first | rfl | trivial⟩
  · rw [if_neg hv]
    refine ⟨⟨fun h => (by cases h), W.hkeys0, W.hkeys, W.hnodup, W.hedge, W.hst, W.hw, ?_, W.hwo⟩,
      by first | rfl | trivial⟩
    intro x hx
    simp only [Option.some.injEq] at hx
    subst hx
    -- the values that stay keep the keys and the path
    have hne : (ca.values.filter (fun v => !p v)).isEmpty = false := by
      rw [hca'] at hv
      by_cases h : (ca.values.filter (fun v => !p v)).isEmpty = true
      · rw [if_pos h] at hv; simp at hv
      · simpa using h
    rw [hne] at hca'
    simp only [Bool.false_eq_true, if_false] at hca'
    unfold catchOk at hco ⊢
    simp only [Bool.and_eq_true, Bool.not_eq_true', beq_iff_eq] at hco ⊢
    rw [hca']
    simp only
    exact ⟨⟨⟨hne, hco.1.1.2⟩, hco.1.2⟩, hco.2⟩

theorem mem_setEdge {l : List (Char × RTree V)} {c : Char} {x : RTree V} {e : Char × RTree V}
    (h : e ∈ setEdge l c x) : ∃ e' ∈ l, e.1 = e'.1 := by
  induction l with
  | nil => simp [setEdge] at h
  | cons a l ih =>
    obtain ⟨i, y⟩ := a
    unfold setEdge at h
    by_cases hi : i = c
    · rw [if_pos hi] at h
      rcases List.mem_cons.mp h with rfl | h
      · exact ⟨(i, y), List.mem_cons_self, rfl⟩
      · exact ⟨e, List.mem_cons_of_mem _ h, rfl⟩
    · rw [if_neg hi] at h
      rcases List.mem_cons.mp h with rfl | h
      · exact ⟨(i, y), List.mem_cons_self, rfl⟩
      · obtain ⟨e', he', h'⟩ := ih h
        exact ⟨e', List.mem_cons_of_mem _ he', h'⟩

theorem mem_delEdge {l : List (Char × RTree V)} {c : Char} {e : Char × RTree V} (h : e ∈ delEdge l c) : e ∈ l := by
  induction l with
  | nil => simp [delEdge] at h
  | cons a l ih =>
    obtain ⟨i, y⟩ := a
    unfold delEdge at h
    by_cases hi : i = c
    · rw [if_pos hi] at h; exact List.mem_cons_of_mem _ h
    · rw [if_neg hi] at h
      rcases List.mem_cons.mp h with rfl | h
      · exact List.mem_cons_self
      · exact List.mem_cons_of_mem _ (ih h)

/-- the static link leaves the wildcard children alone and adds no index -/
theorem finishStatic_fields (n ch' : RTree V) (c : Char) :
    (finishChild n .static ch' c).wild = n.wild ∧ (finishChild n .static ch' c).catchAll = n.catchAll ∧
      ∀ e ∈ (finishChild n .static ch' c).statics, ∃ e' ∈ n.statics, e.1 = e'.1 := by
  unfold finishChild
  by_cases hv : ch'.values.isEmpty = true
  · rw [if_pos hv]
    unfold deleteChild
    generalize mergeChild ch' = m
    obtain ⟨c1, merged⟩ := m
    simp only
    split
    · exact ⟨rfl, rfl, fun e he => mem_setEdge he⟩
    · split
      · refine ⟨rfl, rfl, fun e he => ?_⟩
        exact mem_setEdge (mem_delEdge he)
      · exact ⟨rfl, rfl, fun e he => mem_setEdge he⟩
  · rw [if_neg hv]
    exact ⟨rfl, rfl, fun e he => mem_setEdge he⟩

theorem delTok_slash (inStatic : Bool) (r : List Char) : delTok inStatic '/' r = ('/', '/' :: r) := by
  unfold delTok
  simp [isEscape]

/-- below a single wildcard only `/` or the end of the expression follows: the node stays a proper wildcard node -/
theorem delNode_wildOk (p : V → Bool) {n n' : RTree V} {path : List Char} (hwo : wildOk n = true)
    (hpath : path = [] ∨ ∃ r, path = '/' :: r) (h : delNode p n path false = some n') : wildOk n' = true := by
  rw [wildOk_iff] at hwo ⊢
  obtain ⟨h1, h2, h3⟩ := hwo
  rcases hpath with rfl | ⟨r, rfl⟩
  · rw [delNode_nil] at h
    obtain ⟨_, hs, hw, hc, _⟩ := delLeaf_fields h
    rw [hs, hw, hc]; exact ⟨h1, h2, h3⟩
  · rw [delNode_cons, if_neg (by simp), if_neg (by simp), delTok_slash] at h
    simp only at h
    cases hd : delStatic p n.statics '/' ('/' :: r) with
    | none => rw [hd] at h; cases h
    | some ch' =>
      rw [hd] at h
      simp only [Option.map_some, Option.some.injEq] at h
      subst h
      obtain ⟨f1, f2, f3⟩ := finishStatic_fields n ch' '/'
      refine ⟨by rw [f1]; exact h1, by rw [f2]; exact h2, ?_⟩
      intro e he
      obtain ⟨e', he', hee⟩ := f3 e he
      rw [hee]; exact h3 e' he'


/-- **`delete` preserves well-formedness** (node level) -/
theorem delNode_wf (p : V → Bool) : ∀ (t : RTree V) (path : List Char) (inStatic : Bool) (d : Nat) (t' : RTree V),
    wfAt (!inStatic) d t = true → delNode p t path inStatic = some t' →
    wfAt (!inStatic) d t' = true ∧ t'.path = t.path := by
  intro t
  induction t using RTree.induct with
  | h t ihs ihw _ =>
    intro path inStatic d t' hw h
    have W := (wfAt_iff _ _ _).mp hw
    cases path with
    | nil =>
      rw [delNode_nil] at h
      exact ⟨delLeaf_wf hw h, (delLeaf_fields h).1⟩
    | cons token ptail =>
      rw [delNode_cons] at h
      by_cases hcol : (!inStatic && decide (token = ':')) = true
      · rw [if_pos hcol] at h
        cases hwild : t.wild with
        | none => rw [hwild, delWild_none] at h; cases h
        | some w =>
          rw [hwild, delWild_some] at h
          cases hrec : delNode p w (afterSeg ptail) false with
          | none => rw [hrec] at h; cases h
          | some w' =>
            rw [hrec] at h
            simp only [Option.map_some, Option.some.injEq] at h
            subst h
            have h1 := ihw w hwild (afterSeg ptail) false (d + 1) w' (W.hw w hwild) hrec
            have h2 := delNode_wildOk p (W.hwo w hwild) (afterSeg_cases ptail) hrec
            obtain ⟨hW, hp⟩ := finishWild_wf W hwild h1.1 h2 token
            exact ⟨(wfAt_iff _ _ _).mpr hW, hp⟩
      · rw [if_neg hcol] at h
        by_cases hstar : (!inStatic && decide (token = '*')) = true
        · rw [if_pos hstar] at h
          cases hcatch : t.catchAll with
          | none => rw [hcatch] at h; cases h
          | some ca =>
            rw [hcatch] at h
            simp only at h
            cases hrec : delLeaf p ca with
            | none => rw [hrec] at h; cases h
            | some ca' =>
              rw [hrec] at h
              simp only [Option.map_some, Option.some.injEq] at h
              subst h
              obtain ⟨hW, hp⟩ := finishCatch_wf W hcatch hrec token
              exact ⟨(wfAt_iff _ _ _).mpr hW, hp⟩
        · rw [if_neg hstar] at h
          cases hrec : delStatic p t.statics (delTok inStatic token ptail).1 (delTok inStatic token ptail).2 with
          | none => rw [hrec] at h; cases h
          | some ch' =>
            rw [hrec] at h
            simp only [Option.map_some, Option.some.injEq] at h
            subst h
            obtain ⟨pre, ch, post, hst, hpre, _, hdel⟩ := delStatic_some hrec
            have hmem : ((delTok inStatic token ptail).1, ch) ∈ t.statics := by rw [hst]; simp
            have he := W.hedge _ hmem
            have hwc := W.hst _ hmem
            simp only at he hwc
            rw [edge_seg he] at hwc
            obtain ⟨h1, h2⟩ := ihs _ hmem _ _ d ch' hwc hdel
            rw [← edge_seg he] at h1
            obtain ⟨hW, hp⟩ := finishStatic_wf W hst hpre h1 h2
            exact ⟨(wfAt_iff _ _ _).mpr hW, hp⟩

/-- **(c) `delete` preserves well-formedness.** -/
theorem delete_wf (t t' : RTree V) (expr : String) (p : V → Bool) (h : t.WF)
    (hdel : RTree.delete t expr p = some t') : t'.WF :=
  (delNode_wf p t expr.toList false 0 t' h hdel).1

/-! ## the specification of one `Delete` on tables, in closed form -/

/-- `T'` is `T` with the entry at `pat` replaced by `x` (removed for `none`) -/
def UpdO (T T' : Table V) (pat : List PTok) (x : Option (Node V)) : Prop :=
  ∀ q, getNode T' q = if q = pat then x else getNode T q

theorem UpdO.congr_right {T T' T'' : Table V} {pat : List PTok} {x : Option (Node V)} (h : UpdO T T' pat x)
    (he : ∀ q, getNode T'' q = getNode T' q) : UpdO T T'' pat x := by
  intro q; rw [he, h]

theorem updO_append (A X X' B : Table V) (pat : List PTok) (x : Option (Node V))
    (hA : getNode A pat = none) (hB : x = none → getNode B pat = none) (hX : UpdO X X' pat x) :
    UpdO (A ++ (X ++ B)) (A ++ (X' ++ B)) pat x := by
  intro q
  rw [getNode_append, getNode_append, getNode_append, getNode_append, hX q]
  by_cases hq : q = pat
  · subst hq
    simp only [if_true, hA, Option.none_or]
    cases x with
    | none => rw [hB rfl]; rfl
    | some y => rfl
  · simp [hq]

theorem updO_map (T T' : Table V) (ps pat : List PTok) (x : Option (Node V)) (h : UpdO T T' pat x) :
    UpdO (T.map (pushAll ps)) (T'.map (pushAll ps)) (ps ++ pat) (x.map (pushAll ps)) := by
  intro q
  by_cases hpre : ps <+: q
  · obtain ⟨q', rfl⟩ := hpre
    rw [getNode_map_pushAll_append, getNode_map_pushAll_append, h q']
    by_cases hq : q' = pat
    · subst hq; simp
    · have : ¬ ps ++ q' = ps ++ pat := fun e => hq (List.append_cancel_left e)
      simp [hq, this]
  · rw [getNode_map_pushAll_none _ _ _ hpre, getNode_map_pushAll_none _ _ _ hpre]
    have : ¬ q = ps ++ pat := fun e => hpre ⟨pat, e.symm⟩
    simp [this]

section spec
variable (p : V → Bool)

/-- the entry at `pat` after `delPat` (`some none`: the entry disappears), `none` when `delPat` fails -/
def delSpec (T : Table V) (pat : List PTok) : Option (Option (Node V)) :=
  match getNode T pat with
  | none => none
  | some nd =>
    if nd.values.any p then
      some (if (nd.values.filter (fun v => !p v)).isEmpty then none
            else some { nd with values := nd.values.filter (fun v => !p v) })
    else none

/-- the result `r` of `delNode` on a node with abstraction `T`, for the expression `pat` -/
def DelRel (r : Option (RTree V)) (T : Table V) (pat : List PTok) (absf : RTree V → Table V) : Prop :=
  match delSpec p T pat with
  | none => r = none
  | some x => ∃ n', r = some n' ∧ UpdO T (absf n') pat x

theorem delSpec_lift (T T_c : Table V) (ps pat_c : List PTok)
    (hget : getNode T (ps ++ pat_c) = (getNode T_c pat_c).map (pushAll ps)) :
    delSpec p T (ps ++ pat_c) = (delSpec p T_c pat_c).map (fun x => x.map (pushAll ps)) := by
  unfold delSpec
  rw [hget]
  cases getNode T_c pat_c with
  | none => rfl
  | some nd =>
    simp only [Option.map_some, pushAll]
    split
    · simp only [Option.map_some]
      split <;> rfl
    · rfl

/-- lifting the statement about the recursive call to the parent -/
theorem DelRel.lift {r_c : Option (RTree V)} {T_c T : Table V} {pat_c ps : List PTok}
    {absf_c absf : RTree V → Table V} (g : RTree V → RTree V)
    (hrel : DelRel p r_c T_c pat_c absf_c)
    (hget : getNode T (ps ++ pat_c) = (getNode T_c pat_c).map (pushAll ps))
    (hupd : ∀ c' x, r_c = some c' → UpdO T_c (absf_c c') pat_c x →
      UpdO T (absf (g c')) (ps ++ pat_c) (x.map (pushAll ps))) :
    DelRel p (r_c.map g) T (ps ++ pat_c) absf := by
  unfold DelRel at hrel ⊢
  rw [delSpec_lift p T T_c ps pat_c hget]
  cases hs : delSpec p T_c pat_c with
  | none =>
    rw [hs] at hrel
    simp only at hrel
    subst hrel; rfl
  | some x =>
    rw [hs] at hrel
    simp only at hrel
    obtain ⟨c', rfl, hu⟩ := hrel
    exact ⟨g c', rfl, hupd c' x rfl hu⟩

/-- nothing at `pat`: `delPat` fails -/
theorem DelRel.of_none {T : Table V} {pat : List PTok} {absf : RTree V → Table V}
    (h : getNode T pat = none) : DelRel p none T pat absf := by
  unfold DelRel delSpec; rw [h]

end spec


/-! ## the expression `delNode` walks, seen from inside a static token -/

/-- as `patOf`, for `parseDel` (whatever follows a free wildcard is ignored) -/
def patDel (acc cs : List Char) : List PTok :=
  if acc = [] then parseDelToks (tokenizeAux cs [])
  else .lit (String.ofList (acc.reverse ++ segOf cs)) :: parseDelToks (tokenizeAux (afterSeg cs) [])

theorem patDel_nil_eq (cs : List Char) : patDel [] cs = parseDelToks (tokenizeAux cs []) := by
  unfold patDel; rw [if_pos rfl]

theorem patDel_leaf (acc : List Char) : patDel acc [] = flushP acc := by
  unfold patDel
  by_cases h : acc = []
  · subst h; rfl
  · rw [if_neg h, flushP_ne h]
    simp [afterSeg, segOf, tokenizeAux, flushSeg, parseDelToks]

theorem patDel_slash (acc r : List Char) : patDel acc ('/' :: r) = flushP acc ++ .lit "/" :: patDel [] r := by
  have ht : tokenizeAux ('/' :: r) [] = .sep :: tokenizeAux r [] := by simp [tokenizeAux, flushSeg]
  rw [patDel_nil_eq]
  unfold patDel
  by_cases h : acc = []
  · subst h; rw [if_pos rfl, ht, parseDelToks]; rfl
  · rw [if_neg h, afterSeg_slash, segOf_slash, flushP_ne h, ht, parseDelToks]
    simp

theorem patDel_consume (acc x rest : List Char) (hacc : acc ≠ []) (hx : '/' ∉ x) :
    patDel acc (x ++ rest) = patDel (x.reverse ++ acc) rest := by
  unfold patDel
  rw [if_neg hacc, if_neg (by simp [hacc]), segOf_append_noslash x rest hx, afterSeg_append_noslash x rest hx]
  simp

theorem patDel_wild (r : List Char) : patDel [] (':' :: r) = .wild :: patDel [] (afterSeg r) := by
  rw [patDel_nil_eq, patDel_nil_eq, tokenizeAux_cons_ne (by decide), parseDelToks, classifySeg_wild]

theorem patDel_catch (r : List Char) : patDel [] ('*' :: r) = [.catchAll] := by
  rw [patDel_nil_eq, tokenizeAux_cons_ne (by decide), parseDelToks, classifySeg_catch]

theorem patDel_afterSeg (acc cs : List Char) (hacc : acc ≠ []) :
    patDel acc (afterSeg cs) = .lit (String.ofList acc.reverse) :: parseDelToks (tokenizeAux (afterSeg cs) []) := by
  unfold patDel
  rw [if_neg hacc, afterSeg_idem, segOf_afterSeg, List.append_nil]

/-- the static token at the head of the path, consumed as a whole -/
theorem patDel_static (inStatic : Bool) (acc : List Char) {token : Char} (ptail : List Char) (ht : token ≠ '/')
    (h1 : ¬ (!inStatic && decide (token = '*')) = true) (h2 : ¬ (!inStatic && decide (token = ':')) = true)
    (hacc0 : inStatic = false → acc = []) (hacc1 : inStatic = true → acc ≠ []) :
    patDel acc (token :: ptail) =
      patDel ((staticTok inStatic token ptail).2.1.reverse ++ acc) (afterSeg ptail) := by
  cases inStatic with
  | true =>
    rw [staticTok_true ht]
    have hp : token :: ptail = (token :: segOf ptail) ++ afterSeg ptail := by
      rw [List.cons_append, segOf_append_afterSeg]
    conv => lhs; rw [hp]
    refine patDel_consume acc _ _ (hacc1 rfl) ?_
    intro h
    rcases List.mem_cons.mp h with h | h
    · exact ht h.symm
    · exact slash_not_mem_segOf _ h
  | false =>
    have hacc := hacc0 rfl
    subst hacc
    have hc1 : token ≠ '*' := by simpa using h1
    have hc2 : token ≠ ':' := by simpa using h2
    obtain ⟨_, hne⟩ := staticTok_noslash false ht ptail
    rw [List.append_nil, patDel_afterSeg _ _ (by simpa using hne), List.reverse_reverse,
      patDel_nil_eq, tokenizeAux_cons_ne ht, parseDelToks, classifySeg_lit token _ hc2 hc1, staticTok_false ht]
    by_cases he : isEscape (token :: segOf ptail) = true
    · simp only [he, if_true]
    · simp only [he, Bool.false_eq_true, if_false]


/-! ## the static token as `delNode` sees it -/

theorem isEscape_seg (token : Char) (ptail : List Char) :
    isEscape (token :: ptail) = isEscape (token :: segOf ptail) := by
  cases ptail with
  | nil => rfl
  | cons c r =>
    by_cases hc : c = '/'
    · subst hc
      rw [segOf_slash]
      unfold isEscape
      split
      · rename_i c' r' heq
        injection heq with h1 h2
        injection h2 with h2 _
        subst h2; simp
      · split
        · rename_i heq; cases heq
        · rfl
    · rw [segOf_cons_ne hc]
      unfold isEscape
      split
      · rename_i c' r' heq
        injection heq with h1 h2
        injection h2 with h2 h3
        subst h1 h2
        rfl
      · rename_i hn
        split
        · rename_i c' r' heq
          injection heq with h1 h2
          injection h2 with h2 h3
          subst h1 h2
          exact absurd rfl (hn _ _)
        · rfl

theorem delTok_eq (inStatic : Bool) (token : Char) (ptail : List Char) :
    delTok inStatic token ptail =
      ((staticTok inStatic token ptail).1, (staticTok inStatic token ptail).2.1 ++ remOf token ptail) := by
  by_cases ht : token = '/'
  · subst ht; rw [delTok_slash, staticTok_slash]; simp [remOf]
  · have hrem : remOf token ptail = afterSeg ptail := by unfold remOf; rw [if_neg ht]
    rw [hrem]
    cases inStatic with
    | true =>
      rw [staticTok_true ht]
      unfold delTok
      simp only [Bool.not_true, Bool.false_and, Bool.false_eq_true, if_false, List.cons_append,
        segOf_append_afterSeg]
    | false =>
      rw [staticTok_false ht]
      unfold delTok
      simp only [Bool.not_false, Bool.true_and, isEscape_seg token ptail]
      by_cases he : isEscape (token :: segOf ptail) = true
      · rw [if_pos he, if_pos he]
        simp only [segOf_append_afterSeg]
        obtain ⟨c, r, hcr, hc⟩ := isEscape_cons he
        injection hcr with _ hcr
        have hc' : c ≠ '/' := by rcases hc with h | h | h <;> rw [h] <;> decide
        cases ptail with
        | nil => simp [segOf] at hcr
        | cons c2 r2 =>
          by_cases h2 : c2 = '/'
          · subst h2; rw [segOf_slash] at hcr; cases hcr
          · rw [segOf_cons_ne h2]; rfl
      · rw [if_neg he, if_neg he]
        simp only [List.cons_append, segOf_append_afterSeg]

theorem remOf_cases (token : Char) (ptail : List Char) (ht : token ≠ '/') :
    remOf token ptail = [] ∨ ∃ r, remOf token ptail = '/' :: r := by
  unfold remOf; rw [if_neg ht]; exact afterSeg_cases ptail

theorem prefix_of_append_slash {x tok rem : List Char} (hx : '/' ∉ x) (hrem : rem = [] ∨ ∃ r, rem = '/' :: r)
    (h : x <+: tok ++ rem) : x <+: tok := by
  induction x generalizing tok with
  | nil => exact List.nil_prefix
  | cons a x ih =>
    have ha : a ≠ '/' := fun e => hx (by simp [e])
    cases tok with
    | nil =>
      rcases hrem with rfl | ⟨r, rfl⟩
      · simp at h
      · simp only [List.nil_append] at h
        obtain ⟨t, ht⟩ := h
        injection ht with h1 _
        exact absurd h1 ha
    | cons b tok =>
      rw [List.cons_append] at h
      obtain ⟨t, ht⟩ := h
      injection ht with h1 h2
      subst h1
      obtain ⟨t', ht'⟩ := ih (fun hm => hx (List.mem_cons_of_mem _ hm)) ⟨t, h2⟩
      exact ⟨t', by rw [List.cons_append, ht']⟩

/-- the expression seen from the node = the expression seen from the static child the path leads into -/
theorem patDel_step (inStatic : Bool) (acc : List Char) (token : Char) (ptail : List Char) (ch : RTree V)
    (he : edgeOk (staticTok inStatic token ptail).1 ch = true)
    (hp : ch.path.isPrefixOf ((staticTok inStatic token ptail).2.1 ++ remOf token ptail) = true)
    (h1 : ¬ (!inStatic && decide (token = '*')) = true) (h2 : ¬ (!inStatic && decide (token = ':')) = true)
    (hacc0 : inStatic = false → acc = []) (hacc1 : inStatic = true → acc ≠ []) :
    patDel acc (token :: ptail) =
      childPre (staticTok inStatic token ptail).1 acc ++
        patDel (childAcc (staticTok inStatic token ptail).1 ch acc)
          (((staticTok inStatic token ptail).2.1 ++ remOf token ptail).drop ch.path.length) := by
  by_cases ht : token = '/'
  · subst ht
    rw [staticTok_slash] at he hp ⊢
    have := edge_slash he
    simp only [childPre, childAcc, if_true, this, remOf, List.length_cons, List.length_nil,
      List.cons_append, List.nil_append, List.drop_succ_cons, List.drop_zero, List.append_assoc]
    exact patDel_slash acc ptail
  · have hi := staticTok_idx_ne inStatic ht ptail
    obtain ⟨hns, hne⟩ := staticTok_noslash inStatic ht ptail
    obtain ⟨_, hcns⟩ := edge_noslash he hi
    obtain ⟨⟨r, hr⟩, _⟩ := edge_path he
    simp only [childPre, childAcc, if_neg hi, List.nil_append]
    have hpre := prefix_of_append_slash hcns (remOf_cases token ptail ht) (List.isPrefixOf_iff_prefix.mp hp)
    obtain ⟨y, hy⟩ := hpre
    have hrem : remOf token ptail = afterSeg ptail := by unfold remOf; rw [if_neg ht]
    rw [patDel_static inStatic acc ptail ht h1 h2 hacc0 hacc1, ← hy, List.append_assoc,
      List.drop_left, hrem]
    have hyns : '/' ∉ y := fun h => hns (by rw [← hy]; exact List.mem_append_right _ h)
    rw [patDel_consume _ y _ (by rw [hr]; simp) hyns]
    simp

/-- facts about the expression of a static step that do not depend on the child -/
theorem del_target (inStatic : Bool) (acc : List Char) (token : Char) (ptail : List Char)
    (h1 : ¬ (!inStatic && decide (token = '*')) = true) (h2 : ¬ (!inStatic && decide (token = ':')) = true)
    (hacc0 : inStatic = false → acc = []) (hacc1 : inStatic = true → acc ≠ []) :
    routeOf acc.reverse (patDel acc (token :: ptail)) = some (staticTok inStatic token ptail).1 ∧
      patDel acc (token :: ptail) ≠ flushP acc ∧ ∃ s r, patDel acc (token :: ptail) = .lit s :: r := by
  by_cases ht : token = '/'
  · subst ht
    rw [staticTok_slash, patDel_slash]
    by_cases hacc : acc = []
    · subst hacc; simp [flushP_nil, routeOf]
    · rw [flushP_ne hacc]
      refine ⟨by simp [routeOf, String.toList_ofList], ?_, _, _, rfl⟩
      intro h
      have := congrArg List.length h
      simp at this
  · obtain ⟨⟨tr, htr⟩, _⟩ := staticTok_shape inStatic token ptail
    obtain ⟨_, hne⟩ := staticTok_noslash inStatic ht ptail
    rw [patDel_static inStatic acc ptail ht h1 h2 hacc0 hacc1, patDel_afterSeg _ _ (by simp [hne])]
    refine ⟨by simp [routeOf, String.toList_ofList, htr], ?_, _, _, rfl⟩
    by_cases hacc : acc = []
    · subst hacc; simp [flushP_nil]
    · rw [flushP_ne hacc]
      intro h
      injection h with h _
      rw [lit_ofList_inj] at h
      have := congrArg List.length h
      simp [htr] at this

/-- a child whose path is no prefix of the rest of the path carries nothing for this expression -/
theorem getNode_absChild_noprefix_del (inStatic : Bool) (acc : List Char) (token : Char) (ptail : List Char)
    (ch : RTree V) (he : edgeOk (staticTok inStatic token ptail).1 ch = true)
    (hp : ¬ ch.path.isPrefixOf ((staticTok inStatic token ptail).2.1 ++ remOf token ptail) = true)
    (h1 : ¬ (!inStatic && decide (token = '*')) = true) (h2 : ¬ (!inStatic && decide (token = ':')) = true)
    (hacc0 : inStatic = false → acc = []) (hacc1 : inStatic = true → acc ≠ []) :
    getNode (absChild ch acc) (patDel acc (token :: ptail)) = none := by
  by_cases ht : token = '/'
  · subst ht
    rw [staticTok_slash] at he hp
    exfalso; apply hp
    rw [edge_slash he]; simp [List.isPrefixOf]
  · have hi := staticTok_idx_ne inStatic ht ptail
    obtain ⟨_, hne⟩ := staticTok_noslash inStatic ht ptail
    rw [patDel_static inStatic acc ptail ht h1 h2 hacc0 hacc1, patDel_afterSeg _ _ (by simp [hne])]
    refine getNode_eq_none_of_allStart (allStart_absChild_noslash he hi acc) ?_
    intro q r hq hext
    injection hq with hq _
    subst hq
    obtain ⟨x, hx⟩ := hext
    rw [lit_ofList_inj] at hx
    simp only [List.reverse_append, List.reverse_reverse, List.append_assoc] at hx
    have hx := List.append_cancel_left hx
    apply hp
    rw [List.isPrefixOf_iff_prefix]
    exact ⟨x ++ remOf token ptail, by rw [← List.append_assoc, ← hx]⟩


/-! ## the abstraction under `deleteChild` -/

theorem absAux_empty {x : RTree V} (hv : x.values.isEmpty = true) (hnc : hasNoChildren x = true)
    (acc : List Char) : absAux x acc = [] := by
  obtain ⟨h1, h2, h3⟩ := (hasNoChildren_iff x).mp hnc
  rw [absAux_eq, h1, h2, h3, absStatics_nil, absWild_none]
  simp [absOwn, hv, absCatch]

theorem absChild_empty {x : RTree V} (hv : x.values.isEmpty = true) (hnc : hasNoChildren x = true)
    (acc : List Char) : absChild x acc = [] := by
  unfold absChild
  rw [absAux_empty hv hnc, absAux_empty hv hnc]
  split <;> rfl

/-- merging a value-less static child with its only grandchild does not change its table -/
theorem merge_abs {ch gc : RTree V} {i : Char} (hv : ch.values.isEmpty = true) (hst : ch.statics = [(i, gc)])
    (hi : i ≠ '/') (hpne : ch.path ≠ ['/']) (hns : '/' ∉ ch.path) (hw : ch.wild = none)
    (hc : ch.catchAll = none) (hge : edgeOk i gc = true) (acc : List Char) :
    absChild ({ gc with path := ch.path ++ gc.path } : RTree V) acc = absChild ch acc := by
  obtain ⟨hgne, hgns⟩ := edge_noslash hge hi
  have hmne : ch.path ++ gc.path ≠ ['/'] := by
    intro e
    have : '/' ∈ ch.path ++ gc.path := by rw [e]; simp
    rcases List.mem_append.mp this with h | h
    · exact hns h
    · exact hgns h
  rw [absChild_noslash hpne, absChild_noslash (ch := ({ gc with path := ch.path ++ gc.path } : RTree V)) hmne,
    absAux_eq ch, hst, hw, hc, absStatics_cons, absStatics_nil, absWild_none, absChild_noslash hgne]
  simp only [absOwn, hv, if_true, absCatch, List.nil_append, List.append_nil, List.reverse_append,
    List.append_assoc]
  exact absAux_congr (t := gc) (t' := { gc with path := ch.path ++ gc.path }) rfl rfl rfl rfl rfl rfl _

/-- the table of the node after the static link is finished: the table of the updated child in the old place -/
theorem absAux_finishStatic {d : Nat} (n : RTree V) (acc : List Char)
    {pre post : List (Char × RTree V)} {idx : Char} {ch ch' : RTree V}
    (hst : n.statics = pre ++ (idx, ch) :: post) (hpre : ∀ e ∈ pre, e.1 ≠ idx)
    (he' : edgeOk idx ch' = true) (hw' : wfAt (ch'.path == ['/']) d ch' = true) :
    absAux (finishChild n .static ch' idx) acc = (absOwn n acc ++ absStatics pre acc) ++
      (absChild ch' acc ++ (absStatics post acc ++ (absWild n.wild acc ++ absCatch n.catchAll acc))) := by
  have hkeep : ∀ x : RTree V, absChild x acc = absChild ch' acc →
      absAux ({ n with statics := pre ++ (idx, x) :: post } : RTree V) acc = (absOwn n acc ++ absStatics pre acc) ++
      (absChild ch' acc ++ (absStatics post acc ++ (absWild n.wild acc ++ absCatch n.catchAll acc))) := by
    intro x hx
    rw [absAux_eq]
    simp only [absStatics_append, absStatics_cons, hx, List.append_assoc]
    rfl
  have hdrop : absChild ch' acc = [] →
      absAux ({ n with statics := pre ++ post } : RTree V) acc = (absOwn n acc ++ absStatics pre acc) ++
      (absChild ch' acc ++ (absStatics post acc ++ (absWild n.wild acc ++ absCatch n.catchAll acc))) := by
    intro hx
    rw [absAux_eq, hx]
    simp only [absStatics_append, List.append_assoc, List.nil_append]
    rfl
  unfold finishChild
  by_cases hv : ch'.values.isEmpty = true
  · rw [if_pos hv]
    unfold deleteChild
    rcases mergeChild_cases ch' with hm | ⟨i, gc, hgc, hi, hpne, hm⟩
    · rw [hm]
      simp only [Bool.false_and, Bool.false_eq_true, if_false]
      rw [hst, setEdge_decomp ch' hpre]
      by_cases hnc : hasNoChildren ch' = true
      · rw [if_pos hnc]
        rw [delEdge_decomp hpre]
        exact hdrop (absChild_empty hv hnc acc)
      · rw [if_neg hnc]
        exact hkeep ch' rfl
    · rw [hm]
      simp only [Bool.true_and]
      rw [hst, setEdge_decomp _ hpre]
      have W' := (wfAt_iff _ _ _).mp hw'
      have hgm : (i, gc) ∈ ch'.statics := by rw [hgc]; simp
      have hge := W'.hedge _ hgm
      obtain ⟨_, hcs⟩ := edge_path he'
      have hns' : '/' ∉ ch'.path := by
        rcases hcs with h | h
        · exact absurd h hpne
        · exact h
      have hsegf : (ch'.path == ['/']) = false := by simpa using hpne
      obtain ⟨hwn, hcn⟩ := W'.hseg hsegf
      have hmerge := merge_abs hv hgc hi hpne hns' hwn hcn hge acc
      by_cases hmv : (!({ gc with path := ch'.path ++ gc.path } : RTree V).values.isEmpty) = true
      · rw [if_pos hmv]
        exact hkeep _ hmerge
      · rw [if_neg hmv]
        by_cases hnc : hasNoChildren ({ gc with path := ch'.path ++ gc.path } : RTree V) = true
        · rw [if_pos hnc]
          rw [delEdge_decomp hpre]
          refine hdrop ?_
          rw [← hmerge]
          exact absChild_empty (by simpa using hmv) hnc acc
        · rw [if_neg hnc]
          exact hkeep _ hmerge
  · rw [if_neg hv]
    simp only
    rw [hst, setEdge_decomp ch' hpre]
    exact hkeep ch' rfl

theorem absAux_finishWild (n w' : RTree V) (hwo' : wildOk w' = true) (token : Char) :
    absAux (finishChild n .wild w' token) [] =
      (absOwn n [] ++ absStatics n.statics []) ++
        ((absAux w' []).map (pushAll [.wild]) ++ absCatch n.catchAll []) := by
  have hsome : absAux ({ n with wild := some w' } : RTree V) [] =
      (absOwn n [] ++ absStatics n.statics []) ++
        ((absAux w' []).map (pushAll [.wild]) ++ absCatch n.catchAll []) := by
    rw [absAux_eq]
    simp only [absWild_some, flushP_nil, List.nil_append, List.append_assoc]
    rfl
  unfold finishChild
  by_cases hv : w'.values.isEmpty = true
  · rw [if_pos hv]
    unfold deleteChild
    rw [mergeChild_wildOk hwo']
    simp only [Bool.false_and, Bool.false_eq_true, if_false]
    by_cases hnc : hasNoChildren w' = true
    · rw [if_pos hnc]
      rw [absAux_eq, absAux_empty hv hnc]
      simp only [absWild_none, List.map_nil, List.nil_append, List.append_assoc]
      rfl
    · rw [if_neg hnc]; exact hsome
  · rw [if_neg hv]; exact hsome


theorem filter_length_eq_iff (p : V → Bool) (l : List V) :
    (l.filter (fun v => !p v)).length = l.length ↔ l.any p = false := by
  induction l with
  | nil => simp
  | cons a l ih =>
    rw [List.filter_cons]
    by_cases ha : p a = true
    · simp only [ha, Bool.not_true, Bool.false_eq_true, if_false, List.length_cons, List.any_cons, Bool.true_or]
      have := List.length_filter_le (fun v => !p v) l
      constructor
      · intro h; omega
      · intro h; cases h
    · have ha' : p a = false := by simpa using ha
      simp only [ha', Bool.not_false, if_true, List.length_cons, List.any_cons, Bool.false_or]
      constructor
      · intro h; exact ih.mp (by omega)
      · intro h; rw [ih.mpr h]

theorem updO_own_none (n : RTree V) (acc : List Char) (R : Table V) (hR : getNode R (flushP acc) = none) :
    UpdO (absOwn n acc ++ R) R (flushP acc) none := by
  intro q
  by_cases hq : q = flushP acc
  · subst hq; rw [if_pos rfl]; exact hR
  · rw [if_neg hq, getNode_append]
    have : getNode (absOwn n acc) q = none := by
      unfold absOwn; split
      · rfl
      · simp only [getNode, List.find?_cons]
        have : ¬ flushP acc = q := fun e => hq e.symm
        simp [this]
    rw [this]; rfl

section spec3
variable (p : V → Bool)

theorem delLeaf_abs {seg : Bool} {d : Nat} {n : RTree V} (W : WFNode seg d n) (acc : List Char)
    (hflat : acc ≠ [] → n.wild = none ∧ n.catchAll = none) :
    DelRel p (delLeaf p n) (absAux n acc) (flushP acc) (fun n' => absAux n' acc) := by
  have hR := getNode_rest_flush W acc hflat
  unfold DelRel delSpec
  rw [absAux_eq, getNode_append, hR, Option.or_none]
  by_cases hv : n.values = []
  · have hown : absOwn n acc = [] := by unfold absOwn; simp [hv]
    rw [hown]
    simp only [getNode_nil]
    unfold delLeaf
    rw [if_pos (by simp [hv])]
  · have hve : n.values.isEmpty = false := by simpa using hv
    have hown : absOwn n acc = [⟨flushP acc, n.keys, n.values, n.bt⟩] := by unfold absOwn; simp [hve]
    rw [hown]
    have : getNode [(⟨flushP acc, n.keys, n.values, n.bt⟩ : Node V)] (flushP acc) =
        some ⟨flushP acc, n.keys, n.values, n.bt⟩ := by simp [getNode]
    rw [this]
    simp only
    unfold delLeaf
    have h0 : ¬ n.values.isEmpty = true := by simp [hve]
    rw [if_neg h0]
    simp only
    by_cases ha : n.values.any p = true
    · have hlen : ¬ (n.values.filter (fun v => !p v)).length = n.values.length := by
        intro h; rw [(filter_length_eq_iff p _).mp h] at ha; cases ha
      rw [if_pos ha, if_neg hlen]
      by_cases he : (n.values.filter (fun v => !p v)).isEmpty = true
      · rw [if_pos he, if_pos he]
        refine ⟨_, rfl, ?_⟩
        have h1 : absAux ({ n with values := [], keys := [], bt := true } : RTree V) acc =
            absStatics n.statics acc ++ (absWild n.wild acc ++ absCatch n.catchAll acc) := by
          rw [absAux_eq]; rfl
        show UpdO _ (absAux _ acc) _ _
        rw [h1]
        have := updO_own_none n acc _ hR
        rw [hown] at this
        exact this
      · rw [if_neg he, if_neg he]
        refine ⟨_, rfl, ?_⟩
        have h1 : absAux ({ n with values := n.values.filter (fun v => !p v) } : RTree V) acc =
            [⟨flushP acc, n.keys, n.values.filter (fun v => !p v), n.bt⟩] ++
            (absStatics n.statics acc ++ (absWild n.wild acc ++ absCatch n.catchAll acc)) := by
          rw [absAux_eq]
          congr 1
          unfold absOwn
          simp only [he, Bool.false_eq_true, if_false]
        show UpdO _ (absAux _ acc) _ _
        rw [h1]
        have := upd_own n acc (absStatics n.statics acc ++ (absWild n.wild acc ++ absCatch n.catchAll acc))
          ⟨flushP acc, n.keys, n.values.filter (fun v => !p v), n.bt⟩ rfl
        rw [hown] at this
        exact this
    · have hlen : (n.values.filter (fun v => !p v)).length = n.values.length :=
        (filter_length_eq_iff p _).mpr (by simpa using ha)
      rw [if_neg ha, if_pos hlen]

end spec3


theorem delStatic_cases (p : V → Bool) (l : List (Char × RTree V)) (c : Char) (cs : List Char) :
    (delStatic p l c cs = none ∧ ∀ e ∈ l, e.1 ≠ c) ∨
    (∃ pre ch post, l = pre ++ (c, ch) :: post ∧ (∀ e ∈ pre, e.1 ≠ c) ∧
      delStatic p l c cs =
        if ch.path.isPrefixOf cs then delNode p ch (cs.drop ch.path.length) (c != '/') else none) := by
  induction l with
  | nil => left; rw [delStatic_nil]; exact ⟨rfl, fun e he => by cases he⟩
  | cons e l ih =>
    obtain ⟨i, x⟩ := e
    rw [delStatic_cons]
    by_cases hic : i = c
    · right
      rw [if_pos hic]
      exact ⟨[], x, l, by simp [hic], by simp, rfl⟩
    · rw [if_neg hic]
      rcases ih with ⟨h1, h2⟩ | ⟨pre, ch, post, h1, h2, h3⟩
      · left
        refine ⟨h1, ?_⟩
        intro e he
        rcases List.mem_cons.mp he with rfl | he
        · exact hic
        · exact h2 e he
      · right
        refine ⟨(i, x) :: pre, ch, post, by rw [h1]; rfl, ?_, h3⟩
        intro e he
        rcases List.mem_cons.mp he with rfl | he
        · exact hic
        · exact h2 e he

theorem absAux_finishCatch (n ca' : RTree V) (hnc : hasNoChildren ca' = true) (token : Char) :
    absAux (finishChild n .catchAll ca' token) [] =
      (absOwn n [] ++ (absStatics n.statics [] ++ absWild n.wild [])) ++
        ((absAux ca' []).map (pushAll [.catchAll]) ++ []) := by
  obtain ⟨h1, h2, h3⟩ := (hasNoChildren_iff ca').mp hnc
  unfold finishChild
  by_cases hv : ca'.values.isEmpty = true
  · rw [if_pos hv]
    unfold deleteChild
    have hm : mergeChild ca' = (ca', false) := by
      rcases mergeChild_cases ca' with h | ⟨i, gc, hgc, _, _, _⟩
      · exact h
      · rw [h1] at hgc; cases hgc
    rw [hm]
    simp only [Bool.false_and, Bool.false_eq_true, if_false]
    rw [if_pos hnc, absAux_eq, absAux_empty hv hnc]
    simp only [absCatch, List.map_nil, List.append_nil]
    rfl
  · rw [if_neg hv]
    rw [absAux_eq, absAux_eq ca', h1, h2, h3, absStatics_nil, absWild_none]
    simp only [absCatch, absOwn, hv, Bool.false_eq_true, if_false, flushP_nil, List.nil_append,
      List.append_nil, List.map_cons, List.map_nil, pushAll, List.append_assoc]


theorem getNode_own_none (n : RTree V) (acc : List Char) {pat : List PTok} (h : pat ≠ flushP acc) :
    getNode (absOwn n acc) pat = none := by
  unfold absOwn; split
  · rfl
  · simp only [getNode, List.find?_cons]
    have : ¬ flushP acc = pat := fun e => h e.symm
    simp [this]

/-- **the abstraction of `delNode` is `delPat` on the abstraction** (node level) -/
theorem delNode_abs (p : V → Bool) : ∀ (t : RTree V) (path : List Char) (inStatic : Bool) (d : Nat)
    (acc : List Char), wfAt (!inStatic) d t = true → (inStatic = false → acc = []) →
    (inStatic = true → acc ≠ []) → '/' ∉ acc →
    DelRel p (delNode p t path inStatic) (absAux t acc) (patDel acc path) (fun n' => absAux n' acc) := by
  intro t
  induction t using RTree.induct with
  | h t ihs ihw _ =>
    intro path inStatic d acc hw hacc0 hacc1 hsl
    have W := (wfAt_iff _ _ _).mp hw
    have hflat : acc ≠ [] → t.wild = none ∧ t.catchAll = none := by
      intro h
      apply W.hseg
      cases inStatic with
      | false => exact absurd (hacc0 rfl) h
      | true => rfl
    cases path with
    | nil =>
      rw [delNode_nil, patDel_leaf]
      exact delLeaf_abs p W acc hflat
    | cons token ptail =>
      rw [delNode_cons]
      by_cases hcol : (!inStatic && decide (token = ':')) = true
      · rw [if_pos hcol]
        have hin : inStatic = false := by
          cases inStatic with
          | false => rfl
          | true => simp at hcol
        subst hin
        have hacc := hacc0 rfl
        subst hacc
        have ht : token = ':' := by simpa using hcol
        subst ht
        rw [patDel_wild]
        have hS := allLit_absStatics_nil W.hedge
        have hA : ∀ pat_c, getNode (absOwn t [] ++ absStatics t.statics []) ([PTok.wild] ++ pat_c) = none := by
          intro pat_c
          rw [getNode_append, getNode_eq_none_of_allStart hS
            (by rintro q r h ⟨s, hs⟩; injection h with h _; rw [← h] at hs; cases hs),
            getNode_own_none t [] (by simp [flushP_nil])]
          rfl
        have hB : ∀ pat_c, getNode (absCatch t.catchAll []) ([PTok.wild] ++ pat_c) = none := fun pat_c =>
          getNode_eq_none_of_allStart (allStart_absCatch_nil _)
            (by intro q r h hq; injection h with h _; rw [← h] at hq; cases hq)
        cases hwild : t.wild with
        | none =>
          rw [delWild_none]
          refine DelRel.of_none p ?_
          rw [absAux_eq, hwild, absWild_none, List.nil_append, ← List.append_assoc, getNode_append]
          have h1 := hA (patDel [] (afterSeg ptail))
          have h2 := hB (patDel [] (afterSeg ptail))
          simp only [List.singleton_append] at h1 h2
          rw [h1, h2]; rfl
        | some w =>
          rw [delWild_some]
          have hrec := ihw w hwild (afterSeg ptail) false (d + 1) [] (W.hw w hwild) (fun _ => rfl) (by simp)
            (by simp)
          have hdec : absAux t [] = (absOwn t [] ++ absStatics t.statics []) ++
              ((absAux w []).map (pushAll [.wild]) ++ absCatch t.catchAll []) := by
            rw [absAux_eq, hwild, absWild_some, flushP_nil]
            simp only [List.nil_append, List.append_assoc]
          refine DelRel.lift p (ps := [PTok.wild]) (fun w' => finishChild t .wild w' ':') hrec ?_ ?_
          · rw [hdec]; exact getNode_comp _ _ _ _ _ (hA _) (hB _)
          · intro c' x hr hu
            have hwo' := delNode_wildOk p (W.hwo w hwild) (afterSeg_cases ptail) hr
            show UpdO (absAux t []) (absAux (finishChild t .wild c' ':') []) _ _
            rw [absAux_finishWild t c' hwo', hdec]
            exact updO_append _ _ _ _ _ _ (hA _) (fun _ => hB _) (updO_map _ _ _ _ _ hu)
      · rw [if_neg hcol]
        by_cases hstar : (!inStatic && decide (token = '*')) = true
        · rw [if_pos hstar]
          have hin : inStatic = false := by
            cases inStatic with
            | false => rfl
            | true => simp at hstar
          subst hin
          have hacc := hacc0 rfl
          subst hacc
          have ht : token = '*' := by simpa using hstar
          subst ht
          rw [patDel_catch]
          have hS := allLit_absStatics_nil W.hedge
          have hA : getNode (absOwn t [] ++ (absStatics t.statics [] ++ absWild t.wild [])) [PTok.catchAll]
              = none := by
            rw [getNode_append, getNode_append, getNode_eq_none_of_allStart hS
              (by rintro q r h ⟨s, hs⟩; injection h with h _; rw [← h] at hs; cases hs),
              getNode_eq_none_of_allStart (allStart_absWild_nil _)
                (by intro q r h hq; injection h with h _; rw [← h] at hq; cases hq),
              getNode_own_none t [] (by simp [flushP_nil])]
            rfl
          cases hcatch : t.catchAll with
          | none =>
            simp only
            refine DelRel.of_none p ?_
            rw [absAux_eq, hcatch]
            simp only [absCatch, List.append_nil]
            exact hA
          | some ca =>
            simp only
            have hco := W.hc ca hcatch
            unfold catchOk at hco
            simp only [Bool.and_eq_true, Bool.not_eq_true', beq_iff_eq] at hco
            obtain ⟨⟨⟨hcv, hcl⟩, _⟩, hcnc⟩ := hco
            obtain ⟨hc1, hc2, hc3⟩ := (hasNoChildren_iff ca).mp hcnc
            have hcv' : ca.values ≠ [] := by simpa using hcv
            have Wca : WFNode true (d + 1) ca :=
              ⟨fun h => (by cases h), fun h => absurd h hcv', fun _ => hcl, by rw [hc1]; exact List.Pairwise.nil,
                fun e he => (by rw [hc1] at he; cases he), fun e he => (by rw [hc1] at he; cases he),
                fun w hw => (by rw [hc2] at hw; cases hw), fun c hc => (by rw [hc3] at hc; cases hc),
                fun w hw => (by rw [hc2] at hw; cases hw)⟩
            have hrec := delLeaf_abs p Wca [] (fun h => absurd rfl h)
            rw [flushP_nil] at hrec
            have hdec : absAux t [] = (absOwn t [] ++ (absStatics t.statics [] ++ absWild t.wild [])) ++
                ((absAux ca []).map (pushAll [.catchAll]) ++ []) := by
              rw [absAux_eq, hcatch, absAux_eq ca, hc1, hc2, hc3, absStatics_nil, absWild_none]
              simp only [absCatch, absOwn, hcv, Bool.false_eq_true, if_false, flushP_nil, List.nil_append,
                List.append_nil, List.map_cons, List.map_nil, pushAll, List.append_assoc]
            have hlift := DelRel.lift p (ps := [PTok.catchAll]) (T := absAux t [])
              (absf := fun n' => absAux n' []) (fun ca' => finishChild t .catchAll ca' '*') hrec ?_ ?_
            · simpa using hlift
            · rw [hdec]
              exact getNode_comp _ _ _ _ _ hA rfl
            · intro c' x hr hu
              obtain ⟨_, hf1, hf2, hf3, _⟩ := delLeaf_fields hr
              have hnc' : hasNoChildren c' = true := by
                rw [hasNoChildren_iff, hf1, hf2, hf3]; exact ⟨hc1, hc2, hc3⟩
              show UpdO (absAux t []) (absAux (finishChild t .catchAll c' '*') []) _ _
              rw [absAux_finishCatch t c' hnc', hdec]
              exact updO_append _ _ _ _ _ _ hA (fun _ => rfl) (updO_map _ _ _ _ _ hu)
        · rw [if_neg hstar, delTok_eq]
          simp only
          obtain ⟨hroute, hne, hlit⟩ := del_target inStatic acc token ptail hstar hcol hacc0 hacc1
          obtain ⟨hown, hwc⟩ := others_none t acc hflat hne hlit
          rcases delStatic_cases p t.statics (staticTok inStatic token ptail).1
              ((staticTok inStatic token ptail).2.1 ++ remOf token ptail) with ⟨hnone, hall⟩ | ⟨pre, ch, post, hst, hpre, hdel⟩
          · rw [hnone]
            refine DelRel.of_none p ?_
            rw [absAux_eq, getNode_append, getNode_append, hown, hwc,
              getNode_absStatics_route _ W.hedge acc
                (fun e he => by rw [hroute]; intro h; injection h with h; exact hall e he h.symm)]
            rfl
          · have hmem : ((staticTok inStatic token ptail).1, ch) ∈ t.statics := by rw [hst]; simp
            have he := W.hedge _ hmem
            have hwc' := W.hst _ hmem
            simp only at he hwc'
            have hpost : ∀ e ∈ post, e.1 ≠ (staticTok inStatic token ptail).1 := by
              have := W.hnodup
              rw [hst, List.pairwise_append] at this
              intro e he
              exact ((List.pairwise_cons.mp this.2.1).1 e he).symm
            have hA : getNode (absOwn t acc ++ absStatics pre acc) (patDel acc (token :: ptail)) = none := by
              rw [getNode_append, hown, getNode_absStatics_route pre
                (fun e he => W.hedge e (by rw [hst]; simp [he])) acc
                (fun e he => by rw [hroute]; intro h; injection h with h; exact hpre e he h.symm)]
              rfl
            have hB : getNode (absStatics post acc ++ (absWild t.wild acc ++ absCatch t.catchAll acc))
                (patDel acc (token :: ptail)) = none := by
              rw [getNode_append, hwc, getNode_absStatics_route post
                (fun e he => W.hedge e (by rw [hst]; simp [he])) acc
                (fun e he => by rw [hroute]; intro h; injection h with h; exact hpost e he h.symm)]
              rfl
            rw [hdel]
            by_cases hp : ch.path.isPrefixOf ((staticTok inStatic token ptail).2.1 ++ remOf token ptail) = true
            · rw [if_pos hp]
              have hstep := patDel_step inStatic acc token ptail ch he hp hstar hcol hacc0 hacc1
              rw [hstep] at hA hB ⊢
              rw [edge_seg he] at hwc'
              obtain ⟨hc0, hc1, hcs⟩ := childAcc_facts he hsl
              have hrec := ihs _ hmem
                (((staticTok inStatic token ptail).2.1 ++ remOf token ptail).drop ch.path.length)
                ((staticTok inStatic token ptail).1 != '/') d
                (childAcc (staticTok inStatic token ptail).1 ch acc) hwc' hc0 hc1 hcs
              have hdec : absAux t acc = (absOwn t acc ++ absStatics pre acc) ++
                  ((absAux ch (childAcc (staticTok inStatic token ptail).1 ch acc)).map
                      (pushAll (childPre (staticTok inStatic token ptail).1 acc)) ++
                    (absStatics post acc ++ (absWild t.wild acc ++ absCatch t.catchAll acc))) := by
                rw [decomp_some t acc hst, ← absChild_eq he]
              refine DelRel.lift p
                (fun ch' => finishChild t .static ch' (staticTok inStatic token ptail).1) hrec ?_ ?_
              · rw [hdec]; exact getNode_comp _ _ _ _ _ hA hB
              · intro c' x hr hu
                obtain ⟨hw', hp'⟩ := delNode_wf p ch _ _ d c' hwc' hr
                have he' : edgeOk (staticTok inStatic token ptail).1 c' = true := edgeOk_path hp' he
                rw [← edge_seg he'] at hw'
                show UpdO (absAux t acc)
                  (absAux (finishChild t .static c' (staticTok inStatic token ptail).1) acc) _ _
                rw [absAux_finishStatic t acc hst hpre he' hw', absChild_eq he', childAcc_path hp', hdec]
                exact updO_append _ _ _ _ _ _ hA (fun _ => hB) (updO_map _ _ _ _ _ hu)
            · rw [if_neg hp]
              refine DelRel.of_none p ?_
              rw [decomp_some t acc hst, getNode_append, hA, Option.none_or, getNode_append, hB,
                getNode_absChild_noprefix_del inStatic acc token ptail ch he hp hstar hcol hacc0 hacc1]
              rfl


/-- `delSpec` is the closed form of `delPat` -/
theorem delPat_spec (p : V → Bool) (T : Table V) (hnd : NodupPats T) (pat : List PTok) :
    match delSpec p T pat, delPat T pat p with
    | some x, some T' => ∀ q, getNode T' q = if q = pat then x else getNode T q
    | none, none => True
    | _, _ => False := by
  cases hdel : delPat T pat p with
  | none =>
    unfold delPat at hdel
    unfold delSpec
    cases hg : getNode T pat with
    | none => simp
    | some nd =>
      rw [hg] at hdel
      simp only at hdel ⊢
      by_cases ha : nd.values.any p = true
      · rw [if_pos ha] at hdel; cases hdel
      · rw [if_neg ha]; trivial
  | some T' =>
    have hclosed := delPat_getNode T T' pat p hnd hdel
    unfold delPat at hdel
    unfold delSpec
    cases hg : getNode T pat with
    | none => rw [hg] at hdel; cases hdel
    | some nd =>
      rw [hg] at hdel hclosed
      simp only at hdel ⊢
      by_cases ha : nd.values.any p = true
      · rw [if_pos ha]
        simp only
        intro q
        rw [hclosed q]
        simp only [Option.bind_some]
      · rw [if_neg ha] at hdel; cases hdel

/-- **(c) `delete` commutes with the abstraction.** `RTree.delete` on a well-formed tree and `Heimdall.del` on its
abstraction fail alike or succeed alike, and then the new tree's abstraction is the new table, as a function of
the path expression. -/
theorem rtree_delete_refines (t : RTree V) (h : t.WF) (expr : String) (p : V → Bool) :
    match RTree.delete t expr p, Heimdall.del t.abs expr p with
    | some t', some T' => ∀ q, getNode t'.abs q = getNode T' q
    | none, none => True
    | _, _ => False := by
  have hrel := delNode_abs p t expr.toList false 0 [] h (fun _ => rfl) (by simp) (by simp)
  have hp : patDel [] expr.toList = parseDel expr := patDel_nil_eq _
  rw [hp] at hrel
  unfold Heimdall.del RTree.delete abs
  unfold DelRel at hrel
  have hs := delPat_spec p (absAux t []) (nodup_abs t h) (parseDel expr)
  cases hspec : delSpec p (absAux t []) (parseDel expr) with
  | none =>
    rw [hspec] at hrel hs
    simp only at hrel
    rw [hrel]
    cases hd : delPat (absAux t []) (parseDel expr) p with
    | none => trivial
    | some T' => rw [hd] at hs; exact hs
  | some x =>
    rw [hspec] at hrel hs
    simp only at hrel
    obtain ⟨n', hn', hu⟩ := hrel
    rw [hn']
    cases hd : delPat (absAux t []) (parseDel expr) p with
    | none => rw [hd] at hs; exact hs
    | some T' =>
      rw [hd] at hs
      simp only at hs ⊢
      intro q
      rw [hu q, hs q]

end RTree
end Heimdall
