import HeimdallModel.Spec.Pipeline
/-!
# Helper lemmas for C01

* the Boolean oracle `completedB` is the declarative `Completed`;
* what each loop of the model returns, in terms of the specification (by induction over the step lists);
* every error that can reach an error translator is mapped to a non-success status under the side conditions.
-/
namespace Heimdall.Pipeline

/-! ## specification: Booleans and propositions agree -/

theorem fellBackB_iff (a : Authenticator) : a.fellBackB = true ↔ a.fellBack := by
  unfold Authenticator.fellBackB Authenticator.fellBack
  cases h : a.out with
  | ok s => simp
  | panic v => simp
  | err ks => simp

theorem fellBack_not_ok {a : Authenticator} (h : a.fellBack) (s : String) : a.out ≠ .ok s := by
  obtain ⟨ks, hk, _⟩ := h
  rw [hk]; simp

theorem authenticated_cons (a : Authenticator) (as : List Authenticator) (s : String) :
    Authenticated (a :: as) s ↔ a.out = .ok s ∨ (a.fellBack ∧ Authenticated as s) := by
  constructor
  · rintro ⟨pre, a', post, h, hok, hpre⟩
    cases pre with
    | nil =>
      simp only [List.nil_append, List.cons.injEq] at h
      left; rw [h.1]; exact hok
    | cons b pre' =>
      simp only [List.cons_append, List.cons.injEq] at h
      right
      refine ⟨?_, pre', a', post, h.2, hok, fun x hx => hpre x (List.mem_cons_of_mem _ hx)⟩
      rw [h.1]; exact hpre b (List.mem_cons_self ..)
  · rintro (h | ⟨hfb, pre, a', post, h, hok, hpre⟩)
    · exact ⟨[], a, as, rfl, h, fun _ hb => nomatch hb⟩
    · refine ⟨a :: pre, a', post, by rw [h]; rfl, hok, ?_⟩
      intro x hx
      rcases List.mem_cons.mp hx with rfl | hx
      · exact hfb
      · exact hpre x hx

theorem not_authenticated_nil (s : String) : ¬ Authenticated [] s := by
  rintro ⟨pre, a, post, h, _⟩
  cases pre <;> simp at h

theorem authenticatedB_iff (as : List Authenticator) (s : String) :
    authenticatedB as = some s ↔ Authenticated as s := by
  induction as with
  | nil => simp [authenticatedB, not_authenticated_nil]
  | cons a as ih =>
    rw [authenticated_cons]
    unfold authenticatedB
    cases hout : a.out with
    | ok s' =>
      simp only [Option.some.injEq, AuthOut.ok.injEq]
      constructor
      · intro h; left; exact h
      · rintro (h | ⟨hfb, _⟩)
        · exact h
        · exact absurd hout (fellBack_not_ok hfb s')
    | err ks =>
      by_cases hfb : a.fellBackB = true
      · simp only [hfb, if_true, ih]
        constructor
        · intro h; exact Or.inr ⟨(fellBackB_iff a).mp hfb, h⟩
        · rintro (h | ⟨_, h⟩)
          · cases h
          · exact h
      · simp only [hfb]
        constructor
        · intro h; cases h
        · rintro (h | ⟨h, _⟩)
          · cases h
          · exact absurd ((fellBackB_iff a).mpr h) hfb
    | panic v =>
      have hfb : a.fellBackB = false := by simp [Authenticator.fellBackB, hout]
      simp only [hfb]
      constructor
      · intro h; cases h
      · rintro (h | ⟨h, _⟩)
        · cases h
        · obtain ⟨ks, hk, _⟩ := h
          rw [hout] at hk; cases hk

theorem passedB_iff (h : Handler) (s : String) : h.passedB s = true ↔ h.passed s := by
  unfold Handler.passedB Handler.passed
  cases h.continueOnError <;> cases h.cond.onSubject s <;> cases h.out <;> simp

theorem completedB_iff (r : Rule) : completedB r = true ↔ Completed r := by
  unfold completedB Completed
  cases ha : authenticatedB r.authenticators with
  | none =>
    simp only [Bool.false_eq_true, false_iff]
    rintro ⟨s, hs, _⟩
    rw [← authenticatedB_iff, ha] at hs
    cases hs
  | some s =>
    simp only [Bool.and_eq_true, List.all_eq_true, passedB_iff]
    constructor
    · rintro ⟨h1, h2⟩
      exact ⟨s, (authenticatedB_iff _ _).mp ha, h1, h2⟩
    · rintro ⟨s', hs', h1, h2⟩
      have := (authenticatedB_iff _ _).mpr hs'
      rw [ha] at this
      cases this
      exact ⟨h1, h2⟩

/-! ## the loops of the model, in terms of the specification -/

@[simp] theorem visit_pipelineErr (c : Ctx) (id : String) : (c.visit id).pipelineErr = c.pipelineErr := rfl

/-- the falling-back test of `compositeSubjectCreator` -/
def fbTest (a : Authenticator) (ks : List Kind) : Bool := ks.contains .argument || a.fallback

theorem createSubject_ok {a : Authenticator} {s : String} (h : a.out = .ok s) (rest : List Authenticator)
    (c : Ctx) : createSubject a rest c = .done (.ok s) (c.visit a.id) := by
  unfold createSubject; simp only [h]

theorem createSubject_panic {a : Authenticator} {v : List Kind} (h : a.out = .panic v)
    (rest : List Authenticator) (c : Ctx) : createSubject a rest c = .panic v (c.visit a.id) := by
  unfold createSubject; simp only [h]

theorem createSubject_err_nil {a : Authenticator} {ks : List Kind} (h : a.out = .err ks) (c : Ctx) :
    createSubject a [] c = .done (.error (.ofKinds ks)) (c.visit a.id) := by
  unfold createSubject; simp only [h]; split <;> rfl

theorem createSubject_err_cons {a : Authenticator} {ks : List Kind} (h : a.out = .err ks) (b : Authenticator)
    (bs : List Authenticator) (c : Ctx) :
    createSubject a (b :: bs) c =
      if fbTest a ks then createSubject b bs (c.visit a.id) else .done (.error (.ofKinds ks)) (c.visit a.id) := by
  rw [createSubject]; simp only [h]; rfl

theorem authenticatedB_ok {a : Authenticator} {s : String} (h : a.out = .ok s) (as : List Authenticator) :
    authenticatedB (a :: as) = some s := by
  unfold authenticatedB; simp only [h]

theorem authenticatedB_panic {a : Authenticator} {v : List Kind} (h : a.out = .panic v)
    (as : List Authenticator) : authenticatedB (a :: as) = none := by
  unfold authenticatedB; simp [h, Authenticator.fellBackB]

theorem authenticatedB_err {a : Authenticator} {ks : List Kind} (h : a.out = .err ks)
    (as : List Authenticator) :
    authenticatedB (a :: as) = if fbTest a ks then authenticatedB as else none := by
  rw [authenticatedB]; simp only [h, Authenticator.fellBackB]; rfl

theorem createSubject_some (a : Authenticator) (rest : List Authenticator) (c : Ctx) (s : String)
    (h : authenticatedB (a :: rest) = some s) :
    ∃ c', createSubject a rest c = .done (.ok s) c' ∧ c'.pipelineErr = c.pipelineErr := by
  induction rest generalizing a c with
  | nil =>
    cases hout : a.out with
    | ok s' =>
      rw [authenticatedB_ok hout] at h
      cases h
      exact ⟨c.visit a.id, createSubject_ok hout _ _, rfl⟩
    | err ks =>
      rw [authenticatedB_err hout] at h
      split at h
      · simp [authenticatedB] at h
      · cases h
    | panic v => rw [authenticatedB_panic hout] at h; cases h
  | cons b bs ih =>
    cases hout : a.out with
    | ok s' =>
      rw [authenticatedB_ok hout] at h
      cases h
      exact ⟨c.visit a.id, createSubject_ok hout _ _, rfl⟩
    | err ks =>
      rw [authenticatedB_err hout] at h
      rw [createSubject_err_cons hout]
      split at h
      · rename_i hfb
        obtain ⟨c', hc', hpe⟩ := ih b (c.visit a.id) h
        exact ⟨c', by rw [if_pos hfb]; exact hc', by simpa using hpe⟩
      · cases h
    | panic v => rw [authenticatedB_panic hout] at h; cases h

theorem createSubject_none (a : Authenticator) (rest : List Authenticator) (c : Ctx)
    (h : authenticatedB (a :: rest) = none) :
    (∃ v c', createSubject a rest c = .panic v c') ∨
    (∃ ks c', createSubject a rest c = .done (.error (.ofKinds ks)) c' ∧ c'.pipelineErr = c.pipelineErr) := by
  induction rest generalizing a c with
  | nil =>
    cases hout : a.out with
    | ok s' => rw [authenticatedB_ok hout] at h; cases h
    | err ks => exact Or.inr ⟨ks, c.visit a.id, createSubject_err_nil hout c, rfl⟩
    | panic v => exact Or.inl ⟨v, c.visit a.id, createSubject_panic hout _ _⟩
  | cons b bs ih =>
    cases hout : a.out with
    | ok s' => rw [authenticatedB_ok hout] at h; cases h
    | err ks =>
      rw [authenticatedB_err hout] at h
      rw [createSubject_err_cons hout]
      by_cases hfb : fbTest a ks = true
      · rw [if_pos hfb] at h ⊢
        rcases ih b (c.visit a.id) h with ⟨v, c', hc'⟩ | ⟨ks', c', hc', hpe⟩
        · exact Or.inl ⟨v, c', hc'⟩
        · exact Or.inr ⟨ks', c', hc', by simpa using hpe⟩
      · rw [if_neg hfb]
        exact Or.inr ⟨ks, c.visit a.id, rfl, rfl⟩
    | panic v => exact Or.inl ⟨v, c.visit a.id, createSubject_panic hout _ _⟩

set_option linter.unusedSimpArgs false in
/-- one conditional handler that lets the stage go on: it returns nil, or an error that is ignored -/
theorem execute_passed (x : Handler) (s : String) (c : Ctx) (h : x.passedB s = true) :
    (∃ c', x.execute s c = .done none c' ∧ c'.pipelineErr = c.pipelineErr) ∨
    (x.continueOnError = true ∧ ∃ e c', x.execute s c = .done (some e) c' ∧ c'.pipelineErr = c.pipelineErr) := by
  unfold Handler.passedB at h
  unfold Handler.execute
  cases hcond : x.cond.onSubject s <;> cases hcoe : x.continueOnError <;> cases hout : x.out <;>
    simp only [hcond, hout] at ⊢ <;> simp only [hcond, hcoe, hout] at h <;>
    first
      | exact Or.inl ⟨_, rfl, rfl⟩
      | exact Or.inr ⟨trivial, _, _, rfl, rfl⟩
      | (exfalso; simp at h; done)

set_option linter.unusedSimpArgs false in
/-- one conditional handler that ends the stage: a panic, or an error that is not ignored -/
theorem execute_failed (x : Handler) (s : String) (c : Ctx) (h : x.passedB s = false) :
    (∃ v c', x.execute s c = .panic v c') ∨
    (x.continueOnError = false ∧
      ∃ e c', x.execute s c = .done (some e) c' ∧ e.redirect = none ∧ c'.pipelineErr = c.pipelineErr) := by
  unfold Handler.passedB at h
  unfold Handler.execute
  cases hcond : x.cond.onSubject s <;> cases hcoe : x.continueOnError <;> cases hout : x.out <;>
    simp only [hcond, hout] at ⊢ <;> simp only [hcond, hcoe, hout] at h <;>
    first
      | exact Or.inl ⟨_, _, rfl⟩
      | exact Or.inr ⟨trivial, _, _, rfl, rfl, rfl⟩
      | (exfalso; simp at h; done)

theorem runHandlers_passed (hs : List Handler) (s : String) (c : Ctx) (h : hs.all (·.passedB s) = true) :
    ∃ c', runHandlers hs s c = .done none c' ∧ c'.pipelineErr = c.pipelineErr := by
  induction hs generalizing c with
  | nil => exact ⟨c, rfl, rfl⟩
  | cons x xs ih =>
    simp only [List.all_cons, Bool.and_eq_true] at h
    obtain ⟨hx, hxs⟩ := h
    rw [runHandlers]
    rcases execute_passed x s c hx with ⟨c₁, h1, hp1⟩ | ⟨hcoe, e, c₁, h1, hp1⟩
    · obtain ⟨c', h2, hp2⟩ := ih c₁ hxs
      exact ⟨c', by simp only [h1]; exact h2, hp2.trans hp1⟩
    · obtain ⟨c', h2, hp2⟩ := ih c₁ hxs
      exact ⟨c', by simp only [h1, hcoe, if_true]; exact h2, hp2.trans hp1⟩

theorem runHandlers_failed (hs : List Handler) (s : String) (c : Ctx) (h : hs.all (·.passedB s) = false) :
    (∃ v c', runHandlers hs s c = .panic v c') ∨
    (∃ e c', runHandlers hs s c = .done (some e) c' ∧ e.redirect = none ∧ c'.pipelineErr = c.pipelineErr) := by
  induction hs generalizing c with
  | nil => simp at h
  | cons x xs ih =>
    rw [runHandlers]
    by_cases hx : x.passedB s = true
    · have hxs : xs.all (·.passedB s) = false := by
        simp only [List.all_cons, hx, Bool.true_and] at h; exact h
      have key : ∀ c₁, c₁.pipelineErr = c.pipelineErr →
          (∃ v c', runHandlers xs s c₁ = .panic v c') ∨
          (∃ e c', runHandlers xs s c₁ = .done (some e) c' ∧ e.redirect = none ∧
            c'.pipelineErr = c.pipelineErr) := by
        intro c₁ hp1
        rcases ih c₁ hxs with ⟨v, c', h2⟩ | ⟨e, c', h2, hr, hp2⟩
        · exact Or.inl ⟨v, c', h2⟩
        · exact Or.inr ⟨e, c', h2, hr, hp2.trans hp1⟩
      rcases execute_passed x s c hx with ⟨c₁, h1, hp1⟩ | ⟨hcoe, e, c₁, h1, hp1⟩
      · simp only [h1]; exact key c₁ hp1
      · simp only [h1, hcoe, if_true]; exact key c₁ hp1
    · have hx' : x.passedB s = false := by simpa using hx
      rcases execute_failed x s c hx' with ⟨v, c₁, h1⟩ | ⟨hcoe, e, c₁, h1, hr, hp1⟩
      · exact Or.inl ⟨v, c₁, by simp only [h1]⟩
      · refine Or.inr ⟨e, c₁, ?_, hr, hp1⟩
        simp only [h1, hcoe]
        rfl

/-! ## the error pipeline -/

/-- an error that can be recorded as pipeline error by the error pipeline `ehs`: it carries no redirect, or the
redirect of one of the redirect error handlers of `ehs` -/
def Recordable (ehs : List ErrorHandler) (e : Err) : Prop :=
  e.redirect = none ∨
  ∃ h ∈ ehs, ∃ ok code, h.kind = .redirect ok code ∧ e.redirect = some (redirectCode code)

theorem Recordable.cons {ehs : List ErrorHandler} {e : Err} (h : ErrorHandler) (hr : Recordable ehs e) :
    Recordable (h :: ehs) e := by
  rcases hr with hr | ⟨x, hx, ok, code, hk, he⟩
  · exact Or.inl hr
  · exact Or.inr ⟨x, List.mem_cons_of_mem _ hx, ok, code, hk, he⟩

/-- the error pipeline either returns an error and leaves the context alone, or reports success *and* has
recorded a pipeline error -/
theorem runErrorHandlers_cases (ehs : List ErrorHandler) (cause : Err) (c : Ctx) (hc : cause.redirect = none) :
    (∃ x, runErrorHandlers ehs cause c = (some x, c) ∧ x.redirect = none) ∨
    (∃ pe, runErrorHandlers ehs cause c = (none, c.setPipelineError pe) ∧ Recordable ehs pe) := by
  induction ehs with
  | nil => exact Or.inl ⟨cause, rfl, hc⟩
  | cons h hs ih =>
    rw [runErrorHandlers]
    cases hcond : h.cond.onError cause with
    | fails => exact Or.inl ⟨.foreign, rfl, rfl⟩
    | no =>
      rcases ih with ⟨x, hx, hr⟩ | ⟨pe, hpe, hr⟩
      · exact Or.inl ⟨x, hx, hr⟩
      · exact Or.inr ⟨pe, hpe, hr.cons h⟩
    | yes =>
      cases hk : h.kind with
      | default => exact Or.inr ⟨cause, rfl, Or.inl hc⟩
      | wwwAuthenticate => exact Or.inr ⟨.ofKind .authentication, rfl, Or.inl rfl⟩
      | redirect to code =>
        cases to with
        | fails => exact Or.inl ⟨.ofKind .internal, rfl, rfl⟩
        | value s =>
          exact Or.inr ⟨⟨[], some (redirectCode code)⟩, rfl,
            Or.inr ⟨h, List.mem_cons_self .., .value s, code, hk, rfl⟩⟩

/-- whatever the cause: an error pipeline that reports success has recorded a pipeline error -/
theorem runErrorHandlers_none (ehs : List ErrorHandler) (cause : Err) (c c' : Ctx)
    (h : runErrorHandlers ehs cause c = (none, c')) : ∃ pe, c'.pipelineErr = some pe := by
  induction ehs with
  | nil => simp [runErrorHandlers] at h
  | cons x xs ih =>
    rw [runErrorHandlers] at h
    cases hcond : x.cond.onError cause with
    | fails => simp [hcond] at h
    | no => simp only [hcond] at h; exact ih h
    | yes =>
      simp only [hcond] at h
      cases hk : x.kind with
      | default =>
        simp only [hk, EHKind.run, Prod.mk.injEq, true_and] at h
        exact ⟨cause, by rw [← h]; rfl⟩
      | wwwAuthenticate =>
        simp only [hk, EHKind.run, Prod.mk.injEq, true_and] at h
        exact ⟨_, by rw [← h]; rfl⟩
      | redirect to code =>
        cases to with
        | fails => simp [hk, EHKind.run] at h
        | value s =>
          simp only [hk, EHKind.run, Prod.mk.injEq, true_and] at h
          exact ⟨_, by rw [← h]; rfl⟩

/-- the value a redirect handler rendered does not reach the result of the error pipeline -/
theorem runErrorHandlers_rendered (pre post : List ErrorHandler) (cond : Cond) (code : Nat) (s s' : String)
    (cause : Err) (c : Ctx) :
    runErrorHandlers (pre ++ ⟨cond, .redirect (.value s) code⟩ :: post) cause c =
    runErrorHandlers (pre ++ ⟨cond, .redirect (.value s') code⟩ :: post) cause c := by
  induction pre with
  | nil =>
    simp only [List.nil_append, runErrorHandlers]
    cases cond.onError cause <;> rfl
  | cons x xs ih =>
    simp only [List.cons_append, runErrorHandlers, ih]

/-- rule execution sees the error handlers only through `runErrorHandlers` -/
theorem execute_congr_errorHandlers (r : Rule) (ehs ehs' : List ErrorHandler)
    (h : ∀ e c, runErrorHandlers ehs e c = runErrorHandlers ehs' e c) (c : Ctx) :
    ({ r with errorHandlers := ehs } : Rule).execute c = ({ r with errorHandlers := ehs' } : Rule).execute c := by
  simp only [Rule.execute, Rule.onError, h]

theorem onError_cases (r : Rule) (e : Err) (c : Ctx) (he : e.redirect = none) :
    (∃ x, r.onError e c = .done ⟨false, some x⟩ c ∧ x.redirect = none) ∨
    (∃ pe, r.onError e c = .done ⟨false, none⟩ (c.setPipelineError pe) ∧ Recordable r.errorHandlers pe) := by
  unfold Rule.onError
  rcases runErrorHandlers_cases r.errorHandlers e c he with ⟨x, hx, hr⟩ | ⟨pe, hpe, hr⟩
  · exact Or.inl ⟨x, by rw [hx], hr⟩
  · exact Or.inr ⟨pe, by rw [hpe], hr⟩

/-! ## `ruleImpl.Execute` -/

/-- the outcomes of a rule whose pipeline did not complete -/
def FailedOutcome (r : Rule) (c : Ctx) (out : Run ExecOut) : Prop :=
  (∃ v c', out = .panic v c') ∨
  (∃ x c', out = .done ⟨false, some x⟩ c' ∧ x.redirect = none ∧ c'.pipelineErr = c.pipelineErr) ∨
  (∃ pe c', out = .done ⟨false, none⟩ c' ∧ c'.pipelineErr = some pe ∧ Recordable r.errorHandlers pe)

theorem onError_failed (r : Rule) (e : Err) (c₀ c : Ctx) (he : e.redirect = none)
    (hc : c.pipelineErr = c₀.pipelineErr) : FailedOutcome r c₀ (r.onError e c) := by
  rcases onError_cases r e c he with ⟨x, hx, hr⟩ | ⟨pe, hpe, hr⟩
  · exact Or.inr (Or.inl ⟨x, c, hx, hr, hc⟩)
  · exact Or.inr (Or.inr ⟨pe, _, hpe, rfl, hr⟩)

theorem execute_completed (r : Rule) (c : Ctx) (h : completedB r = true) :
    ∃ c', r.execute c = .done ⟨r.hasBackend, none⟩ c' ∧ c'.pipelineErr = c.pipelineErr := by
  unfold completedB at h
  cases ha : authenticatedB r.authenticators with
  | none => simp [ha] at h
  | some s =>
    simp only [ha, Bool.and_eq_true] at h
    obtain ⟨c₁, h1, p1⟩ := createSubject_some r.auth r.auths c s ha
    obtain ⟨c₂, h2, p2⟩ := runHandlers_passed r.handlers s c₁ h.1
    obtain ⟨c₃, h3, p3⟩ := runHandlers_passed r.finalizers s c₂ h.2
    exact ⟨c₃, by simp only [Rule.execute, h1, h2, h3], p3.trans (p2.trans p1)⟩

theorem execute_not_completed (r : Rule) (c : Ctx) (h : completedB r = false) :
    FailedOutcome r c (r.execute c) := by
  unfold completedB at h
  cases ha : authenticatedB r.authenticators with
  | none =>
    rcases createSubject_none r.auth r.auths c ha with ⟨v, c₁, h1⟩ | ⟨ks, c₁, h1, p1⟩
    · exact Or.inl ⟨v, c₁, by simp only [Rule.execute, h1]⟩
    · have : r.execute c = r.onError (.ofKinds ks) c₁ := by simp only [Rule.execute, h1]
      rw [this]
      exact onError_failed r _ c c₁ rfl p1
  | some s =>
    simp only [ha] at h
    obtain ⟨c₁, h1, p1⟩ := createSubject_some r.auth r.auths c s ha
    by_cases hh : r.handlers.all (·.passedB s) = true
    · obtain ⟨c₂, h2, p2⟩ := runHandlers_passed r.handlers s c₁ hh
      have hf : r.finalizers.all (·.passedB s) = false := by
        simp only [hh, Bool.true_and] at h; exact h
      rcases runHandlers_failed r.finalizers s c₂ hf with ⟨v, c₃, h3⟩ | ⟨e, c₃, h3, he, p3⟩
      · exact Or.inl ⟨v, c₃, by simp only [Rule.execute, h1, h2, h3]⟩
      · have : r.execute c = r.onError e c₃ := by simp only [Rule.execute, h1, h2, h3]
        rw [this]
        exact onError_failed r e c c₃ he (p3.trans (p2.trans p1))
    · have hh' : r.handlers.all (·.passedB s) = false := by simpa using hh
      rcases runHandlers_failed r.handlers s c₁ hh' with ⟨v, c₂, h2⟩ | ⟨e, c₂, h2, he, p2⟩
      · exact Or.inl ⟨v, c₂, by simp only [Rule.execute, h1, h2]⟩
      · have : r.execute c = r.onError e c₂ := by simp only [Rule.execute, h1, h2]
        rw [this]
        exact onError_failed r e c c₂ he (p2.trans p1)

/-! ## from the outcome of the rule to the answer of an entry point -/

/-- the answer an entry point gives for an error: HTTP error translator or gRPC error translator -/
def errorAnswer (ep : EntryPoint) (cfg : Cfg) (e : Err) : Response :=
  match ep with
  | .envoy => cfg.deny e
  | _ => cfg.httpError e

theorem answer_none (ep : EntryPoint) (cfg : Cfg) (view : ReqView) (up : Nat) :
    answer ep cfg view up none = errorAnswer ep cfg (.ofKind .noRule) := by
  cases ep <;> rfl

/-- a completed pipeline: the positive answer of the entry point (the proxy needs an upstream to forward to) -/
theorem answer_completed (ep : EntryPoint) (cfg : Cfg) (view : ReqView) (up : Nat) (r : Rule)
    (h : completedB r = true) :
    answer ep cfg view up (some r) =
      match ep with
      | .decision => .http cfg.acceptedCode false
      | .proxy => if r.hasBackend then .http up true else errorAnswer .proxy cfg (.ofKind .configuration)
      | .envoy => .checkOk := by
  obtain ⟨c', h1, p1⟩ := execute_completed r {} h
  have p1' : c'.pipelineErr = none := p1
  cases ep
  · simp only [answer, serve, serveHTTP, finalizeHTTP, Cfg.writeError, execute, h1, p1']; rfl
  · simp only [answer, serve, serveHTTP, finalizeHTTP, Cfg.writeError, execute, h1, p1']
    cases r.hasBackend <;> rfl
  · simp only [answer, serve, serveEnvoy, finalizeEnvoy, execute, h1, p1']

set_option linter.unusedSimpArgs false in
/-- a pipeline that did not complete: the entry point answers with the translation of an error (one that carries
no redirect or the redirect of one of the rule's own redirect handlers), or — Envoy, on a panic — the RPC fails -/
theorem answer_failed (ep : EntryPoint) (cfg : Cfg) (view : ReqView) (up : Nat) (r : Rule)
    (h : completedB r = false) :
    (∃ e, Recordable r.errorHandlers e ∧ answer ep cfg view up (some r) = errorAnswer ep cfg e) ∨
    (ep = .envoy ∧ answer ep cfg view up (some r) = .rpcError 13) := by
  rcases execute_not_completed r {} h with ⟨v, c', h1⟩ | ⟨x, c', h1, hx, p1⟩ | ⟨pe, c', h1, p1, hr⟩
  · cases ep
    · exact Or.inl ⟨recovered v, Or.inl rfl, by simp only [answer, serve, serveHTTP, finalizeHTTP, Cfg.writeError, execute, h1]; rfl⟩
    · exact Or.inl ⟨recovered v, Or.inl rfl, by simp only [answer, serve, serveHTTP, finalizeHTTP, Cfg.writeError, execute, h1]; rfl⟩
    · exact Or.inr ⟨rfl, by simp only [answer, serve, serveEnvoy, finalizeEnvoy, Cfg.denyReply, execute, h1]⟩
  · refine Or.inl ⟨x, Or.inl hx, ?_⟩
    cases ep
    · simp only [answer, serve, serveHTTP, finalizeHTTP, Cfg.writeError, execute, h1]; rfl
    · simp only [answer, serve, serveHTTP, finalizeHTTP, Cfg.writeError, execute, h1]; rfl
    · simp only [answer, serve, serveEnvoy, finalizeEnvoy, Cfg.denyReply, execute, h1]; rfl
  · refine Or.inl ⟨pe, hr, ?_⟩
    cases ep
    · simp only [answer, serve, serveHTTP, finalizeHTTP, Cfg.writeError, execute, h1, p1]; rfl
    · simp only [answer, serve, serveHTTP, finalizeHTTP, Cfg.writeError, execute, h1, p1]; rfl
    · simp only [answer, serve, serveEnvoy, finalizeEnvoy, Cfg.denyReply, execute, h1, p1]; rfl

/-! ## verbosity and the `Accept` header do not reach the answer -/

/-- setting `respond.verbose` leaves every status of the configuration alone -/
theorem httpStatus_verbose (cfg : Cfg) (v : Bool) (cl : Class) :
    ({ cfg with verbose := v } : Cfg).httpStatus cl = cfg.httpStatus cl := by
  cases cl <;> rfl

theorem httpError_verbose (cfg : Cfg) (v : Bool) (e : Err) :
    ({ cfg with verbose := v } : Cfg).httpError e = cfg.httpError e := by
  simp only [Cfg.httpError, httpStatus_verbose]

theorem deny_verbose (cfg : Cfg) (v : Bool) (e : Err) : ({ cfg with verbose := v } : Cfg).deny e = cfg.deny e := by
  unfold Cfg.deny
  cases classify e <;> simp only [httpStatus_verbose]

/-- the whole reply (answer, error body) and the executed mechanisms are the same at every log level -/
theorem serve_logLevel (ep : EntryPoint) (cfg : Cfg) (l : LogLevel) (view : ReqView) (up : Nat)
    (found : Option Rule) :
    serve ep { cfg with logLevel := l } view up found = serve ep cfg view up found := by
  have hs : ∀ cl, ({ cfg with logLevel := l } : Cfg).httpStatus cl = cfg.httpStatus cl := by
    intro cl; cases cl <;> rfl
  have he : ∀ e, ({ cfg with logLevel := l } : Cfg).httpError e = cfg.httpError e := by
    intro e; simp only [Cfg.httpError, hs]
  have hd : ∀ e, ({ cfg with logLevel := l } : Cfg).deny e = cfg.deny e := by
    intro e; unfold Cfg.deny; cases classify e <;> simp only [hs]
  have hw : ∀ e, ({ cfg with logLevel := l } : Cfg).writeError view e = cfg.writeError view e := by
    intro e; simp only [Cfg.writeError, he]
  have hr : ∀ e, ({ cfg with logLevel := l } : Cfg).denyReply e = cfg.denyReply e := by
    intro e; simp only [Cfg.denyReply, hd]
  cases ep
  all_goals
    simp only [serve, serveHTTP, serveEnvoy]
    cases execute found {} with
    | panic pv c => simp only [hw]
    | done out c =>
      obtain ⟨backend, err⟩ := out
      obtain ⟨pe, tr⟩ := c
      cases err <;> cases pe <;> cases backend <;>
        simp only [finalizeHTTP, finalizeEnvoy, hw, hr] <;> rfl

theorem answer_verbose (ep : EntryPoint) (cfg : Cfg) (v : Bool) (view view' : ReqView) (up : Nat)
    (found : Option Rule) :
    answer ep { cfg with verbose := v } view' up found = answer ep cfg view up found := by
  cases ep
  all_goals
    simp only [answer, serve, serveHTTP, serveEnvoy]
    cases execute found {} with
    | panic pv c => simp only [Cfg.writeError, httpError_verbose]
    | done out c =>
      obtain ⟨backend, err⟩ := out
      obtain ⟨pe, tr⟩ := c
      cases err <;> cases pe <;> cases backend <;>
        simp only [finalizeHTTP, finalizeEnvoy, Cfg.writeError, Cfg.denyReply, httpError_verbose, deny_verbose] <;>
        rfl

/-! ## error answers are never positive -/

theorem errorAnswer_not_forwarded (ep : EntryPoint) (cfg : Cfg) (e : Err) :
    (errorAnswer ep cfg e).forwarded = false := by
  cases ep
  · rfl
  · rfl
  · show (cfg.deny e).forwarded = false
    unfold Cfg.deny
    cases classify e <;> rfl

theorem grpcCode_ne_zero (cl : Class) : grpcCode cl ≠ 0 := by
  cases cl <;> simp [grpcCode]

/-- the gRPC translator never produces an OK check response, whatever the configuration -/
theorem deny_not_success (cfg : Cfg) (e : Err) : (cfg.deny e).success = false := by
  unfold Cfg.deny
  split
  · rfl
  · simp only [Response.success, beq_eq_false_iff_ne, ne_eq]
    exact grpcCode_ne_zero _

theorem override_nonSuccess {code dflt : Nat} (hc : nonSuccessOverride code = true)
    (hd : isSuccessStatus dflt = false) : isSuccessStatus (override code dflt) = false := by
  unfold override
  split
  · exact hd
  · rename_i hne
    unfold nonSuccessOverride at hc
    simp only [Bool.or_eq_true, beq_iff_eq, Bool.not_eq_true'] at hc
    rcases hc with hc | hc
    · exact absurd hc hne
    · exact hc

/-- the HTTP translator writes a non-success status for every error, provided no error class is overridden with a
2xx status and the error carries no 2xx redirect -/
theorem httpStatus_nonSuccess (cfg : Cfg) (hcfg : cfg.errorCodesNonSuccess = true) (e : Err)
    (he : ∀ code, e.redirect = some code → isSuccessStatus code = false) :
    isSuccessStatus (cfg.httpStatus (classify e)) = false := by
  unfold Cfg.errorCodesNonSuccess at hcfg
  simp only [Bool.and_eq_true] at hcfg
  obtain ⟨⟨⟨⟨⟨h1, h2⟩, h3⟩, h4⟩, h5⟩, h6⟩ := hcfg
  unfold classify
  split
  · exact override_nonSuccess h2 (by decide)
  · split
    · exact override_nonSuccess h3 (by decide)
    · split
      · exact override_nonSuccess h4 (by decide)
      · split
        · exact override_nonSuccess h1 (by decide)
        · split
          · exact override_nonSuccess h6 (by decide)
          · split
            · rename_i code hcode
              exact he code hcode
            · exact override_nonSuccess h5 (by decide)

theorem recordable_redirect (r : Rule) (hr : r.redirectsNonSuccess = true) (e : Err)
    (hrec : Recordable r.errorHandlers e) : ∀ code, e.redirect = some code → isSuccessStatus code = false := by
  intro code hcode
  rcases hrec with hnone | ⟨h, hmem, ok, c, hk, he⟩
  · rw [hnone] at hcode; cases hcode
  · unfold Rule.redirectsNonSuccess at hr
    have := List.all_eq_true.mp hr h hmem
    unfold ErrorHandler.redirectNonSuccess at this
    simp only [hk, Bool.not_eq_true'] at this
    rw [he] at hcode
    cases hcode
    exact this

theorem errorAnswer_not_success (ep : EntryPoint) (cfg : Cfg) (hcfg : cfg.errorCodesNonSuccess = true) (e : Err)
    (he : ∀ code, e.redirect = some code → isSuccessStatus code = false) :
    (errorAnswer ep cfg e).success = false := by
  cases ep
  · exact httpStatus_nonSuccess cfg hcfg e he
  · exact httpStatus_nonSuccess cfg hcfg e he
  · exact deny_not_success cfg e

/-! ## concrete witnesses used by the non-vacuity examples of `Props/C01.lean` (mirrored in `corpus/C01/`) -/
namespace Witness

/-- fallback over two failing authenticators to a third, a skipped authorizer, an ignored contextualizer error,
an authorizer that fails for this subject, and an error pipeline whose second handler applies -/
def failing : Rule :=
  { auth := ⟨"anon", .err [.argument], false⟩
    auths := [⟨"jwt", .err [.authentication], true⟩, ⟨"basic", .ok "alice", false⟩]
    handlers := [⟨"opa", .lit false, .err [.authorization], false⟩,
                 ⟨"hydrate", .always, .err [.communication], true⟩,
                 ⟨"acl", .subjectIs "alice", .err [.authorization], false⟩]
    finalizers := [⟨"jwt-out", .always, .ok, false⟩]
    errorHandlers := [⟨.errorIs .authentication, .wwwAuthenticate⟩, ⟨.errorIs .authorization, .redirect (.value "https://login.example.com/") 303⟩]
    hasBackend := true }

/-- the same rule without the failing authorizer -/
def completing : Rule := { failing with handlers := failing.handlers.take 2 }

/-- overrides that keep every error class outside 2xx -/
def cfg : Cfg := { authn := 418, internal := 503, accepted := 202 }

/-- an operator who asks for `200` on authorization errors -/
def cfgAuthzOk : Cfg := { authz := 200 }

/-- a redirect error handler configured with a 2xx code (rejected by the schema, accepted by the decoder) -/
def redirect200 : Rule := { failing with errorHandlers := [⟨.always, .redirect (.value "https://login.example.com/") 200⟩] }

/-- a panic in a step marked continue-on-error -/
def panicking : Rule := { completing with finalizers := [⟨"hdr", .always, .panic [], true⟩] }

def dfltDoc : RuleDoc :=
  { auth := [⟨"d-anon", .ok "anon", false⟩], handlers := [⟨"d-deny", .always, .err [.authorization], false⟩],
    finalizers := [], errorHandlers := [⟨.always, .default⟩], hasBackend := false }

/-- a rule that only names a finalizer: authenticators, authorizers and error handlers come from the default -/
def inheritingDoc : RuleDoc :=
  { auth := [], handlers := [], finalizers := [⟨"hdr", .always, .ok, false⟩], errorHandlers := [],
    hasBackend := true }

end Witness

end Heimdall.Pipeline
