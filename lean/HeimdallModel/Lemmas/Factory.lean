import HeimdallModel.Spec.Inheritance
/-!
# Helper lemmas for property C14

The loop of `createExecutePipeline` (accumulators, emptiness checks) against the declarative specification
(`Ordered`, `own`, `ListsOk`), then `NewRuleFactory` and `CreateRule` against `Spec.factory` / `Spec.effective`.
Core Lean only.
-/
namespace Heimdall.Factory

/-- the three conditions of `ListsOk` on a single step of `execute` -/
def Step.ok (cat : Catalogue) (s : Step) : Bool := s.known cat && s.overrideOk cat && s.condOk
/-- how far the accumulators of `createExecutePipeline` have advanced in the stage order -/
def Pipes.phase (acc : Pipes) : Nat :=
  if !acc.fin.isEmpty then 2 else if !acc.sh.isEmpty then 1 else 0
/-- append a mechanism to the accumulator of its stage -/
def Pipes.push (acc : Pipes) (m : Mech) : Pipes :=
  match m.kind.stage with
  | .authentication => { acc with authn := acc.authn ++ [m] }
  | .handling => { acc with sh := acc.sh ++ [m] }
  | .finalization => { acc with fin := acc.fin ++ [m] }
  | .errorHandling => acc
/-- the catalogue knows the mechanism and it accepts the override (if any) -/
def accepts (cat : Catalogue) (k : Kind) (id : String) (cfg : Option Nat) : Bool :=
  match cat k id, cfg with
  | none, _ => false
  | some _, none => true
  | some accepted, some t => accepted.contains t

theorem bind_ok_iff {ε α β : Type} (x : Except ε α) (g : α → Except ε β) (y : β) :
    (x >>= g) = .ok y ↔ ∃ a, x = .ok a ∧ g a = .ok y := by
  cases x <;> simp [bind, Except.bind]

theorem map_ok_iff {ε α β : Type} (x : Except ε α) (g : α → β) (y : β) :
    g <$> x = .ok y ↔ ∃ a, x = .ok a ∧ g a = y := by
  cases x <;> simp [Functor.map, Except.map]

theorem pure_ok_iff {ε α : Type} (a y : α) : (pure a : Except ε α) = .ok y ↔ a = y := by
  simp [pure, Except.pure]

theorem create_ok_iff (cat : Catalogue) (k : Kind) (id : String) (c : Bool) (cfg : Option Nat) (m : Mech) :
    create cat k id c cfg = .ok m ↔ accepts cat k id cfg = true ∧ m = ⟨k, id, c, cfg⟩ := by
  unfold create accepts
  cases cat k id <;> cases cfg <;> simp [eq_comm]
  split <;> simp_all [eq_comm]

theorem handler_ok_iff (cat : Catalogue) (k : Kind) (id : String) (s : Step) (m : Mech) :
    handler cat k id s = .ok m ↔
      s.cond.usable = true ∧ accepts cat k id s.config = true ∧ m = ⟨k, id, s.cond.isExpr, s.config⟩ := by
  unfold handler
  cases hc : s.cond with
  | expr src t =>
    cases t with
    | none => simp [condition, bind_ok_iff, Cond.usable]
    | some t => cases t <;> simp [condition, compiles, bind_ok_iff, create_ok_iff, Cond.usable, Cond.isExpr]
  | _ => simp [condition, bind_ok_iff, create_ok_iff, Cond.usable, Cond.isExpr]

theorem known_override (cat : Catalogue) (s : Step) :
    (s.known cat && s.overrideOk cat) =
      match s.target with
      | none => false
      | some (k, id) => accepts cat k id s.config := by
  unfold Step.known Step.overrideOk accepts
  cases s.target with
  | none => simp
  | some t =>
    obtain ⟨k, id⟩ := t
    cases h : cat k id <;> cases h2 : s.config <;> simp [h]

theorem execStep_ok_iff (cat : Catalogue) (acc acc' : Pipes) (s : Step) :
    execStep cat acc s = .ok acc' ↔
      ∃ m, s.mech = some m ∧ s.ok cat = true ∧ acc.phase ≤ m.kind.stage.rank ∧ acc' = acc.push m := by
  unfold Step.ok
  rw [known_override]
  obtain ⟨a, z, c, f, e, cond, cfg⟩ := s
  obtain ⟨pa, ps, pf⟩ := acc
  cases a with
  | some id =>
    simp only [execStep, Step.mech, Step.target, Step.condOk,
      Pipes.phase, Pipes.push, Option.some.injEq, exists_eq_left', Kind.stage, Stage.rank]
    cases ps <;> cases pf <;> simp [map_ok_iff, create_ok_iff]
    grind
  | none =>
  cases z with
  | some id =>
    simp only [execStep, Step.mech, Step.target, Step.condOk,
      Pipes.phase, Pipes.push, Option.some.injEq, exists_eq_left', Kind.stage, Stage.rank]
    cases ps <;> cases pf <;> simp [map_ok_iff, handler_ok_iff] <;> grind
  | none =>
  cases c with
  | some id =>
    simp only [execStep, Step.mech, Step.target, Step.condOk,
      Pipes.phase, Pipes.push, Option.some.injEq, exists_eq_left', Kind.stage, Stage.rank]
    cases ps <;> cases pf <;> simp [map_ok_iff, handler_ok_iff] <;> grind
  | none =>
  cases f with
  | some id =>
    simp only [execStep, Step.mech, Step.target, Step.condOk,
      Pipes.phase, Pipes.push, Option.some.injEq, exists_eq_left', Kind.stage, Stage.rank]
    cases ps <;> cases pf <;> simp [map_ok_iff, handler_ok_iff] <;> grind
  | none =>
    simp [execStep, Step.mech, Step.target]

/-- append mechanisms one after the other -/
def Pipes.pushAll (acc : Pipes) (ms : List Mech) : Pipes := ms.foldl Pipes.push acc

theorem target_ne_eh {s : Step} {k : Kind} {id : String} (h : s.target = some (k, id)) : k ≠ .eh := by
  unfold Step.target at h
  split at h <;> simp at h <;> simp [← h.1]

theorem mech_stage {s : Step} {m : Mech} (h : s.mech = some m) :
    s.stage = some m.kind.stage ∧ m.kind ≠ .eh := by
  unfold Step.mech at h
  unfold Step.stage
  cases ht : s.target with
  | none => simp [ht] at h
  | some t =>
    obtain ⟨k, id⟩ := t
    have hk := target_ne_eh ht
    cases k <;> simp [ht] at h <;> subst h <;> simp_all

theorem mech_none {s : Step} (h : s.mech = none) : s.stage = none := by
  unfold Step.mech at h
  unfold Step.stage
  cases ht : s.target with
  | none => simp
  | some t =>
    obtain ⟨k, id⟩ := t
    cases k <;> simp [ht] at h

theorem phase_push (acc : Pipes) (m : Mech) (h : acc.phase ≤ m.kind.stage.rank) (hk : m.kind ≠ .eh) :
    (acc.push m).phase = m.kind.stage.rank := by
  obtain ⟨pa, ps, pf⟩ := acc
  obtain ⟨k, id, c, cfg⟩ := m
  cases k <;> cases ps <;> cases pf <;> simp_all [Pipes.phase, Pipes.push, Kind.stage, Stage.rank]

theorem execPipeline_ok_iff (cat : Catalogue) (steps : List Step) : ∀ (acc acc' : Pipes),
    execPipeline cat acc steps = .ok acc' ↔
      (∀ s ∈ steps, s.ok cat = true) ∧ orderedFrom acc.phase steps = true ∧
        acc' = acc.pushAll (steps.filterMap Step.mech) := by
  induction steps with
  | nil =>
    intro acc acc'
    simp only [execPipeline, pure_ok_iff, orderedFrom, Pipes.pushAll, List.filterMap_nil, List.foldl_nil]
    constructor
    · intro h; simp [h]
    · intro h; exact h.2.2.symm
  | cons s ss ih =>
    intro acc acc'
    simp only [execPipeline, bind_ok_iff, execStep_ok_iff, ih]
    constructor
    · rintro ⟨a, ⟨m, hm, hok, hph, rfl⟩, hall, hord, rfl⟩
      obtain ⟨hst, hk⟩ := mech_stage hm
      rw [phase_push _ _ hph hk] at hord
      refine ⟨?_, ?_, ?_⟩
      · intro s' hs'
        rcases List.mem_cons.mp hs' with rfl | h
        · exact hok
        · exact hall _ h
      · simp [orderedFrom, hst, hph, hord]
      · simp [hm, Pipes.pushAll]
    · rintro ⟨hall, hord, rfl⟩
      cases hm : s.mech with
      | none => simp [orderedFrom, mech_none hm] at hord
      | some m =>
        obtain ⟨hst, hk⟩ := mech_stage hm
        simp [orderedFrom, hst] at hord
        refine ⟨acc.push m, ⟨m, rfl, hall s (by simp), hord.1, rfl⟩, fun s' hs' => hall s' (by simp [hs']), ?_, ?_⟩
        · rw [phase_push _ _ hord.1 hk]; exact hord.2
        · simp [hm, Pipes.pushAll]

theorem pushAll_fields (ms : List Mech) : ∀ acc : Pipes,
    (acc.pushAll ms).authn = acc.authn ++ ms.filter (fun m => m.kind.stage == .authentication) ∧
    (acc.pushAll ms).sh = acc.sh ++ ms.filter (fun m => m.kind.stage == .handling) ∧
    (acc.pushAll ms).fin = acc.fin ++ ms.filter (fun m => m.kind.stage == .finalization) := by
  induction ms with
  | nil => intro acc; simp [Pipes.pushAll]
  | cons m ms ih =>
    intro acc
    have := ih (acc.push m)
    simp only [Pipes.pushAll, List.foldl_cons] at this ⊢
    obtain ⟨h1, h2, h3⟩ := this
    rw [h1, h2, h3]
    obtain ⟨k, id, c, cfg⟩ := m
    cases k <;> simp [Pipes.push, Kind.stage]

/-- `createExecutePipeline` from empty accumulators: succeeds exactly on ordered lists of usable steps, and then
returns the own mechanisms of the three stages -/
theorem execPipeline_empty_ok_iff (cat : Catalogue) (execute onError : List Step) (p : Pipes) :
    execPipeline cat {} execute = .ok p ↔
      (∀ s ∈ execute, s.ok cat = true) ∧ orderedFrom 0 execute = true ∧
        p = ⟨own .authentication execute onError, own .handling execute onError,
             own .finalization execute onError⟩ := by
  rw [execPipeline_ok_iff]
  obtain ⟨h1, h2, h3⟩ := pushAll_fields (execute.filterMap Step.mech) {}
  have : (({} : Pipes).pushAll (execute.filterMap Step.mech)) =
      ⟨own .authentication execute onError, own .handling execute onError,
       own .finalization execute onError⟩ := by
    cases hp : ({} : Pipes).pushAll (execute.filterMap Step.mech)
    simp only [hp] at h1 h2 h3
    simp [own, h1, h2, h3]
  rw [this]
  simp [Pipes.phase]

set_option linter.unusedSimpArgs false in
theorem errStep_ok_iff (cat : Catalogue) (s : Step) (m : Mech) :
    errStep cat s = .ok m ↔ s.ehOk cat = true ∧ s.ehMech = some m := by
  unfold errStep Step.ehOk Step.ehMech
  cases s.errorHandler with
  | none => simp
  | some id =>
    simp only [handler_ok_iff, accepts, Option.map_some, Option.some.injEq]
    cases h : cat Kind.eh id <;> cases h2 : s.config <;> simp [h] <;> grind

theorem errPipeline_ok_iff (cat : Catalogue) (steps : List Step) : ∀ ms : List Mech,
    errPipeline cat steps = .ok ms ↔ (∀ s ∈ steps, s.ehOk cat = true) ∧ ms = steps.filterMap Step.ehMech := by
  induction steps with
  | nil =>
    intro ms
    simp only [errPipeline, pure_ok_iff, List.filterMap_nil]
    constructor
    · intro h; simp [h]
    · intro h; exact h.2.symm
  | cons s ss ih =>
    intro ms
    simp only [errPipeline, bind_ok_iff, pure_ok_iff, errStep_ok_iff, ih]
    constructor
    · rintro ⟨m, ⟨hok, hm⟩, ms', ⟨hall, rfl⟩, rfl⟩
      refine ⟨?_, by simp [hm]⟩
      intro s' hs'
      rcases List.mem_cons.mp hs' with rfl | h
      · exact hok
      · exact hall _ h
    · rintro ⟨hall, rfl⟩
      have hok := hall s (by simp)
      cases hm : s.ehMech with
      | none =>
        unfold Step.ehOk at hok
        unfold Step.ehMech at hm
        cases he : s.errorHandler <;> simp [he] at hok hm
      | some m =>
        exact ⟨m, ⟨hok, rfl⟩, _, ⟨fun s' hs' => hall s' (by simp [hs']), rfl⟩, by simp [hm]⟩

theorem orderedFrom_mono {m n : Nat} (h : m ≤ n) : ∀ {steps : List Step},
    orderedFrom n steps = true → orderedFrom m steps = true := by
  intro steps
  cases steps with
  | nil => simp [orderedFrom]
  | cons s ss =>
    unfold orderedFrom
    cases s.stage with
    | none => simp
    | some st => simp; intro h1 h2; exact ⟨by omega, h2⟩

/-- a block of steps of one stage in front of an ordered rest -/
theorem orderedFrom_block (st : Stage) (rest : List Step) (hrest : orderedFrom st.rank rest = true) :
    ∀ (block : List Step), (∀ s ∈ block, s.stage = some st) → orderedFrom st.rank (block ++ rest) = true := by
  intro block
  induction block with
  | nil => intro _; simpa using hrest
  | cons s ss ih =>
    intro h
    have hs := h s (by simp)
    simp [orderedFrom, hs]
    exact ih (fun s' hs' => h s' (by simp [hs']))

theorem ordered_of_orderedFrom : ∀ (steps : List Step) (n : Nat), orderedFrom n steps = true →
    ∃ as hs fs, steps = as ++ hs ++ fs ∧
      (∀ s ∈ as, s.stage = some .authentication) ∧ (∀ s ∈ hs, s.stage = some .handling) ∧
      (∀ s ∈ fs, s.stage = some .finalization) ∧ (1 ≤ n → as = []) ∧ (2 ≤ n → hs = []) ∧ (3 ≤ n → fs = []) := by
  intro steps
  induction steps with
  | nil => intro n _; exact ⟨[], [], [], by simp⟩
  | cons s ss ih =>
    intro n h
    unfold orderedFrom at h
    cases hst : s.stage with
    | none => simp [hst] at h
    | some st =>
      simp [hst] at h
      obtain ⟨as, hs, fs, rfl, ha, hh, hf, h1, h2, h3⟩ := ih st.rank h.2
      cases st with
      | authentication =>
        refine ⟨s :: as, hs, fs, by simp, ?_, hh, hf, ?_, ?_, ?_⟩
        · intro s' hs'; rcases List.mem_cons.mp hs' with rfl | h'
          · exact hst
          · exact ha _ h'
        all_goals (intro hn; simp [Stage.rank] at h; omega)
      | handling =>
        have := h1 (by simp [Stage.rank]); subst this
        refine ⟨[], s :: hs, fs, by simp, by simp, ?_, hf, by simp, ?_, ?_⟩
        · intro s' hs'; rcases List.mem_cons.mp hs' with rfl | h'
          · exact hst
          · exact hh _ h'
        all_goals (intro hn; simp [Stage.rank] at h; omega)
      | finalization =>
        have := h1 (by simp [Stage.rank]); subst this
        have := h2 (by simp [Stage.rank]); subst this
        refine ⟨[], [], s :: fs, by simp, by simp, by simp, ?_, by simp, by simp, ?_⟩
        · intro s' hs'; rcases List.mem_cons.mp hs' with rfl | h'
          · exact hst
          · exact hf _ h'
        · intro hn; simp [Stage.rank] at h; omega
      | errorHandling =>
        have := h1 (by simp [Stage.rank]); subst this
        have := h2 (by simp [Stage.rank]); subst this
        have := h3 (by simp [Stage.rank]); subst this
        exfalso
        unfold Step.stage at hst
        cases ht : s.target with
        | none => simp [ht] at hst
        | some t =>
          obtain ⟨k, id⟩ := t
          have := target_ne_eh ht
          cases k <;> simp_all [Kind.stage]

theorem ordered_iff (steps : List Step) : orderedFrom 0 steps = true ↔ Ordered steps := by
  constructor
  · intro h
    obtain ⟨as, hs, fs, h0, ha, hh, hf, _⟩ := ordered_of_orderedFrom steps 0 h
    exact ⟨as, hs, fs, h0, ha, hh, hf⟩
  · rintro ⟨as, hs, fs, rfl, ha, hh, hf⟩
    have h3 : orderedFrom Stage.finalization.rank (fs ++ []) = true :=
      orderedFrom_block .finalization [] (by simp [orderedFrom]) fs hf
    simp only [List.append_nil] at h3
    have h2 : orderedFrom Stage.handling.rank (hs ++ fs) = true :=
      orderedFrom_block .handling fs (orderedFrom_mono (by simp [Stage.rank]) h3) hs hh
    have h1 : orderedFrom Stage.authentication.rank (as ++ (hs ++ fs)) = true :=
      orderedFrom_block .authentication (hs ++ fs) (orderedFrom_mono (by simp [Stage.rank]) h2) as ha
    simpa [Stage.rank, List.append_assoc] using h1

theorem listsOk_iff (cat : Catalogue) (execute onError : List Step) :
    Spec.listsOk cat execute onError = true ↔ ListsOk cat execute onError := by
  unfold Spec.listsOk
  simp only [Bool.and_eq_true, List.all_eq_true, ordered_iff]
  constructor
  · rintro ⟨⟨ho, hs⟩, he⟩
    exact ⟨ho, fun s h => (hs s h).1.1, fun s h => (hs s h).1.2, fun s h => (hs s h).2, he⟩
  · rintro ⟨ho, hk, hov, hc, he⟩
    exact ⟨⟨ho, fun s h => ⟨⟨hk s h, hov s h⟩, hc s h⟩⟩, he⟩

/-- both pipeline constructors together against `ListsOk` and `own` -/
theorem pipelines_ok_iff (cat : Catalogue) (execute onError : List Step) (p : Pipes) (eh : List Mech) :
    (execPipeline cat {} execute = .ok p ∧ errPipeline cat onError = .ok eh) ↔
      ListsOk cat execute onError ∧
        p = ⟨own .authentication execute onError, own .handling execute onError,
             own .finalization execute onError⟩ ∧
        eh = own .errorHandling execute onError := by
  rw [execPipeline_empty_ok_iff cat execute onError, errPipeline_ok_iff, ← listsOk_iff]
  unfold Spec.listsOk
  simp only [Bool.and_eq_true, List.all_eq_true, Step.ok, own]
  constructor
  · rintro ⟨⟨hs, ho, rfl⟩, he, rfl⟩
    exact ⟨⟨⟨ho, hs⟩, he⟩, rfl, rfl⟩
  · rintro ⟨⟨⟨ho, hs⟩, he⟩, rfl, rfl⟩
    exact ⟨⟨hs, ho, rfl⟩, he, rfl⟩

theorem inherit_nil (o : List Mech) : inherit o [] = o := by
  unfold inherit; split <;> simp_all

theorem orElse_eq_inherit (o d : List Mech) : orElse o d = inherit o d := by
  unfold orElse inherit; cases o <;> simp

theorem newFactory_ok_iff (cat : Catalogue) (proxy : Bool) (d : Option DefaultRule) (f : Factory) :
    newFactory cat proxy d = .ok f ↔ ConfigWellFormed cat d ∧ f = Spec.factory proxy d := by
  cases d with
  | none =>
    simp only [newFactory, pure_ok_iff, ConfigWellFormed, Spec.factory, true_and, Option.map_none, Option.getD_none]
    exact eq_comm
  | some d =>
    simp only [newFactory, ConfigWellFormed]
    split
    · rename_i hdup
      simp only [Bool.not_eq_true', Bool.and_eq_false_iff, decide_eq_false_iff_not] at hdup
      constructor
      · intro h; cases h
      · rintro ⟨hw, _⟩
        rcases hdup with h | h
        · exact absurd hw.unique.1 h
        · exact absurd hw.unique.2 h
    · rename_i hdup
      simp only [Bool.not_eq_true', Bool.not_eq_false, Bool.and_eq_true, decide_eq_true_eq] at hdup
      simp only [bind_ok_iff]
      constructor
      · rintro ⟨p, hp, eh, heh, h⟩
        obtain ⟨hl, rfl, rfl⟩ := (pipelines_ok_iff cat d.execute d.onError p eh).mp ⟨hp, heh⟩
        split at h
        · cases h
        · rename_i hne
          rw [pure_ok_iff] at h
          subst h
          refine ⟨⟨hl, hdup, ?_⟩, ?_⟩
          · intro h0; simp [h0] at hne
          · simp [Spec.factory, Spec.pipelines, ownDefault, inherit_nil]
      · rintro ⟨hw, rfl⟩
        obtain ⟨hp, heh⟩ := (pipelines_ok_iff cat d.execute d.onError _ _).mpr ⟨hw.toListsOk, rfl, rfl⟩
        refine ⟨_, hp, _, heh, ?_⟩
        have hne := hw.authenticator
        simp only [List.isEmpty_iff]
        rw [if_neg hne, pure_ok_iff]
        simp [Spec.factory, Spec.pipelines, ownDefault, inherit_nil]

theorem ruleOk_iff (cat : Catalogue) (proxy validated : Bool) (d : Option DefaultRule) (r : RuleDef) :
    Spec.ruleOk cat proxy validated d r = true ↔ WellFormed cat proxy validated d r := by
  unfold Spec.ruleOk
  simp only [Bool.and_eq_true, listsOk_iff, Bool.not_eq_true', List.isEmpty_eq_false_iff, Bool.or_eq_true]
  constructor
  · rintro ⟨⟨⟨hl, hne⟩, hf⟩, ha⟩
    refine ⟨hl, ?_, ?_, ha⟩
    · intro hv; rcases hne with h | h
      · simp [hv] at h
      · exact h
    · intro hp; rcases hf with h | h
      · simp [hp] at h
      · exact h
  · rintro ⟨hl, hne, hf, ha⟩
    refine ⟨⟨⟨hl, ?_⟩, ?_⟩, ha⟩
    · cases validated <;> simp_all
    · cases proxy <;> simp_all

theorem configOk_iff (cat : Catalogue) (d : Option DefaultRule) :
    Spec.configOk cat d = true ↔ ConfigWellFormed cat d := by
  cases d with
  | none => simp [Spec.configOk, ConfigWellFormed]
  | some d =>
    simp only [Spec.configOk, ConfigWellFormed, Bool.and_eq_true, listsOk_iff, decide_eq_true_eq,
      Bool.not_eq_true', List.isEmpty_eq_false_iff]
    constructor
    · rintro ⟨⟨⟨hl, h1⟩, h2⟩, ha⟩; exact ⟨hl, ⟨h1, h2⟩, ha⟩
    · rintro ⟨hl, ⟨h1, h2⟩, ha⟩; exact ⟨⟨⟨hl, h1⟩, h2⟩, ha⟩

/-- `CreateRule` behind the rule set validation, on the factory of a configuration -/
theorem loadRule_ok_iff (cat : Catalogue) (proxy validated : Bool) (d : Option DefaultRule) (r : RuleDef)
    (e : Effective) :
    loadRule cat validated (Spec.factory proxy d) r = .ok e ↔
      WellFormed cat proxy validated d r ∧ e = Spec.effective d r := by
  unfold loadRule createRule
  have hps : ∀ (p : Pipes) (eh : List Mech),
      p = ⟨own .authentication r.execute r.onError, own .handling r.execute r.onError,
           own .finalization r.execute r.onError⟩ → eh = own .errorHandling r.execute r.onError →
      (Spec.factory proxy d).complete p eh = Spec.pipelines d r.execute r.onError := by
    rintro p eh rfl rfl
    cases d with
    | none => simp [Factory.complete, Spec.factory, Spec.pipelines, ownDefault, inherit_nil]
    | some dd =>
      simp [Factory.complete, Spec.factory, Spec.pipelines, ownDefault, inherit_nil, orElse_eq_inherit]
  have hbt : (Spec.factory proxy d).backtrackingFor r.backtracking = Spec.backtracking d r := by
    unfold Spec.backtracking Spec.factory
    cases r.backtracking <;> simp [Factory.backtrackingFor]
  split
  · rename_i hempty
    simp only [Bool.and_eq_true] at hempty
    constructor
    · intro h; cases h
    · rintro ⟨hw, _⟩; exact absurd (List.isEmpty_iff.mp hempty.2) (hw.nonempty hempty.1)
  · rename_i hne
    split
    · rename_i hfwd
      constructor
      · intro h; cases h
      · rintro ⟨hw, _⟩
        simp only [Spec.factory, Bool.and_eq_true, Bool.not_eq_true'] at hfwd
        have := hw.forward hfwd.1
        simp [this] at hfwd
    · rename_i hfwd
      simp only [bind_ok_iff]
      constructor
      · rintro ⟨p, hp, eh, heh, h⟩
        obtain ⟨hl, hpe, hehe⟩ := (pipelines_ok_iff cat r.execute r.onError p eh).mp ⟨hp, heh⟩
        rw [hps p eh hpe hehe, hbt] at h
        split at h
        · cases h
        · rename_i hauth
          rw [pure_ok_iff] at h
          refine ⟨⟨hl, ?_, ?_, ?_⟩, ?_⟩
          · intro hv h0; simp [hv, h0] at hne
          · intro hp'
            simp only [Spec.factory, Bool.and_eq_true, Bool.not_eq_true', not_and, Bool.not_eq_false] at hfwd
            exact hfwd hp'
          · intro h0; simp [Spec.pipelines, h0] at hauth
          · rw [← h]; rfl
      · rintro ⟨hw, rfl⟩
        obtain ⟨hp, heh⟩ := (pipelines_ok_iff cat r.execute r.onError _ _).mpr ⟨hw.toListsOk, rfl, rfl⟩
        refine ⟨_, hp, _, heh, ?_⟩
        rw [hps _ _ rfl rfl, hbt]
        have hne' := hw.authenticator
        have : (Spec.pipelines d r.execute r.onError).authn.isEmpty = false := by
          simpa [Spec.pipelines] using hne'
        simp only [this, Bool.false_eq_true, if_false, pure_ok_iff]
        rfl

/-- a history is judged rule by rule: what the factory created before plays no role -/
theorem loadAll_eq_map (cat : Catalogue) (validated : Bool) (rs : List RuleDef) : ∀ f : Factory,
    loadAll cat validated f rs = rs.map (loadRule cat validated f) := by
  induction rs with
  | nil => intro f; rfl
  | cons r rs ih => intro f; simp [loadAll, Factory.createRuleM, ih]

end Heimdall.Factory
