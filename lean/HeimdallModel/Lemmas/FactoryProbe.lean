import HeimdallModel.Lemmas.Factory
import HeimdallModel.Model.FactoryProbe
/-!
# Lemmas about the executed trace (C14): where the source of an error comes from

`Model/FactoryProbe.lean` says which mechanism an error of a probe request names as its source (`Trace.src`, what
`Error.Source` is for the conditions of `on_error`).  These lemmas locate that mechanism in the pipelines of the
effective rule; `Props/C14.lean` combines them with the stage-wise inheritance.
-/
namespace Heimdall.Factory

/-- the mechanism that refuses a request is the first one of the stage that does: everything in front of it ran
through -/
theorem reached_some_iff (fl : Flavours) (den : Refusing) (p : Probe) (m : Mech) : ∀ ms : List Mech,
    (reached fl den p ms).2 = some m ↔
      ∃ pre post, ms = pre ++ m :: post ∧ (∀ x ∈ pre, x.refuses fl den p = false) ∧ m.refuses fl den p = true := by
  intro ms
  induction ms with
  | nil =>
    simp only [reached, reduceCtorEq, false_iff, not_exists, not_and]
    intro pre post h
    cases pre <;> cases h
  | cons x xs ih =>
    unfold reached
    by_cases hx : x.refuses fl den p = true
    · simp only [hx, if_true, Option.some.injEq]
      constructor
      · rintro rfl
        exact ⟨[], xs, rfl, by simp, hx⟩
      · rintro ⟨pre, post, heq, hpre, _⟩
        cases pre with
        | nil => simp only [List.nil_append, List.cons.injEq] at heq; exact heq.1
        | cons y ys =>
          simp only [List.cons_append, List.cons.injEq] at heq
          have := hpre y (by simp)
          rw [← heq.1, hx] at this
          cases this
    · have hx' : x.refuses fl den p = false := by
        cases h : x.refuses fl den p
        · rfl
        · exact absurd h hx
      simp only [hx', Bool.false_eq_true, if_false]
      rw [ih]
      constructor
      · rintro ⟨pre, post, heq, hpre, hm⟩
        refine ⟨x :: pre, post, by rw [heq]; rfl, ?_, hm⟩
        intro y hy
        rcases List.mem_cons.mp hy with rfl | hy
        · exact hx'
        · exact hpre y hy
      · rintro ⟨pre, post, heq, hpre, hm⟩
        cases pre with
        | nil =>
          simp only [List.nil_append, List.cons.injEq] at heq
          rw [← heq.1, hx'] at hm
          cases hm
        | cons y ys =>
          simp only [List.cons_append, List.cons.injEq] at heq
          exact ⟨ys, post, heq.2, fun z hz => hpre z (List.mem_cons_of_mem _ hz), hm⟩

/-- the mechanism that refuses a request belongs to the stage and does refuse -/
theorem reached_some_mem {fl : Flavours} {den : Refusing} {p : Probe} {m : Mech} {ms : List Mech}
    (h : (reached fl den p ms).2 = some m) : m ∈ ms ∧ m.refuses fl den p = true := by
  obtain ⟨pre, post, rfl, _, hm⟩ := (reached_some_iff fl den p m ms).mp h
  exact ⟨by simp, hm⟩

/-- the authenticator blamed for a failed authentication stage belongs to the stage -/
theorem authnBlame_mem (sh : Showing) (fl : Flavours) (p : Probe) : ∀ ms : List Mech,
    authnBlame sh fl p ms = "" ∨ ∃ m ∈ ms, m.id = authnBlame sh fl p ms := by
  intro ms
  induction ms with
  | nil => exact Or.inl rfl
  | cons x xs ih =>
    unfold authnBlame
    by_cases h1 : (fl .authn x.id == .constant) = true
    · simp [h1]
    · simp only [h1, Bool.false_eq_true, if_false]
      by_cases h2 : p.authnOk = true
      · simp [h2]
      · simp only [h2, Bool.false_eq_true, if_false]
        by_cases h3 : (!(sh x).fallback) = true
        · simp only [h3, if_true]
          exact Or.inr ⟨x, by simp, rfl⟩
        · simp only [h3, Bool.false_eq_true, if_false]
          by_cases h4 : xs.isEmpty = true
          · simp only [h4, if_true]
            exact Or.inr ⟨x, by simp, rfl⟩
          · simp only [h4, Bool.false_eq_true, if_false]
            rcases ih with h | ⟨m, hm, hid⟩
            · exact Or.inl h
            · exact Or.inr ⟨m, List.mem_cons_of_mem _ hm, hid⟩

/-- the error pipeline either keeps the source of the error or drops it; it never invents one -/
theorem errorStage_src (sh : Showing) (fl : Flavours) (p : Probe) (kind source : String) : ∀ eh : List Mech,
    (errorStage sh fl p kind source eh).src = "" ∨ (errorStage sh fl p kind source eh).src = source := by
  intro eh
  induction eh with
  | nil => exact Or.inr rfl
  | cons x xs ih =>
    unfold errorStage
    by_cases h1 : (!x.runs p) = true
    · simp only [h1, if_true]; exact ih
    · simp only [h1, Bool.false_eq_true, if_false]
      by_cases h2 : (fl .eh x.id == .passthrough) = true
      · simp [h2]
      · simp only [h2, Bool.false_eq_true, if_false]
        by_cases h3 : (fl .eh x.id == .challenge) = true
        · simp [h3]
        · simp [h3]

/-- without an error pipeline the error is returned as it is: its source is visible -/
theorem errorStage_nil_src (sh : Showing) (fl : Flavours) (p : Probe) (kind source : String) :
    (errorStage sh fl p kind source []).src = source := rfl

/-- **Where the source of a trace comes from**: it is empty, or names an authenticator of the effective
authentication stage, or the mechanism of the effective authorization/contextualization stage that refused the
request. -/
theorem execute_src (sh : Showing) (fl : Flavours) (den : Refusing) (e : Effective) (p : Probe) :
    (execute sh fl den e p).src = "" ∨ (∃ m ∈ e.authn, m.id = (execute sh fl den e p).src) ∨
      (∃ m ∈ e.sh, m.refuses fl den p = true ∧ m.id = (execute sh fl den e p).src) := by
  unfold execute
  rcases ha : authnStage sh fl p e.authn with ⟨calls, sub⟩
  cases sub with
  | none =>
    simp only
    rcases errorStage_src sh fl p "communication" (authnBlame sh fl p e.authn) e.eh with h | h
    · exact Or.inl h
    · rw [h]
      rcases authnBlame_mem sh fl p e.authn with h' | ⟨m, hm, hid⟩
      · exact Or.inl h'
      · exact Or.inr (Or.inl ⟨m, hm, hid⟩)
  | some s =>
    simp only
    rcases hr : reached fl den p e.sh with ⟨ran, ref⟩
    cases ref with
    | none => exact Or.inl rfl
    | some m =>
      simp only
      have hm := reached_some_mem (by rw [hr] : (reached fl den p e.sh).2 = some m)
      rcases errorStage_src sh fl p "authorization" m.id e.eh with h | h
      · exact Or.inl h
      · exact Or.inr (Or.inr ⟨m, hm.1, hm.2, h.symm⟩)

/-- the mechanism a step puts into the pipeline carries the kind and the id the step references -/
theorem mech_target {s : Step} {m : Mech} (h : s.mech = some m) : s.target = some (m.kind, m.id) := by
  unfold Step.mech at h
  cases ht : s.target with
  | none => simp [ht] at h
  | some t =>
    obtain ⟨k, id⟩ := t
    cases k <;> simp only [ht, Option.some.injEq] at h <;> subst h <;> rfl

/-- an own mechanism of one of the three `execute` stages is what a step of `execute` puts there -/
theorem own_mem_step {st : Stage} {execute onError : List Step} {m : Mech} (hst : st ≠ .errorHandling)
    (h : m ∈ own st execute onError) : ∃ s ∈ execute, s.target = some (m.kind, m.id) ∧ m.kind.stage = st := by
  have hmem : m ∈ (execute.filterMap Step.mech).filter (fun m => m.kind.stage == st) := by
    cases st <;> first | exact absurd rfl hst | exact h
  obtain ⟨hm, hk⟩ := List.mem_filter.mp hmem
  obtain ⟨s, hs, hsm⟩ := List.mem_filterMap.mp hm
  exact ⟨s, hs, mech_target hsm, by simpa using hk⟩

end Heimdall.Factory
