import HeimdallModel.Spec.Overlay
/-!
# Entry-wise merging (`values.Values.Merge`) — helper lemmas for `Props/C17.lean`
-/
namespace Heimdall.Mech
open Heimdall.Spec.Overlay

/-- first entry of a key -/
def lookupFirst : Entries → Key → Option String
  | [], _ => none
  | e :: r, k => if e.1 = k then some e.2 else lookupFirst r k

/-- one step of `mergeEntries` -/
def mergeStep (acc : Entries) (e : Key × String) : Entries :=
  if acc.any (fun x => x.1 == e.1) then acc.map (fun x => if x.1 == e.1 then e else x) else acc ++ [e]

theorem mergeEntries_eq (old new : Entries) : mergeEntries old new = new.foldl mergeStep old := rfl

theorem lookupFirst_replace (acc : Entries) (e : Key × String) (k : Key) :
    lookupFirst (acc.map fun x => if x.1 == e.1 then e else x) k =
      if e.1 = k then (if acc.any (fun x => x.1 == e.1) then some e.2 else none) else lookupFirst acc k := by
  induction acc with
  | nil => by_cases hk : e.1 = k <;> simp [lookupFirst, hk]
  | cons x r ih =>
    by_cases hx : x.1 = e.1
    · by_cases hk : e.1 = k
      · simp [lookupFirst, hx, hk]
      · have hxk : ¬ x.1 = k := by rw [hx]; exact hk
        simp only [List.map_cons, hx, beq_self_eq_true, if_true, lookupFirst, hk, if_false]
        simpa [hk] using ih
    · by_cases hk : e.1 = k
      · have hxk : ¬ x.1 = k := by rw [← hk]; exact hx
        have hb : (x.1 == e.1) = false := by simpa using hx
        simp only [List.map_cons, hb, Bool.false_eq_true, if_false, lookupFirst, hxk, List.any_cons, Bool.false_or]
        simpa [hk] using ih
      · have hb : (x.1 == e.1) = false := by simpa using hx
        simp only [List.map_cons, hb, Bool.false_eq_true, if_false, lookupFirst, hk]
        by_cases hxk : x.1 = k
        · simp [hxk]
        · simp only [hxk, if_false]
          simpa [hk] using ih

theorem lookupFirst_append_single (acc : Entries) (e : Key × String) (k : Key) :
    lookupFirst (acc ++ [e]) k = (lookupFirst acc k).orElse fun _ => if e.1 = k then some e.2 else none := by
  induction acc with
  | nil => by_cases hk : e.1 = k <;> simp [lookupFirst, hk]
  | cons x r ih =>
    by_cases hxk : x.1 = k
    · simp [lookupFirst, hxk]
    · simp only [List.cons_append, lookupFirst, hxk, if_false]; exact ih

theorem lookupFirst_none_of_not_any (acc : Entries) (k : Key) (h : acc.any (fun x => x.1 == k) = false) :
    lookupFirst acc k = none := by
  induction acc with
  | nil => rfl
  | cons x r ih =>
    simp only [List.any_cons, Bool.or_eq_false_iff] at h
    have hx : ¬ x.1 = k := by simpa using h.1
    simp only [lookupFirst, hx, if_false]
    exact ih h.2

theorem lookupFirst_mergeStep (acc : Entries) (e : Key × String) (k : Key) :
    lookupFirst (mergeStep acc e) k = if e.1 = k then some e.2 else lookupFirst acc k := by
  unfold mergeStep
  cases ha : acc.any (fun x => x.1 == e.1) with
  | true =>
    simp only [if_true]
    rw [lookupFirst_replace, ha]
    by_cases hk : e.1 = k <;> simp [hk]
  | false =>
    have ha' := ha
    simp only [Bool.false_eq_true, if_false]
    rw [lookupFirst_append_single]
    by_cases hk : e.1 = k
    · rw [← hk, lookupFirst_none_of_not_any acc e.1 ha']
      simp
    · simp only [hk, if_false]
      cases lookupFirst acc k <;> simp

theorem lookupFirst_foldl (new : Entries) (k : Key) :
    ∀ acc : Entries, lookupFirst (new.foldl mergeStep acc) k =
      new.foldl (fun a e => if e.1 = k then some e.2 else a) (lookupFirst acc k) := by
  induction new with
  | nil => intro acc; rfl
  | cons e r ih =>
    intro acc
    simp only [List.foldl_cons]
    rw [ih (mergeStep acc e), lookupFirst_mergeStep]

theorem foldl_last (new : Entries) (k : Key) :
    ∀ init : Option String, new.foldl (fun a e => if e.1 = k then some e.2 else a) init =
      (lookupLast new k).orElse fun _ => init := by
  unfold lookupLast
  induction new with
  | nil => intro init; simp
  | cons e r ih =>
    intro init
    simp only [List.foldl_cons]
    rw [ih, ih (if e.1 = k then some e.2 else none)]
    by_cases hk : e.1 = k
    · simp only [hk, if_true]
      cases List.foldl (fun a e => if e.1 = k then some e.2 else a) none r <;> simp
    · simp only [hk, if_false]
      cases List.foldl (fun a e => if e.1 = k then some e.2 else a) none r <;> simp

/-- merging is entry-wise "the override's entry if there is one, else the inherited one" -/
theorem lookupFirst_mergeEntries (old new : Entries) (k : Key) :
    lookupFirst (mergeEntries old new) k = (lookupLast new k).orElse fun _ => lookupFirst old k := by
  rw [mergeEntries_eq, lookupFirst_foldl, foldl_last]

/-! ## loading the catalogue -/

/-- all instances are prototypes -/
def AllProtos (σ : Store Entries Override) : Prop := ∀ o ∈ σ.origin, o = none

theorem load_closed (σ : Store Entries Override) (t : TypeD) (id : String) (cfg : Entries) (hc : Closed σ)
    (hp : AllProtos σ) : Closed (load σ t id cfg) ∧ AllProtos (load σ t id cfg) := by
  refine ⟨⟨?_, by simp [load, hc.2]⟩, ?_⟩
  · intro inst hm sa hsa
    simp only [load, List.mem_append, List.mem_singleton] at hm
    simp only [load, List.length_append, List.length_map]
    rcases hm with hm | hm
    · exact Nat.lt_of_lt_of_le (hc.1 inst hm sa hsa) (Nat.le_add_right _ _)
    · subst hm
      have := (List.of_mem_zip hsa).2
      simp only [List.mem_map, List.mem_range] at this
      rcases this with ⟨i, hi, e⟩
      show sa.2 < σ.cells.length + t.slots.length
      have e' : i + σ.cells.length = sa.2 := e
      have hi' : i < t.slots.length := hi
      rw [← e', Nat.add_comm]
      exact Nat.add_lt_add_left hi' _
  · intro o ho
    simp only [load, List.mem_append, List.mem_singleton] at ho
    rcases ho with ho | ho
    · exact hp o ho
    · exact ho

/-- the store the catalogue is loaded into -/
def emptyStore : Store Entries Override := ⟨[], [], []⟩

/-- loading any catalogue gives a closed store of prototypes: the start of every run -/
theorem loadAll_closed (cat : List (TypeD × String × Entries)) :
    ∀ σ : Store Entries Override, Closed σ → AllProtos σ →
      Closed (cat.foldl (fun σ c => load σ c.1 c.2.1 c.2.2) σ) ∧
      AllProtos (cat.foldl (fun σ c => load σ c.1 c.2.1 c.2.2) σ) := by
  induction cat with
  | nil => intro σ hc hp; exact ⟨hc, hp⟩
  | cons c r ih =>
    intro σ hc hp
    simp only [List.foldl_cons]
    exact ih _ (load_closed σ c.1 c.2.1 c.2.2 hc hp).1 (load_closed σ c.1 c.2.1 c.2.2 hc hp).2

theorem emptyStore_closed : Closed emptyStore ∧ AllProtos emptyStore :=
  ⟨⟨fun i hi => (by cases hi), rfl⟩, fun o ho => (by cases ho)⟩

/-! ## the table is what `heimdall` looks up -/

/-- every slot of every type is found under its Go type and name (no two types share a Go name, no two slots of
a type share a name) -/
def tableConsistent : Bool :=
  types.all fun t => t.slots.all fun s => (typeByGo t.go).bind (·.slot s.name) == some s

theorem heimdall_replace_of_consistent (h : tableConsistent = true) (t : TypeD) (ht : t ∈ types) (s : SlotD)
    (hs : s ∈ t.slots) (old : Entries) (ov : Override) :
    heimdall.replace t.go s.name old ov = applyRule s.rule old ov ∧ heimdall.byValue t.go s.name = !s.ref := by
  have h1 := List.all_eq_true.mp (List.all_eq_true.mp h t ht) s hs
  have h2 : (typeByGo t.go).bind (·.slot s.name) = some s := by simpa using h1
  simp [heimdall, h2]

/-- where the code can tell the rule's setting from "not set", the model's rule is the specification's rule -/
theorem applyRule_spec (rule : Rule) (old : Entries) (ov : Override)
    (h : ∀ key, rule = .over key false →
      (entriesOf ov.entries [key]).isEmpty = true ∨ (entriesOf ov.entries [key]).any (fun e => !isZero e.2) = true) :
    applyRule rule old ov = applyRule (specRule rule) old ov := by
  cases rule with
  | keep => rfl
  | merge key => rfl
  | fromOv key => rfl
  | over key zeroOk =>
    cases zeroOk with
    | true => rfl
    | false =>
      simp only [specRule, applyRule, Bool.false_or, Bool.true_or, if_true]
      rcases h key rfl with h1 | h1
      · simp [h1]
      · simp [h1]

end Heimdall.Mech
