import HeimdallModel.Spec.Authn
/-! Helper lemmas for property C04 (error trees, extractors, the authenticators' ladders, the composite loop). -/
namespace Heimdall.Authn
open Spec

/-! ## error trees -/

theorem isAny_eq_any (es : List Err) (k : Kind) : Err.isAny es k = es.any (·.is k) := by
  induction es with
  | nil => simp [Err.isAny]
  | cons e es ih => simp [Err.isAny, ih]

@[simp] theorem chain_is (es : List Err) (k : Kind) : (Err.chain es).is k = es.any (·.is k) := by
  simp [Err.is, isAny_eq_any]

@[simp] theorem kind_is (k' k : Kind) : (Err.kind k').is k = (k' == k) := by simp [Err.is]

@[simp] theorem foreign_is (k : Kind) : Err.foreign.is k = false := by simp [Err.is]

@[simp] theorem argErr_is (k : Kind) : argErr.is k = (k == .argument) := by
  cases k <;> decide

mutual
  theorem is_iff_leaf : ∀ (e : Err) (k : Kind), e.is k = true ↔ k ∈ leaves e
    | .kind k', k => by simp only [Err.is, leaves, beq_iff_eq, List.mem_singleton]; exact eq_comm
    | .foreign, k => by simp [Err.is, leaves]
    | .chain es, k => by simp only [Err.is, leaves]; exact isAny_iff_leaf es k
  theorem isAny_iff_leaf : ∀ (es : List Err) (k : Kind), Err.isAny es k = true ↔ k ∈ leavesAll es
    | [], k => by simp [Err.isAny, leavesAll]
    | e :: es, k => by
      simp only [Err.isAny, leavesAll, Bool.or_eq_true, List.mem_append]
      rw [is_iff_leaf e k, isAny_iff_leaf es k]
end

/-- what `errors.Is` sees of a constructed error value -/
theorem build_is (s : Shape) (c : Err) (k : Kind) :
    (Shape.build s c).is k = s.any (fun | .k k' => k' == k | .dyn => c.is k) := by
  simp only [Shape.build, chain_is, List.any_map]
  congr 1
  funext e
  cases e <;> simp

/-- an expression into which no argument error is written yields one only through its run-time cause -/
theorem argFree_build (s : Shape) (hs : s.argFree = true) (c : Err) (hc : c.is .argument = false) :
    (s.build c).is .argument = false := by
  rw [build_is]
  have hs' : ¬ (Elem.k Kind.argument) ∈ s := by
    intro hm
    have : s.contains (Elem.k Kind.argument) = true := List.contains_iff_mem.2 hm
    simp only [Shape.argFree, this, Bool.not_true] at hs
    cases hs
  rw [List.any_eq_false]
  intro e he
  cases e with
  | k k' =>
    simp only [beq_iff_eq]
    intro h
    subst h
    exact hs' he
  | dyn => simp [hc]

/-! ## extractors -/

theorem bval_get_eq (v : BVal) :
    v.get = match single v with | some s => .ok (trimSpace s) | none => .error argErr := by
  cases v with
  | str s => simp [BVal.get, single]
  | strs l =>
    match l with
    | [] => simp [BVal.get, single]
    | [s] => simp [BVal.get, single]
    | _ :: _ :: _ => simp [BVal.get, single]
  | anys l =>
    match l with
    | [] => simp [BVal.get, single]
    | [some s] => simp [BVal.get, single]
    | [none] => simp [BVal.get, single]
    | none :: _ :: _ => simp [BVal.get, single]
    | some _ :: _ :: _ => simp [BVal.get, single]
  | other => simp [BVal.get, single]

theorem body_get_aux (x : Option BVal) :
    (match x with | none => Except.error argErr | some v => v.get) =
      if (match x with | some v => (single v).isSome | none => false) = true then
        Except.ok (match x with | some v => trimSpace ((single v).getD "") | none => "")
      else Except.error argErr := by
  cases x with
  | none => simp
  | some v =>
    simp only [bval_get_eq]
    cases single v <;> simp

/-- every extractor either yields the value at its source or the argument error -/
theorem get_eq (s : Strategy) (r : Req) :
    s.get r = if present s r then .ok (value s r) else .error argErr := by
  cases s with
  | header name scheme =>
    simp only [Strategy.get, present, value]
    by_cases h1 : r.header name = ""
    · simp [h1]
    · by_cases h2 : scheme = ""
      · simp [h1, h2]
      · by_cases h3 : hasPrefix (r.header name) (scheme ++ " ") = true
        · simp [h1, h2, h3]
        · simp [h1, h2, h3]
  | query name =>
    simp only [Strategy.get, present, value]
    by_cases h : firstValue r.query name = "" <;> simp [h]
  | cookie name =>
    simp only [Strategy.get, present, value]
    by_cases h : firstValue r.cookies name = "" <;> simp [h]
  | body name =>
    simp only [Strategy.get, present, value]
    exact body_get_aux (r.bodyParam name)

theorem extractFrom_eq (ss : List Strategy) (r : Req) (errs : List Err) :
    extractFrom ss r errs =
      match ss.find? (present · r) with
      | some s => .ok (value s r)
      | none => .error (.chain (errs ++ List.replicate ss.length argErr)) := by
  induction ss generalizing errs with
  | nil => simp [extractFrom]
  | cons s ss ih =>
    simp only [extractFrom, get_eq]
    by_cases h : present s r = true
    · simp [h]
    · simp only [h, Bool.false_eq_true, ↓reduceIte, List.find?_cons, ih]
      cases ss.find? (present · r) with
      | some s' => simp
      | none => simp [List.replicate_succ]

/-- the composite extractor yields exactly the credential of the specification -/
theorem extract_ok_iff (ss : List Strategy) (r : Req) (v : String) :
    extract ss r = .ok v ↔ credential ss r = some v := by
  simp only [extract, extractFrom_eq, credential]
  cases ss.find? (present · r) <;> simp

/-- if no source carries a value the composite extractor reports an error that is an argument error and
matches no other sentinel — for any non-empty list of sources -/
theorem extract_error (ss : List Strategy) (r : Req) (e : Err) (hne : ss ≠ []) (h : extract ss r = .error e) :
    credential ss r = none ∧ ∀ k, e.is k = (k == .argument) := by
  simp only [extract, extractFrom_eq, credential] at *
  cases hf : ss.find? (present · r) with
  | some s => simp [hf] at h
  | none =>
    simp only [hf, List.nil_append, Except.error.injEq] at h
    subst h
    refine ⟨by simp, fun k => ?_⟩
    cases ss with
    | nil => exact absurd rfl hne
    | cons s ss =>
      simp only [chain_is, List.length_cons, List.replicate_succ, List.any_cons, argErr_is, List.any_replicate]
      cases k <;> simp

theorem extract_cases (ss : List Strategy) (r : Req) (hne : ss ≠ []) :
    (∃ v, extract ss r = .ok v ∧ credential ss r = some v) ∨
    (∃ e, extract ss r = .error e ∧ credential ss r = none ∧ ∀ k, e.is k = (k == .argument)) := by
  cases h : extract ss r with
  | ok v => exact .inl ⟨v, rfl, (extract_ok_iff ss r v).1 h⟩
  | error e => exact .inr ⟨e, rfl, extract_error ss r e hne h⟩

/-! ## the world -/

theorem lookup_mem {β : Type} (l : List ((String × String) × β)) (id tok : String) (v : β)
    (h : lookup l id tok = some v) : ∃ p ∈ l, p.2 = v := by
  simp only [lookup, Option.map_eq_some_iff] at h
  obtain ⟨p, hp, rfl⟩ := h
  exact ⟨p, List.mem_of_find?_eq_some hp, rfl⟩

theorem jwtVerdict_wf (w : World) (hw : w.wf = true) (id tok : String) :
    (w.jwtVerdict id tok).wf JwtSite.verifies = true := by
  simp only [World.jwtVerdict]
  cases h : lookup w.jwt id tok with
  | none => simp [Verdict.wf, JwtSite.verifies]
  | some v =>
    obtain ⟨p, hp, rfl⟩ := lookup_mem _ _ _ _ h
    simp only [World.wf, Bool.and_eq_true, List.all_eq_true] at hw
    simpa using hw.1.1 p hp

theorem introVerdict_wf (w : World) (hw : w.wf = true) (id tok : String) :
    (w.introVerdict id tok).wf IntroSite.verifies = true := by
  simp only [World.introVerdict]
  cases h : lookup w.intro id tok with
  | none => simp [Verdict.wf, IntroSite.verifies]
  | some v =>
    obtain ⟨p, hp, rfl⟩ := lookup_mem _ _ _ _ h
    simp only [World.wf, Bool.and_eq_true, List.all_eq_true] at hw
    simpa using hw.1.2 p hp

theorem genVerdict_wf (w : World) (hw : w.wf = true) (id tok : String) :
    (w.genVerdict id tok).wf GenSite.verifies = true := by
  simp only [World.genVerdict]
  cases h : lookup w.gen id tok with
  | none => simp [Verdict.wf, GenSite.verifies]
  | some v =>
    obtain ⟨p, hp, rfl⟩ := lookup_mem _ _ _ _ h
    simp only [World.wf, Bool.and_eq_true, List.all_eq_true] at hw
    simpa using hw.2 p hp

/-! ## the error values constructed after a credential was found contain no argument error -/

theorem jwt_site_arg_free (s : JwtSite) (hs : s.verifies = true) (c : Err) (hc : c.is .argument = false) :
    (s.shape.build c).is .argument = false := by
  cases s <;> simp_all [JwtSite.shape, build_is, JwtSite.verifies]

theorem intro_site_arg_free (s : IntroSite) (hs : s.verifies = true) (c : Err) (hc : c.is .argument = false) :
    (s.shape.build c).is .argument = false := by
  cases s <;> simp_all [IntroSite.shape, build_is, IntroSite.verifies]

theorem gen_site_arg_free (s : GenSite) (hs : s.verifies = true) (c : Err) (hc : c.is .argument = false) :
    (s.shape.build c).is .argument = false := by
  cases s <;> simp_all [GenSite.shape, build_is, GenSite.verifies]

theorem outcome_error_arg_free {σ : Type} (shape : σ → Shape) (verifies : σ → Bool)
    (hs : ∀ s, verifies s = true → ∀ c : Err, c.is .argument = false → ((shape s).build c).is .argument = false)
    (v : Verdict σ) (hv : v.wf verifies = true) (e : Err) (h : v.outcome shape = .error e) :
    e.is .argument = false := by
  cases v with
  | ok sub => simp [Verdict.outcome] at h
  | fail s c =>
    simp only [Verdict.outcome, Except.error.injEq] at h
    subst h
    simp only [Verdict.wf, Bool.and_eq_true, Bool.not_eq_true'] at hv
    exact hs s hv.1 c hv.2

/-! ## the ladders: argument error ⇔ no usable credentials -/

theorem basicCheck_arg_free (user pass : String) (d : Option (List String)) (e : Err)
    (h : basicCheck user pass d = .error e) : e.is .argument = false := by
  unfold basicCheck at h
  split at h
  · simp only [Except.error.injEq] at h
    subst h
    simp [BasicSite.shape, build_is]
  · split at h
    · simp at h
    · simp only [Except.error.injEq] at h
      subst h
      simp [BasicSite.shape, build_is]
  · simp only [Except.error.injEq] at h
    subst h
    simp [BasicSite.shape, build_is]

/-- An authenticator's error is an argument error exactly if it found no usable credentials of its kind. -/
theorem execute_error_argument (w : World) (a : Authn) (r : Req) (e : Err) (hw : w.wf = true) (ha : a.wf = true)
    (h : a.execute w r = .error e) : e.is .argument = !usable w a r := by
  obtain ⟨id, typ, af, ov, key⟩ := a
  cases typ with
  | anonymous s => simp [Authn.execute] at h
  | unauthorized =>
    simp only [Authn.execute, Except.error.injEq] at h
    subst h
    simp [usable, unauthorizedShape, build_is]
  | basic user pass =>
    simp only [Authn.execute, get_eq] at h
    simp only [usable]
    by_cases hp : present (.header "Authorization" "Basic") r = true
    · simp only [hp, ↓reduceIte] at h
      simp only [hp, Bool.not_true]
      exact basicCheck_arg_free _ _ _ _ h
    · simp only [hp, Bool.false_eq_true, ↓reduceIte, Except.error.injEq] at h
      subst h
      simp [hp, BasicSite.shape, build_is]
  | jwt ss =>
    have hne : ss ≠ [] := by simpa [Authn.wf, Typ.sources] using ha
    simp only [Authn.execute] at h
    simp only [usable]
    rcases extract_cases ss r hne with ⟨v, hv, hc⟩ | ⟨e', he', hc, hk⟩
    · simp only [hv] at h
      simp only [hc]
      cases hp : w.parsesJWT v with
      | true =>
        simp only [hp, ↓reduceIte] at h
        simp only [Bool.not_true]
        exact outcome_error_arg_free _ _ jwt_site_arg_free _ (jwtVerdict_wf w hw key v) e h
      | false =>
        simp only [hp, Bool.false_eq_true, ↓reduceIte, Except.error.injEq] at h
        subst h
        simp [JwtSite.shape, build_is]
    · simp only [he', Except.error.injEq] at h
      subst h
      simp [hc, JwtSite.shape, build_is, hk]
  | introspection ss =>
    have hne : ss ≠ [] := by simpa [Authn.wf, Typ.sources] using ha
    simp only [Authn.execute] at h
    simp only [usable]
    rcases extract_cases ss r hne with ⟨v, hv, hc⟩ | ⟨e', he', hc, hk⟩
    · simp only [hv] at h
      simp only [hc, Option.isSome_some, Bool.not_true]
      exact outcome_error_arg_free _ _ intro_site_arg_free _ (introVerdict_wf w hw key v) e h
    · simp only [he', Except.error.injEq] at h
      subst h
      simp [hc, IntroSite.shape, build_is, hk]
  | generic ss =>
    have hne : ss ≠ [] := by simpa [Authn.wf, Typ.sources] using ha
    simp only [Authn.execute] at h
    simp only [usable]
    rcases extract_cases ss r hne with ⟨v, hv, hc⟩ | ⟨e', he', hc, hk⟩
    · simp only [hv] at h
      simp only [hc, Option.isSome_some, Bool.not_true]
      exact outcome_error_arg_free _ _ gen_site_arg_free _ (genVerdict_wf w hw key v) e h
    · simp only [he', Except.error.injEq] at h
      subst h
      simp [hc, GenSite.shape, build_is, hk]

/-- An authenticator only succeeds on usable credentials. -/
theorem execute_ok_usable (w : World) (a : Authn) (r : Req) (s : String) (ha : a.wf = true)
    (h : a.execute w r = .ok s) : usable w a r = true := by
  obtain ⟨id, typ, af, ov, key⟩ := a
  cases typ with
  | anonymous s => simp [usable]
  | unauthorized => simp [usable]
  | basic user pass =>
    simp only [Authn.execute, get_eq] at h
    simp only [usable]
    by_cases hp : present (.header "Authorization" "Basic") r = true
    · exact hp
    · simp [hp] at h
  | jwt ss =>
    have hne : ss ≠ [] := by simpa [Authn.wf, Typ.sources] using ha
    simp only [Authn.execute] at h
    simp only [usable]
    rcases extract_cases ss r hne with ⟨v, hv, hc⟩ | ⟨e', he', hc, hk⟩
    · simp only [hv] at h
      simp only [hc]
      cases hp : w.parsesJWT v with
      | true => rfl
      | false => simp only [hp, Bool.false_eq_true, ↓reduceIte] at h; cases h
    · simp [he'] at h
  | introspection ss =>
    have hne : ss ≠ [] := by simpa [Authn.wf, Typ.sources] using ha
    simp only [Authn.execute] at h
    simp only [usable]
    rcases extract_cases ss r hne with ⟨v, hv, hc⟩ | ⟨e', he', hc, hk⟩
    · simp [hc]
    · simp [he'] at h
  | generic ss =>
    have hne : ss ≠ [] := by simpa [Authn.wf, Typ.sources] using ha
    simp only [Authn.execute] at h
    simp only [usable]
    rcases extract_cases ss r hne with ⟨v, hv, hc⟩ | ⟨e', he', hc, hk⟩
    · simp [hc]
    · simp [he'] at h

/-! ## the loop of the composite -/

/-- what one step contributes when it is the one that ends the loop -/
def Step.result (s : Step) : Result :=
  match s.out with
  | .ok sub => .subject sub
  | .error e => .failure e

theorem consulted_le (ss : List Step) : consulted ss ≤ ss.length := by
  induction ss with
  | nil => simp [consulted]
  | cons s ss ih => simp only [consulted, List.length_cons]; split <;> omega

theorem consulted_pos (ss : List Step) (h : ss ≠ []) : 0 < consulted ss := by
  cases ss with
  | nil => exact absurd rfl h
  | cons s ss => simp only [consulted]; split <;> omega

/-- the step with index `k` is executed iff every earlier step failed and let the loop go on -/
theorem lt_consulted_iff (ss : List Step) (k : Nat) :
    k < consulted ss ↔ k < ss.length ∧ ∀ j, j < k → ∀ s, ss[j]? = some s → s.goesOn = true := by
  induction ss generalizing k with
  | nil => simp [consulted]
  | cons s ss ih =>
    cases k with
    | zero =>
      have := consulted_pos (s :: ss) (by simp)
      simp [this]
    | succ k =>
      simp only [consulted, List.length_cons]
      by_cases hg : s.goesOn = true
      · simp only [hg, ↓reduceIte, Nat.add_lt_add_iff_right, ih k]
        constructor
        · rintro ⟨h1, h2⟩
          refine ⟨h1, fun j hj t ht => ?_⟩
          cases j with
          | zero => simp at ht; subst ht; exact hg
          | succ j => exact h2 j (by omega) t (by simpa using ht)
        · rintro ⟨h1, h2⟩
          exact ⟨h1, fun j hj t ht => h2 (j + 1) (by omega) t (by simpa using ht)⟩
      · simp only [hg, Bool.false_eq_true, ↓reduceIte, Nat.add_lt_add_iff_right]
        constructor
        · intro h; omega
        · rintro ⟨_, h2⟩
          exact absurd (h2 0 (by omega) s (by simp)) hg

theorem compositeFrom_eq (ss : List Step) (last : Result) :
    compositeFrom ss last =
      match ss.find? (fun s => !s.goesOn) with
      | some s => s.result
      | none =>
        match ss.getLast? with
        | some s => s.result
        | none => last := by
  induction ss generalizing last with
  | nil => simp [compositeFrom]
  | cons s ss ih =>
    simp only [compositeFrom, List.find?_cons]
    cases ho : s.out with
    | ok sub =>
      have hgo : s.goesOn = false := by simp [Step.goesOn, ho]
      simp [hgo, Step.result, ho]
    | error e =>
      simp only
      by_cases hg : (e.is .argument || s.fallback) = true
      · have hgo : s.goesOn = true := by simp only [Step.goesOn, ho]; exact hg
        simp only [hg, ↓reduceIte, hgo, Bool.not_true, ih]
        cases hf : ss.find? (fun s => !s.goesOn) with
        | some t => rfl
        | none =>
          simp only
          cases ss with
          | nil => simp [Step.result, ho]
          | cons t ts =>
            cases hl : (t :: ts).getLast? with
            | none => simp at hl
            | some x => simp [List.getLast?_cons_cons, hl]
      · have hgo : s.goesOn = false := by simp only [Step.goesOn, ho]; simpa using hg
        simp [hg, hgo, Step.result, ho]

theorem consulted_eq (ss : List Step) :
    consulted ss = min ((ss.takeWhile (·.goesOn)).length + 1) ss.length := by
  induction ss with
  | nil => simp [consulted]
  | cons s ss ih =>
    simp only [consulted, List.takeWhile_cons, List.length_cons]
    by_cases hg : s.goesOn = true
    · simp only [hg, ↓reduceIte, ih, List.length_cons]; omega
    · simp only [hg, Bool.false_eq_true, ↓reduceIte, List.length_nil]; omega

/-- a step that ends the loop: everything after it is irrelevant -/
theorem composite_decisive (pre post : List Step) (s : Step) (hpre : ∀ p ∈ pre, p.goesOn = true)
    (hs : s.goesOn = false) :
    composite (pre ++ s :: post) = s.result ∧ consulted (pre ++ s :: post) = pre.length + 1 := by
  constructor
  · simp only [composite, compositeFrom_eq]
    have : (pre ++ s :: post).find? (fun s => !s.goesOn) = some s := by
      rw [List.find?_append]
      have h1 : pre.find? (fun s => !s.goesOn) = none := by
        simp only [List.find?_eq_none, Bool.not_eq_true', Bool.not_eq_false]
        exact hpre
      simp [h1, hs]
    simp [this]
  · rw [consulted_eq]
    have h1 : (pre ++ s :: post).takeWhile (·.goesOn) = pre := by
      rw [List.takeWhile_append_of_pos hpre]
      simp [hs]
    simp only [h1, List.length_append, List.length_cons]; omega

/-! ## chains of authenticators -/

theorem find?_congr' {α : Type} {p q : α → Bool} (l : List α) (h : ∀ a ∈ l, p a = q a) :
    l.find? p = l.find? q := by
  induction l with
  | nil => rfl
  | cons a as ih =>
    simp only [List.find?_cons, h a (by simp)]
    rw [ih (fun b hb => h b (by simp [hb]))]

/-- the loop goes on after an authenticator exactly if the specification lets the next one be consulted -/
theorem step_goesOn (w : World) (r : Req) (a : Authn) (hw : w.wf = true) (ha : a.wf = true) :
    (a.step w r).goesOn = passesOn w r a := by
  simp only [Authn.step, Step.goesOn, passesOn, fails]
  cases h : a.execute w r with
  | ok s => simp
  | error e => simp [execute_error_argument w a r e hw ha h]

theorem step_result (w : World) (r : Req) (a : Authn) : (a.step w r).result = resultOf w r a := by
  simp only [Authn.step, Step.result, resultOf]
  cases a.execute w r <;> rfl

theorem map_goesOn (w : World) (r : Req) (chain : List Authn) (hw : w.wf = true)
    (hc : chain.all Authn.wf = true) :
    ∀ a ∈ chain, (a.step w r).goesOn = passesOn w r a := by
  intro a ha
  exact step_goesOn w r a hw (List.all_eq_true.1 hc a ha)

/-- the model coincides with the reference semantics of the specification -/
theorem run_eq_authenticate (w : World) (r : Req) (chain : List Authn) (hw : w.wf = true)
    (hc : chain.all Authn.wf = true) :
    run w r chain = authenticate w r chain ∧ runConsulted w r chain = Spec.consulted w r chain := by
  have hg := map_goesOn w r chain hw hc
  constructor
  · simp only [run, composite, compositeFrom_eq, authenticate, List.find?_map, List.getLast?_map]
    have hf : chain.find? ((fun s => !s.goesOn) ∘ Authn.step w r) = chain.find? (decisive w r) := by
      apply find?_congr'
      intro a ha
      simp [decisive, hg a ha]
    rw [hf]
    cases chain.find? (decisive w r) with
    | some a => simp [step_result]
    | none =>
      cases chain.getLast? with
      | some a => simp [step_result]
      | none => simp
  · simp only [runConsulted, consulted_eq, Spec.consulted, List.length_map]
    have ht : ((chain.map (Authn.step w r)).takeWhile (·.goesOn)).length =
        (chain.takeWhile (passesOn w r)).length := by
      clear hc
      induction chain with
      | nil => simp
      | cons a as ih =>
        have h1 := hg a (by simp)
        simp only [List.map_cons, List.takeWhile_cons, h1]
        by_cases hp : passesOn w r a = true
        · simp only [hp, ↓reduceIte, List.length_cons]
          rw [ih (fun b hb => hg b (by simp [hb]))]
        · simp [hp]
    rw [ht]

theorem compositeFrom_last_irrelevant (ss : List Step) (h : ss ≠ []) (l₁ l₂ : Result) :
    compositeFrom ss l₁ = compositeFrom ss l₂ := by
  simp only [compositeFrom_eq]
  cases ss.find? (fun s => !s.goesOn) with
  | some s => rfl
  | none =>
    cases hl : ss.getLast? with
    | none => simp at hl; exact absurd hl h
    | some x => rfl

theorem answer_trace_cons (w : World) (r : Req) (a : Authn) (as : List Authn) :
    (answer w r (a :: as)).trace =
      (a.id, obsOf (a.execute w r)) :: (if (a.step w r).goesOn then (answer w r as).trace else []) := by
  simp only [answer, runConsulted, List.map_cons, consulted]
  by_cases hg : (a.step w r).goesOn = true
  · simp [hg, List.take_succ_cons]
  · simp [hg]

theorem answer_final_cons (w : World) (r : Req) (a : Authn) (as : List Authn) :
    (answer w r (a :: as)).final =
      if (a.step w r).goesOn = true ∧ as ≠ [] then (answer w r as).final else obsOfResult (resultOf w r a) := by
  simp only [answer, run, List.map_cons, composite, compositeFrom, resultOf]
  cases hx : a.execute w r with
  | ok s =>
    have hg' : ({ out := Except.ok s, fallback := a.fallback } : Step).goesOn = false := by
      simp [Step.goesOn]
    simp [hg', Authn.step, hx]
  | error e =>
    by_cases hg : (a.step w r).goesOn = true
    · have hfb : (e.is .argument || a.fallback) = true := by
        simpa [Authn.step, Step.goesOn, hx] using hg
      simp only [Authn.step, hx, hfb, ↓reduceIte]
      cases as with
      | nil => simp [compositeFrom]
      | cons b bs =>
        have hg' : ({ out := Except.error e, fallback := a.fallback } : Step).goesOn = true := by
          simpa [Authn.step, hx] using hg
        rw [compositeFrom_last_irrelevant _ (by simp) (.failure e) .nothing]
        simp [hg']
    · have hfb : (e.is .argument || a.fallback) = false := by
        simpa [Authn.step, Step.goesOn, hx] using hg
      have hg' : ({ out := Except.error e, fallback := a.fallback } : Step).goesOn = false := by
        simpa [Authn.step, hx] using hg
      simp [Authn.step, hx, hfb, hg']

theorem answer_trace_ne_nil (w : World) (r : Req) (chain : List Authn) (h : chain ≠ []) :
    (answer w r chain).trace ≠ [] := by
  cases chain with
  | nil => exact absurd rfl h
  | cons a as => simp [answer_trace_cons]

@[simp] theorem sameOutcome_obsOf (x : Except Err String) : sameOutcome x (obsOf x) = true := by
  cases x <;> simp [sameOutcome, obsOf]

/-- the model's own answer satisfies the property as `judge` states it -/
theorem judge_answer (w : World) (r : Req) (chain : List Authn) (hw : w.wf = true)
    (hc : chain.all Authn.wf = true) :
    judge w r chain (answer w r chain).trace (answer w r chain).final = true := by
  induction chain with
  | nil => simp [answer, judge, run, runConsulted, composite, compositeFrom, consulted, obsOfResult]
  | cons a as ih =>
    have ha : a.wf = true := by simp only [List.all_cons, Bool.and_eq_true] at hc; exact hc.1
    have has : as.all Authn.wf = true := by simp only [List.all_cons, Bool.and_eq_true] at hc; exact hc.2
    have hgo := step_goesOn w r a hw ha
    have ih := ih has
    rw [answer_trace_cons, answer_final_cons]
    cases hx : a.execute w r with
    | ok s =>
      have hg : (a.step w r).goesOn = false := by simp [Authn.step, Step.goesOn, hx]
      simp [hg, judge, obsOf, obsOfResult, resultOf, hx, sameOutcome]
    | error e =>
      by_cases hp : passesOn w r a = true
      · have hg : (a.step w r).goesOn = true := by rw [hgo]; exact hp
        have hpo : (!usable w a r || a.fallback) = true := by
          simp only [passesOn, Bool.and_eq_true] at hp; exact hp.2
        cases as with
        | nil => simp [hg, judge, answer, obsOf, obsOfResult, resultOf, hx, sameOutcome]
        | cons b bs =>
          have hne := answer_trace_ne_nil w r (b :: bs) (by simp)
          simp only [hg, ↓reduceIte, ne_eq, reduceCtorEq, not_false_eq_true, and_self, obsOf]
          cases ht : (answer w r (b :: bs)).trace with
          | nil => exact absurd ht hne
          | cons x xs =>
            rw [ht] at ih
            have hso : sameOutcome (a.execute w r) (Obs.err e.kinds) = true := by rw [hx]; rfl
            rw [judge]
            simp only [BEq.rfl, Bool.true_and, hpo, hso]
            exact ih
      · have hg : (a.step w r).goesOn = false := by rw [hgo]; simpa using hp
        have hdec : (usable w a r && !a.fallback) = true := by
          simp only [passesOn, fails, hx, Bool.true_and, Bool.not_eq_true] at hp
          cases hu : usable w a r <;> cases hf : a.fallback <;> simp_all
        simp [hg, judge, obsOf, obsOfResult, resultOf, hx, hdec, sameOutcome]

/-! ## which decoder reads the body: the media type -/

theorem hasInfix_iff (l sub : List Char) : hasInfix l sub = true ↔ sub <:+: l := by
  induction l with
  | nil => simp [hasInfix]
  | cons c cs ih =>
    simp only [hasInfix, Bool.or_eq_true, ih, List.isPrefixOf_iff_prefix, List.infix_cons_iff]

theorem contains_iff (ct sub : String) : contains ct sub = true ↔ ∃ p s : String, ct = p ++ sub ++ s := by
  simp only [contains, hasInfix_iff]
  constructor
  · rintro ⟨p, s, h⟩
    refine ⟨String.ofList p, String.ofList s, ?_⟩
    apply String.toList_injective
    simp [String.toList_append, h]
  · rintro ⟨p, s, rfl⟩
    exact ⟨p.toList, s.toList, by simp [String.toList_append]⟩

theorem decoderFor_json_iff (ct : String) : decoderFor ct = some .json ↔ contains ct "json" = true := by
  unfold decoderFor
  by_cases h1 : contains ct "json" = true
  · simp [h1]
  · by_cases h2 : contains ct "application/x-www-form-urlencoded" = true
    · simp [h1, h2]
    · by_cases h3 : contains ct "yaml" = true <;> simp [h1, h2, h3]

theorem decoderFor_form_iff (ct : String) :
    decoderFor ct = some .form ↔
      contains ct "json" = false ∧ contains ct "application/x-www-form-urlencoded" = true := by
  unfold decoderFor
  by_cases h1 : contains ct "json" = true
  · simp [h1]
  · by_cases h2 : contains ct "application/x-www-form-urlencoded" = true
    · simp [h1, h2]
    · by_cases h3 : contains ct "yaml" = true <;> simp [h1, h2, h3]

theorem decoderFor_yaml_iff (ct : String) :
    decoderFor ct = some .yaml ↔
      contains ct "json" = false ∧ contains ct "application/x-www-form-urlencoded" = false ∧
        contains ct "yaml" = true := by
  unfold decoderFor
  by_cases h1 : contains ct "json" = true
  · simp [h1]
  · by_cases h2 : contains ct "application/x-www-form-urlencoded" = true
    · simp [h1, h2]
    · by_cases h3 : contains ct "yaml" = true <;> simp [h1, h2, h3]

theorem decoderFor_none_iff (ct : String) :
    decoderFor ct = none ↔
      contains ct "json" = false ∧ contains ct "application/x-www-form-urlencoded" = false ∧
        contains ct "yaml" = false := by
  unfold decoderFor
  by_cases h1 : contains ct "json" = true
  · simp [h1]
  · by_cases h2 : contains ct "application/x-www-form-urlencoded" = true
    · simp [h1, h2]
    · by_cases h3 : contains ct "yaml" = true <;> simp [h1, h2, h3]

/-- the parameter of the decoded body -/
theorem bodyParam_of_decoded (r : Req) (f : Format) (m : List (String × BVal)) (name : String)
    (hd : decoderFor (r.header "Content-Type") = some f) (hp : r.payload.readBy f = some m) :
    r.bodyParam name = (m.find? (fun p => p.1 == name)).map (·.2) := by
  simp [Req.bodyParam, Req.body, hd, hp]

theorem bodyParam_no_decoder (r : Req) (name : String) (hd : decoderFor (r.header "Content-Type") = none) :
    r.bodyParam name = none := by
  simp [Req.bodyParam, Req.body, hd]

/-! ## the endpoint's own authentication -/

/-- whatever the authorization server answers to heimdall's token request — any status, any error code, any body —
the error of the authentication strategy is no argument error -/
theorem tokenAnswer_failure_arg_free (a : TokenAnswer) (e : Err) (h : a.failure = some e) :
    e.is .argument = false := by
  cases a with
  | badRequest c => cases c <;> simp [TokenAnswer.failure] at h <;> subst h <;> simp
  | _ => simp [TokenAnswer.failure] at h <;> subst h <;> simp

theorem endpointAuth_failure_arg_free (a : EndpointAuth) (e : Err) (h : a.failure = some e) :
    e.is .argument = false := by
  cases a with
  | clientCredentials t => exact tokenAnswer_failure_arg_free t e h
  | _ => simp [EndpointAuth.failure] at h
