import HeimdallModel.Lemmas.Factory
import HeimdallModel.Model.FactoryOverride
/-!
# Lemmas about typed overrides (C14): the typed catalogue as an abstract catalogue, the memo
-/
namespace Heimdall.Factory

theorem catalogue_isSome (T : Typed) (k : Kind) (id : String) :
    (T.catalogue k id).isSome = (T.mech k id).isSome := by
  unfold Typed.catalogue
  cases T.mech k id <;> rfl

/-- a tag the typed catalogue accepts names a value (or a payload of the older streams) `WithConfig` accepts -/
theorem catalogue_contains (T : Typed) (k : Kind) (id : String) (acc : List Nat)
    (h : T.catalogue k id = some acc) (n : Nat) (hn : acc.contains n = true) :
    (T.variant k id (some n)).isSome = true := by
  unfold Typed.catalogue at h
  cases hm : T.mech k id with
  | none => simp [hm] at h
  | some m =>
    simp only [hm, Option.map_some, Option.some.injEq] at h
    subst h
    have := List.contains_iff_mem.mp hn
    exact (List.mem_filter.mp this).2

/-- a tag whose value `WithConfig` refuses is not accepted -/
theorem catalogue_refuses (T : Typed) (k : Kind) (id : String) (acc : List Nat)
    (h : T.catalogue k id = some acc) (n : Nat) (hv : T.variant k id (some n) = none) :
    acc.contains n = false := by
  cases hc : acc.contains n with
  | false => rfl
  | true => have := catalogue_contains T k id acc h n hc; simp [hv] at this

/-- a usable step of `execute` gets a mechanism built from its own override -/
theorem step_variant_of_ok (T : Typed) (s : Step) (k : Kind) (id : String) (ht : s.target = some (k, id))
    (hk : s.known T.catalogue = true) (ho : s.overrideOk T.catalogue = true) :
    (T.variant k id s.config).isSome = true := by
  unfold Step.known at hk
  simp only [ht] at hk
  cases hc : T.catalogue k id with
  | none => simp [hc] at hk
  | some acc =>
    cases hcfg : s.config with
    | none =>
      have hm : (T.mech k id).isSome = true := by rw [← catalogue_isSome, hc]; rfl
      unfold Typed.variant
      cases hmm : T.mech k id with
      | none => simp [hmm] at hm
      | some m => rfl
    | some n =>
      unfold Step.overrideOk at ho
      simp only [ht, hcfg, hc] at ho
      exact catalogue_contains T k id acc hc n ho

/-- … and so does a usable step of `on_error` -/
theorem ehStep_variant_of_ok (T : Typed) (s : Step) (id : String) (hi : s.errorHandler = some id)
    (ho : s.ehOk T.catalogue = true) : (T.variant .eh id s.config).isSome = true := by
  unfold Step.ehOk at ho
  simp only [hi, Bool.and_eq_true] at ho
  cases hc : T.catalogue .eh id with
  | none => simp [hc] at ho
  | some acc =>
    cases hcfg : s.config with
    | none =>
      have hm : (T.mech .eh id).isSome = true := by rw [← catalogue_isSome, hc]; rfl
      unfold Typed.variant
      cases hmm : T.mech .eh id with
      | none => simp [hmm] at hm
      | some m => rfl
    | some n =>
      simp only [hc, hcfg] at ho
      exact catalogue_contains T .eh id acc hc n ho.2

/-- a step of `execute` whose mechanism does not exist or refuses the step's own override is not usable -/
theorem step_not_ok_of_no_variant (T : Typed) (s : Step) (k : Kind) (id : String) (ht : s.target = some (k, id))
    (hv : T.variant k id s.config = none) : s.known T.catalogue = false ∨ s.overrideOk T.catalogue = false := by
  cases hk : s.known T.catalogue with
  | false => exact Or.inl rfl
  | true =>
    cases ho : s.overrideOk T.catalogue with
    | false => exact Or.inr rfl
    | true => have := step_variant_of_ok T s k id ht hk ho; simp [hv] at this

theorem ehStep_not_ok_of_no_variant (T : Typed) (s : Step) (id : String) (hi : s.errorHandler = some id)
    (hv : T.variant .eh id s.config = none) : s.ehOk T.catalogue = false := by
  cases ho : s.ehOk T.catalogue with
  | false => rfl
  | true => have := ehStep_variant_of_ok T s id hi ho; simp [hv] at this

/-! ## The memo -/

/-- every entry of the memo is what `Create…` gives for some value with that key -/
def MemoOk (T : Typed) (key : Val → Text) (memo : List (MemoKey × Shown)) : Prop :=
  ∀ k id t s, memoFind memo (k, id, t) = some s → ∃ v, key v = t ∧ T.create k id (some v) = some s

theorem memoOk_nil (T : Typed) (key : Val → Text) : MemoOk T key [] := by
  intro k id t s h
  simp [memoFind] at h

theorem memoCreate_spec (T : Typed) (key : Val → Text) (hinj : ∀ a b, key a = key b → a = b)
    (memo : List (MemoKey × Shown)) (hm : MemoOk T key memo) (r : Request) :
    (T.memoCreate key memo r).2 = T.create r.1 r.2.1 r.2.2 ∧ MemoOk T key (T.memoCreate key memo r).1 := by
  obtain ⟨k, id, conf⟩ := r
  unfold Typed.memoCreate Typed.create
  cases hmech : T.mech k id with
  | none => exact ⟨rfl, hm⟩
  | some m =>
    cases conf with
    | none => exact ⟨rfl, hm⟩
    | some v =>
      simp only
      cases hf : memoFind memo (k, id, key v) with
      | some s =>
        obtain ⟨v', hkey, hc⟩ := hm k id (key v) s hf
        have : v' = v := hinj v' v hkey
        subst this
        unfold Typed.create at hc
        simp only [hmech] at hc
        exact ⟨hc.symm, hm⟩
      | none =>
        cases ho : overlay T.cel m.type m.proto v with
        | none => exact ⟨rfl, hm⟩
        | some s =>
          refine ⟨rfl, ?_⟩
          intro k' id' t' s' h'
          unfold memoFind at h'
          split at h'
          · rename_i heq
            simp only [Option.some.injEq] at h'
            simp only [Prod.mk.injEq] at heq
            obtain ⟨rfl, rfl, rfl⟩ := heq
            subst h'
            exact ⟨v, rfl, by unfold Typed.create; simp [hmech, ho]⟩
          · exact hm k' id' t' s' h'

/-- a memo keyed by an injective rendering of the override is invisible -/
theorem memoAll_eq_createAll (T : Typed) (key : Val → Text) (hinj : ∀ a b, key a = key b → a = b)
    (h : List Request) : ∀ memo, MemoOk T key memo → T.memoAll key memo h = T.createAll h := by
  induction h with
  | nil => intro _ _; rfl
  | cons r rs ih =>
    intro memo hm
    obtain ⟨h1, h2⟩ := memoCreate_spec T key hinj memo hm r
    simp only [Typed.memoAll, Typed.createAll, List.map_cons]
    rw [h1]
    congr 1
    exact ih _ h2

end Heimdall.Factory
