import HeimdallModel.Spec.ConfigYaml
/-! Helper lemmas for the dialect part of property C20 (the reading of a plain scalar). Core Lean only. -/
namespace Heimdall.Config

/-- the numeric branch of `resolve` yields a timestamp, an integer, a float or the text itself -/
theorem numericReading_cases (s : List Char) :
    numericReading s = .time ∨ (∃ n, numericReading s = .int n) ∨ (∃ r, numericReading s = .float r)
      ∨ numericReading s = .str s := by
  unfold numericReading
  split
  · exact Or.inl rfl
  · dsimp only
    split
    · exact Or.inr (Or.inl ⟨_, rfl⟩)
    · split
      · exact Or.inr (Or.inl ⟨_, rfl⟩)
      · split
        · exact Or.inr (Or.inr (Or.inl ⟨_, rfl⟩))
        · split
          · exact Or.inr (Or.inl ⟨_, rfl⟩)
          · exact Or.inr (Or.inr (Or.inr rfl))

theorem numericReading_ne_bool (s : List Char) (b : Bool) : numericReading s ≠ .bool b := by
  rcases numericReading_cases s with h | ⟨n, h⟩ | ⟨r, h⟩ | h <;> rw [h] <;> simp

theorem numericReading_ne_null (s : List Char) : numericReading s ≠ .null := by
  rcases numericReading_cases s with h | ⟨n, h⟩ | ⟨r, h⟩ | h <;> rw [h] <;> simp

/-- a word of `resolveMap` that is a boolean is one of the six spellings -/
theorem wordReading_bool {s : List Char} {b : Bool} (h : wordReading? s = some (.bool b)) :
    (b = true ∧ s ∈ trueWords) ∨ (b = false ∧ s ∈ falseWords) := by
  unfold wordReading? at h
  split at h
  · simp at h
  · split at h
    · next ht =>
      simp only [Option.some.injEq, Scalar.bool.injEq] at h
      exact Or.inl ⟨h.symm, List.contains_iff_mem.mp ht⟩
    · split at h
      · next hf =>
        simp only [Option.some.injEq, Scalar.bool.injEq] at h
        exact Or.inr ⟨h.symm, List.contains_iff_mem.mp hf⟩
      · split at h
        · simp at h
        · split at h
          · simp at h
          · split at h
            · simp at h
            · simp at h

/-- a word of `resolveMap` that is nil is one of the five spellings -/
theorem wordReading_null {s : List Char} (h : wordReading? s = some .null) : s ∈ nullWords := by
  unfold wordReading? at h
  split at h
  · next hn => exact List.contains_iff_mem.mp hn
  · repeat' split at h
    all_goals simp at h

/-! ## references to environment variables (`substitute`) and quoted texts -/

theorem isNameChar_close : isNameChar '}' = false := by decide

/-- text without `$` is copied -/
theorem substGo_text_append (vs : Vars) (pre rest : List Char) (h : noDollar pre = true) :
    substGo vs .text (pre ++ rest) = (substGo vs .text rest).map (pre ++ ·) := by
  induction pre with
  | nil => simp
  | cons c r ih =>
    simp only [noDollar, List.all_cons, Bool.and_eq_true, bne_iff_ne, ne_eq] at h
    have hc : (c == '$') = false := by simpa using h.1
    have ih' := ih (by simpa [noDollar] using h.2)
    simp only [List.cons_append, substGo, hc, ih', Bool.false_eq_true, if_false]
    cases substGo vs .text rest <;> simp

/-- the scanner collects the characters of a name -/
theorem substGo_name (vs : Vars) (n acc post : List Char) (h : n.all isNameChar = true) :
    substGo vs (.name acc) (n ++ '}' :: post) = substGo vs (.name (n.reverse ++ acc)) ('}' :: post) := by
  induction n generalizing acc with
  | nil => simp
  | cons c r ih =>
    simp only [List.all_cons, Bool.and_eq_true] at h
    simp [substGo, h.1, ih _ h.2]

theorem substGo_close (vs : Vars) (acc post : List Char) :
    substGo vs (.name acc) ('}' :: post)
      = if nameOk acc.reverse then (substGo vs .text post).map (vs.contents acc.reverse ++ ·) else none := by
  simp [substGo, isNameChar_close]

theorem nameOk_all {n : List Char} (h : nameOk n = true) : n.all isNameChar = true := by
  cases n with
  | nil => simp [nameOk] at h
  | cons c r =>
    simp only [nameOk, Bool.and_eq_true] at h
    simp [h.1.2, h.2]

/-- a reference is replaced by the contents of the variable, whatever stands around it -/
theorem substitute_reference (vs : Vars) (pre n post : List Char) (hp : noDollar pre = true) (hn : nameOk n = true) :
    substitute vs (pre ++ (plainRef n ++ post))
      = (substitute vs post).map (fun s => pre ++ (vs.contents n ++ s)) := by
  unfold substitute plainRef
  rw [substGo_text_append vs pre _ hp]
  have h1 : substGo vs .text ('$' :: '{' :: (n ++ ['}']) ++ post) = substGo vs (.name []) (n ++ '}' :: post) := by
    simp [substGo]
  rw [h1, substGo_name vs n [] post (nameOk_all hn), substGo_close]
  simp only [List.append_nil, List.reverse_reverse, hn, if_true, Option.map_map]
  rfl

theorem substitute_noDollar (vs : Vars) (t : List Char) (h : noDollar t = true) : substitute vs t = some t := by
  have := substGo_text_append vs t [] h
  simpa [substitute, substGo] using this

/-- a double-quoted one-line text without inner quotes or escapes is the string between the quotes, whatever it looks
    like (`"0815"`, `"true"`, `"null"`) -/
theorem readText_dquoted (v : List Char) (h : dquoteSafe v = true) : readText (dquoted v) = some (.str v) := by
  have ht : trimSpaces (dquoted v) = dquoted v := by
    simp [trimSpaces, dquoted]
  unfold readText
  simp only [ht]
  simp only [dquoted, List.reverse_append, List.reverse_cons, List.reverse_nil, List.nil_append, List.singleton_append]
  simp only [dquoteSafe] at h
  simp [List.all_reverse, h]

theorem readText_squoted (v : List Char) (h : squoteSafe v = true) : readText (squoted v) = some (.str v) := by
  have ht : trimSpaces (squoted v) = squoted v := by
    simp [trimSpaces, squoted]
  unfold readText
  simp only [ht]
  simp only [squoted, List.reverse_append, List.reverse_cons, List.reverse_nil, List.nil_append, List.singleton_append]
  simp only [squoteSafe] at h
  simp [List.all_reverse, h]

end Heimdall.Config
