import HeimdallModel.Spec.ConfigYaml
/-! Helper lemmas for the dialect part of property C20 (the reading of a plain scalar). Core Lean only. -/
namespace Heimdall.Config

/-- the numeric branch of `resolve` yields a timestamp, an integer, a float or the text itself -/
theorem numericReading_cases (s : List Char) :
    numericReading s = .time ∨ (∃ n, numericReading s = .int n) ∨ (∃ r, numericReading s = .float r)
      ∨ numericReading s = .str s := by
  unfold numericReading
  split
  · exact Or.inl rfl
  · dsimp only
    split
    · exact Or.inr (Or.inl ⟨_, rfl⟩)
    · split
      · exact Or.inr (Or.inl ⟨_, rfl⟩)
      · split
        · exact Or.inr (Or.inr (Or.inl ⟨_, rfl⟩))
        · split
          · exact Or.inr (Or.inl ⟨_, rfl⟩)
          · exact Or.inr (Or.inr (Or.inr rfl))

theorem numericReading_ne_bool (s : List Char) (b : Bool) : numericReading s ≠ .bool b := by
  rcases numericReading_cases s with h | ⟨n, h⟩ | ⟨r, h⟩ | h <;> rw [h] <;> simp

theorem numericReading_ne_null (s : List Char) : numericReading s ≠ .null := by
  rcases numericReading_cases s with h | ⟨n, h⟩ | ⟨r, h⟩ | h <;> rw [h] <;> simp

/-- a word of `resolveMap` that is a boolean is one of the six spellings -/
theorem wordReading_bool {s : List Char} {b : Bool} (h : wordReading? s = some (.bool b)) :
    (b = true ∧ s ∈ trueWords) ∨ (b = false ∧ s ∈ falseWords) := by
  unfold wordReading? at h
  split at h
  · simp at h
  · split at h
    · next ht =>
      simp only [Option.some.injEq, Scalar.bool.injEq] at h
      exact Or.inl ⟨h.symm, List.contains_iff_mem.mp ht⟩
    · split at h
      · next hf =>
        simp only [Option.some.injEq, Scalar.bool.injEq] at h
        exact Or.inr ⟨h.symm, List.contains_iff_mem.mp hf⟩
      · split at h
        · simp at h
        · split at h
          · simp at h
          · split at h
            · simp at h
            · simp at h

/-- a word of `resolveMap` that is nil is one of the five spellings -/
theorem wordReading_null {s : List Char} (h : wordReading? s = some .null) : s ∈ nullWords := by
  unfold wordReading? at h
  split at h
  · next hn => exact List.contains_iff_mem.mp hn
  · repeat' split at h
    all_goals simp at h

end Heimdall.Config
