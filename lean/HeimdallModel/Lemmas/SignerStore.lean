import HeimdallModel.Spec.Signer
/-! Helper lemmas about key stores, `load` and verification against the published list (C16) -/
namespace Heimdall.Signer

variable {α : Type}

/-! ## `verifyAndBuildKeyStore` -/

theorem buildStore_kids (raw : List RawEntry) (known : List String) (es : List Entry)
    (h : buildStore raw known = some es) :
    (es.map (·.kid)).Nodup ∧ ∀ k ∈ es.map (·.kid), k ∉ known := by
  induction raw generalizing known es with
  | nil =>
    simp [buildStore] at h
    subst h
    simp
  | cons e rest ih =>
    simp only [buildStore] at h
    split at h
    · cases h
    · split at h
      · cases h
      · rename_i hk
        cases hr : buildStore rest (kidOf e :: known) with
        | none => simp [hr] at h
        | some es' =>
          simp [hr] at h
          subst h
          have ⟨hn, hm⟩ := ih _ _ hr
          constructor
          · simp only [List.map_cons, List.nodup_cons]
            refine ⟨?_, hn⟩
            intro hmem
            exact hm _ hmem (List.mem_cons_self ..)
          · intro k hk'
            simp only [List.map_cons, List.mem_cons] at hk'
            rcases hk' with rfl | hk'
            · exact hk
            · intro hkn
              exact hm _ hk' (List.mem_cons_of_mem _ hkn)

/-! ## `Entry.JWK` over all entries -/

theorem jwk_fields (e : Entry) (j : Jwk) (h : e.jwk = some j) :
    j.kid = e.kid ∧ j.pub = e.key.pub ∧ j.use = "sig" ∧ j.certs = e.chain ∧ joseAlg e.key.pub = some j.alg := by
  unfold Entry.jwk at h
  cases ha : joseAlg e.key.pub with
  | none => simp [ha] at h
  | some a =>
    simp [ha] at h
    subst h
    simp

theorem allJwks_spec (es : List Entry) (js : List Jwk) (h : allJwks es = some js) :
    js.map (·.kid) = es.map (·.kid) ∧ (∀ e ∈ es, ∀ j, e.jwk = some j → j ∈ js) ∧
    ∀ j ∈ js, j.use = "sig" ∧ joseAlg j.pub = some j.alg := by
  induction es generalizing js with
  | nil =>
    simp [allJwks] at h
    subst h
    simp
  | cons e rest ih =>
    simp only [allJwks] at h
    cases hj : e.jwk with
    | none => simp [hj] at h
    | some j =>
      cases hr : allJwks rest with
      | none => simp [hj, hr] at h
      | some js' =>
        simp [hj, hr] at h
        subst h
        have ⟨h1, h2, h3⟩ := ih _ hr
        have hf := jwk_fields e j hj
        refine ⟨by simp [h1, hf.1], ?_, ?_⟩
        · intro e' he' j' hj'
          simp only [List.mem_cons] at he'
          rcases he' with rfl | he'
          · rw [hj] at hj'; cases hj'; exact List.mem_cons_self ..
          · exact List.mem_cons_of_mem _ (h2 e' he' j' hj')
        · intro j' hj'
          simp only [List.mem_cons] at hj'
          rcases hj' with rfl | hj'
          · exact ⟨hf.2.2.1, by rw [hf.2.1]; exact hf.2.2.2.2⟩
          · exact h3 j' hj'

theorem selectEntry_mem (keyID : String) (es : List Entry) (e : Entry) (h : selectEntry keyID es = some e) :
    e ∈ es := by
  unfold selectEntry at h
  split at h
  · exact List.mem_of_head? h
  · exact List.mem_of_find?_eq_some h

/-- `load` delivers a consistent generation -/
theorem load_consistent (keyID : String) (raw : List RawEntry) (st : State) (h : load keyID raw = some st) :
    Consistent st := by
  unfold load at h
  cases hb : buildStore raw [] with
  | none => simp [hb] at h
  | some es =>
    simp only [hb] at h
    cases hs : selectEntry keyID es with
    | none => simp [hs] at h
    | some kse =>
      simp only [hs] at h
      split at h
      · cases h
      split at h
      · cases h
      · cases ha : allJwks es with
        | none => simp [ha] at h
        | some keys =>
          cases hj : kse.jwk with
          | none => simp [ha, hj] at h
          | some jwk =>
            simp [ha, hj] at h
            subst h
            have ⟨h1, h2, h3⟩ := allJwks_spec es keys ha
            have hf := jwk_fields kse jwk hj
            exact {
              active_published := h2 kse (selectEntry_mem _ _ _ hs) jwk hj
              pair := hf.2.1
              kids_unique := by rw [h1]; exact (buildStore_kids raw [] es hb).1
              alg_of_key := hf.2.2.2.2
              all_sig := h3 }

/-! ## verification against a key list -/

theorem find_of_nodup {β γ : Type} [DecidableEq γ] (f : β → γ) (l : List β) (a : β) (hn : (l.map f).Nodup)
    (ha : a ∈ l) : l.find? (fun x => f x = f a) = some a := by
  induction l with
  | nil => cases ha
  | cons x rest ih =>
    simp only [List.map_cons, List.nodup_cons] at hn
    simp only [List.mem_cons] at ha
    rcases ha with rfl | ha
    · simp
    · have hne : f x ≠ f a := by
        intro e
        apply hn.1
        rw [e]
        exact List.mem_map_of_mem ha
      simp [List.find?, hne, ih hn.2 ha]

theorem verifiesWith_own (jwk : Jwk) (key : PrivKey) (i : SignIn) (custom : Claims α) (hp : jwk.pub = key.pub) :
    verifiesWith jwk (signWith jwk key i custom) = true := by
  simp [verifiesWith, signWith, hp]

theorem verifiesFirst_of_consistent (st : State) (h : Consistent st) (i : SignIn) (custom : Claims α) :
    verifiesFirst st.pubKeys (sign st i custom) = true := by
  unfold verifiesFirst
  have : (sign st i custom).kid = st.jwk.kid := rfl
  rw [this, find_of_nodup (·.kid) st.pubKeys st.jwk h.kids_unique h.active_published]
  exact verifiesWith_own _ _ _ _ h.pair

theorem verifiesAny_of_mem (ks : List Jwk) (j : Jwk) (t : Token α) (hm : j ∈ ks) (hv : verifiesWith j t = true) :
    verifiesAny ks t = true := by
  unfold verifiesAny
  exact List.any_eq_true.mpr ⟨j, hm, hv⟩

theorem find_append_none {β : Type} (p : β → Bool) (a b : List β) (h : a.find? p = none) :
    (a ++ b).find? p = b.find? p := by
  simp [List.find?_append, h]

/-- first-match verification over the concatenation of the key holders' lists -/
theorem verifiesFirst_registry (before after : List State) (st : State) (h : Consistent st) (i : SignIn)
    (custom : Claims α) (hc : NoClash before (sign st i custom)) :
    verifiesFirst (published (before ++ st :: after)) (sign st i custom) = true := by
  unfold verifiesFirst
  have hp : published (before ++ st :: after) = published before ++ (st.pubKeys ++ published after) := by
    simp [published]
  rw [hp]
  cases hf : (published before).find? (fun j => j.kid = (sign st i custom).kid) with
  | some j =>
    have : (published before ++ (st.pubKeys ++ published after)).find? (fun j => j.kid = (sign st i custom).kid)
        = some j := by
      simp [List.find?_append, hf]
    rw [this]
    have hm := List.mem_of_find?_eq_some hf
    have hk := List.find?_some hf
    exact hc j hm (by simpa using hk)
  | none =>
    rw [find_append_none _ _ _ hf]
    have hk : (sign st i custom).kid = st.jwk.kid := rfl
    have hown := find_of_nodup (·.kid) st.pubKeys st.jwk h.kids_unique h.active_published
    have : (st.pubKeys ++ published after).find? (fun j => j.kid = (sign st i custom).kid) = some st.jwk := by
      rw [hk]
      simp only [List.find?_append]
      rw [hown]
      rfl
    rw [this]
    exact verifiesWith_own _ _ _ _ h.pair

/-! ## reload histories -/

theorem reload_consistent (keyID : String) (st : State) (f : File) (h : Consistent st) :
    Consistent (reload keyID st f) := by
  unfold reload loadFile
  cases f with
  | none => simpa using h
  | some raw =>
    cases hl : load keyID raw with
    | none => simpa [hl] using h
    | some st' => simpa [hl] using load_consistent keyID raw st' hl

theorem history_consistent (keyID : String) (st : State) (hist : List File) (h : Consistent st) :
    Consistent (hist.foldl (reload keyID) st) := by
  induction hist generalizing st with
  | nil => exact h
  | cons f rest ih => exact ih _ (reload_consistent keyID st f h)

/-! ## the published list is a function of the public halves -/

def Entry.eraseSecret (e : Entry) : Entry := { e with key := { e.key with secret := 0 } }

theorem kidOf_erase (e : RawEntry) : kidOf e.eraseSecret = kidOf e := by
  cases e; rfl

theorem buildStore_erase (raw : List RawEntry) (known : List String) :
    buildStore (raw.map RawEntry.eraseSecret) known = (buildStore raw known).map (·.map Entry.eraseSecret) := by
  induction raw generalizing known with
  | nil => simp [buildStore]
  | cons e rest ih =>
    simp only [List.map_cons, buildStore, kidOf_erase]
    have h1 : e.eraseSecret.chain = e.chain := rfl
    have h2 : e.eraseSecret.chainValid = e.chainValid := rfl
    rw [h1, h2]
    split
    · rfl
    · split
      · rfl
      · rw [ih]
        cases buildStore rest (kidOf e :: known) with
        | none => rfl
        | some es => simp [Entry.eraseSecret, RawEntry.eraseSecret]

theorem jwk_erase (e : Entry) : e.eraseSecret.jwk = e.jwk := by
  simp [Entry.jwk, Entry.eraseSecret]

theorem allJwks_erase (es : List Entry) : allJwks (es.map Entry.eraseSecret) = allJwks es := by
  induction es with
  | nil => rfl
  | cons e rest ih => simp only [List.map_cons, allJwks, jwk_erase, ih]

theorem selectEntry_erase (keyID : String) (es : List Entry) :
    selectEntry keyID (es.map Entry.eraseSecret) = (selectEntry keyID es).map Entry.eraseSecret := by
  unfold selectEntry
  split
  · simp [List.head?_map]
  · induction es with
    | nil => rfl
    | cons e rest ih =>
      simp only [List.map_cons, List.find?]
      have : e.eraseSecret.kid = e.kid := rfl
      rw [this]
      split <;> simp_all

theorem all_supported_erase (es : List Entry) :
    (es.map Entry.eraseSecret).all Entry.supported = es.all Entry.supported := by
  induction es with
  | nil => rfl
  | cons e rest ih =>
    simp only [List.map_cons, List.all_cons, ih]
    rfl

theorem load_erase (keyID : String) (raw : List RawEntry) :
    (load keyID (raw.map RawEntry.eraseSecret)).map (fun st => (st.jwk, st.pubKeys)) =
    (load keyID raw).map (fun st => (st.jwk, st.pubKeys)) := by
  unfold load
  rw [buildStore_erase]
  cases buildStore raw [] with
  | none => rfl
  | some es =>
    simp only [Option.map_some, selectEntry_erase, allJwks_erase]
    cases selectEntry keyID es with
    | none => rfl
    | some kse =>
      simp only [Option.map_some, jwk_erase]
      have h1 : kse.eraseSecret.chain = kse.chain := rfl
      have h2 : kse.eraseSecret.signUsable = kse.signUsable := rfl
      rw [h1, h2, all_supported_erase]
      split
      · rfl
      split
      · rfl
      · cases allJwks es <;> cases kse.jwk <;> rfl

theorem jwkMembers_public (j : Jwk) (m : String) (hm : m ∈ jwkMembers j) : m ∉ privateMembers := by
  unfold jwkMembers at hm
  simp only [List.mem_append] at hm
  have key : m ∈ ["kty", "n", "e", "crv", "x", "y", "kid", "alg", "use", "x5c"] := by
    rcases hm with (((h | h) | h) | h) | h
    · cases hf : j.pub.family <;> simp [hf] at h <;> rcases h with h | h | h <;> simp [h]
      all_goals (try (rcases h with h | h <;> simp [h]))
    · split at h <;> simp at h; simp [h]
    · split at h <;> simp at h; simp [h]
    · split at h <;> simp at h; simp [h]
    · split at h <;> simp at h; simp [h]
  intro hp
  simp only [List.mem_cons, List.not_mem_nil, or_false] at key
  simp only [privateMembers, List.mem_cons, List.not_mem_nil, or_false] at hp
  rcases key with h | h | h | h | h | h | h | h | h | h <;> subst h <;> simp at hp



/-! ## stores `load` rejects -/

theorem buildStore_keys (raw : List RawEntry) (known : List String) (es : List Entry)
    (h : buildStore raw known = some es) : es.map (·.key) = raw.map (·.key) := by
  induction raw generalizing known es with
  | nil => simp [buildStore] at h; subst h; rfl
  | cons e rest ih =>
    simp only [buildStore] at h
    split at h
    · cases h
    · split at h
      · cases h
      · cases hr : buildStore rest (kidOf e :: known) with
        | none => simp [hr] at h
        | some es' =>
          simp [hr] at h
          subst h
          simp [ih _ _ hr]

/-- a store with a key of unsupported size is rejected whatever else it contains and whichever key is configured -/
theorem load_unsupported (keyID : String) (raw : List RawEntry) (e : RawEntry) (he : e ∈ raw)
    (hu : joseAlg e.key.pub = none) : load keyID raw = none := by
  unfold load
  cases hb : buildStore raw [] with
  | none => rfl
  | some es =>
    simp only
    cases hs : selectEntry keyID es with
    | none => rfl
    | some kse =>
      simp only
      have hk : e.key ∈ es.map (·.key) := by
        rw [buildStore_keys raw [] es hb]; exact List.mem_map_of_mem he
      obtain ⟨e', he', hke⟩ := List.mem_map.mp hk
      have : es.all Entry.supported = false := by
        apply Bool.eq_false_iff.mpr
        intro hall
        have := List.all_eq_true.mp hall e' he'
        simp [Entry.supported, hke, hu] at this
      simp [this]

/-- after the support check `JWK()` of every entry is defined -/
theorem allJwks_of_supported (es : List Entry) (h : es.all Entry.supported = true) : (allJwks es).isSome = true := by
  induction es with
  | nil => rfl
  | cons e rest ih =>
    simp only [List.all_cons, Bool.and_eq_true] at h
    have hr := ih h.2
    have he : (e.jwk).isSome = true := by
      simp only [Entry.supported] at h
      simp [Entry.jwk, h.1]
    cases hj : e.jwk with
    | none => simp [hj] at he
    | some j =>
      cases ha : allJwks rest with
      | none => simp [ha] at hr
      | some js => simp [allJwks, hj, ha]

end Heimdall.Signer
