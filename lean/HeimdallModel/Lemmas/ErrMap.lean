import HeimdallModel.Spec.ErrMap
/-! Helper lemmas for property C12 (error trees, classification, negotiation). -/
namespace Heimdall.ErrMap

/-! ### `errors.Is` / `errors.As` see exactly the leaves -/

mutual
  theorem is_iff_leaf (e : Err) (k : Kind) : e.is k = true ↔ Leaf.kind k ∈ e.leaves := by
    cases e with
    | kind k' =>
      simp only [Err.is, Err.leaves, List.mem_singleton, beq_iff_eq, Leaf.kind.injEq]
      exact eq_comm
    | redirect c t => simp [Err.is, Err.leaves]
    | foreign => simp [Err.is, Err.leaves]
    | ctxDone c => simp [Err.is, Err.leaves]
    | wrap e => simp only [Err.is, Err.leaves]; exact is_iff_leaf e k
    | join es => simp only [Err.is, Err.leaves]; exact isAny_iff_leaf es k
    | chain es => simp only [Err.is, Err.leaves]; exact isAny_iff_leaf es k
  theorem isAny_iff_leaf (es : List Err) (k : Kind) : Err.isAny es k = true ↔ Leaf.kind k ∈ Err.leavesAny es := by
    cases es with
    | nil => simp [Err.isAny, Err.leavesAny]
    | cons e es => simp [Err.isAny, Err.leavesAny, is_iff_leaf e k, isAny_iff_leaf es k]
end

mutual
  theorem asRedirect_eq (e : Err) : e.asRedirect = e.leaves.findSome? Leaf.redirect? := by
    cases e with
    | kind k => simp [Err.asRedirect, Err.leaves, Leaf.redirect?]
    | redirect c t => simp [Err.asRedirect, Err.leaves, Leaf.redirect?]
    | foreign => simp [Err.asRedirect, Err.leaves, Leaf.redirect?]
    | ctxDone c => simp [Err.asRedirect, Err.leaves, Leaf.redirect?]
    | wrap e => simp only [Err.asRedirect, Err.leaves]; exact asRedirect_eq e
    | join es => simp only [Err.asRedirect, Err.leaves]; exact asRedirectAny_eq es
    | chain es => simp only [Err.asRedirect, Err.leaves]; exact asRedirectAny_eq es
  theorem asRedirectAny_eq (es : List Err) :
      Err.asRedirectAny es = (Err.leavesAny es).findSome? Leaf.redirect? := by
    cases es with
    | nil => simp [Err.asRedirectAny, Err.leavesAny]
    | cons e es =>
      simp only [Err.asRedirectAny, Err.leavesAny, List.findSome?_append, asRedirect_eq e,
        asRedirectAny_eq es]
      cases List.findSome? Leaf.redirect? e.leaves <;> simp
end

mutual
  theorem isRedirect_eq (e : Err) : e.isRedirect = e.asRedirect.isSome := by
    cases e with
    | kind k => simp [Err.asRedirect, Err.isRedirect]
    | redirect c t => simp [Err.asRedirect, Err.isRedirect]
    | foreign => simp [Err.asRedirect, Err.isRedirect]
    | ctxDone c => simp [Err.asRedirect, Err.isRedirect]
    | wrap e => simp only [Err.asRedirect, Err.isRedirect]; exact isRedirect_eq e
    | join es => simp only [Err.asRedirect, Err.isRedirect]; exact isRedirectAny_eq es
    | chain es => simp only [Err.asRedirect, Err.isRedirect]; exact isRedirectAny_eq es
  theorem isRedirectAny_eq (es : List Err) : Err.isRedirectAny es = (Err.asRedirectAny es).isSome := by
    cases es with
    | nil => simp [Err.asRedirectAny, Err.isRedirectAny]
    | cons e es =>
      simp only [Err.asRedirectAny, Err.isRedirectAny, isRedirect_eq e, isRedirectAny_eq es]
      cases e.asRedirect <;> simp
end

theorem asRedirect_mem {e : Err} {c : Int} {t : String} (h : e.asRedirect = some (c, t)) :
    Leaf.redirect c t ∈ e.leaves := by
  rw [asRedirect_eq] at h
  obtain ⟨l, hl, hr⟩ := List.exists_of_findSome?_eq_some h
  cases l <;> simp [Leaf.redirect?] at hr
  obtain ⟨rfl, rfl⟩ := hr
  exact hl

/-- does the value contain a failure of class `a` -/
def Err.has (e : Err) (a : Action) : Bool := e.leaves.any fun l => l.action == a

theorem has_authn (e : Err) : e.has (.respond .authn) = e.is .authentication := by
  rw [Bool.eq_iff_iff, is_iff_leaf]
  simp only [Err.has, List.any_eq_true, beq_iff_eq]
  constructor
  · rintro ⟨l, hl, ha⟩
    cases l with
    | kind k => cases k <;> simp [Leaf.action, Kind.action] at ha; exact hl
    | redirect c t => simp [Leaf.action] at ha
    | foreign => simp [Leaf.action] at ha
    | ctxDone c => simp [Leaf.action] at ha
  · intro h; exact ⟨_, h, rfl⟩

theorem has_authz (e : Err) : e.has (.respond .authz) = e.is .authorization := by
  rw [Bool.eq_iff_iff, is_iff_leaf]
  simp only [Err.has, List.any_eq_true, beq_iff_eq]
  constructor
  · rintro ⟨l, hl, ha⟩
    cases l with
    | kind k => cases k <;> simp [Leaf.action, Kind.action] at ha; exact hl
    | redirect c t => simp [Leaf.action] at ha
    | foreign => simp [Leaf.action] at ha
    | ctxDone c => simp [Leaf.action] at ha
  · intro h; exact ⟨_, h, rfl⟩

theorem has_precond (e : Err) : e.has (.respond .precond) = e.is .argument := by
  rw [Bool.eq_iff_iff, is_iff_leaf]
  simp only [Err.has, List.any_eq_true, beq_iff_eq]
  constructor
  · rintro ⟨l, hl, ha⟩
    cases l with
    | kind k => cases k <;> simp [Leaf.action, Kind.action] at ha; exact hl
    | redirect c t => simp [Leaf.action] at ha
    | foreign => simp [Leaf.action] at ha
    | ctxDone c => simp [Leaf.action] at ha
  · intro h; exact ⟨_, h, rfl⟩

theorem has_noRule (e : Err) : e.has (.respond .noRule) = e.is .noRule := by
  rw [Bool.eq_iff_iff, is_iff_leaf]
  simp only [Err.has, List.any_eq_true, beq_iff_eq]
  constructor
  · rintro ⟨l, hl, ha⟩
    cases l with
    | kind k => cases k <;> simp [Leaf.action, Kind.action] at ha; exact hl
    | redirect c t => simp [Leaf.action] at ha
    | foreign => simp [Leaf.action] at ha
    | ctxDone c => simp [Leaf.action] at ha
  · intro h; exact ⟨_, h, rfl⟩

theorem has_comm (e : Err) : e.has (.respond .comm) = (e.is .timeout || e.is .communication) := by
  rw [Bool.eq_iff_iff, Bool.or_eq_true, is_iff_leaf, is_iff_leaf]
  simp only [Err.has, List.any_eq_true, beq_iff_eq]
  constructor
  · rintro ⟨l, hl, ha⟩
    cases l with
    | kind k =>
      cases k <;> simp [Leaf.action, Kind.action] at ha
      · exact Or.inr hl
      · exact Or.inl hl
    | redirect c t => simp [Leaf.action] at ha
    | foreign => simp [Leaf.action] at ha
    | ctxDone c => simp [Leaf.action] at ha
  · rintro (h | h)
    · exact ⟨_, h, rfl⟩
    · exact ⟨_, h, rfl⟩

theorem has_redirect (e : Err) : e.has .redirect = e.isRedirect := by
  rw [isRedirect_eq, asRedirect_eq, Bool.eq_iff_iff]
  simp only [Err.has, List.any_eq_true, beq_iff_eq, Option.isSome_iff_exists]
  constructor
  · rintro ⟨l, hl, ha⟩
    cases l with
    | kind k => cases k <;> simp [Leaf.action, Kind.action] at ha
    | redirect c t =>
      cases h : List.findSome? Leaf.redirect? e.leaves with
      | some r => exact ⟨r, rfl⟩
      | none =>
        rw [List.findSome?_eq_none_iff] at h
        have := h _ hl
        simp [Leaf.redirect?] at this
    | foreign => simp [Leaf.action] at ha
    | ctxDone c => simp [Leaf.action] at ha
  · rintro ⟨r, hr⟩
    obtain ⟨l, hl, hlr⟩ := List.exists_of_findSome?_eq_some hr
    cases l <;> simp [Leaf.redirect?] at hlr
    exact ⟨_, hl, rfl⟩

/-- the `switch` of both translators, written out -/
theorem classify_switch (e : Err) :
    classify switchCases (.respond .internal) e =
      if e.is .authentication then .respond .authn
      else if e.is .authorization then .respond .authz
      else if e.is .timeout || e.is .communication then .respond .comm
      else if e.is .argument then .respond .precond
      else if e.is .noRule then .respond .noRule
      else if e.isRedirect then .redirect
      else .respond .internal := by
  simp [classify, switchCases, Test.eval]

theorem action_unfold (e : Err) :
    e.action =
      if e.has (.respond .authn) then .respond .authn
      else if e.has (.respond .authz) then .respond .authz
      else if e.has (.respond .comm) then .respond .comm
      else if e.has (.respond .precond) then .respond .precond
      else if e.has (.respond .noRule) then .respond .noRule
      else if e.has .redirect then .redirect
      else .respond .internal := by
  have h : ∀ a, (e.leaves.any fun l => l.action == a) = e.has a := fun _ => rfl
  simp only [Err.action, priority, List.find?, h]
  cases e.has (.respond .authn) <;> cases e.has (.respond .authz) <;> cases e.has (.respond .comm) <;>
    cases e.has (.respond .precond) <;> cases e.has (.respond .noRule) <;> cases e.has .redirect <;> rfl

theorem classify_eq_action (e : Err) : classify switchCases (.respond .internal) e = e.action := by
  rw [classify_switch, action_unfold, has_authn, has_authz, has_comm, has_precond, has_noRule, has_redirect]


theorem classify_redirect_asRedirect {e : Err} (h : classify switchCases (.respond .internal) e = .redirect) :
    ∃ c t, e.asRedirect = some (c, t) := by
  rw [classify_switch] at h
  have hr : e.isRedirect = true := by
    repeat' split at h
    all_goals first | (cases h; done) | assumption
  rw [isRedirect_eq, Option.isSome_iff_exists] at hr
  obtain ⟨⟨c, t⟩, h⟩ := hr
  exact ⟨c, t, h⟩

/-! ### the class of a value is one of the classes of its leaves -/

theorem has_iff {e : Err} {a : Action} : e.has a = true ↔ a ∈ e.leaves.map Leaf.action := by
  simp only [Err.has, List.any_eq_true, beq_iff_eq, List.mem_map]

theorem action_cases (a : Action) :
    a = .respond .authn ∨ a = .respond .authz ∨ a = .respond .comm ∨ a = .respond .precond ∨
      a = .respond .noRule ∨ a = .redirect ∨ a = .respond .internal := by
  cases a with
  | redirect => simp
  | respond c => cases c <;> simp

theorem action_has_or_internal (e : Err) :
    (e.action ≠ .respond .internal ∧ e.has e.action = true) ∨
      (e.action = .respond .internal ∧ ∀ a, a ≠ .respond .internal → e.has a = false) := by
  rw [action_unfold]
  cases h1 : e.has (.respond .authn)
  case true => simp [h1]
  cases h2 : e.has (.respond .authz)
  case true => simp [h2]
  cases h3 : e.has (.respond .comm)
  case true => simp [h3]
  cases h4 : e.has (.respond .precond)
  case true => simp [h4]
  cases h5 : e.has (.respond .noRule)
  case true => simp [h5]
  cases h6 : e.has .redirect
  case true => simp [h6]
  right
  refine ⟨by simp, ?_⟩
  intro a ha
  rcases action_cases a with rfl | rfl | rfl | rfl | rfl | rfl | rfl <;> first | assumption | exact absurd rfl ha

theorem action_mem_admissible (e : Err) : e.action ∈ e.admissible := by
  unfold Err.admissible
  rcases action_has_or_internal e with ⟨hne, hhas⟩ | ⟨heq, hall⟩
  · have hm : e.action ∈ (e.leaves.map Leaf.action).filter (fun a => a != .respond .internal) := by
      rw [List.mem_filter]
      exact ⟨has_iff.mp hhas, by simpa using hne⟩
    have hne' : ((e.leaves.map Leaf.action).filter (fun a => a != .respond .internal)).isEmpty = false := by
      cases hl : (e.leaves.map Leaf.action).filter (fun a => a != .respond .internal) with
      | nil => rw [hl] at hm; cases hm
      | cons x xs => rfl
    simp only [hne']
    exact hm
  · have hemp : (e.leaves.map Leaf.action).filter (fun a => a != .respond .internal) = [] := by
      rw [List.filter_eq_nil_iff]
      intro a ha
      by_cases hai : a = .respond .internal
      · simp [hai]
      · have := hall a hai
        rw [← Bool.not_eq_true, has_iff] at this
        exact absurd ha this
    simp [hemp, heq]

/-! ### content negotiation -/

theorem pickFrom_some (rs : List Range) :
    ∀ (ms : List Media) (best : Option (Media × Nat × Nat)),
      (∀ b, best = some b → 0 < b.2.1 ∧ b.2.1 = (weightOf b.1 rs).1) →
      ∀ r, pickFrom rs ms best = some r →
        0 < r.2.1 ∧ r.2.1 = (weightOf r.1 rs).1 ∧ (r.1 ∈ ms ∨ ∃ b, best = some b ∧ b.1 = r.1) := by
  intro ms
  induction ms with
  | nil =>
    intro best hb r h
    simp only [pickFrom] at h
    obtain ⟨h1, h2⟩ := hb r h
    exact ⟨h1, h2, Or.inr ⟨r, h, rfl⟩⟩
  | cons m ms ih =>
    intro best hb r h
    cases best with
    | none =>
      simp only [pickFrom] at h
      split at h
      · rename_i hw
        obtain ⟨h1, h2, h3⟩ := ih _ (by
          intro b hbe
          cases hbe
          exact ⟨by simpa using hw, rfl⟩) r h
        refine ⟨h1, h2, ?_⟩
        rcases h3 with h3 | ⟨b, hbe, hb1⟩
        · exact Or.inl (List.mem_cons_of_mem _ h3)
        · cases hbe; exact Or.inl (by rw [← hb1]; exact List.mem_cons_self)
      · obtain ⟨h1, h2, h3⟩ := ih none (by intro b hbe; cases hbe) r h
        refine ⟨h1, h2, ?_⟩
        rcases h3 with h3 | ⟨b, hbe, _⟩
        · exact Or.inl (List.mem_cons_of_mem _ h3)
        · cases hbe
    | some b =>
      obtain ⟨bm, bw, bo⟩ := b
      obtain ⟨hbw, hbq⟩ := hb (bm, bw, bo) rfl
      simp only [pickFrom] at h
      split at h
      · rename_i hw
        have hpos : 0 < (weightOf m rs).1 := by
          simp only [Bool.or_eq_true, decide_eq_true_eq, Bool.and_eq_true, beq_iff_eq] at hw
          rcases hw with hw | ⟨hw, _⟩
          · exact Nat.lt_trans hbw hw
          · rw [hw]; exact hbw
        obtain ⟨h1, h2, h3⟩ := ih _ (by
          intro b hbe
          cases hbe
          exact ⟨hpos, rfl⟩) r h
        refine ⟨h1, h2, ?_⟩
        rcases h3 with h3 | ⟨b, hbe, hb1⟩
        · exact Or.inl (List.mem_cons_of_mem _ h3)
        · cases hbe; exact Or.inl (by rw [← hb1]; exact List.mem_cons_self)
      · obtain ⟨h1, h2, h3⟩ := ih _ (by
          intro b hbe
          cases hbe
          exact ⟨hbw, hbq⟩) r h
        refine ⟨h1, h2, ?_⟩
        rcases h3 with h3 | ⟨b, hbe, hb1⟩
        · exact Or.inl (List.mem_cons_of_mem _ h3)
        · cases hbe; exact Or.inr ⟨_, rfl, hb1⟩

theorem pickFrom_isSome_of_some (rs : List Range) :
    ∀ (ms : List Media) (b : Media × Nat × Nat), (pickFrom rs ms (some b)).isSome = true := by
  intro ms
  induction ms with
  | nil => intro b; simp [pickFrom]
  | cons m ms ih =>
    intro b
    obtain ⟨bm, bw, bo⟩ := b
    simp only [pickFrom]
    split <;> exact ih _

theorem pickFrom_none (rs : List Range) :
    ∀ (ms : List Media), pickFrom rs ms none = none → ∀ m ∈ ms, (weightOf m rs).1 = 0 := by
  intro ms
  induction ms with
  | nil => intro _ m hm; cases hm
  | cons m ms ih =>
    intro h m' hm'
    simp only [pickFrom] at h
    split at h
    · have := pickFrom_isSome_of_some rs ms (m, (weightOf m rs).1, (weightOf m rs).2)
      rw [h] at this; cases this
    · rename_i hw
      rcases List.mem_cons.mp hm' with rfl | hm'
      · simpa using hw
      · exact ih h m' hm'

theorem negotiateRanges_some {avail : List Media} {rs : List Range} {m : Media}
    (h : negotiateRanges avail rs = some m) : m ∈ avail ∧ 0 < (weightOf m rs).1 := by
  unfold negotiateRanges at h
  cases hp : pickFrom rs avail none with
  | none => rw [hp] at h; cases h
  | some r =>
    rw [hp] at h
    simp only [Option.map_some, Option.some.injEq] at h
    obtain ⟨h1, h2, h3⟩ := pickFrom_some rs avail none (by intro b hb; cases hb) r hp
    subst h
    refine ⟨?_, by rw [← h2]; exact h1⟩
    rcases h3 with h3 | ⟨b, hb, _⟩
    · exact h3
    · cases hb

theorem negotiateRanges_none {avail : List Media} {rs : List Range}
    (h : negotiateRanges avail rs = none) : ∀ m ∈ avail, (weightOf m rs).1 = 0 := by
  unfold negotiateRanges at h
  cases hp : pickFrom rs avail none with
  | none => exact pickFrom_none rs avail hp
  | some r => rw [hp] at h; cases h

/-! ### the two translators, field by field (so that proofs never unfold the whole records) -/

theorem tr_classify (tr : Transport) (e : Err) :
    classify tr.translator.cases tr.translator.dflt e = e.action := by
  cases tr <;> exact classify_eq_action e

theorem tr_sends (tr : Transport) : tr.translator.sendsChallenge = true := by cases tr <;> rfl

theorem tr_grpc_class (tr : Transport) (c : Class) :
    tr.translator.grpcCodes.map (·.1.get c) =
      match tr with
      | .http => none
      | .grpc => some (ClassMap.get { authn := 16, authz := 7, comm := 4, precond := 3, noRule := 5, internal := 13 } c) := by
  cases tr <;> rfl

theorem tr_grpc_redirect (tr : Transport) :
    tr.translator.grpcCodes.map (·.2) = match tr with | .http => none | .grpc => some 9 := by
  cases tr <;> rfl

theorem valid_get {cfg : Cfg} (hv : cfg.valid = true) (c : Class) :
    cfg.ov.get c = 0 ∨ validStatus (cfg.ov.get c) = true := by
  simp only [Cfg.valid, classes, List.all_cons, List.all_nil, Bool.and_true, Bool.and_eq_true,
    Bool.or_eq_true, beq_iff_eq] at hv
  obtain ⟨h1, h2, h3, h4, h5, h6⟩ := hv
  cases c <;> assumption

theorem noSuccess_get {cfg : Cfg} (hv : cfg.noSuccess = true) (c : Class) : isSuccess (cfg.ov.get c) = false := by
  simp only [Cfg.noSuccess, classes, List.all_cons, List.all_nil, Bool.and_true, Bool.and_eq_true,
    Bool.not_eq_true'] at hv
  obtain ⟨h1, h2, h3, h4, h5, h6⟩ := hv
  cases c <;> assumption

theorem default_valid (c : Class) : validStatus (defaultCodes.get c) = true ∧ isSuccess (defaultCodes.get c) = false := by
  cases c <;> decide

theorem tr_defaults (tr : Transport) : tr.translator.defaults = defaultCodes := by cases tr <;> rfl

theorem tr_guard (tr : Transport) (c : Class) :
    tr.translator.guards.get c = match tr with | .http => .neZero | .grpc => .gtZero := by
  cases tr <;> cases c <;> rfl

/-- with HTTP status codes as overrides the guards `!= 0` and `> 0` agree, and the code is the configured one -/
theorem tr_code_valid (tr : Transport) {cfg : Cfg} (hv : cfg.valid = true) (c : Class) :
    tr.translator.code cfg c = cfg.status c ∧ validStatus (cfg.status c) = true := by
  unfold Translator.code Cfg.status
  rw [tr_guard, tr_defaults]
  rcases valid_get hv c with h0 | hval
  · rw [h0]
    cases tr <;> simp [Guard.accepts, default_valid c]
  · have hpos : cfg.ov.get c ≠ 0 ∧ cfg.ov.get c > 0 := by
      simp only [validStatus, Bool.and_eq_true, decide_eq_true_eq] at hval
      omega
    cases tr <;> simp [Guard.accepts, hpos.1, hpos.2, hval]

theorem tr_code_noSuccess (tr : Transport) {cfg : Cfg} (hv : cfg.noSuccess = true) (c : Class) :
    isSuccess (tr.translator.code cfg c) = false := by
  unfold Translator.code
  split
  · exact noSuccess_get hv c
  · rw [tr_defaults]; exact (default_valid c).2

theorem emit_inv {t : Translator} {code : Int} {h : List (String × String)} {b : Option Media} {g : Option Nat}
    {r : Resp} (he : t.emit code h b g = .resp r) : r = ⟨code, h, b, g⟩ := by
  unfold Translator.emit at he
  split at he
  · cases he
  · cases he; rfl

theorem emit_of_valid (t : Translator) {code : Int} (h : List (String × String)) (b : Option Media) (g : Option Nat)
    (hv : t.checksCode = false ∨ validStatus code = true) : t.emit code h b g = .resp ⟨code, h, b, g⟩ := by
  unfold Translator.emit
  rcases hv with hv | hv <;> simp [hv]

theorem emit_ne_allowed (t : Translator) (code : Int) (h : List (String × String)) (b : Option Media) (g : Option Nat) :
    t.emit code h b g ≠ .allowed := by
  unfold Translator.emit
  split <;> simp

/-- what an answer looks like (inversion of `respond`) -/
theorem respond_inv {tr : Transport} {cfg : Cfg} {acc : Accept} {f : Failure} {r : Resp}
    (h : tr.translator.respond cfg acc f = .resp r) :
    (∃ c to, f.err.action = .redirect ∧ f.err.asRedirect = some (c, to) ∧ Leaf.redirect c to ∈ f.err.leaves ∧
        r = ⟨c, [("Location", to)], none, tr.translator.grpcCodes.map (·.2)⟩) ∨
    (∃ c, f.err.action = .respond c ∧
        r = ⟨tr.translator.code cfg c,
          challengeHeaders tr.translator f ++ bodyHeaders tr.translator (tr.translator.body cfg acc),
          tr.translator.body cfg acc, tr.translator.grpcCodes.map (·.1.get c)⟩) := by
  unfold Translator.respond at h
  rw [tr_classify] at h
  cases ha : f.err.action with
  | redirect =>
    rw [ha] at h
    simp only at h
    cases has : f.err.asRedirect with
    | none => rw [has] at h; cases h
    | some ct =>
      obtain ⟨c, to⟩ := ct
      rw [has] at h
      exact Or.inl ⟨c, to, rfl, rfl, asRedirect_mem has, emit_inv h⟩
  | respond c =>
    rw [ha] at h
    exact Or.inr ⟨c, rfl, emit_inv h⟩

/-- a failure is never let through -/
theorem respond_ne_allowed (tr : Transport) (cfg : Cfg) (acc : Accept) (f : Failure) :
    tr.translator.respond cfg acc f ≠ .allowed := by
  unfold Translator.respond
  split
  · split
    · simp
    · exact emit_ne_allowed _ _ _ _ _
  · exact emit_ne_allowed _ _ _ _ _

theorem action_redirect_as {e : Err} (ha : e.action = .redirect) :
    ∃ c to, e.asRedirect = some (c, to) ∧ Leaf.redirect c to ∈ e.leaves := by
  obtain ⟨c, t, h⟩ := classify_redirect_asRedirect (e := e) (by rw [classify_eq_action, ha])
  exact ⟨c, t, h, asRedirect_mem h⟩

theorem redirectsValid_mem {e : Err} (h : e.redirectsValid = true) {c : Int} {to : String}
    (hm : Leaf.redirect c to ∈ e.leaves) : validStatus c = true := by
  simp only [Err.redirectsValid, List.all_eq_true] at h
  exact h _ hm

theorem redirectsNoSuccess_mem {e : Err} (h : e.redirectsNoSuccess = true) {c : Int} {to : String}
    (hm : Leaf.redirect c to ∈ e.leaves) : isSuccess c = false := by
  simp only [Err.redirectsNoSuccess, List.all_eq_true] at h
  simpa using h _ hm

/-- the answer, computed (existence direction) -/
theorem respond_of_valid (tr : Transport) (cfg : Cfg) (acc : Accept) (f : Failure)
    (hv : tr = .grpc ∨ (cfg.valid = true ∧ f.err.redirectsValid = true)) :
    ∃ r, tr.translator.respond cfg acc f = .resp r := by
  have hchk : tr = .grpc → tr.translator.checksCode = false := by rintro rfl; rfl
  unfold Translator.respond
  rw [tr_classify]
  cases ha : f.err.action with
  | redirect =>
    obtain ⟨c, to, has, hm⟩ := action_redirect_as ha
    simp only [has]
    refine ⟨_, emit_of_valid _ _ _ _ ?_⟩
    rcases hv with hg | ⟨_, hr⟩
    · exact Or.inl (hchk hg)
    · exact Or.inr (redirectsValid_mem hr hm)
  | respond c =>
    simp only
    refine ⟨_, emit_of_valid _ _ _ _ ?_⟩
    rcases hv with hg | ⟨hc, _⟩
    · exact Or.inl (hchk hg)
    · rw [(tr_code_valid tr hc c).1]; exact Or.inr (tr_code_valid tr hc c).2

/-! ### negotiation meets the quality rule -/

theorem weightOf_nil (m : Media) : weightOf m [] = (0, 0) := rfl

theorem tr_media_perm (tr : Transport) (m : Media) : m ∈ tr.translator.media := by
  cases tr <;> cases m <;> decide

theorem negotiate_quality (tr : Transport) (acc : Accept) (m : Media) (h : tr.translator.negotiate acc = some m) :
    quality acc m > 0 ∨ (m = .html ∧ ∀ m', quality acc m' = 0) := by
  cases acc with
  | absent => exact Or.inl (by simp [quality])
  | invalid =>
    cases tr with
    | http => simp [Translator.negotiate, Transport.translator, ErrMap.http] at h
    | grpc =>
      simp only [Translator.negotiate, Transport.translator, ErrMap.grpc, Option.some.injEq] at h
      exact Or.inr ⟨h.symm, fun _ => rfl⟩
  | ranges rs =>
    simp only [Translator.negotiate] at h
    cases hn : negotiateRanges tr.translator.media rs with
    | some m' =>
      rw [hn] at h
      simp only [Option.some.injEq] at h
      subst h
      exact Or.inl (negotiateRanges_some hn).2
    | none =>
      rw [hn] at h
      have hall := negotiateRanges_none hn
      cases tr with
      | http => simp [Transport.translator, ErrMap.http] at h
      | grpc =>
        simp only [Transport.translator, ErrMap.grpc, Option.some.injEq] at h
        exact Or.inr ⟨h.symm, fun m' => hall m' (tr_media_perm .grpc m')⟩

/-! ### the model's answers are accepted by the executable specification -/

theorem challengeHeaders_eq (tr : Transport) (f : Failure) :
    challengeHeaders tr.translator f = f.challenge.map fun v => ("Www-Authenticate", v) := by
  simp [challengeHeaders, tr_sends]

theorem bodyHeaders_keys (t : Translator) (b : Option Media) :
    ∀ kv ∈ bodyHeaders t b, kv.1 = "Content-Type" ∨ kv.1 = "X-Content-Type-Options" := by
  intro kv hkv
  cases b with
  | none => cases hkv
  | some m =>
    simp only [bodyHeaders] at hkv
    rcases List.mem_cons.mp hkv with rfl | hkv
    · exact Or.inl rfl
    · split at hkv
      · rw [List.mem_singleton] at hkv; subst hkv; exact Or.inr rfl
      · cases hkv

theorem body_some_verbose {t : Translator} {cfg : Cfg} {acc : Accept} {m : Media}
    (h : t.body cfg acc = some m) : cfg.verbose = true ∧ t.negotiate acc = some m := by
  unfold Translator.body at h
  split at h
  · exact ⟨by assumption, h⟩
  · cases h

theorem spec_redirect (tr : Transport) (cfg : Cfg) (acc : Accept) (f : Failure) (c : Int) (to : String)
    (g : Option Nat) (hg : Spec.grpcFits tr g = true)
    (ha : f.err.action = .redirect) (hm : Leaf.redirect c to ∈ f.err.leaves) :
    Spec.ok tr cfg acc f (.resp ⟨c, [("Location", to)], none, g⟩) = true := by
  have hadm : f.err.admissible.any (Spec.hasClass cfg f ⟨c, [("Location", to)], none, g⟩) = true := by
    rw [List.any_eq_true]
    refine ⟨.redirect, by rw [← ha]; exact action_mem_admissible _, ?_⟩
    simp only [Spec.hasClass, List.any_eq_true]
    exact ⟨_, hm, by simp⟩
  have hns : (!(cfg.noSuccess && f.err.redirectsNoSuccess) || !isSuccess c) = true := by
    cases h1 : cfg.noSuccess <;> cases h2 : f.err.redirectsNoSuccess <;> simp
    exact redirectsNoSuccess_mem h2 hm
  simp only [Spec.ok, hadm, hns, hg, Bool.true_and]
  simp [Spec.bodyOk, errorHeaderNames, Spec.wwwValues]

theorem spec_respond (tr : Transport) (cfg : Cfg) (acc : Accept) (f : Failure) (c : Class)
    (g : Option Nat) (hg : Spec.grpcFits tr g = true) (ha : f.err.action = .respond c) :
    Spec.ok tr cfg acc f (.resp ⟨tr.translator.code cfg c,
      challengeHeaders tr.translator f ++ bodyHeaders tr.translator (tr.translator.body cfg acc),
      tr.translator.body cfg acc, g⟩) = true := by
  rw [challengeHeaders_eq]
  have hkeys := bodyHeaders_keys tr.translator (tr.translator.body cfg acc)
  have hadm : f.err.admissible.any (Spec.hasClass cfg f ⟨tr.translator.code cfg c,
      (f.challenge.map fun v => ("Www-Authenticate", v)) ++ bodyHeaders tr.translator (tr.translator.body cfg acc),
      tr.translator.body cfg acc, g⟩) = true := by
    rw [List.any_eq_true]
    refine ⟨.respond c, by rw [← ha]; exact action_mem_admissible _, ?_⟩
    simp only [Spec.hasClass, Bool.and_eq_true, Bool.or_eq_true, Bool.not_eq_true', beq_iff_eq, List.all_eq_true,
      List.contains_eq_mem, decide_eq_true_eq, decide_eq_false_iff_not, List.mem_map, List.mem_append]
    refine ⟨⟨?_, fun v hv => Or.inl ⟨v, hv, rfl⟩⟩, ?_⟩
    · cases hv : cfg.valid
      · exact Or.inl rfl
      · exact Or.inr (tr_code_valid tr hv c).1
    · rintro ⟨kv, (⟨v, _, rfl⟩ | hb), hk⟩
      · simp at hk
      · rcases hkeys kv hb with h | h <;> rw [h] at hk <;> simp at hk
  have hns : (!(cfg.noSuccess && f.err.redirectsNoSuccess) || !isSuccess (tr.translator.code cfg c)) = true := by
    cases h1 : cfg.noSuccess <;> simp
    exact Or.inr (tr_code_noSuccess tr h1 c)
  have hbody : Spec.bodyOk cfg acc ⟨tr.translator.code cfg c,
      (f.challenge.map fun v => ("Www-Authenticate", v)) ++ bodyHeaders tr.translator (tr.translator.body cfg acc),
      tr.translator.body cfg acc, g⟩ = true := by
    unfold Spec.bodyOk
    cases hb : tr.translator.body cfg acc with
    | none => simp [bodyHeaders, Function.comp_def]
    | some m =>
      obtain ⟨hverb, hneg⟩ := body_some_verbose hb
      simp only [hverb, Bool.true_and, Bool.and_eq_true, Bool.or_eq_true, decide_eq_true_eq, beq_iff_eq,
        List.all_eq_true, List.contains_eq_mem, List.mem_append]
      refine ⟨Or.inr (by simp [bodyHeaders]), ?_⟩
      rcases negotiate_quality tr acc m hneg with h | ⟨h1, h2⟩
      · exact Or.inl h
      · exact Or.inr ⟨h1, fun m' _ => h2 m'⟩
  have hnames : (((f.challenge.map fun v => ("Www-Authenticate", v)) ++
      bodyHeaders tr.translator (tr.translator.body cfg acc)).all fun kv => errorHeaderNames.contains kv.1) = true := by
    rw [List.all_eq_true]
    intro kv hkv
    rcases List.mem_append.mp hkv with hc | hb
    · obtain ⟨v, _, rfl⟩ := List.mem_map.mp hc; simp [errorHeaderNames]
    · rcases hkeys kv hb with h | h <;> rw [h] <;> simp [errorHeaderNames]
  have hwww : (((f.challenge.map fun v => ("Www-Authenticate", v)) ++
      bodyHeaders tr.translator (tr.translator.body cfg acc)).all
        fun kv => kv.1 != "Www-Authenticate" || f.challenge.contains kv.2) = true := by
    rw [List.all_eq_true]
    intro kv hkv
    rcases List.mem_append.mp hkv with hc | hb
    · obtain ⟨v, hv, rfl⟩ := List.mem_map.mp hc; simp [hv]
    · rcases hkeys kv hb with h | h <;> rw [h] <;> simp
  have hvals : Spec.wwwValues ⟨tr.translator.code cfg c,
      (f.challenge.map fun v => ("Www-Authenticate", v)) ++ bodyHeaders tr.translator (tr.translator.body cfg acc),
      tr.translator.body cfg acc, g⟩ = f.challenge := by
    simp only [Spec.wwwValues, List.filterMap_append, List.filterMap_map]
    have h1 : List.filterMap ((fun kv : String × String => if kv.1 == "Www-Authenticate" then some kv.2 else none) ∘
        fun v => ("Www-Authenticate", v)) f.challenge = f.challenge := by
      have hfun : ((fun kv : String × String => if kv.1 == "Www-Authenticate" then some kv.2 else none) ∘
          fun v => ("Www-Authenticate", v)) = some := by
        funext v; simp
      rw [hfun, List.filterMap_some]
    have h2 : List.filterMap (fun kv : String × String => if kv.1 == "Www-Authenticate" then some kv.2 else none)
        (bodyHeaders tr.translator (tr.translator.body cfg acc)) = [] := by
      rw [List.filterMap_eq_nil_iff]
      intro kv hkv
      rcases hkeys kv hkv with h | h <;> rw [h] <;> simp
    rw [h1, h2, List.append_nil]
  simp only [Spec.ok, hadm, hns, hbody, hnames, hwww, hg, hvals, Bool.true_and]
  simp

theorem Spec.grpcFits_redirect (tr : Transport) : Spec.grpcFits tr (tr.translator.grpcCodes.map (·.2)) = true := by
  cases tr <;> rfl

theorem Spec.grpcFits_class (tr : Transport) (c : Class) :
    Spec.grpcFits tr (tr.translator.grpcCodes.map (·.1.get c)) = true := by
  cases tr
  · rfl
  · cases c <;> rfl

theorem model_meets_spec (tr : Transport) (cfg : Cfg) (acc : Accept) (f : Failure) :
    Spec.ok tr cfg acc f (tr.translator.respond cfg acc f) = true := by
  cases h : tr.translator.respond cfg acc f with
  | allowed => exact absurd h (respond_ne_allowed tr cfg acc f)
  | panic =>
    simp only [Spec.ok, Bool.not_eq_true', Bool.and_eq_false_iff]
    cases hv : cfg.valid
    · exact Or.inl rfl
    · cases hr : f.err.redirectsValid
      · exact Or.inr rfl
      · obtain ⟨r, hr'⟩ := respond_of_valid tr cfg acc f (Or.inr ⟨hv, hr⟩)
        rw [hr'] at h; cases h
  | resp r =>
    rcases respond_inv h with ⟨c, to, ha, _, hm, rfl⟩ | ⟨c, ha, rfl⟩
    · exact spec_redirect tr cfg acc f c to _ (Spec.grpcFits_redirect tr) ha hm
    · exact spec_respond tr cfg acc f c _ (Spec.grpcFits_class tr c) ha

/-! ### single class, view, request contexts -/

theorem single_class (e : Err) (a : Action) (hall : ∀ l ∈ e.leaves, l.action = a) :
    e.action = if e.leaves.isEmpty then .respond .internal else a := by
  cases hl : e.leaves with
  | nil =>
    rcases action_has_or_internal e with ⟨_, h⟩ | ⟨h, _⟩
    · simp [Err.has, hl] at h
    · simpa using h
  | cons l ls =>
    have hmem := action_mem_admissible e
    have hsub : ∀ b ∈ e.admissible, b = a ∨ b = .respond .internal := by
      intro b hb
      unfold Err.admissible at hb
      dsimp only at hb
      split at hb
      · simp at hb; exact Or.inr hb
      · rw [List.mem_filter, List.mem_map] at hb
        obtain ⟨⟨l', hl', rfl⟩, _⟩ := hb
        exact Or.inl (hall l' hl')
    simp only [List.isEmpty_cons, Bool.false_eq_true, if_false]
    rcases hsub _ hmem with h | h
    · exact h
    · rcases action_has_or_internal e with ⟨hne, _⟩ | ⟨_, hnone⟩
      · exact absurd h hne
      · by_cases hai : a = .respond .internal
        · rw [h, hai]
        · have := hnone a hai
          rw [← Bool.not_eq_true, has_iff, hl] at this
          exact absurd (List.mem_map.mpr ⟨l, List.mem_cons_self, hall l (by rw [hl]; exact List.mem_cons_self)⟩) this

theorem view_filter_body (t : Translator) (b : Option Media) :
    (bodyHeaders t b).filter (fun kv => kv.1 == "Location" || kv.1 == "Www-Authenticate") = [] := by
  rw [List.filter_eq_nil_iff]
  intro kv hkv
  rcases bodyHeaders_keys t b kv hkv with h | h <;> rw [h] <;> simp

/-- status, `Location` and challenges of an answer depend on the transport only through the status code -/
theorem view_eq (tr : Transport) (cfg : Cfg) (acc : Accept) (f : Failure) (r : Resp)
    (h : tr.translator.respond cfg acc f = .resp r) :
    (Out.resp r).view =
      match f.err.action with
      | .redirect => f.err.asRedirect.map fun ct => (ct.1, [("Location", ct.2)])
      | .respond c => some (tr.translator.code cfg c, f.challenge.map fun v => ("Www-Authenticate", v)) := by
  rcases respond_inv h with ⟨c, to, ha, has, _, rfl⟩ | ⟨c, ha, rfl⟩
  · simp [Out.view, ha, has]
  · simp only [Out.view, ha, challengeHeaders_eq, List.filter_append, view_filter_body, List.append_nil]
    congr 2
    rw [List.filter_eq_self]
    intro kv hkv
    obtain ⟨v, _, rfl⟩ := List.mem_map.mp hkv
    simp

theorem finalize_www (realm : String) (ctx : Ctx) :
    finalize (wwwAuthenticateExec realm ctx) = some
      ⟨.kind .authentication, (ctx.upstream.filterMap fun kv => if kv.1 == "Www-Authenticate" then some kv.2 else none)
        ++ ["Basic realm=" ++ realmOf realm]⟩ := by
  simp [finalize, wwwAuthenticateExec, realmOf, List.filterMap_append]

theorem finalize_redirect (code : Int) (to : String) (ctx : Ctx) :
    finalize (redirectExec code to ctx) = some
      ⟨.redirect (if code != 0 then code else 302) to,
        ctx.upstream.filterMap fun kv => if kv.1 == "Www-Authenticate" then some kv.2 else none⟩ := by
  simp [finalize, redirectExec]

theorem serve_inv {t : Translator} {cfg : Cfg} {acc : Accept} {ctx : Ctx} {r : Resp}
    (h : serve t cfg acc ctx = .resp r) :
    ∃ e, ctx.pipelineError = some e ∧
      t.respond cfg acc ⟨e, ctx.upstream.filterMap fun kv => if kv.1 == "Www-Authenticate" then some kv.2 else none⟩
        = .resp r := by
  unfold serve finalize at h
  cases hp : ctx.pipelineError with
  | none => rw [hp] at h; cases h
  | some e => rw [hp] at h; exact ⟨e, rfl, h⟩

theorem action_redirect_leaf (c : Int) (to : String) : (Err.redirect c to).action = .redirect := by
  rw [← classify_eq_action]; simp [classify, switchCases, Test.eval, Err.is, Err.isRedirect]

theorem respond_redirect_leaf (tr : Transport) (cfg : Cfg) (acc : Accept) (c : Int) (to : String) (ch : List String) :
    tr.translator.respond cfg acc ⟨.redirect c to, ch⟩ =
      tr.translator.emit c [("Location", to)] none (tr.translator.grpcCodes.map (·.2)) := by
  unfold Translator.respond
  rw [tr_classify, action_redirect_leaf]
  rfl

/-! ### error handler pipeline -/

theorem handleError_skip (hs₁ : List (Cel × Handler)) (hf : ∀ p ∈ hs₁, p.1 = .fails)
    (rest : List (Cel × Handler)) (cause : Err) (ctx : Ctx) :
    handleError (hs₁ ++ rest) cause ctx = handleError rest cause ctx := by
  induction hs₁ with
  | nil => rfl
  | cons p ps ih =>
    obtain ⟨c, h⟩ := p
    have hc : c = .fails := hf (c, h) List.mem_cons_self
    subst hc
    simp only [List.cons_append, handleError]
    exact ih (fun q hq => hf q (List.mem_cons_of_mem _ hq))

theorem exec_sets_error (h : Handler) (cause : Err) (ctx : Ctx) :
    ∃ e, (h.exec cause ctx).pipelineError = some e := by
  cases h <;> simp [Handler.exec, redirectExec, wwwAuthenticateExec]

theorem handleError_fails (hs : List (Cel × Handler)) (cause : Err) (ctx : Ctx) :
    (∃ e, (handleError hs cause ctx).2 = some e) ∨
      ((handleError hs cause ctx).2 = none ∧ ∃ e, (handleError hs cause ctx).1.pipelineError = some e) := by
  induction hs with
  | nil => exact Or.inl ⟨cause, rfl⟩
  | cons p ps ih =>
    obtain ⟨c, h⟩ := p
    cases c with
    | error => exact Or.inl ⟨.foreign, rfl⟩
    | fails => simpa [handleError] using ih
    | holds => exact Or.inr ⟨rfl, exec_sets_error h cause ctx⟩

theorem serve_ne_allowed_of_error (tr : Transport) (cfg : Cfg) (acc : Accept) (ctx : Ctx) (e : Err)
    (h : ctx.pipelineError = some e) : serve tr.translator cfg acc ctx ≠ .allowed := by
  simp only [serve, finalize, h, Option.map_some]
  exact respond_ne_allowed tr cfg acc _

theorem serveFailure_ne_allowed (tr : Transport) (cfg : Cfg) (acc : Accept) (hs : List (Cel × Handler))
    (cause : Err) (ctx : Ctx) : serveFailure tr.translator cfg acc hs cause ctx ≠ .allowed := by
  unfold serveFailure
  rcases handleError_fails hs cause ctx with ⟨e, he⟩ | ⟨hn, e, he⟩
  · cases hh : handleError hs cause ctx with
    | mk c o => rw [hh] at he; simp only at he; subst he; exact respond_ne_allowed tr cfg acc _
  · cases hh : handleError hs cause ctx with
    | mk c o =>
      rw [hh] at hn he; simp only at hn he; subst hn
      exact serve_ne_allowed_of_error tr cfg acc c e he

theorem action_foreign : Err.foreign.action = .respond .internal := by decide

/-! ### the errors of package `context` inside a value, and the context of the request -/

theorem filterCtx_keep {l : Leaf} (h : l.isCtxDone = false) (ls : List Leaf) :
    (l :: ls).filter (fun l => !l.isCtxDone) = l :: ls.filter (fun l => !l.isCtxDone) := by
  rw [List.filter_cons, h]; rfl

theorem filterCtx_drop (c : CtxErr) (ls : List Leaf) :
    (Leaf.ctxDone c :: ls).filter (fun l => !l.isCtxDone) = ls.filter (fun l => !l.isCtxDone) := by
  rw [List.filter_cons]; rfl

theorem any_action_filter (a : Action) (ha : a ≠ .respond .internal) (ls : List Leaf) :
    (ls.any fun l => l.action == a) = ((ls.filter fun l => !l.isCtxDone).any fun l => l.action == a) := by
  induction ls with
  | nil => rfl
  | cons l ls ih =>
    cases l with
    | ctxDone c =>
      have : (Leaf.action (.ctxDone c) == a) = false := by
        simp only [Leaf.action, beq_eq_false_iff_ne, ne_eq]; exact fun h => ha h.symm
      rw [filterCtx_drop, List.any_cons, this, Bool.false_or, ih]
    | kind k => rw [filterCtx_keep rfl, List.any_cons, List.any_cons, ih]
    | redirect c t => rw [filterCtx_keep rfl, List.any_cons, List.any_cons, ih]
    | foreign => rw [filterCtx_keep rfl, List.any_cons, List.any_cons, ih]

theorem find_congr {α : Type} {p q : α → Bool} (l : List α) (h : ∀ a ∈ l, p a = q a) : l.find? p = l.find? q := by
  induction l with
  | nil => rfl
  | cons a l ih =>
    rw [List.find?_cons, List.find?_cons, h a (List.mem_cons_self ..),
      ih fun b hb => h b (List.mem_cons_of_mem _ hb)]

/-- the class of a value is a function of its failures other than the `context` errors -/
theorem action_eq_of_essential (e : Err) :
    e.action = (priority.find? fun a => e.essential.any fun l => l.action == a).getD (.respond .internal) := by
  unfold Err.action Err.essential
  congr 1
  apply find_congr
  intro a ha
  refine any_action_filter a ?_ e.leaves
  intro h; subst h; revert ha; decide

theorem findSome_redirect_filter (ls : List Leaf) :
    ls.findSome? Leaf.redirect? = (ls.filter fun l => !l.isCtxDone).findSome? Leaf.redirect? := by
  induction ls with
  | nil => rfl
  | cons l ls ih =>
    cases l with
    | ctxDone c => rw [filterCtx_drop, List.findSome?_cons, ← ih]; rfl
    | kind k => rw [filterCtx_keep rfl, List.findSome?_cons, List.findSome?_cons, ih]
    | redirect c t => rw [filterCtx_keep rfl, List.findSome?_cons, List.findSome?_cons, ih]
    | foreign => rw [filterCtx_keep rfl, List.findSome?_cons, List.findSome?_cons, ih]

theorem action_congr_essential {e e' : Err} (h : e.essential = e'.essential) : e.action = e'.action := by
  rw [action_eq_of_essential e, action_eq_of_essential e', h]

theorem asRedirect_congr_essential {e e' : Err} (h : e.essential = e'.essential) :
    e.asRedirect = e'.asRedirect := by
  rw [asRedirect_eq, asRedirect_eq, findSome_redirect_filter e.leaves, findSome_redirect_filter e'.leaves]
  exact congrArg _ h

/-- the whole answer of a translator is a function of the failures other than the `context` errors (and of the
challenges attached) -/
theorem respond_congr_essential (tr : Transport) (cfg : Cfg) (acc : Accept) {e e' : Err} (ch : List String)
    (h : e.essential = e'.essential) :
    tr.translator.respond cfg acc ⟨e, ch⟩ = tr.translator.respond cfg acc ⟨e', ch⟩ := by
  unfold Translator.respond
  simp only [tr_classify, action_congr_essential h, asRedirect_congr_essential h, challengeHeaders]

theorem mem_essential {e : Err} {l : Leaf} : l ∈ e.essential ↔ l ∈ e.leaves ∧ l.isCtxDone = false := by
  simp [Err.essential]

/-- a value whose failures other than the `context` errors all have class `c` (and there is one) has class `c` -/
theorem action_of_essential_class (e : Err) (c : Class) (hne : e.essential ≠ [])
    (hall : ∀ l ∈ e.essential, l.action = .respond c) : e.action = .respond c := by
  have key : ∀ a, a ≠ .respond .internal → e.has a = (a == .respond c) := by
    intro a ha
    unfold Err.has
    rw [any_action_filter a ha]
    show (e.essential.any fun l => l.action == a) = _
    cases hl : e.essential with
    | nil => exact absurd hl hne
    | cons l ls =>
      rw [hl] at hall
      rw [Bool.eq_iff_iff]
      simp only [List.any_eq_true, beq_iff_eq]
      constructor
      · rintro ⟨x, hx, hxa⟩; rw [← hxa, hall x hx]
      · intro h; exact ⟨l, List.mem_cons_self .., by rw [hall l (List.mem_cons_self ..), h]⟩
  rw [action_unfold, key _ (by decide), key _ (by decide), key _ (by decide), key _ (by decide), key _ (by decide),
    key _ (by decide)]
  cases c <;> decide

theorem handlerServe_ne_allowed (tr : Transport) (cfg : Cfg) (acc : Accept) (rc : ReqCtx) (x : Option Err)
    (ctx : Ctx) (hf : x.isSome = true ∨ ctx.pipelineError.isSome = true) :
    handlerServe tr.translator cfg acc rc x ctx ≠ .allowed := by
  cases x with
  | some e => exact respond_ne_allowed tr cfg acc _
  | none =>
    rcases hf with hf | hf
    · cases hf
    · obtain ⟨e, he⟩ := Option.isSome_iff_exists.mp hf
      exact serve_ne_allowed_of_error tr cfg acc ctx e he

/-! ### wrapping a failure; endpoints (round 5) -/

theorem has_wrapKind (k : Kind) (e : Err) (a : Action) :
    (wrapKind k e).has a = (k.action == a || e.has a) := by
  simp [wrapKind, Err.has, Err.leaves, Err.leavesAny, Leaf.action]

/-- one error of kind `k` in front of a cause: the class which comes first in the precedence order -/
theorem action_wrapKind (k : Kind) (e : Err) :
    (wrapKind k e).action = if k.action.rank ≤ e.action.rank then k.action else e.action := by
  rw [action_unfold (wrapKind k e), action_unfold e]
  simp only [has_wrapKind]
  cases k <;> cases e.has (.respond .authn) <;> cases e.has (.respond .authz) <;> cases e.has (.respond .comm) <;>
    cases e.has (.respond .precond) <;> cases e.has (.respond .noRule) <;> cases e.has .redirect <;> rfl

theorem asRedirect_wrapKind (k : Kind) (e : Err) : (wrapKind k e).asRedirect = e.asRedirect := by
  simp only [wrapKind, Err.asRedirect, Err.asRedirectAny]
  cases e.asRedirect <;> rfl

theorem rank_le_internal (a : Action) : a.rank ≤ Action.rank (.respond .internal) := by
  rcases action_cases a with rfl | rfl | rfl | rfl | rfl | rfl | rfl <;> decide

theorem rank_internal_le {a : Action} (h : Action.rank (.respond .internal) ≤ a.rank) : a = .respond .internal := by
  rcases action_cases a with rfl | rfl | rfl | rfl | rfl | rfl | rfl <;> first | rfl | (revert h; decide)

/-- an error of the internal kind in front of a cause never changes the class -/
theorem action_wrapInternal (e : Err) : (wrapKind .internal e).action = e.action := by
  rw [action_wrapKind]
  split
  · rename_i h; exact (rank_internal_le h).symm
  · rfl

theorem action_endpointWrap (e : Err) : (endpointWrap e).action = e.action := by
  unfold endpointWrap; rw [action_wrapInternal, action_wrapInternal]

theorem asRedirect_endpointWrap (e : Err) : (endpointWrap e).asRedirect = e.asRedirect := by
  unfold endpointWrap; rw [asRedirect_wrapKind, asRedirect_wrapKind]

/-- the whole answer of a translator is a function of the class and of the first redirect inside the value -/
theorem respond_congr (tr : Transport) (cfg : Cfg) (acc : Accept) {e e' : Err} (ch : List String)
    (ha : e.action = e'.action) (hr : e.asRedirect = e'.asRedirect) :
    tr.translator.respond cfg acc ⟨e, ch⟩ = tr.translator.respond cfg acc ⟨e', ch⟩ := by
  unfold Translator.respond
  simp only [tr_classify, ha, hr, challengeHeaders]

theorem action_of_unclassified {e : Err} (h : e.unclassified = true) : e.action = .respond .internal := by
  have hall : ∀ l ∈ e.leaves, l.action = .respond .internal := by
    intro l hl
    have := List.all_eq_true.mp h l hl
    exact beq_iff_eq.mp this
  rw [single_class e _ hall]; split <;> rfl

/-! ### the response writer (round 5) -/

theorem writeHeaders_snd (lvl : LogLevel) (s : Bool × Writer) (cs : List Int) :
    (writeHeaders lvl s cs).2 = cs.foldl Writer.writeHeader s.2 := by
  induction cs generalizing s with
  | nil => rfl
  | cons c cs ih =>
    rw [writeHeaders, ih, List.foldl_cons]
    congr 1
    unfold dumpWriteHeader; split <;> rfl

theorem foldl_informational (w : Writer) (hw : w.status = none) (infos : List Int)
    (hi : ∀ i ∈ infos, isInformational i = true) :
    infos.foldl Writer.writeHeader w = { informational := w.informational ++ infos, status := none } := by
  induction infos generalizing w with
  | nil => cases w; simp at hw; subst hw; simp
  | cons i is ih =>
    have h1 : w.writeHeader i = { w with informational := w.informational ++ [i] } := by
      unfold Writer.writeHeader; rw [hw]; simp [hi i (List.mem_cons_self ..)]
    have h2 := ih { w with informational := w.informational ++ [i] } hw
      (fun j hj => hi j (List.mem_cons_of_mem _ hj))
    rw [List.foldl_cons, h1, h2]
    simp

theorem writeHeader_final (w : Writer) (hw : w.status = none) (code : Int) (hc : isInformational code = false) :
    w.writeHeader code = { w with status := some code } := by
  unfold Writer.writeHeader; rw [hw]; simp [hc]

theorem foldl_after_final (w : Writer) (c : Int) (hw : w.status = some c) (more : List Int) :
    more.foldl Writer.writeHeader w = w := by
  induction more with
  | nil => rfl
  | cons m ms ih =>
    have : w.writeHeader m = w := by unfold Writer.writeHeader; rw [hw]
    rw [List.foldl_cons, this, ih]

end Heimdall.ErrMap
