import HeimdallModel.Lemmas.Providers
/-! Helper lemmas for C18, kubernetes provider: the repository follows the informer's cache -/
set_option linter.unusedSectionVars false
set_option linter.unusedSimpArgs false

namespace Heimdall.Prov

variable {κ : Type} [DecidableEq κ]

/-- the rule sets that have to be loaded for source `s` = (key, uid), given the cache -/
def kWant (store : List (KObj κ)) (s : κ × Nat) : List Hash :=
  match kFind store s.1 with
  | some o => if o.cls ∧ o.uid = s.2 then [o.h] else []
  | none => []

def KInv (st : KSt κ) : Prop := ∀ s, loaded st.active s = kWant st.store s

/-- a delta tells the truth: the rules only change together with the generation, and a deletion shows the object as it
was last seen -/
def kGood (st : KSt κ) : KPrim κ → Bool
  | .upsert o =>
    match kFind st.store o.key with
    | some old => decide ((old.cls ∧ o.cls ∧ old.uid = o.uid ∧ old.gen = o.gen) → o.h = old.h)
    | none => true
  | .remove o =>
    match kFind st.store o.key with
    | some old => decide (o.cls = old.cls ∧ o.uid = old.uid)
    | none => true

def kGoodSeq (st : KSt κ) : List (KPrim κ) → Bool
  | [] => true
  | p :: ps => kGood st p && kGoodSeq (kPrim [] st p).st ps

/-- a history the API server can produce and the processor never refuses -/
def kWf (st : KSt κ) : List (List κ × KEvent κ) → Bool
  | [] => true
  | (rej, e) :: es => rej.isEmpty && kGoodSeq st (kPrims st e) && kWf (kStep rej st e).st es

theorem loaded_append {σ : Type} [DecidableEq σ] (a b : Active σ) (s : σ) :
    loaded (a ++ b) s = loaded a s ++ loaded b s := by
  simp [loaded]

theorem loaded_single {σ : Type} [DecidableEq σ] (s s' : σ) (h : Hash) :
    loaded [(s, h)] s' = if s = s' then [h] else [] := by
  by_cases e : s = s' <;> simp [loaded, e]

theorem loaded_without {σ : Type} [DecidableEq σ] (a : Active σ) (s s' : σ) :
    loaded (without a s) s' = if s' = s then [] else loaded a s' := by
  unfold loaded without
  rw [List.filter_filter]
  by_cases e : s' = s
  · subst e
    simp only [if_true, List.map_eq_nil_iff, List.filter_eq_nil_iff]
    intro p _; by_cases h : p.1 = s' <;> simp [h]
  · simp only [e, if_false]
    congr 1
    apply List.filter_congr
    intro p _
    by_cases h : p.1 = s'
    · have : ¬ p.1 = s := fun x => e (h.symm.trans x)
      simp [h, this, e]
    · simp [h]

theorem kFind_drop (store : List (KObj κ)) (k k' : κ) :
    kFind (kDrop store k) k' = if k' = k then none else kFind store k' := by
  unfold kFind kDrop
  induction store with
  | nil => simp
  | cons o store ih =>
    by_cases h : o.key = k
    · simp only [List.filter, h, decide_true, Bool.not_true, ih]
      by_cases e : k' = k
      · simp [e]
      · have : ¬ o.key = k' := fun x => e (x.symm.trans h)
        simp [e, List.find?, this]
    · simp only [List.filter, h, decide_false, Bool.not_false, List.find?]
      by_cases e : o.key = k'
      · have : ¬ k' = k := fun x => h (e.trans x)
        simp [e, this]
      · simp [e, ih]

theorem kFind_append_single (store : List (KObj κ)) (o : KObj κ) (k : κ) :
    kFind (store ++ [o]) k = match kFind store k with | some x => some x | none => if o.key = k then some o else none := by
  unfold kFind
  rw [List.find?_append]
  cases List.find? (fun o => decide (o.key = k)) store with
  | some x => rfl
  | none => by_cases e : o.key = k <;> simp [List.find?, e]

theorem kFind_put (store : List (KObj κ)) (o : KObj κ) (k : κ) :
    kFind (kPut store o) k = if k = o.key then some o else kFind store k := by
  unfold kPut
  rw [kFind_append_single, kFind_drop]
  by_cases e : k = o.key
  · simp [e]
  · have : ¬ o.key = k := fun x => e x.symm
    simp only [e, if_false, this]
    cases kFind store k <;> rfl

theorem kWant_put (store : List (KObj κ)) (o : KObj κ) (s : κ × Nat) :
    kWant (kPut store o) s = if s.1 = o.key then (if o.cls ∧ o.uid = s.2 then [o.h] else []) else kWant store s := by
  unfold kWant
  rw [kFind_put]
  by_cases e : s.1 = o.key <;> simp [e]

theorem kWant_drop (store : List (KObj κ)) (k : κ) (s : κ × Nat) :
    kWant (kDrop store k) s = if s.1 = k then [] else kWant store s := by
  unfold kWant
  rw [kFind_drop]
  by_cases e : s.1 = k <;> simp [e]

theorem kEmit_nil (a : Active (κ × Nat)) (c : Call (κ × Nat)) : kEmit [] a c = (a.apply c, [(c, true)]) := by
  simp [kEmit]

theorem kPrim_upsert_some (rej : List κ) (st : KSt κ) (o old : KObj κ) (h : kFind st.store o.key = some old) :
    kPrim rej st (.upsert o) = ⟨⟨kPut st.store o, (kOnUpdate rej st.active old o).1⟩, (kOnUpdate rej st.active old o).2⟩ := by
  simp [kPrim, h]

theorem kPrim_upsert_none (rej : List κ) (st : KSt κ) (o : KObj κ) (h : kFind st.store o.key = none) :
    kPrim rej st (.upsert o) = ⟨⟨kPut st.store o, (kOnAdd rej st.active o).1⟩, (kOnAdd rej st.active o).2⟩ := by
  simp [kPrim, h]

theorem kPrim_remove_some (rej : List κ) (st : KSt κ) (o old : KObj κ) (h : kFind st.store o.key = some old) :
    kPrim rej st (.remove o) = ⟨⟨kDrop st.store o.key, (kOnDelete rej st.active o).1⟩, (kOnDelete rej st.active o).2⟩ := by
  simp [kPrim, h]

theorem kPrim_remove_none (rej : List κ) (st : KSt κ) (o : KObj κ) (h : kFind st.store o.key = none) :
    kPrim rej st (.remove o) = ⟨st, []⟩ := by
  simp [kPrim, h]

theorem kFind_key (store : List (KObj κ)) (k : κ) (o : KObj κ) (h : kFind store k = some o) : o.key = k := by
  have := List.find?_some h; simpa using this

theorem kPrim_inv (st : KSt κ) (p : KPrim κ) (hi : KInv st) (hg : kGood st p = true) : KInv (kPrim [] st p).st := by
  intro s
  obtain ⟨sk, su⟩ := s
  have hw := hi (sk, su)
  cases p with
  | remove o =>
    have ek' : (o.key = sk) = (sk = o.key) := propext ⟨Eq.symm, Eq.symm⟩
    unfold kGood at hg
    cases hf : kFind st.store o.key with
    | none => rw [kPrim_remove_none _ _ _ hf]; exact hw
    | some old =>
      simp only [hf, decide_eq_true_eq] at hg
      rw [kPrim_remove_some _ _ _ _ hf]
      have hold : sk = o.key → kWant st.store (sk, su) = if old.cls ∧ old.uid = su then [old.h] else [] := by
        intro ht; unfold kWant; simp only [ht, hf]
      simp only [kOnDelete, kWant_drop]
      cases hc : o.cls <;>
        simp only [hc, Bool.false_eq_true, if_false, if_true, kEmit_nil, Active.apply, loaded_without, KObj.src,
          Prod.mk.injEq, ek'] <;>
        by_cases ek : sk = o.key <;> by_cases eu : o.uid = su <;> simp_all
  | upsert o =>
    have ek' : (o.key = sk) = (sk = o.key) := propext ⟨Eq.symm, Eq.symm⟩
    unfold kGood at hg
    cases hf : kFind st.store o.key with
    | none =>
      rw [kPrim_upsert_none _ _ _ hf]
      have hold : sk = o.key → kWant st.store (sk, su) = [] := by
        intro ht; unfold kWant; simp only [ht, hf]
      simp only [kOnAdd, kWant_put]
      cases hc : o.cls <;>
        simp only [hc, Bool.false_eq_true, if_false, if_true, kEmit_nil, Active.apply, loaded_append, loaded_single,
          KObj.src, Prod.mk.injEq, ek'] <;>
        by_cases ek : sk = o.key <;> by_cases eu : o.uid = su <;> simp_all
    | some old =>
      simp only [hf, decide_eq_true_eq] at hg
      rw [kPrim_upsert_some _ _ _ _ hf]
      have hk : old.key = o.key := kFind_key _ _ _ hf
      have hold : sk = o.key → kWant st.store (sk, su) = if old.cls ∧ old.uid = su then [old.h] else [] := by
        intro ht; unfold kWant; simp only [ht, hf]
      simp only [kWant_put]
      unfold kOnUpdate
      cases hnc : o.cls <;> cases hoc : old.cls <;> simp only [hnc, hoc] at hg ⊢
      · by_cases ek : sk = o.key <;> simp_all
      · simp only [kEmit_nil, Active.apply, loaded_without, KObj.src, Prod.mk.injEq, ek']
        by_cases ek : sk = o.key <;> by_cases eo : old.uid = su <;> simp_all
      · simp only [kEmit_nil, Active.apply, loaded_append, loaded_single, KObj.src, Prod.mk.injEq, ek']
        by_cases ek : sk = o.key <;> by_cases eu : o.uid = su <;> simp_all
      · by_cases hu : old.uid = o.uid
        · by_cases hgen : old.gen = o.gen
          · have hh : o.h = old.h := hg ⟨trivial, trivial, hu, hgen⟩
            simp only [hu, ne_eq, not_true_eq_false, if_false, hgen, if_true]
            by_cases ek : sk = o.key <;> by_cases eu : o.uid = su <;> simp_all
          · simp only [hu, ne_eq, not_true_eq_false, if_false, hgen, kEmit_nil, Active.apply, loaded_append,
              loaded_single, loaded_without, KObj.src, Prod.mk.injEq, ek']
            by_cases ek : sk = o.key <;> by_cases eu : o.uid = su <;> simp_all
        · simp only [ne_eq, hu, not_false_eq_true, if_true, kSeq, kEmit_nil, Active.apply, loaded_append,
            loaded_single, loaded_without, KObj.src, Prod.mk.injEq, ek']
          by_cases ek : sk = o.key <;> by_cases eu : o.uid = su <;> by_cases eo : old.uid = su <;> simp_all

theorem kFold_inv (st : KSt κ) (ps : List (KPrim κ)) (hi : KInv st) (hg : kGoodSeq st ps = true) :
    KInv (kFold [] st ps).st := by
  induction ps generalizing st with
  | nil => exact hi
  | cons p ps ih =>
    simp only [kGoodSeq, Bool.and_eq_true] at hg
    exact ih _ (kPrim_inv st p hi hg.1) hg.2

theorem kRun_inv (st : KSt κ) (es : List (List κ × KEvent κ)) (hi : KInv st) (hw : kWf st es = true) :
    KInv (kRun st es) := by
  induction es generalizing st with
  | nil => exact hi
  | cons x es ih =>
    obtain ⟨rej, e⟩ := x
    simp only [kWf, Bool.and_eq_true, List.isEmpty_iff] at hw
    obtain ⟨⟨hr, hg⟩, hrest⟩ := hw
    subst hr
    exact ih _ (kFold_inv st _ hi hg) hrest

end Heimdall.Prov
