import HeimdallModel.Spec.Crash
/-!
# Lemmas about the loaders model (property C19)

Core Lean only. Structure: outcomes; termination of the chain walk; key stores; the three loaders; trust stores;
the rule factory over untyped values; background loops; the process; the credentials file of the redis cache.
-/
namespace Heimdall.Loaders

/-! ## outcomes -/

@[simp] theorem bind_eq {α β : Type} (o : Out α) (f : α → Out β) : (o >>= f) = o.bind f := rfl
@[simp] theorem pure_eq {α : Type} (a : α) : (pure a : Out α) = .ok a := rfl

@[simp] theorem Out.bind_ok {α β : Type} (a : α) (f : α → Out β) : (Out.ok a).bind f = f a := rfl
@[simp] theorem Out.bind_err {α β : Type} (r : Reason) (f : α → Out β) : (Out.err r : Out α).bind f = .err r := rfl
@[simp] theorem Out.bind_panic {α β : Type} (f : α → Out β) : (Out.panic : Out α).bind f = .panic := rfl
@[simp] theorem Out.bind_fatal {α β : Type} (f : α → Out β) : (Out.fatal : Out α).bind f = .fatal := rfl

@[simp] theorem Out.returns_ok {α : Type} (a : α) : (Out.ok a).returns = true := rfl
@[simp] theorem Out.returns_err {α : Type} (r : Reason) : (Out.err r : Out α).returns = true := rfl
@[simp] theorem Out.returns_panic {α : Type} : (Out.panic : Out α).returns = false := rfl
@[simp] theorem Out.returns_fatal {α : Type} : (Out.fatal : Out α).returns = false := rfl

/-- a sequence of calls comes back if the first does and the continuation does for every value -/
theorem Out.returns_bind {α β : Type} {o : Out α} {f : α → Out β}
    (ho : o.returns = true) (hf : ∀ a, o = .ok a → (f a).returns = true) : (o.bind f).returns = true := by
  cases o with
  | ok a => exact hf a rfl
  | err r => rfl
  | panic => simp at ho
  | fatal => simp at ho

theorem Out.returns_iff {α : Type} (o : Out α) : o.returns = true ↔ o ≠ .panic ∧ o ≠ .fatal := by
  cases o <;> simp [Out.returns]

theorem Out.recovered_returns {α : Type} (o : Out α) : o.recovered.returns = true ↔ o ≠ .fatal := by
  cases o <;> simp [Out.recovered, Out.returns]

theorem Out.recovered_ok {α : Type} (o : Out α) (a : α) : o.recovered = .ok a ↔ o = .ok a := by
  cases o <;> simp [Out.recovered]

/-! ## the chain walk ends -/

theorem length_filter_lt {α : Type} {p : α → Bool} {l : List α} {a : α} (ha : a ∈ l) (hp : p a = false) :
    (l.filter p).length < l.length := by
  have hle := List.length_filter_le p l
  have hne : (l.filter p).length ≠ l.length := by
    intro h
    have := (List.length_filter_eq_length_iff.mp h) a ha
    simp [hp] at this
  omega

/-- the certificates of the pool the walk has not used yet -/
def unvisited (vis pool : List Cert) : List Cert := pool.filter fun c => !visited vis c

theorem visited_append (a b : List Cert) (c : Cert) : visited (a ++ b) c = (visited a c || visited b c) := by
  simp [visited]

theorem unvisited_snoc_lt (v pool : List Cert) (cand : Cert) (hm : cand ∈ pool) (hv : visited v cand = false) :
    (unvisited (v ++ [cand]) pool).length < (unvisited v pool).length := by
  have hEq : unvisited (v ++ [cand]) pool = (unvisited v pool).filter fun c => !(cand.cid == c.cid) := by
    simp only [unvisited, List.filter_filter]
    congr 1
    funext c
    simp [visited, Bool.and_comm]
  rw [hEq]
  apply length_filter_lt (a := cand)
  · simp [unvisited, hm, hv]
  · simp

/-- what `nextIssuer` guarantees about the certificate it picks -/
theorem nextIssuer_some {g : Guards} {done : List Cert} {child cand : Cert} {pool : List Cert}
    (h : nextIssuer g done child pool = some cand) :
    cand ∈ pool ∧ cand.cid ≠ child.cid ∧ (g.chainVisited = true → visited done cand = false) ∧
      isIssuerOf child cand = true := by
  have hp := List.find?_some h
  have hm := List.mem_of_find?_eq_some h
  simp only [Bool.and_eq_true, Bool.not_eq_true', beq_eq_false_iff_ne, ne_eq] at hp
  refine ⟨hm, hp.1.1, ?_, hp.2⟩
  intro hg
  have := hp.1.2
  simpa [hg] using this

/-- **Termination.** With the visited check the recursion of `buildChain` ends as soon as the fuel exceeds the number
of certificates not yet in the chain. -/
theorem buildChain_isSome (g : Guards) (hg : g.chainVisited = true) (pool : List Cert) :
    ∀ (fuel : Nat) (done : List Cert) (child : Cert),
      (unvisited (done ++ [child]) pool).length < fuel → (buildChain g fuel done child pool).isSome = true := by
  intro fuel
  induction fuel with
  | zero => intro _ _ h; omega
  | succ n ih =>
    intro done child h
    unfold buildChain
    cases hn : nextIssuer g done child pool with
    | none => simp
    | some cand =>
      simp only
      apply ih
      obtain ⟨hm, hne, hv, _⟩ := nextIssuer_some hn
      have hvis : visited (done ++ [child]) cand = false := by
        rw [visited_append, hv hg]
        simp [visited]
        exact fun h => hne h.symm
      have := unvisited_snoc_lt (done ++ [child]) pool cand hm hvis
      omega

/-- the chain `buildChain` returns: starts with what was there, never repeats a certificate (given the check),
and stays inside the pool -/
theorem buildChain_spec (g : Guards) (pool : List Cert) :
    ∀ (fuel : Nat) (done : List Cert) (child : Cert) (chain : List Cert),
      buildChain g fuel done child pool = some chain →
        (done ++ [child]) <+: chain ∧ (∀ c ∈ chain, c ∈ done ++ [child] ∨ c ∈ pool) := by
  intro fuel
  induction fuel with
  | zero => intro _ _ _ h; simp [buildChain] at h
  | succ n ih =>
    intro done child chain h
    unfold buildChain at h
    cases hn : nextIssuer g done child pool with
    | none =>
      simp [hn] at h
      subst h
      exact ⟨List.prefix_refl _, fun c hc => Or.inl hc⟩
    | some cand =>
      simp only [hn] at h
      obtain ⟨hpre, hin⟩ := ih _ _ _ h
      obtain ⟨hm, _, _, _⟩ := nextIssuer_some hn
      refine ⟨List.IsPrefix.trans (List.prefix_append _ _) hpre, ?_⟩
      intro c hc
      rcases hin c hc with h1 | h1
      · rcases List.mem_append.mp h1 with h2 | h2
        · exact Or.inl h2
        · simp at h2; subst h2; exact Or.inr hm
      · exact Or.inr h1

theorem findChain_returns (g : Guards) (hg : g.chainVisited = true) (certs : List Cert) (k : Key) :
    (findChain g certs k).returns = true := by
  unfold findChain
  cases certs.find? (·.key == k.id) with
  | none => rfl
  | some c =>
    simp only
    have hlt : (unvisited ([] ++ [c]) certs).length < certs.length + 1 := by
      have := List.length_filter_le (fun x => !visited ([] ++ [c]) x) certs
      simp only [unvisited]
      omega
    have := buildChain_isSome g hg certs (certs.length + 1) [] c hlt
    cases hb : buildChain g (certs.length + 1) [] c certs with
    | none => simp [hb] at this
    | some chain => rfl

/-- without the check `findChain` is the only place of the key store that can end badly, and only fatally -/
theorem findChain_ne_panic (g : Guards) (certs : List Cert) (k : Key) : findChain g certs k ≠ .panic := by
  unfold findChain
  cases certs.find? (·.key == k.id) with
  | none => simp
  | some c =>
    simp only
    cases buildChain g (certs.length + 1) [] c certs <;> simp

/-! ## key stores -/

theorem build_returns (g : Guards) (hg : g.chainVisited = true) (certs : List Cert) :
    ∀ (ks : List (Key × String)) (known : List String), (build g certs ks known).returns = true := by
  intro ks
  induction ks with
  | nil => intro _; rfl
  | cons x rest ih =>
    intro known
    obtain ⟨k, kid⟩ := x
    simp only [build, bind_eq]
    apply Out.returns_bind (findChain_returns g hg certs k)
    intro chain _
    split
    · rfl
    · split
      · rfl
      · exact Out.returns_bind (ih _) (fun _ _ => rfl)

theorem build_ne_panic (g : Guards) (certs : List Cert) :
    ∀ (ks : List (Key × String)) (known : List String), build g certs ks known ≠ .panic := by
  intro ks
  induction ks with
  | nil => intro _; simp [build]
  | cons x rest ih =>
    intro known
    obtain ⟨k, kid⟩ := x
    simp only [build, bind_eq]
    cases hf : findChain g certs k with
    | panic => exact absurd hf (findChain_ne_panic g certs k)
    | fatal => simp
    | err r => simp
    | ok chain =>
      simp only [Out.bind_ok]
      split
      · simp
      · split
        · simp
        · cases hb : build g certs rest _ with
          | panic => exact absurd hb (ih _)
          | _ => simp

theorem createKeyStore_returns (g : Guards) (hg : g.chainVisited = true) (blocks : List Block) :
    (createKeyStore g blocks).returns = true := by
  unfold createKeyStore
  cases scan blocks with
  | error r => rfl
  | ok p => exact build_returns g hg _ _ _

theorem createKeyStore_ne_panic (g : Guards) (blocks : List Block) : createKeyStore g blocks ≠ .panic := by
  unfold createKeyStore
  cases scan blocks with
  | error r => simp
  | ok p => exact build_ne_panic g _ _ _

/-! ## outcomes up to a tolerated panic -/

/-- the call did not end fatally, and did not panic unless panics are tolerated (because something recovers) -/
def Out.within {α : Type} (panicOk : Bool) : Out α → Bool
  | .ok _ => true
  | .err _ => true
  | .panic => panicOk
  | .fatal => false

theorem Out.within_false {α : Type} (o : Out α) : o.within false = o.returns := by cases o <;> rfl

theorem Out.within_true {α : Type} (o : Out α) : o.within true = true ↔ o ≠ .fatal := by
  cases o <;> simp [Out.within]

theorem Out.within_of_returns {α : Type} {o : Out α} (b : Bool) (h : o.returns = true) : o.within b = true := by
  cases o <;> simp_all [Out.within, Out.returns]

theorem Out.within_bind {α β : Type} {b : Bool} {o : Out α} {f : α → Out β}
    (ho : o.within b = true) (hf : ∀ a, o = .ok a → (f a).within b = true) : (o.bind f).within b = true := by
  cases o with
  | ok a => exact hf a rfl
  | err r => rfl
  | panic => exact ho
  | fatal => simp [Out.within] at ho

theorem Out.within_mono {α : Type} {o : Out α} {b : Bool} (h : o.within false = true) : o.within b = true := by
  cases o <;> simp_all [Out.within]

/-! ## the three loaders -/

theorem selectKey_mem {g : Guards} {keyId : String} {ks : List Entry} {e : Entry}
    (h : selectKey g keyId ks = .ok e) : e ∈ ks := by
  unfold selectKey at h
  split at h
  · cases hf : ks.find? (·.kid == keyId) with
    | none => simp [hf] at h
    | some x =>
      simp [hf] at h
      subst h
      exact List.mem_of_find?_eq_some hf
  · cases ks with
    | nil => exfalso; revert h; simp only; cases g.selectKey <;> simp
    | cons x xs => cases h; exact List.mem_cons_self

theorem selectKey_within (g : Guards) (keyId : String) (ks : List Entry) :
    (selectKey g keyId ks).within (!g.selectKey) = true := by
  unfold selectKey
  split
  · cases ks.find? (·.kid == keyId) <;> rfl
  · cases ks with
    | nil => cases h : g.selectKey <;> simp [Out.within]
    | cons x xs => rfl

theorem joseAlg_httpSigKnows (g : Guards) (hp : g.p521 = true) (k : Key) (h : (joseAlg k).isNone = false) :
    httpSigKnows g k = true := by
  unfold joseAlg at h
  unfold httpSigKnows
  split at h <;> simp_all

/-- **The loaders.** With the walk bounded, a load never ends fatally, and it panics only for want of one of the
three checks on the key material. -/
theorem load_within (g : Guards) (hv : g.chainVisited = true) (c : Consumer) (keyId : String) (blocks : List Block) :
    (load g c keyId blocks).within (!g.materialSafe) = true := by
  simp only [load, bind_eq]
  apply Out.within_bind (Out.within_of_returns _ (createKeyStore_returns g hv blocks))
  intro ks _
  have hsel : (selectKey g keyId ks).within (!g.materialSafe) = true := by
    have h1 := selectKey_within g keyId ks
    cases hs : g.selectKey
    · have hms : g.materialSafe = false := by simp [Guards.materialSafe, hs]
      rw [hs] at h1
      rw [hms]
      exact h1
    · rw [hs] at h1
      exact Out.within_mono h1
  apply Out.within_bind hsel
  intro e he
  have hmem := selectKey_mem he
  cases c with
  | tls => simp only; split <;> rfl
  | jwt =>
    simp only
    by_cases hany : ks.any (fun x => (joseAlg x.key).isNone) = true
    · cases hj : g.joseCheck
      · have : g.materialSafe = false := by simp [Guards.materialSafe, hj]
        simp only [this, hany, Bool.false_and, Bool.false_eq_true, if_false, if_true]
        split <;> rfl
      · simp [hany, Out.within]
    · simp only [hany, Bool.and_false, Bool.false_eq_true, if_false]
      split <;> rfl
  | httpsig =>
    simp only
    by_cases hany : ks.any (fun x => (joseAlg x.key).isNone) = true
    · cases hj : g.joseCheck
      · have : g.materialSafe = false := by simp [Guards.materialSafe, hj]
        simp only [this, hany, Bool.false_and, Bool.false_eq_true, if_false, if_true]
        split <;> rfl
      · simp [hany, Out.within]
    · simp only [hany, Bool.and_false, Bool.false_eq_true, if_false]
      split
      · rfl
      · cases hp : g.p521
        · have : g.materialSafe = false := by simp [Guards.materialSafe, hp]
          rw [this]
          split <;> rfl
        · have hk : httpSigKnows g e.key = true := by
            apply joseAlg_httpSigKnows g hp
            have := hany
            simp only [List.any_eq_true, not_exists, not_and, Bool.not_eq_true] at this
            exact this e hmem
          simp [hk, Out.within]

theorem load_returns (g : Guards) (hv : g.chainVisited = true) (hm : g.materialSafe = true)
    (c : Consumer) (keyId : String) (blocks : List Block) : (load g c keyId blocks).returns = true := by
  have := load_within g hv c keyId blocks
  rw [hm] at this
  simpa [Out.within_false] using this

theorem load_ne_fatal (g : Guards) (hv : g.chainVisited = true) (c : Consumer) (keyId : String)
    (blocks : List Block) : load g c keyId blocks ≠ .fatal := by
  have := load_within g hv c keyId blocks
  exact (Out.within_true _).mp (by cases h : load g c keyId blocks <;> simp_all [Out.within])

/-- a file without any complete key block is never taken over -/
theorem scan_no_keys : ∀ (blocks : List Block) (ks : List (Key × String)) (cs : List Cert),
    (∀ b ∈ blocks, ∀ k, b.content ≠ .key k) → scan blocks = .ok (ks, cs) → ks = [] := by
  intro blocks
  induction blocks with
  | nil => intro ks cs _ h; simp [scan] at h; exact h.1
  | cons b bs ih =>
    intro ks cs hno h
    have hb := hno b (by simp)
    have hbs : ∀ x ∈ bs, ∀ k, x.content ≠ .key k := fun x hx => hno x (by simp [hx])
    unfold scan at h
    split at h
    · simp at h
    · rename_i c hc
      cases hs : scan bs with
      | error r => simp [hs, bind, Except.bind] at h
      | ok p =>
        obtain ⟨ks', cs'⟩ := p
        simp [hs, bind, Except.bind, pure, Except.pure] at h
        have := ih ks' cs' hbs hs
        rw [← h.1]; exact this
    · simp at h
    · rename_i k hk _ _
      exact absurd hk (hb k)
    · simp at h

theorem load_no_keys (g : Guards) (c : Consumer) (keyId : String) (blocks : List Block)
    (hno : ∀ b ∈ blocks, ∀ k, b.content ≠ .key k) (s : Loaded) : load g c keyId blocks ≠ .ok s := by
  simp only [load, bind_eq, createKeyStore]
  cases hs : scan blocks with
  | error r => simp
  | ok p =>
    obtain ⟨ks, cs⟩ := p
    have := scan_no_keys blocks ks cs hno hs
    subst this
    simp only [build, Out.bind_ok, selectKey]
    split
    · simp
    · split <;> simp

/-! ## trust stores -/

theorem loadTrust_returns (g : Guards) (hg : g.pemEnd = true) (strict : Bool) (f : PemFile) :
    (loadTrust g strict f).returns = true := by
  unfold loadTrust
  cases trustEntries strict f.blocks with
  | error r => rfl
  | ok cs =>
    simp only [hg, Bool.not_true, Bool.false_eq_true, if_false, Bool.true_and]
    split
    · split <;> rfl
    · split <;> rfl

/-! ## the rule factory over untyped values -/

theorem scopeValues_within (g : Guards) (v : Val) : (scopeValues g v).within (!g.scopeTypes) = true := by
  unfold scopeValues
  split
  · split
    · rfl
    · cases hg : g.scopeTypes <;> simp [Out.within]
  · cases hg : g.scopeTypes <;> simp [Out.within]

theorem decodeScopes_within (g : Guards) (v : Val) : (decodeScopes g v).within (!g.scopeTypes) = true := by
  cases v with
  | list l => exact scopeValues_within g (.list l)
  | map m =>
    simp only [decodeScopes]
    apply Out.within_bind
    · cases lookup m "matching_strategy" with
      | none => rfl
      | some v =>
        cases v with
        | str s => simp only []; split <;> rfl
        | null => simp only []; cases hg : g.scopeTypes <;> simp [Out.within]
        | bool b => simp only []; cases hg : g.scopeTypes <;> simp [Out.within]
        | num n => simp only []; cases hg : g.scopeTypes <;> simp [Out.within]
        | list l => simp only []; cases hg : g.scopeTypes <;> simp [Out.within]
        | map m => simp only []; cases hg : g.scopeTypes <;> simp [Out.within]
        | other => simp only []; cases hg : g.scopeTypes <;> simp [Out.within]
    · intro _ _
      cases lookup m "values" with
      | none => rfl
      | some v => exact scopeValues_within g v
  | other => cases hg : g.scopeTypes <;> simp [decodeScopes, hg, Out.within]
  | null => rfl
  | bool b => rfl
  | num n => rfl
  | str s => rfl

theorem withConfig_within (g : Guards) (p : Proto) (cfg : Option Fields) :
    (withConfig g p cfg).within (!g.scopeTypes) = true := by
  unfold withConfig
  split
  · rfl
  · rfl
  · split
    · exact decodeScopes_within g _
    · split <;> rfl

theorem reference_within (g : Guards) (id : Val) (cfg : Option Val) :
    (reference g id cfg).within (!g.refTypes) = true := by
  unfold reference
  split
  · split
    · rfl
    · rfl
    · rfl
    · cases hg : g.refTypes <;> simp [Out.within]
  · cases hg : g.refTypes <;> simp [Out.within]

theorem within_weaken {α : Type} {o : Out α} {a b : Bool} (h : o.within a = true) (hab : a = true → b = true) :
    o.within b = true := by
  cases o <;> simp_all [Out.within]

theorem instantiate_within (g : Guards) (env : Env) (k : Kind) (ref : String) (conf : Option Fields) :
    (instantiate g env k ref conf).within (!g.factorySafe) = true := by
  unfold instantiate
  cases env.cat k ref with
  | none => rfl
  | some p =>
    simp only
    apply Out.within_bind
    · apply within_weaken (withConfig_within g p conf)
      simp [Guards.factorySafe]
      intro h; simp [h]
    · intro _ _; rfl

theorem create_within (g : Guards) (env : Env) (k : Kind) (id : Val) (cfg : Option Val) :
    (create g env k id cfg).within (!g.factorySafe) = true := by
  unfold create
  apply Out.within_bind
  · apply within_weaken (reference_within g id cfg)
    simp [Guards.factorySafe]
    intro h; simp [h]
  · intro a _
    exact instantiate_within g env k a.1 a.2

theorem condition_returns (env : Env) (v : Option Val) : (condition env v).returns = true := by
  unfold condition
  split <;> (try rfl)
  split <;> (try rfl)
  split <;> rfl

theorem handler_within (g : Guards) (env : Env) (k : Kind) (id : Val) (m : Fields) :
    (handler g env k id m).within (!g.factorySafe) = true := by
  simp only [handler, bind_eq]
  apply Out.within_bind (Out.within_of_returns _ (condition_returns env _))
  intro _ _
  exact create_within g env k id _

theorem execStep_within (g : Guards) (env : Env) (acc : Pipes) (m : Fields) :
    (execStep g env acc m).within (!g.factorySafe) = true := by
  unfold execStep
  split
  · split
    · rfl
    · simp only [bind_eq, pure_eq]
      exact Out.within_bind (create_within g env _ _ _) (fun _ _ => rfl)
  · split
    · split
      · rfl
      · simp only [bind_eq, pure_eq]
        exact Out.within_bind (handler_within g env _ _ _) (fun _ _ => rfl)
    · split
      · split
        · rfl
        · simp only [bind_eq, pure_eq]
          exact Out.within_bind (handler_within g env _ _ _) (fun _ _ => rfl)
      · split
        · simp only [bind_eq, pure_eq]
          exact Out.within_bind (handler_within g env _ _ _) (fun _ _ => rfl)
        · rfl

theorem execPipeline_within (g : Guards) (env : Env) :
    ∀ (ms : List Fields) (acc : Pipes), (execPipeline g env acc ms).within (!g.factorySafe) = true := by
  intro ms
  induction ms with
  | nil => intro _; rfl
  | cons m ms ih =>
    intro acc
    simp only [execPipeline]
    exact Out.within_bind (execStep_within g env acc m) (fun a _ => ih a)

theorem errStep_within (g : Guards) (env : Env) (m : Fields) :
    (errStep g env m).within (!g.factorySafe) = true := by
  unfold errStep
  cases hl : lookup m "error_handler" with
  | none => rfl
  | some id =>
    simp only
    cases hr : g.refTypes
    · have hf : g.factorySafe = false := by simp [Guards.factorySafe, hr]
      simp only [Bool.false_eq_true, if_false, hf, Bool.not_false]
      have hrest : ((condition env (lookup m "if")).bind fun _ =>
          create g env .eh id (lookup m "config")).within true = true := by
        apply Out.within_bind (Out.within_of_returns _ (condition_returns env _))
        intro _ _
        have := create_within g env .eh id (lookup m "config")
        rw [hf] at this
        exact this
      split
      · rfl
      · rfl
      · rfl
      · rfl
      · rfl
      · simpa using hrest
    · simp only [if_true]
      apply Out.within_bind
      · apply within_weaken (reference_within g _ _)
        simp [hr]
      · intro a _
        apply Out.within_bind (Out.within_of_returns _ (condition_returns env _))
        intro _ _
        exact instantiate_within g env .eh a.1 a.2

theorem errPipeline_within (g : Guards) (env : Env) :
    ∀ (ms : List Fields), (errPipeline g env ms).within (!g.factorySafe) = true := by
  intro ms
  induction ms with
  | nil => rfl
  | cons m ms ih =>
    simp only [errPipeline]
    apply Out.within_bind (errStep_within g env m)
    intro _ _
    exact Out.within_bind ih (fun _ _ => rfl)

theorem createRule_within (g : Guards) (env : Env) (r : RuleCfg) :
    (createRule g env r).within (!g.factorySafe) = true := by
  simp only [createRule, bind_eq, pure_eq]
  apply Out.within_bind (execPipeline_within g env _ _)
  intro p _
  apply Out.within_bind (errPipeline_within g env _)
  intro _ _
  split
  · rfl
  · split <;> rfl

theorem createRules_within (g : Guards) (env : Env) :
    ∀ (rs : List RuleCfg), (createRules g env rs).within (!g.factorySafe) = true := by
  intro rs
  induction rs with
  | nil => rfl
  | cons r rs ih =>
    simp only [createRules]
    apply Out.within_bind (createRule_within g env r)
    intro _ _
    exact Out.within_bind ih (fun _ _ => rfl)

/-- **Rule sets.** Loading a rule set never ends fatally; it panics only if neither the type checks of the factory
and the scopes hook nor the `recover` of the processor are there. -/
theorem loadRules_within (g : Guards) (env : Env) (rs : List RuleCfg) :
    (loadRules g env rs).within (!(g.factorySafe || g.processorRecover)) = true := by
  have h := createRules_within g env rs
  unfold loadRules
  cases hp : g.processorRecover
  · simp only [Bool.false_eq_true, if_false, Bool.or_false]
    exact h
  · simp only [if_true, Bool.or_true, Bool.not_true]
    rw [Out.within_false, Out.recovered_returns]
    intro hf
    rw [hf] at h
    simp [Out.within] at h

theorem loadRuleSet_within (g : Guards) (env : Env) (d : RuleSetDoc) :
    (loadRuleSet g env d).within (!(g.factorySafe || g.processorRecover)) = true := by
  unfold loadRuleSet
  split
  · rfl
  · split
    · rfl
    · split
      · rfl
      · exact loadRules_within g env _

/-- a change of a rule file: the outcome is within what the provider's own `recover` has to catch, and whatever
is not taken over leaves the rules in force untouched -/
theorem fileChanged_within (g : Guards) (env : Env) (st : Option (List String)) (content : FileContent) :
    (fileChanged g env st content).1.within
      (!((g.factorySafe || g.processorRecover) && g.statChecked)) = true := by
  cases content with
  | empty => rfl
  | unparsable => rfl
  | vanished d =>
    simp only [fileChanged]
    split
    · rfl
    · split
      · rfl
      · cases hs : g.statChecked <;> simp [Out.within]
  | doc d =>
    have h := loadRuleSet_within g env d
    simp only [fileChanged]
    cases hl : loadRuleSet g env d with
    | ok ids => rfl
    | err r => rfl
    | fatal => rw [hl] at h; simp [Out.within] at h
    | panic =>
      rw [hl] at h
      simp only [Out.within] at h ⊢
      simp only [Bool.not_eq_true'] at h
      simp [h]

theorem fileChanged_state (g : Guards) (env : Env) (st : Option (List String)) (content : FileContent) :
    (fileChanged g env st content).2 = orKeep (ruleLoads g env content) st := by
  cases content with
  | empty => rfl
  | unparsable => rfl
  | vanished d =>
    simp only [fileChanged, ruleLoads]
    cases hm : d.rules.mapM decodeRule with
    | error r => rfl
    | ok rs =>
      simp only
      cases he : d.rules.isEmpty <;> cases hs : g.statChecked <;> simp [orKeep]
  | doc d =>
    simp only [fileChanged, ruleLoads]
    cases loadRuleSet g env d <;> rfl

theorem reload_state (g : Guards) (c : Consumer) (keyId : String) (st : Option Loaded) (blocks : List Block) :
    (reload g c keyId st blocks).2 = orKeep (materialLoads g c keyId blocks) st := by
  simp only [reload, materialLoads]
  cases load g c keyId blocks <;> rfl

theorem reload_outcome (g : Guards) (c : Consumer) (keyId : String) (st : Option Loaded) (blocks : List Block)
    (b : Bool) : (reload g c keyId st blocks).1.within b = (load g c keyId blocks).within b := by
  simp only [reload]
  cases load g c keyId blocks <;> rfl

/-! ## an accepted rule set is accepted as a whole -/

theorem Out.bind_eq_ok {α β : Type} {o : Out α} {f : α → Out β} {b : β} (h : o.bind f = .ok b) :
    ∃ a, o = .ok a ∧ f a = .ok b := by
  cases o with
  | ok a => exact ⟨a, rfl, h⟩
  | err r => simp at h
  | panic => simp at h
  | fatal => simp at h

theorem createRule_id (g : Guards) (env : Env) (r : RuleCfg) (id : String) (h : createRule g env r = .ok id) :
    id = r.id := by
  simp only [createRule, bind_eq, pure_eq] at h
  obtain ⟨p, _, h⟩ := Out.bind_eq_ok h
  obtain ⟨_, _, h⟩ := Out.bind_eq_ok h
  split at h
  · simp at h
  · split at h
    · simp at h
    · cases h; rfl

theorem createRules_ids (g : Guards) (env : Env) :
    ∀ (rs : List RuleCfg) (ids : List String), createRules g env rs = .ok ids → ids = rs.map (·.id) := by
  intro rs
  induction rs with
  | nil => intro ids h; simp [createRules] at h; simp [h]
  | cons r rs ih =>
    intro ids h
    simp only [createRules] at h
    obtain ⟨id, h1, h⟩ := Out.bind_eq_ok h
    obtain ⟨rest, h2, h⟩ := Out.bind_eq_ok h
    cases h
    rw [createRule_id g env r id h1, ih rest h2]
    rfl

theorem decodeRule_id (r : RuleDoc) (c : RuleCfg) (h : decodeRule r = .ok c) : c.id = r.id := by
  simp only [decodeRule, bind, Except.bind, pure, Except.pure] at h
  cases he : decodeExecute r.execute with
  | error e => simp [he] at h
  | ok ex =>
    cases ho : decodeOnError r.onError with
    | error e => simp [he, ho] at h
    | ok oe =>
      simp [he, ho] at h
      rw [← h]

theorem mapM_decodeRule_ids : ∀ (ds : List RuleDoc) (cs : List RuleCfg),
    ds.mapM decodeRule = .ok cs → cs.map (·.id) = ds.map (·.id) := by
  intro ds
  induction ds with
  | nil => intro cs h; simp [pure, Except.pure] at h; subst h; rfl
  | cons d ds ih =>
    intro cs h
    simp only [List.mapM_cons, bind, Except.bind, pure, Except.pure] at h
    cases hd : decodeRule d with
    | error e => simp [hd] at h
    | ok c =>
      cases hm : ds.mapM decodeRule with
      | error e => simp [hd, hm] at h
      | ok rest =>
        simp [hd, hm] at h
        subst h
        simp [decodeRule_id d c hd, ih rest hm]

theorem loadRuleSet_ids (g : Guards) (env : Env) (d : RuleSetDoc) (ids : List String)
    (h : loadRuleSet g env d = .ok ids) : ids = d.rules.map (·.id) := by
  unfold loadRuleSet at h
  split at h
  · simp at h
  · cases hm : d.rules.mapM decodeRule with
    | error e => simp [hm] at h
    | ok cs =>
      simp only [hm] at h
      split at h
      · simp at h
      · unfold loadRules at h
        have hc : createRules g env cs = .ok ids := by
          split at h
          · exact (Out.recovered_ok _ _).mp h
          · exact h
        rw [createRules_ids g env cs ids hc, mapM_decodeRule_ids d.rules cs hm]

/-! ## background loops -/

theorem survives_of_within {o : Out Unit} {guard : Bool} (h : o.within guard = true) : survives guard o = true := by
  cases o <;> simp_all [Out.within, survives]

theorem deliver_alive {σ : Type} (guard : Bool) (h : σ → Out Unit × σ) (p : Proc σ)
    (hw : (h p.state).1.within guard = true) :
    (deliver guard h p).alive = p.alive ∧ (p.alive = true → (deliver guard h p).handled = p.handled + 1) ∧
      (p.alive = true → (deliver guard h p).state = (h p.state).2) := by
  unfold deliver
  cases hp : p.alive
  · simp [hp]
  · simp only [Bool.not_true, Bool.false_eq_true, if_false]
    generalize hh : h p.state = r at hw
    obtain ⟨o, s⟩ := r
    cases o with
    | ok u => simp
    | err r => simp
    | panic =>
      simp only [Out.within] at hw
      simp [hw]
    | fatal => simp [Out.within] at hw

/-- **Watchers go on.** A loop whose handlers end within what it recovers from survives every sequence of
notifications and handles every one of them. -/
theorem run_alive {σ : Type} (guard : Bool) :
    ∀ (hs : List (σ → Out Unit × σ)) (p : Proc σ),
      (∀ h ∈ hs, ∀ s, (h s).1.within guard = true) →
        (run guard hs p).alive = p.alive ∧ (p.alive = true → (run guard hs p).handled = p.handled + hs.length) := by
  intro hs
  induction hs with
  | nil => intro p _; simp [run]
  | cons h hs ih =>
    intro p hall
    have hd := deliver_alive guard h p (hall h (by simp) p.state)
    have := ih (deliver guard h p) (fun h' hh' s => hall h' (by simp [hh']) s)
    simp only [run, List.foldl_cons] at this ⊢
    refine ⟨this.1.trans hd.1, ?_⟩
    intro hp
    rw [this.2 (by rw [hd.1]; exact hp), hd.2.1 hp]
    simp only [List.length_cons]
    omega

/-- the state a loop ends in: handlers that return an error or panic below a `recover` leave it to the next one -/
theorem run_state {σ : Type} (guard : Bool) :
    ∀ (hs : List (σ → Out Unit × σ)) (p : Proc σ),
      p.alive = true → (∀ h ∈ hs, ∀ s, (h s).1.within guard = true) →
        (run guard hs p).state = hs.foldl (fun s h => (h s).2) p.state := by
  intro hs
  induction hs with
  | nil => intro p _ _; rfl
  | cons h hs ih =>
    intro p hp hall
    have hd := deliver_alive guard h p (hall h (by simp) p.state)
    have := ih (deliver guard h p) (by rw [hd.1]; exact hp) (fun h' hh' s => hall h' (by simp [hh']) s)
    simp only [run, List.foldl_cons] at this ⊢
    rw [this, hd.2.2 hp]

/-- without `recover` one panicking handler ends the process, and nothing is handled afterwards -/
theorem run_dead {σ : Type} (guard : Bool) (hs : List (σ → Out Unit × σ)) (p : Proc σ) (hp : p.alive = false) :
    run guard hs p = p := by
  induction hs generalizing p with
  | nil => rfl
  | cons h hs ih =>
    simp only [run, List.foldl_cons]
    have : deliver guard h p = p := by simp [deliver, hp]
    rw [this]
    exact ih p hp

/-! ## the process -/

theorem material_setMaterial (s : System) (c c' : Consumer) (v : Option Loaded) :
    (s.setMaterial c' v).material c = if c' = c then v else s.material c := by
  cases c <;> cases c' <;> simp [System.setMaterial, System.material]

theorem step_dead (g : Guards) (env : Env) (keyId : Consumer → String) (s : System) (e : Event)
    (h : s.alive = false) : step g env keyId s e = s := by
  simp [step, h]

theorem serve_alive (g : Guards) (hg : g.grpcRecovery = true) (srv : Server) (h : Out Nat) (hf : h ≠ .fatal) :
    (serve g srv h).1 = true := by
  cases h with
  | ok s => rfl
  | err r => rfl
  | fatal => exact absurd rfl hf
  | panic => cases srv <;> simp [serve, hg] <;> split <;> rfl

theorem Sound.chain {g : Guards} (h : Sound g = true) : g.chainVisited = true := by
  simp [Sound] at h; exact h.1.1.1.1

/-- one event: the process stays alive and only the state the event is about can change, and only to what the
content loads to -/
theorem step_sound (g : Guards) (hs : Sound g = true) (env : Env) (keyId : Consumer → String) (s : System)
    (e : Event) (ha : s.alive = true) (hreq : noFatalRequest [e] = true) :
    (step g env keyId s e).alive = true ∧
    (∀ c, (step g env keyId s e).material c =
        lastGood (materialLoads g c (keyId c)) (s.material c) (keyFilesOf c [e])) ∧
    (step g env keyId s e).rules = lastGood (ruleLoads g env) s.rules (ruleFilesOf [e]) := by
  have hv := Sound.chain hs
  simp only [Sound, Bool.and_eq_true, Bool.or_eq_true] at hs
  obtain ⟨⟨⟨⟨_, hmat⟩, hfac⟩, hstat⟩, hgrpc⟩ := hs
  cases e with
  | request srv h =>
    have hf : h ≠ .fatal := by
      intro hh; subst hh; simp [noFatalRequest] at hreq
    simp only [step, ha, Bool.not_true, Bool.false_eq_true, if_false]
    refine ⟨serve_alive g hgrpc srv h hf, ?_, ?_⟩
    · intro c; simp [keyFilesOf, lastGood, System.material]
    · simp [ruleFilesOf, lastGood]
  | keyFile c' blocks =>
    simp only [step, ha, Bool.not_true, Bool.false_eq_true, if_false]
    refine ⟨?_, ?_, ?_⟩
    · apply survives_of_within
      rw [reload_outcome]
      have hw := load_within g hv c' (keyId c') blocks
      rcases hmat with hm | hl
      · rw [hm] at hw
        exact Out.within_mono (by simpa using hw)
      · rw [hl]
        exact within_weaken hw (fun _ => rfl)
    · intro c
      have hst := reload_state g c' (keyId c') (s.material c') blocks
      by_cases hc : c' = c
      · subst hc
        simp only [keyFilesOf, if_true, lastGood, List.foldl_cons, List.foldl_nil]
        cases c' <;> exact hst
      · simp only [keyFilesOf, hc, if_false, lastGood, List.foldl_nil]
        cases c' <;> cases c <;> simp_all [System.setMaterial, System.material]
    · simp only [ruleFilesOf, lastGood, List.foldl_nil]
      cases c' <;> simp [System.setMaterial]
  | ruleFile content =>
    simp only [step, ha, Bool.not_true, Bool.false_eq_true, if_false]
    refine ⟨?_, ?_, ?_⟩
    · apply survives_of_within
      have hw := fileChanged_within g env s.rules content
      cases hp : g.providerRecover
      · have h1 : (g.factorySafe || g.processorRecover) = true := by
          rcases hfac with (h | h) | h
          · simp [h]
          · simp [h]
          · rw [hp] at h; simp at h
        have h2 : g.statChecked = true := by
          rcases hstat with h | h
          · exact h
          · rw [hp] at h; simp at h
        rw [h1, h2] at hw
        simpa using hw
      · exact within_weaken hw (fun _ => rfl)
    · intro c; simp [keyFilesOf, lastGood, System.material]
    · simp only [ruleFilesOf, lastGood, List.foldl_cons, List.foldl_nil]
      exact fileChanged_state g env s.rules content

theorem keyFilesOf_cons (c : Consumer) (e : Event) (es : List Event) :
    keyFilesOf c (e :: es) = keyFilesOf c [e] ++ keyFilesOf c es := by
  cases e with
  | keyFile c' b => by_cases h : c' = c <;> simp [keyFilesOf, h]
  | ruleFile x => simp [keyFilesOf]
  | request a b => simp [keyFilesOf]

theorem ruleFilesOf_cons (e : Event) (es : List Event) :
    ruleFilesOf (e :: es) = ruleFilesOf [e] ++ ruleFilesOf es := by
  cases e <;> simp [ruleFilesOf]

theorem noFatalRequest_cons (e : Event) (es : List Event) :
    noFatalRequest (e :: es) = (noFatalRequest [e] && noFatalRequest es) := by
  cases e with
  | keyFile c b => simp [noFatalRequest]
  | ruleFile x => simp [noFatalRequest]
  | request srv h => cases h <;> simp [noFatalRequest]

theorem lastGood_append {α σ : Type} (loads : α → Option σ) (init : σ) (a b : List α) :
    lastGood loads init (a ++ b) = lastGood loads (lastGood loads init a) b := by
  simp [lastGood, List.foldl_append]

/-- **Any history.** -/
theorem steps_sound (g : Guards) (hs : Sound g = true) (env : Env) (keyId : Consumer → String) :
    ∀ (es : List Event) (s : System), s.alive = true → noFatalRequest es = true →
      (steps g env keyId s es).alive = true ∧
      (∀ c, (steps g env keyId s es).material c =
          lastGood (materialLoads g c (keyId c)) (s.material c) (keyFilesOf c es)) ∧
      (steps g env keyId s es).rules = lastGood (ruleLoads g env) s.rules (ruleFilesOf es) := by
  intro es
  induction es with
  | nil => intro s ha _; exact ⟨ha, fun c => rfl, rfl⟩
  | cons e es ih =>
    intro s ha hreq
    rw [noFatalRequest_cons, Bool.and_eq_true] at hreq
    obtain ⟨h1, h2, h3⟩ := step_sound g hs env keyId s e ha hreq.1
    obtain ⟨i1, i2, i3⟩ := ih (step g env keyId s e) h1 hreq.2
    simp only [steps, List.foldl_cons] at i1 i2 i3 ⊢
    refine ⟨i1, ?_, ?_⟩
    · intro c
      rw [i2 c, h2 c, keyFilesOf_cons c e es, lastGood_append]
    · rw [i3, h3, ruleFilesOf_cons e es, lastGood_append]

/-! ## the checks are necessary: inputs that end badly without them -/

namespace Witness

def rsa2048 : Key := ⟨1, .rsa, 2048, "3f5128b1"⟩
def rsa1024 : Key := ⟨2, .rsa, 1024, "688b2e9b"⟩
def ec521 : Key := ⟨3, .ecdsa, 521, "b4c1fa76"⟩
def ec256 : Key := ⟨4, .ecdsa, 256, "6950fa8d"⟩

def keyBlock (k : Key) (t : BlockType := .pkcs8Key) (kid : String := "") : Block := ⟨t, kid, .key k⟩

/-- a self-signed end-entity certificate: valid, digital signature, no key identifiers -/
def selfSigned (cid key : Nat) (name : String) : Cert :=
  ⟨cid, key, name, name, "", "", toString cid, true, false, true⟩

def certBlock (c : Cert) : Block := ⟨.certificate, "", .cert c⟩

/-- a usable key store: an RSA-2048 key and its certificate -/
def good : List Block := [keyBlock rsa2048 .rsaKey, certBlock (selfSigned 12 1 "rsa")]

/-- a key with its certificate and the renewed certificate (same subject, same key) -/
def renewed : List Block := [keyBlock ec256 .ecKey, certBlock (selfSigned 10 4 "me"), certBlock (selfSigned 11 4 "me")]

/-- a catalogue with an anonymous authenticator and a JWT authenticator whose override carries scopes -/
def env : Env where
  cat := fun k id =>
    match k, id with
    | .authn, "anon" => some ⟨false, fun _ => false⟩
    | .authn, "jwt" => some ⟨true, fun _ => false⟩
    | .authz, "allow" => some ⟨false, fun _ => false⟩
    | _, _ => none
  compiles := fun s => s == "true"

def ruleSet (execute : List Val) : RuleSetDoc := ⟨true, [⟨"r1", .list execute, .null⟩]⟩

/-- `authenticator: 42` -/
def confusedReference : RuleSetDoc := ruleSet [.map [("authenticator", .num 42)]]

/-- `authenticator: anon`, `config: x` -/
def confusedConfig : RuleSetDoc := ruleSet [.map [("authenticator", .str "anon"), ("config", .str "x")]]

/-- `authenticator: jwt`, `config: {assertions: {scopes: [1]}}` -/
def confusedScopes : RuleSetDoc :=
  ruleSet [.map [("authenticator", .str "jwt"), ("config", .map [("assertions", .map [("scopes", .list [.num 1])])])]]

/-- a well-formed rule set -/
def wellFormed : RuleSetDoc :=
  ruleSet [.map [("authenticator", .str "anon")], .map [("authorizer", .str "allow"), ("if", .str "true")]]

end Witness

open Witness in
theorem empty_store_panics (g : Guards) (h : g.selectKey = false) (c : Consumer) : load g c "" [] = .panic := by
  simp [load, createKeyStore, scan, build, selectKey, h]

open Witness in
theorem small_key_panics (g : Guards) (h : g.joseCheck = false) : load g .jwt "" [keyBlock rsa1024] = .panic := by
  simp [load, createKeyStore, scan, build, findChain, selectKey, keyBlock, rsa1024, h, certificateUsable, joseAlg,
    entryKid, genKid, bind, Except.bind, pure, Except.pure]

open Witness in
theorem p521_panics (g : Guards) (h : g.p521 = false) : load g .httpsig "" [keyBlock ec521] = .panic := by
  simp [load, createKeyStore, scan, build, findChain, selectKey, keyBlock, ec521, h, certificateUsable, joseAlg,
    httpSigKnows, entryKid, genKid, bind, Except.bind, pure, Except.pure]

open Witness in
theorem renewed_fatal (g : Guards) (h : g.chainVisited = false) (c : Consumer) : load g c "" renewed = .fatal := by
  simp [load, createKeyStore, scan, build, findChain, buildChain, nextIssuer, isIssuerOf, visited, renewed, keyBlock,
    certBlock, selfSigned, ec256, h, bind, Except.bind, pure, Except.pure]

theorem empty_trust_panics (g : Guards) (h : g.pemEnd = false) (strict : Bool) :
    loadTrust g strict ⟨[], false⟩ = .panic := by
  simp [loadTrust, trustEntries, h]

open Witness in
theorem confused_reference_panics (g : Guards) (h1 : g.refTypes = false) (h2 : g.processorRecover = false) :
    loadRuleSet g env confusedReference = .panic := by
  simp [loadRuleSet, confusedReference, ruleSet, decodeRule, decodeExecute, decodeOnError, loadRules, createRules,
    createRule, execPipeline, execStep, lookup, create, reference, h1, h2, bind, Except.bind, pure, Except.pure]

open Witness in
theorem confused_scopes_panics (g : Guards) (h1 : g.scopeTypes = false)
    (h2 : g.processorRecover = false) : loadRuleSet g env confusedScopes = .panic := by
  simp [loadRuleSet, confusedScopes, ruleSet, decodeRule, decodeExecute, decodeOnError, loadRules, createRules,
    createRule, execPipeline, execStep, lookup, create, reference, instantiate, withConfig, decodeScopes, scopeValues,
    env, h1, h2, bind, Except.bind, pure, Except.pure]

/-! ## the credentials file of the redis cache -/

theorem loadCreds_returns (byValue : Bool) (d : CredDoc) : (loadCreds byValue d).returns = true := by
  cases d with
  | map fs =>
    simp only [loadCreds]
    cases credFields fs [] ⟨"", ""⟩ <;> rfl
  | _ => rfl

/-- decoding into a value: whatever is accepted is a pair of strings, never "nothing" -/
theorem loadCreds_value_some (d : CredDoc) (s : Option Creds) (h : loadCreds true d = .ok s) : s.isSome = true := by
  cases d with
  | map fs =>
    simp only [loadCreds] at h
    cases hf : credFields fs [] ⟨"", ""⟩ with
    | error r => simp [hf] at h
    | ok c => simp [hf] at h; subst h; rfl
  | null => simp [loadCreds] at h; subst h; rfl
  | _ => simp [loadCreds] at h

/-- the two ways of decoding differ on the null document only -/
theorem loadCreds_pointer (d : CredDoc) (hd : d ≠ .null) : loadCreds false d = loadCreds true d := by
  cases d <;> first | rfl | exact absurd rfl hd

theorem reloadCreds_state (byValue : Bool) (st : Option Creds) (d : CredDoc) :
    (reloadCreds byValue st d).2 = orKeep (credsLoads byValue d) st := by
  simp only [reloadCreds, credsLoads]
  cases loadCreds byValue d <;> rfl

theorem reloadCreds_outcome_returns (byValue : Bool) (st : Option Creds) (d : CredDoc) :
    (reloadCreds byValue st d).1.returns = true := by
  have := loadCreds_returns byValue d
  simp only [reloadCreds]
  cases h : loadCreds byValue d <;> simp_all

theorem credsAfter_eq_lastGood (byValue : Bool) (st : Option Creds) (ds : List CredDoc) :
    credsAfter byValue st ds = lastGood (credsLoads byValue) st ds := by
  induction ds generalizing st with
  | nil => rfl
  | cons d ds ih =>
    simp only [credsAfter, lastGood, List.foldl_cons] at ih ⊢
    rw [reloadCreds_state]
    exact ih _

/-- decoding into a value: starting from credentials, every history of contents ends in credentials -/
theorem credsAfter_value_some (st : Option Creds) (hst : st.isSome = true) (ds : List CredDoc) :
    (credsAfter true st ds).isSome = true := by
  induction ds generalizing st with
  | nil => exact hst
  | cons d ds ih =>
    simp only [credsAfter, List.foldl_cons]
    apply ih
    simp only [reloadCreds]
    cases h : loadCreds true d with
    | ok s => exact loadCreds_value_some d s h
    | _ => exact hst

theorem credFilesOf_cons (e : CredsEvent) (es : List CredsEvent) :
    credFilesOf (e :: es) = credFilesOf [e] ++ credFilesOf es := by
  cases e <;> simp [credFilesOf]

theorem credsStep_value (watcherRecovers : Bool) (p : CredsProc) (e : CredsEvent) (ha : p.alive = true)
    (hc : p.creds.isSome = true) :
    (credsStep true watcherRecovers p e).alive = true ∧ (credsStep true watcherRecovers p e).creds.isSome = true ∧
      (credsStep true watcherRecovers p e).creds = lastGood (credsLoads true) p.creds (credFilesOf [e]) := by
  cases e with
  | connect =>
    cases hp : p.creds with
    | none => simp [hp] at hc
    | some c => simp [credsStep, ha, hp, credsGet, credFilesOf, lastGood]
  | file d =>
    have hs := credsAfter_value_some p.creds hc [d]
    have hl := credsAfter_eq_lastGood true p.creds [d]
    simp only [credsAfter, List.foldl_cons, List.foldl_nil] at hs hl
    have hr := reloadCreds_outcome_returns true p.creds d
    simp only [credsStep, ha, Bool.not_true, Bool.false_eq_true, if_false, credFilesOf]
    refine ⟨?_, hs, hl⟩
    generalize (reloadCreds true p.creds d).1 = o at hr
    cases o <;> simp_all [survives]

theorem credsSteps_value (watcherRecovers : Bool) :
    ∀ (es : List CredsEvent) (p : CredsProc), p.alive = true → p.creds.isSome = true →
      (credsSteps true watcherRecovers p es).alive = true ∧
      (credsSteps true watcherRecovers p es).creds.isSome = true ∧
      (credsSteps true watcherRecovers p es).creds = lastGood (credsLoads true) p.creds (credFilesOf es) := by
  intro es
  induction es with
  | nil => intro p ha hc; exact ⟨ha, hc, rfl⟩
  | cons e es ih =>
    intro p ha hc
    obtain ⟨h1, h2, h3⟩ := credsStep_value watcherRecovers p e ha hc
    obtain ⟨i1, i2, i3⟩ := ih _ h1 h2
    simp only [credsSteps, List.foldl_cons] at i1 i2 i3 ⊢
    refine ⟨i1, i2, ?_⟩
    rw [i3, h3, credFilesOf_cons e es, lastGood_append]

/-! ### the decoder accepts exactly the files that mean credentials -/

/-- what one accepted entry does to the credentials decoded so far -/
def credUpd (c : Creds) (k : String) (v : CredVal) : Creds :=
  match v with
  | .scalar s => if k == "username" then { c with user := s } else if k == "password" then { c with pass := s } else c
  | _ => c

theorem credField_spec (c : Creds) (k : String) (v : CredVal) :
    credField c k v =
      if credKeyOk k = true ∧ credValOk v = true then .ok (credUpd c k v) else .error .decodeError := by
  unfold credField credKeyOk credUpd
  by_cases h1 : (k == "username") = true
  · cases v <;> simp [h1, credValOk]
  · by_cases h2 : (k == "password") = true
    · cases v <;> simp [h1, h2, credValOk]
    · simp [h1, h2]

theorem fieldTextD_absent (fs : List (String × CredVal)) (k d : String) (h : k ∉ fs.map (·.1)) :
    fieldTextD fs k d = d := by
  have : fs.find? (·.1 == k) = none := by
    rw [List.find?_eq_none]
    intro f hf hk
    exact h (List.mem_map.mpr ⟨f, hf, by simpa using hk⟩)
  simp [fieldTextD, this]

theorem fieldTextD_cons_ne (k key d : String) (v : CredVal) (rest : List (String × CredVal)) (h : k ≠ key) :
    fieldTextD ((k, v) :: rest) key d = fieldTextD rest key d := by
  have : ((k == key) = false) := by simpa using h
  simp [fieldTextD, this]

theorem credUpd_user_ne (c : Creds) (k : String) (v : CredVal) (h : k ≠ "username") : (credUpd c k v).user = c.user := by
  have : ((k == "username") = false) := by simpa using h
  cases v <;> simp [credUpd, this]
  split <;> rfl

theorem credUpd_pass_ne (c : Creds) (k : String) (v : CredVal) (h : k ≠ "password") : (credUpd c k v).pass = c.pass := by
  have : ((k == "password") = false) := by simpa using h
  cases v <;> simp [credUpd, this]
  split <;> rfl

theorem fieldTextD_cons_user (c : Creds) (k : String) (v : CredVal) (rest : List (String × CredVal))
    (h : k ∉ rest.map (·.1)) :
    fieldTextD ((k, v) :: rest) "username" c.user = fieldTextD rest "username" (credUpd c k v).user := by
  by_cases hk : k = "username"
  · subst hk
    rw [fieldTextD_absent rest "username" _ h]
    cases v <;> simp [fieldTextD, credUpd]
  · rw [fieldTextD_cons_ne k "username" _ v rest hk, credUpd_user_ne c k v hk]

theorem fieldTextD_cons_pass (c : Creds) (k : String) (v : CredVal) (rest : List (String × CredVal))
    (h : k ∉ rest.map (·.1)) :
    fieldTextD ((k, v) :: rest) "password" c.pass = fieldTextD rest "password" (credUpd c k v).pass := by
  by_cases hk : k = "password"
  · subst hk
    rw [fieldTextD_absent rest "password" _ h]
    cases v <;> simp [fieldTextD, credUpd]
  · rw [fieldTextD_cons_ne k "password" _ v rest hk, credUpd_pass_ne c k v hk]

theorem credFields_spec : ∀ (fs : List (String × CredVal)) (seen : List String) (c : Creds),
    credFields fs seen c =
      if (∀ f ∈ fs, credKeyOk f.1 = true ∧ credValOk f.2 = true ∧ f.1 ∉ seen) ∧ (fs.map (·.1)).Nodup then
        .ok ⟨fieldTextD fs "username" c.user, fieldTextD fs "password" c.pass⟩
      else .error .decodeError := by
  intro fs
  induction fs with
  | nil => intro seen c; simp [credFields, fieldTextD]
  | cons f rest ih =>
    intro seen c
    obtain ⟨k, v⟩ := f
    unfold credFields
    by_cases hs : seen.contains k = true
    · have : k ∈ seen := by simpa using hs
      simp [this]
    · have hns : k ∉ seen := by simpa using hs
      simp only [hs, Bool.false_eq_true, if_false]
      rw [credField_spec]
      by_cases hok : credKeyOk k = true ∧ credValOk v = true
      · simp only [hok, and_self, if_true]
        rw [ih (k :: seen) (credUpd c k v)]
        by_cases hg : (∀ f ∈ rest, credKeyOk f.1 = true ∧ credValOk f.2 = true ∧ f.1 ∉ k :: seen) ∧
            (rest.map (·.1)).Nodup
        · have hk : k ∉ rest.map (·.1) := by
            intro hm
            obtain ⟨f, hf, hfk⟩ := List.mem_map.mp hm
            exact (hg.1 f hf).2.2 (by simp [hfk])
          rw [if_pos hg, if_pos, fieldTextD_cons_user c k v rest hk, fieldTextD_cons_pass c k v rest hk]
          refine ⟨?_, List.nodup_cons.mpr ⟨hk, hg.2⟩⟩
          intro f hf
          rcases List.mem_cons.mp hf with h | h
          · subst h; exact ⟨hok.1, hok.2, hns⟩
          · exact ⟨(hg.1 f h).1, (hg.1 f h).2.1, fun hm => (hg.1 f h).2.2 (List.mem_cons_of_mem _ hm)⟩
        · rw [if_neg hg, if_neg]
          rintro ⟨h1, h2⟩
          apply hg
          simp only [List.map_cons, List.nodup_cons] at h2
          refine ⟨fun f hf => ?_, h2.2⟩
          have := h1 f (List.mem_cons_of_mem _ hf)
          refine ⟨this.1, this.2.1, ?_⟩
          intro hm
          rcases List.mem_cons.mp hm with h | h
          · exact h2.1 (List.mem_map.mpr ⟨f, hf, h⟩)
          · exact this.2.2 h
      · rw [if_neg hok, if_neg]
        rintro ⟨h1, _⟩
        have := h1 (k, v) (List.mem_cons_self ..)
        exact hok ⟨this.1, this.2.1⟩

/-- **MODEL = SPEC for the credentials file**: decoding into a value accepts exactly the documents that mean
credentials, with exactly that meaning -/
theorem loadCreds_eq_credsOf (d : CredDoc) : credsLoads true d = (credsOf d).map some := by
  cases d with
  | map fs =>
    simp only [credsLoads, loadCreds, credsOf, credFields_spec]
    by_cases h : (∀ f ∈ fs, credKeyOk f.1 = true ∧ credValOk f.2 = true) ∧ (fs.map (·.1)).Nodup
    · rw [if_pos h, if_pos]
      · rfl
      · exact ⟨fun f hf => ⟨(h.1 f hf).1, (h.1 f hf).2, by simp⟩, h.2⟩
    · rw [if_neg h, if_neg]
      · rfl
      · rintro ⟨h1, h2⟩
        exact h ⟨fun f hf => ⟨(h1 f hf).1, (h1 f hf).2.1⟩, h2⟩
  | _ => rfl

/-! ## the watcher over several files -/

theorem mem_dropPath {p y : Nat} {l : List Nat} : y ∈ dropPath p l ↔ y ∈ l ∧ y ≠ p := by
  simp [dropPath]

theorem mem_addPath {p y : Nat} {l : List Nat} : y ∈ addPath p l ↔ y = p ∨ y ∈ l := by
  unfold addPath
  split
  · rename_i h
    constructor
    · intro hy; exact Or.inr hy
    · rintro (rfl | hy)
      · simpa using h
      · exact hy
  · simp

/-- a loop that does not leave on a failed renewal stays alive over one operation -/
theorem watchStep_alive (l : WatchLoop) (hl : (l.renew && l.returnOnFailedRenewal) = false) (w : Watcher)
    (op : FileOp) : (watchStep l w op).alive = w.alive := by
  cases op <;> simp only [watchStep]
  all_goals (repeat' split) <;> simp_all

theorem watchRun_alive (l : WatchLoop) (hl : (l.renew && l.returnOnFailedRenewal) = false) (ops : List FileOp)
    (w : Watcher) : (watchRun l w ops).alive = w.alive := by
  induction ops generalizing w with
  | nil => rfl
  | cons op ops ih =>
    simp only [watchRun, List.foldl_cons]
    have := ih (watchStep l w op)
    simp only [watchRun] at this
    rw [this, watchStep_alive l hl]

/-- an operation that does not take the file at `y` away leaves it present and watched -/
theorem watchStep_keeps (l : WatchLoop) (w : Watcher) (op : FileOp) (y : Nat) (hd : op.displaces y = false)
    (hw : y ∈ w.watched) (hp : y ∈ w.present) :
    y ∈ (watchStep l w op).watched ∧ y ∈ (watchStep l w op).present := by
  cases op with
  | written p => simp only [watchStep]; split <;> exact ⟨hw, hp⟩
  | attrib p => exact ⟨hw, hp⟩
  | fileBack p => exact ⟨hw, mem_addPath.mpr (Or.inr hp)⟩
  | register p =>
    simp only [watchStep]
    split
    · exact ⟨List.mem_cons_of_mem _ hw, hp⟩
    · exact ⟨hw, hp⟩
  | fileRemoved p =>
    have hne : y ≠ p := by
      intro h; subst h; simp [FileOp.displaces] at hd
    have hp' : y ∈ dropPath p w.present := mem_dropPath.mpr ⟨hp, hne⟩
    have hw' : y ∈ dropPath p w.watched := mem_dropPath.mpr ⟨hw, hne⟩
    simp only [watchStep]
    repeat' split
    all_goals exact ⟨by first | exact hw' | exact hw, hp'⟩
  | fileReplaced p =>
    have hne : y ≠ p := by
      intro h; subst h; simp [FileOp.displaces] at hd
    have hp' : y ∈ addPath p w.present := mem_addPath.mpr (Or.inr hp)
    have hw' : y ∈ dropPath p w.watched := mem_dropPath.mpr ⟨hw, hne⟩
    simp only [watchStep]
    repeat' split
    all_goals first | exact ⟨hw', hp'⟩ | exact ⟨hw, hp'⟩ | exact ⟨List.mem_cons_of_mem _ hw', hp'⟩

theorem watchRun_keeps (l : WatchLoop) (ops : List FileOp) (w : Watcher) (y : Nat)
    (hd : ∀ op ∈ ops, op.displaces y = false) (hw : y ∈ w.watched) (hp : y ∈ w.present) :
    y ∈ (watchRun l w ops).watched ∧ y ∈ (watchRun l w ops).present := by
  induction ops generalizing w with
  | nil => exact ⟨hw, hp⟩
  | cons op ops ih =>
    simp only [watchRun, List.foldl_cons]
    obtain ⟨h1, h2⟩ := watchStep_keeps l w op y (hd op (by simp)) hw hp
    exact ih (watchStep l w op) (fun op' h => hd op' (by simp [h])) h1 h2

theorem watchRun_append (l : WatchLoop) (w : Watcher) (a b : List FileOp) :
    watchRun l w (a ++ b) = watchRun l (watchRun l w a) b := by
  simp [watchRun, List.foldl_append]

/-- a dead loop delivers nothing and stays dead -/
theorem watchStep_dead (l : WatchLoop) (w : Watcher) (hw : w.alive = false) (op : FileOp) :
    (watchStep l w op).alive = false ∧ (watchStep l w op).delivered = w.delivered := by
  cases op <;> simp only [watchStep]
  all_goals (repeat' split) <;> simp_all

theorem watchRun_dead (l : WatchLoop) (ops : List FileOp) (w : Watcher) (hw : w.alive = false) :
    (watchRun l w ops).alive = false ∧ (watchRun l w ops).delivered = w.delivered := by
  induction ops generalizing w with
  | nil => exact ⟨hw, rfl⟩
  | cons op ops ih =>
    simp only [watchRun, List.foldl_cons]
    obtain ⟨h1, h2⟩ := watchStep_dead l w hw op
    have := ih (watchStep l w op) h1
    simp only [watchRun] at this
    exact ⟨this.1, this.2.trans h2⟩

/-- the code's loop starts listeners on writes only -/
theorem watchStep_head_delivered (w : Watcher) (op : FileOp) (h : op.isWrite = false) :
    (watchStep .head w op).delivered = w.delivered := by
  cases op <;> simp only [watchStep, WatchLoop.head]
  all_goals (repeat' split) <;> simp_all [FileOp.isWrite]

/-! ## rule sets polled from an HTTP endpoint -/

/-- one poll, for the code's reading of a broken transfer, does what the specification says -/
theorem pollEndpoint_state (st : Option (List String)) (r : Polled) :
    (pollEndpoint .internal st r).2 = orKeep (endpointLoads r) st := by
  cases r with
  | unreachable => cases st <;> rfl
  | status c => cases st <;> rfl
  | body t c =>
    cases t with
    | brokenOff => rfl
    | complete =>
      cases c with
      | empty => cases st <;> rfl
      | unparsable => rfl
      | ruleSet ids acc =>
        cases st with
        | none => cases acc <;> rfl
        | some old =>
          simp only [pollEndpoint, fetchRuleSet]
          by_cases h : old = ids
          · subst h
            cases acc <;> simp [endpointLoads, orKeep]
          · have : (old == ids) = false := by simpa using h
            cases acc <;> simp [this, endpointLoads, orKeep]

/-! ## the status update of the kubernetes provider -/

theorem updateStatus_returns (parts : Nat) (answers : List PatchAnswer) :
    (updateStatus .head parts answers).returns = true := by
  induction answers with
  | nil => simp [updateStatus, StatusGuards.head, Out.returns]
  | cons a rest ih =>
    cases a with
    | ok => simp [updateStatus, StatusGuards.head, Out.returns]
    | noAnswer => simp [updateStatus, StatusGuards.head, Out.returns]
    | status c =>
      simp only [updateStatus, StatusGuards.head, Bool.not_true, Bool.and_false, Bool.false_eq_true, if_false]
      split
      · exact ih
      · rfl

/-! ## the copy of the mechanism configs of a RuleSet resource -/

mutual
  theorem copyVal_id : ∀ v : Val, copyVal true v = .ok v
    | .null => by simp [copyVal]
    | .bool _ => by simp [copyVal]
    | .num _ => by simp [copyVal]
    | .str _ => by simp [copyVal]
    | .other => by simp [copyVal]
    | .list l => by simp [copyVal, copyList_id l, Out.bind]
    | .map m => by simp [copyVal, copyFields_id m, Out.bind]
  theorem copyList_id : ∀ l : List Val, copyList true l = .ok l
    | [] => by simp [copyList]
    | v :: vs => by simp [copyList, copyVal_id v, copyList_id vs, Out.bind]
  theorem copyFields_id : ∀ m : List (String × Val), copyFields true m = .ok m
    | [] => by simp [copyFields]
    | (k, v) :: rest => by simp [copyFields, copyVal_id v, copyFields_id rest, Out.bind]
end

theorem copyConfigs_ok (cs : List Val) : copyConfigs true cs = .ok () := by
  induction cs with
  | nil => simp [copyConfigs]
  | cons c cs ih => simp [copyConfigs, copyVal_id, Out.bind, ih]

end Heimdall.Loaders
