import HeimdallModel.Lemmas.Conc
/-! Lock-state invariants of the protocol machine and deadlock freedom. -/
namespace Heimdall.Conc

variable {K T Op Req Ans : Type}

def activeReader : Thread K T Op Req Ans → Prop
  | .reader _ pc _ _ _ => pc = .rHeld ∨ pc = .searched
  | _ => False

def rwHolder : Thread K T Op Req Ans → Prop
  | .writer _ pc _ => pc = .rwHeld ∨ pc = .indexWritten
  | _ => False

def shapeOk : Thread K T Op Req Ans → Prop
  | .reader _ .idle a st n => a = none ∧ st = 0 ∧ n = 0
  | .reader _ .rHeld a _ n => a = none ∧ n = 0
  | .reader _ .searched a _ _ => a ≠ none
  | _ => True

structure LInv (c : Config K T Op Req Ans) : Prop where
  rd_len   : c.readers = c.rset.length
  rd_nodup : c.rset.Nodup
  rd_mem   : ∀ j, j ∈ c.rset ↔ activeReader (c.threads j)
  rww_iff  : ∀ i, c.rww = some i ↔ rwHolder (c.threads i)
  rw_excl  : c.rww ≠ none → c.rset = []
  shapes   : ∀ j, shapeOk (c.threads j)

theorem linv_of_eq (c c' : Config K T Op Req Ans) (i : Nat) (t : Thread K T Op Req Ans)
    (hr : c'.readers = c.readers) (hs : c'.rset = c.rset) (hw : c'.rww = c.rww)
    (ht : c'.threads = upd c.threads i t)
    (hact : activeReader t ↔ activeReader (c.threads i))
    (hrw : rwHolder t ↔ rwHolder (c.threads i))
    (hshape : shapeOk t) (h : LInv c) : LInv c' := by
  refine ⟨by rw [hr, hs]; exact h.rd_len, by rw [hs]; exact h.rd_nodup, ?_, ?_, by rw [hw, hs]; exact h.rw_excl, ?_⟩
  · intro j; rw [hs, ht]
    by_cases e : j = i
    · subst e; rw [upd_same, hact]; exact h.rd_mem j
    · rw [upd_other _ _ _ _ e]; exact h.rd_mem j
  · intro j; rw [hw, ht]
    by_cases e : j = i
    · subst e; rw [upd_same, hrw]; exact h.rww_iff j
    · rw [upd_other _ _ _ _ e]; exact h.rww_iff j
  · intro j; rw [ht]
    by_cases e : j = i
    · subst e; rw [upd_same]; exact hshape
    · rw [upd_other _ _ _ _ e]; exact h.shapes j

theorem linv_step (s : Seq K T Op Req Ans) (c c' : Config K T Op Req Ans)
    (hi : Inv s c) (hl : LInv c) (hs : Step s c c') : LInv c' := by
  cases hs with
  | wLock i op loc h free =>
    exact linv_of_eq c _ i _ rfl rfl rfl rfl (by simp [h, activeReader]) (by simp [h, rwHolder]) (by simp [shapeOk]) hl
  | wReadKnown i op loc h hlk =>
    exact linv_of_eq c _ i _ rfl rfl rfl rfl (by simp [h, activeReader]) (by simp [h, rwHolder]) (by simp [shapeOk]) hl
  | wClone i op loc h hlk =>
    exact linv_of_eq c _ i _ rfl rfl rfl rfl (by simp [h, activeReader]) (by simp [h, rwHolder]) (by simp [shapeOk]) hl
  | wComputeOk i op loc st' h hlk ha =>
    exact linv_of_eq c _ i _ rfl rfl rfl rfl (by simp [h, activeReader]) (by simp [h, rwHolder]) (by simp [shapeOk]) hl
  | wComputeErr i op loc h hlk ha =>
    exact linv_of_eq c _ i _ rfl rfl rfl rfl (by simp [h, activeReader]) (by simp [h, rwHolder]) (by simp [shapeOk]) hl
  | wFail i op loc h hlk =>
    exact linv_of_eq c _ i _ rfl rfl rfl rfl (by simp [h, activeReader]) (by simp [h, rwHolder]) (by simp [shapeOk]) hl
  | wKnown i op st' h hlk =>
    exact linv_of_eq c _ i _ rfl rfl rfl rfl (by simp [h, activeReader]) (by simp [h, rwHolder]) (by simp [shapeOk]) hl
  | wIndex i op st' h hrw =>
    exact linv_of_eq c _ i _ rfl rfl rfl rfl (by simp [h, activeReader]) (by simp [h, rwHolder]) (by simp [shapeOk]) hl
  | wUnlock i op st' h hlk =>
    exact linv_of_eq c _ i _ rfl rfl rfl rfl (by simp [h, activeReader]) (by simp [h, rwHolder]) (by simp [shapeOk]) hl
  | rSearch i rq st h =>
    exact linv_of_eq c _ i _ rfl rfl rfl rfl (by simp [h, activeReader]) (by simp [h, rwHolder]) (by simp [shapeOk]) hl
  | wRWLock i op st' h free nor =>
    have hrs : c.rset = [] := by
      have := hl.rd_len; rw [nor] at this
      exact List.length_eq_zero_iff.mp this.symm
    refine ⟨hl.rd_len, hl.rd_nodup, ?_, ?_, fun _ => hrs, ?_⟩
    · intro j
      by_cases e : j = i
      · subst e; simp only [upd_same, activeReader, iff_false]; rw [hrs]; simp
      · simp only [upd_other _ _ _ _ e]; exact hl.rd_mem j
    · intro j
      by_cases e : j = i
      · subst e; simp [rwHolder]
      · simp only [upd_other _ _ _ _ e]
        constructor
        · intro hj; exact absurd (Option.some.inj hj).symm e
        · intro hj
          exfalso
          have := (hl.rww_iff j).mpr hj
          rw [free] at this; cases this
    · intro j
      by_cases e : j = i
      · subst e; simp [shapeOk]
      · simp only [upd_other _ _ _ _ e]; exact hl.shapes j
  | wRWUnlock i op st' h hrw =>
    refine ⟨hl.rd_len, hl.rd_nodup, ?_, ?_, by simp, ?_⟩
    · intro j
      by_cases e : j = i
      · subst e
        simp only [upd_same, activeReader, iff_false]
        rw [hl.rw_excl (by rw [hrw]; simp)]; simp
      · simp only [upd_other _ _ _ _ e]; exact hl.rd_mem j
    · intro j
      by_cases e : j = i
      · subst e; simp [rwHolder]
      · simp only [upd_other _ _ _ _ e]
        constructor
        · intro hj; cases hj
        · intro hj
          exfalso
          have := (hl.rww_iff j).mpr hj
          rw [hrw] at this; exact e (Option.some.inj this).symm
    · intro j
      by_cases e : j = i
      · subst e; simp [shapeOk]
      · simp only [upd_other _ _ _ _ e]; exact hl.shapes j
  | rLock i rq h free =>
    have hni : i ∉ c.rset := by
      intro hm; have := (hl.rd_mem i).mp hm; rw [h] at this; simp [activeReader] at this
    refine ⟨by simp [hl.rd_len], List.nodup_cons.mpr ⟨hni, hl.rd_nodup⟩, ?_, ?_, by simp [free], ?_⟩
    · intro j
      by_cases e : j = i
      · subst e; simp [activeReader]
      · simp only [upd_other _ _ _ _ e, List.mem_cons, e, false_or]; exact hl.rd_mem j
    · intro j
      by_cases e : j = i
      · subst e
        simp only [upd_same, rwHolder, iff_false]
        intro hj
        have := (hl.rww_iff j).mp hj
        rw [h] at this; simp [rwHolder] at this
      · simp only [upd_other _ _ _ _ e]; exact hl.rww_iff j
    · intro j
      by_cases e : j = i
      · subst e; simp [shapeOk]
      · simp only [upd_other _ _ _ _ e]; exact hl.shapes j
  | rUnlock i rq a st n h =>
    have hmi : i ∈ c.rset := (hl.rd_mem i).mpr (by rw [h]; simp [activeReader])
    refine ⟨?_, hl.rd_nodup.erase i, ?_, ?_, ?_, ?_⟩
    · simp only [List.length_erase_of_mem hmi, hl.rd_len]
    · intro j
      by_cases e : j = i
      · subst e
        simp only [upd_same, activeReader]
        constructor
        · intro hm; exact absurd hm (List.Nodup.not_mem_erase hl.rd_nodup)
        · intro hm; simp at hm
      · simp only [upd_other _ _ _ _ e]
        rw [List.mem_erase_of_ne e]; exact hl.rd_mem j
    · intro j
      by_cases e : j = i
      · subst e
        simp only [upd_same, rwHolder, iff_false]
        intro hj
        have := (hl.rww_iff j).mp hj
        rw [h] at this; simp [rwHolder] at this
      · simp only [upd_other _ _ _ _ e]; exact hl.rww_iff j
    · intro hw
      have := hl.rw_excl hw
      rw [this] at hmi; cases hmi
    · intro j
      by_cases e : j = i
      · subst e; simp [shapeOk]
      · simp only [upd_other _ _ _ _ e]; exact hl.shapes j

theorem linv_initial (s : Seq K T Op Req Ans) (c : Config K T Op Req Ans) (h : Initial s c) : LInv c := by
  obtain ⟨_, _, h3, h4, _, _, h7, h8⟩ := h
  refine ⟨by simp [h4, h7], by simp [h7], ?_, ?_, by simp [h3], ?_⟩
  · intro j
    rcases h8 j with ⟨op, loc, e⟩ | ⟨rq, e⟩ <;> simp [e, h7, activeReader]
  · intro j
    rcases h8 j with ⟨op, loc, e⟩ | ⟨rq, e⟩ <;> simp [e, h3, rwHolder]
  · intro j
    rcases h8 j with ⟨op, loc, e⟩ | ⟨rq, e⟩ <;> simp [e, shapeOk]

theorem linv_reachable (s : Seq K T Op Req Ans) (c : Config K T Op Req Ans) (h : Reachable s c) : LInv c := by
  induction h with
  | init c hc => exact linv_initial s c hc
  | step c c' hr hs ih => exact linv_step s c c' (inv_reachable s c hr) ih hs

def finished : Thread K T Op Req Ans → Prop
  | .writer _ pc _ => pc = .doneOk ∨ pc = .doneFail
  | .reader _ pc _ _ _ => pc = .done

/-- an active reader can always take its next step -/
theorem reader_can_step (s : Seq K T Op Req Ans) (c : Config K T Op Req Ans) (hl : LInv c) (j : Nat)
    (hj : activeReader (c.threads j)) : ∃ c', Step s c c' := by
  have hsh := hl.shapes j
  cases ht : c.threads j with
  | writer op pc loc => rw [ht] at hj; simp [activeReader] at hj
  | reader rq pc a st n =>
    rw [ht] at hj hsh
    cases pc with
    | idle => simp [activeReader] at hj
    | done => simp [activeReader] at hj
    | rHeld =>
      simp only [shapeOk] at hsh
      obtain ⟨rfl, rfl⟩ := hsh
      exact ⟨_, Step.rSearch c j rq st ht⟩
    | searched =>
      simp only [shapeOk] at hsh
      cases a with
      | none => exact absurd rfl hsh
      | some x => exact ⟨_, Step.rUnlock c j rq x st n ht⟩

/-- **Deadlock freedom**: as long as some thread has not finished, some thread can take a step -/
theorem progress (s : Seq K T Op Req Ans) (c : Config K T Op Req Ans) (hi : Inv s c) (hl : LInv c)
    (i : Nat) (hnf : ¬ finished (c.threads i)) : ∃ c', Step s c c' := by
  cases hw : c.wlock with
  | some h =>
    -- the holder of knownRulesMutex is inside its critical section and can always move on
    have hh := hi.held h hw
    cases ht : c.threads h with
    | reader rq pc a st n => rw [ht] at hh; simp [holderOk] at hh
    | writer op pc loc =>
      rw [ht] at hh
      cases pc with
      | idle => simp [holderOk] at hh
      | doneOk => simp [holderOk] at hh
      | doneFail => simp [holderOk] at hh
      | locked => exact ⟨_, Step.wReadKnown c h op loc ht hw⟩
      | readK => exact ⟨_, Step.wClone c h op loc ht hw⟩
      | cloned =>
        cases ha : s.apply loc op with
        | none => exact ⟨_, Step.wComputeErr c h op loc ht hw ha⟩
        | some st' => exact ⟨_, Step.wComputeOk c h op loc st' ht hw ha⟩
      | computed => exact ⟨_, Step.wKnown c h op loc ht hw⟩
      | failed => exact ⟨_, Step.wFail c h op loc ht hw⟩
      | knownWritten =>
        have hfree : c.rww = none := by
          cases hr : c.rww with
          | none => rfl
          | some k =>
            exfalso
            have hk := (hl.rww_iff k).mp hr
            have hkcs : inCS (c.threads k) := by
              cases htk : c.threads k with
              | reader => rw [htk] at hk; simp [rwHolder] at hk
              | writer op' pc' loc' =>
                rw [htk] at hk
                simp only [rwHolder] at hk
                rcases hk with rfl | rfl <;> simp [inCS]
            have := holder_of_inCS s c hi k hkcs
            rw [hw] at this
            have hkh : h = k := Option.some.inj this
            subst hkh
            rw [ht] at hk; simp [rwHolder] at hk
        by_cases hrd : c.readers = 0
        · exact ⟨_, Step.wRWLock c h op loc ht hfree hrd⟩
        · -- some reader holds the read lock and can move on
          have : c.rset ≠ [] := by
            intro he; apply hrd; rw [hl.rd_len, he]; rfl
          obtain ⟨j, hj⟩ := List.exists_mem_of_ne_nil _ this
          exact reader_can_step s c hl j ((hl.rd_mem j).mp hj)
      | rwHeld =>
        have := (hl.rww_iff h).mpr (by rw [ht]; simp [rwHolder])
        exact ⟨_, Step.wIndex c h op loc ht this⟩
      | indexWritten =>
        have := (hl.rww_iff h).mpr (by rw [ht]; simp [rwHolder])
        exact ⟨_, Step.wRWUnlock c h op loc ht this⟩
      | rwReleased => exact ⟨_, Step.wUnlock c h op loc ht hw⟩
  | none =>
    have hout : ¬ inCS (c.threads i) := hi.outside i (by rw [hw]; simp)
    have hfree : c.rww = none := by
      cases hr : c.rww with
      | none => rfl
      | some k =>
        exfalso
        have hk := (hl.rww_iff k).mp hr
        have hkcs : inCS (c.threads k) := by
          cases htk : c.threads k with
          | reader => rw [htk] at hk; simp [rwHolder] at hk
          | writer op' pc' loc' =>
            rw [htk] at hk
            simp only [rwHolder] at hk
            rcases hk with rfl | rfl <;> simp [inCS]
        have := holder_of_inCS s c hi k hkcs
        rw [hw] at this; cases this
    cases ht : c.threads i with
    | writer op pc loc =>
      rw [ht] at hout hnf
      have : pc = .idle := by
        cases pc <;> simp_all [inCS, finished]
      subst this
      exact ⟨_, Step.wLock c i op loc ht hw⟩
    | reader rq pc a st n =>
      have hsh := hl.shapes i
      rw [ht] at hnf hsh
      cases pc with
      | done => simp [finished] at hnf
      | idle =>
        simp only [shapeOk] at hsh
        obtain ⟨rfl, rfl, rfl⟩ := hsh
        exact ⟨_, Step.rLock c i rq ht hfree⟩
      | rHeld => exact reader_can_step s c hl i (by rw [ht]; simp [activeReader])
      | searched => exact reader_can_step s c hl i (by rw [ht]; simp [activeReader])

end Heimdall.Conc
