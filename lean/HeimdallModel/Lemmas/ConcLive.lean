import HeimdallModel.Lemmas.Conc
/-! Lock-state invariants of the protocol machine and deadlock freedom under the deferred release discipline, for
executions with any number of panicking lookups and changes; writers announce themselves on `rulesTreeMutex`
before they acquire it (`wRWRequest` / `wRWAcquire`) and new readers wait behind an announced writer. -/
namespace Heimdall.Conc

variable {K T Op Req Ans : Type}

def activeReader : Thread K T Op Req Ans → Prop
  | .reader _ pc _ _ _ => pc = .rHeld ∨ pc = .searched
  | _ => False

def rwHolder : Thread K T Op Req Ans → Prop
  | .writer _ pc _ => pc = .rwHeld ∨ pc = .indexWritten
  | _ => False

/-- pending on or holding `rulesTreeMutex` as a writer -/
def rwOwner : Thread K T Op Req Ans → Prop
  | .writer _ pc _ => pc = .rwWaiting ∨ pc = .rwHeld ∨ pc = .indexWritten
  | _ => False

theorem rwOwner_of_rwHolder {t : Thread K T Op Req Ans} (h : rwHolder t) : rwOwner t := by
  cases t with
  | reader => simp [rwHolder] at h
  | writer op pc loc =>
    simp only [rwHolder] at h
    rcases h with rfl | rfl <;> simp [rwOwner]

def shapeOk : Thread K T Op Req Ans → Prop
  | .reader _ .idle a st n => a = none ∧ st = 0 ∧ n = 0
  | .reader _ .rHeld a _ n => a = none ∧ n = 0
  | .reader _ .searched a _ _ => a ≠ none
  | _ => True

structure LInv (c : Config K T Op Req Ans) : Prop where
  rd_len   : c.readers = c.rset.length
  rd_nodup : c.rset.Nodup
  rd_mem   : ∀ j, j ∈ c.rset ↔ activeReader (c.threads j)
  rww_iff  : ∀ i, c.rww = some i ↔ rwOwner (c.threads i)
  rw_excl  : ∀ i, rwHolder (c.threads i) → c.rset = []
  shapes   : ∀ j, shapeOk (c.threads j)

theorem linv_of_eq (c c' : Config K T Op Req Ans) (i : Nat) (t : Thread K T Op Req Ans)
    (hr : c'.readers = c.readers) (hs : c'.rset = c.rset) (hw : c'.rww = c.rww)
    (ht : c'.threads = upd c.threads i t)
    (hact : activeReader t ↔ activeReader (c.threads i))
    (hown : rwOwner t ↔ rwOwner (c.threads i))
    (hrw : rwHolder t → rwHolder (c.threads i))
    (hshape : shapeOk t) (h : LInv c) : LInv c' := by
  refine ⟨by rw [hr, hs]; exact h.rd_len, by rw [hs]; exact h.rd_nodup, ?_, ?_, ?_, ?_⟩
  · intro j; rw [hs, ht]
    by_cases e : j = i
    · subst e; rw [upd_same, hact]; exact h.rd_mem j
    · rw [upd_other _ _ _ _ e]; exact h.rd_mem j
  · intro j; rw [hw, ht]
    by_cases e : j = i
    · subst e; rw [upd_same, hown]; exact h.rww_iff j
    · rw [upd_other _ _ _ _ e]; exact h.rww_iff j
  · intro j; rw [hs, ht]
    by_cases e : j = i
    · subst e; rw [upd_same]; intro hj; exact h.rw_excl j (hrw hj)
    · rw [upd_other _ _ _ _ e]; exact h.rw_excl j
  · intro j; rw [ht]
    by_cases e : j = i
    · subst e; rw [upd_same]; exact hshape
    · rw [upd_other _ _ _ _ e]; exact h.shapes j

/-- an active reader leaves its read section (unlock after the search, or the deferred unlock of a panicking search) -/
theorem linv_release (c c' : Config K T Op Req Ans) (i : Nat) (t : Thread K T Op Req Ans) (hl : LInv c)
    (hr : c'.readers = c.readers - 1) (hs : c'.rset = c.rset.erase i) (hw : c'.rww = c.rww)
    (ht : c'.threads = upd c.threads i t)
    (hwas : activeReader (c.threads i)) (hact : ¬ activeReader t) (hown : ¬ rwOwner t) (hshape : shapeOk t) :
    LInv c' := by
  have hmi : i ∈ c.rset := (hl.rd_mem i).mpr hwas
  have hnown : ¬ rwOwner (c.threads i) := by
    cases hti : c.threads i with
    | writer => rw [hti] at hwas; simp [activeReader] at hwas
    | reader => simp [rwOwner]
  refine ⟨?_, by rw [hs]; exact hl.rd_nodup.erase i, ?_, ?_, ?_, ?_⟩
  · rw [hr, hs, List.length_erase_of_mem hmi, hl.rd_len]
  · intro j; rw [hs, ht]
    by_cases e : j = i
    · subst e
      simp only [upd_same]
      constructor
      · intro hm; exact absurd hm (List.Nodup.not_mem_erase hl.rd_nodup)
      · intro hm; exact absurd hm hact
    · simp only [upd_other _ _ _ _ e]
      rw [List.mem_erase_of_ne e]; exact hl.rd_mem j
  · intro j; rw [hw, ht]
    by_cases e : j = i
    · subst e
      simp only [upd_same]
      constructor
      · intro hj; exact absurd ((hl.rww_iff j).mp hj) hnown
      · intro hj; exact absurd hj hown
    · simp only [upd_other _ _ _ _ e]; exact hl.rww_iff j
  · intro j; rw [hs, ht]
    by_cases e : j = i
    · subst e; simp only [upd_same]; intro hj; exact absurd (rwOwner_of_rwHolder hj) hown
    · simp only [upd_other _ _ _ _ e]
      intro hj
      have := hl.rw_excl j hj
      rw [this] at hmi; cases hmi
  · intro j; rw [ht]
    by_cases e : j = i
    · subst e; rw [upd_same]; exact hshape
    · rw [upd_other _ _ _ _ e]; exact hl.shapes j

theorem linv_step (s : Seq K T Op Req Ans) (c c' : Config K T Op Req Ans)
    (hi : Inv s c) (hl : LInv c) (hs : Step .deferred s c c') : LInv c' := by
  cases hs with
  | wPanicLeaked hd _ i op pc loc h hpc hlk => cases hd
  | rPanicLeaked hd _ i rq st h => cases hd
  | wLock _ i op loc h free =>
    exact linv_of_eq c _ i _ rfl rfl rfl rfl (by simp [h, activeReader]) (by simp [h, rwOwner]) (by simp [rwHolder]) (by simp [shapeOk]) hl
  | wReadKnown _ i op loc h hlk =>
    exact linv_of_eq c _ i _ rfl rfl rfl rfl (by simp [h, activeReader]) (by simp [h, rwOwner]) (by simp [rwHolder]) (by simp [shapeOk]) hl
  | wClone _ i op loc h hlk =>
    exact linv_of_eq c _ i _ rfl rfl rfl rfl (by simp [h, activeReader]) (by simp [h, rwOwner]) (by simp [rwHolder]) (by simp [shapeOk]) hl
  | wComputeOk _ i op loc st' h hlk ha =>
    exact linv_of_eq c _ i _ rfl rfl rfl rfl (by simp [h, activeReader]) (by simp [h, rwOwner]) (by simp [rwHolder]) (by simp [shapeOk]) hl
  | wComputeErr _ i op loc h hlk ha =>
    exact linv_of_eq c _ i _ rfl rfl rfl rfl (by simp [h, activeReader]) (by simp [h, rwOwner]) (by simp [rwHolder]) (by simp [shapeOk]) hl
  | wFail _ i op loc h hlk =>
    exact linv_of_eq c _ i _ rfl rfl rfl rfl (by simp [h, activeReader]) (by simp [h, rwOwner]) (by simp [rwHolder]) (by simp [shapeOk]) hl
  | wKnown _ i op st' h hlk =>
    exact linv_of_eq c _ i _ rfl rfl rfl rfl (by simp [h, activeReader]) (by simp [h, rwOwner]) (by simp [rwHolder]) (by simp [shapeOk]) hl
  | wIndex _ i op st' h hrw =>
    exact linv_of_eq c _ i _ rfl rfl rfl rfl (by simp [h, activeReader]) (by simp [h, rwOwner]) (by simp [h, rwHolder]) (by simp [shapeOk]) hl
  | wUnlock _ i op st' h hlk =>
    exact linv_of_eq c _ i _ rfl rfl rfl rfl (by simp [h, activeReader]) (by simp [h, rwOwner]) (by simp [rwHolder]) (by simp [shapeOk]) hl
  | wPanicReleased hd _ i op pc loc h hpc hlk =>
    refine linv_of_eq c _ i _ rfl rfl rfl rfl ?_ ?_ (by simp [rwHolder]) (by simp [shapeOk]) hl
    · rcases hpc with rfl | rfl <;> simp [h, activeReader]
    · rcases hpc with rfl | rfl <;> simp [h, rwOwner]
  | rSearch _ i rq st h =>
    exact linv_of_eq c _ i _ rfl rfl rfl rfl (by simp [h, activeReader]) (by simp [h, rwOwner]) (by simp [rwHolder]) (by simp [shapeOk]) hl
  | wRWRequest _ i op st' h free =>
    refine ⟨hl.rd_len, hl.rd_nodup, ?_, ?_, ?_, ?_⟩
    · intro j
      by_cases e : j = i
      · subst e
        simp only [upd_same, activeReader, iff_false]
        intro hm; have := (hl.rd_mem j).mp hm; rw [h] at this; simp [activeReader] at this
      · simp only [upd_other _ _ _ _ e]; exact hl.rd_mem j
    · intro j
      by_cases e : j = i
      · subst e; simp [rwOwner]
      · simp only [upd_other _ _ _ _ e]
        constructor
        · intro hj; exact absurd (Option.some.inj hj).symm e
        · intro hj
          exfalso
          have := (hl.rww_iff j).mpr hj
          rw [free] at this; cases this
    · intro j
      by_cases e : j = i
      · subst e; simp [rwHolder]
      · simp only [upd_other _ _ _ _ e]; exact hl.rw_excl j
    · intro j
      by_cases e : j = i
      · subst e; simp [shapeOk]
      · simp only [upd_other _ _ _ _ e]; exact hl.shapes j
  | wRWAcquire _ i op st' h hrw nor =>
    have hrs : c.rset = [] := by
      have := hl.rd_len; rw [nor] at this
      exact List.length_eq_zero_iff.mp this.symm
    refine ⟨hl.rd_len, hl.rd_nodup, ?_, ?_, fun _ _ => hrs, ?_⟩
    · intro j
      by_cases e : j = i
      · subst e; simp only [upd_same, activeReader, iff_false]; rw [hrs]; simp
      · simp only [upd_other _ _ _ _ e]; exact hl.rd_mem j
    · intro j
      by_cases e : j = i
      · subst e; simp [rwOwner, hrw]
      · simp only [upd_other _ _ _ _ e]; exact hl.rww_iff j
    · intro j
      by_cases e : j = i
      · subst e; simp [shapeOk]
      · simp only [upd_other _ _ _ _ e]; exact hl.shapes j
  | wRWUnlock _ i op st' h hrw =>
    have hrs : c.rset = [] := hl.rw_excl i (by rw [h]; simp [rwHolder])
    refine ⟨hl.rd_len, hl.rd_nodup, ?_, ?_, fun _ _ => hrs, ?_⟩
    · intro j
      by_cases e : j = i
      · subst e
        simp only [upd_same, activeReader, iff_false]
        rw [hrs]; simp
      · simp only [upd_other _ _ _ _ e]; exact hl.rd_mem j
    · intro j
      by_cases e : j = i
      · subst e; simp [rwOwner]
      · simp only [upd_other _ _ _ _ e]
        constructor
        · intro hj; cases hj
        · intro hj
          exfalso
          have := (hl.rww_iff j).mpr hj
          rw [hrw] at this; exact e (Option.some.inj this).symm
    · intro j
      by_cases e : j = i
      · subst e; simp [shapeOk]
      · simp only [upd_other _ _ _ _ e]; exact hl.shapes j
  | rLock _ i rq h free =>
    have hni : i ∉ c.rset := by
      intro hm; have := (hl.rd_mem i).mp hm; rw [h] at this; simp [activeReader] at this
    have hnoown : ∀ j, ¬ rwOwner (c.threads j) := by
      intro j hj; have := (hl.rww_iff j).mpr hj; rw [free] at this; cases this
    refine ⟨by simp [hl.rd_len], List.nodup_cons.mpr ⟨hni, hl.rd_nodup⟩, ?_, ?_, ?_, ?_⟩
    · intro j
      by_cases e : j = i
      · subst e; simp [activeReader]
      · simp only [upd_other _ _ _ _ e, List.mem_cons, e, false_or]; exact hl.rd_mem j
    · intro j
      by_cases e : j = i
      · subst e
        simp only [upd_same, rwOwner, iff_false]
        intro hj
        exact hnoown j ((hl.rww_iff j).mp hj)
      · simp only [upd_other _ _ _ _ e]; exact hl.rww_iff j
    · intro j
      by_cases e : j = i
      · subst e; simp [rwHolder]
      · simp only [upd_other _ _ _ _ e]
        intro hj; exact absurd (rwOwner_of_rwHolder hj) (hnoown j)
    · intro j
      by_cases e : j = i
      · subst e; simp [shapeOk]
      · simp only [upd_other _ _ _ _ e]; exact hl.shapes j
  | rUnlock _ i rq a st n h =>
    exact linv_release c _ i _ hl rfl rfl rfl rfl (by rw [h]; simp [activeReader]) (by simp [activeReader])
      (by simp [rwOwner]) (by simp [shapeOk])
  | rPanicReleased hd _ i rq st h =>
    exact linv_release c _ i _ hl rfl rfl rfl rfl (by rw [h]; simp [activeReader]) (by simp [activeReader])
      (by simp [rwOwner]) (by simp [shapeOk])

theorem linv_initial (s : Seq K T Op Req Ans) (c : Config K T Op Req Ans) (h : Initial s c) : LInv c := by
  obtain ⟨_, _, h3, h4, _, _, h7, h8⟩ := h
  refine ⟨by simp [h4, h7], by simp [h7], ?_, ?_, fun _ _ => h7, ?_⟩
  · intro j
    rcases h8 j with ⟨op, loc, e⟩ | ⟨rq, e⟩ <;> simp [e, h7, activeReader]
  · intro j
    rcases h8 j with ⟨op, loc, e⟩ | ⟨rq, e⟩ <;> simp [e, h3, rwOwner]
  · intro j
    rcases h8 j with ⟨op, loc, e⟩ | ⟨rq, e⟩ <;> simp [e, shapeOk]

theorem linv_reachable (s : Seq K T Op Req Ans) (c : Config K T Op Req Ans) (h : Reachable .deferred s c) :
    LInv c := by
  induction h with
  | init c hc => exact linv_initial s c hc
  | step c c' hr hs ih => exact linv_step s c c' (inv_reachable s c hr) ih hs

/-- the goroutine has returned — with a result, or because a panic ended it -/
def finished : Thread K T Op Req Ans → Prop
  | .writer _ pc _ => pc = .doneOk ∨ pc = .doneFail ∨ pc = .crashed
  | .reader _ pc _ _ _ => pc = .done ∨ pc = .crashed

/-- an active reader can always take its next step -/
theorem reader_can_step (d : Discipline) (s : Seq K T Op Req Ans) (c : Config K T Op Req Ans) (hl : LInv c) (j : Nat)
    (hj : activeReader (c.threads j)) : ∃ c', Step d s c c' := by
  have hsh := hl.shapes j
  cases ht : c.threads j with
  | writer op pc loc => rw [ht] at hj; simp [activeReader] at hj
  | reader rq pc a st n =>
    rw [ht] at hj hsh
    cases pc with
    | idle => simp [activeReader] at hj
    | done => simp [activeReader] at hj
    | crashed => simp [activeReader] at hj
    | rHeld =>
      simp only [shapeOk] at hsh
      obtain ⟨rfl, rfl⟩ := hsh
      exact ⟨_, Step.rSearch c j rq st ht⟩
    | searched =>
      simp only [shapeOk] at hsh
      cases a with
      | none => exact absurd rfl hsh
      | some x => exact ⟨_, Step.rUnlock c j rq x st n ht⟩

/-- nobody is pending on or holds `rulesTreeMutex` as a writer unless it is the holder of `knownRulesMutex` -/
theorem rww_holder (s : Seq K T Op Req Ans) (c : Config K T Op Req Ans) (hi : Inv s c) (hl : LInv c) (k : Nat)
    (hr : c.rww = some k) : c.wlock = some k := by
  have hk := (hl.rww_iff k).mp hr
  apply holder_of_inCS s c hi k
  cases htk : c.threads k with
  | reader => rw [htk] at hk; simp [rwOwner] at hk
  | writer op' pc' loc' =>
    rw [htk] at hk
    simp only [rwOwner] at hk
    rcases hk with rfl | rfl | rfl <;> simp [inCS]

/-- **Deadlock freedom**: as long as some thread has not finished, some thread can take a step — whatever number
of lookups and changes have panicked before (their locks were released by the deferred unlocks) -/
theorem progress (s : Seq K T Op Req Ans) (c : Config K T Op Req Ans) (hi : Inv s c) (hl : LInv c)
    (i : Nat) (hnf : ¬ finished (c.threads i)) : ∃ c', Step .deferred s c c' := by
  cases hw : c.wlock with
  | some h =>
    -- the holder of knownRulesMutex is inside its critical section and can always move on
    have hh := hi.held h hw
    cases ht : c.threads h with
    | reader rq pc a st n => rw [ht] at hh; simp [holderOk] at hh
    | writer op pc loc =>
      rw [ht] at hh
      cases pc with
      | idle => simp [holderOk] at hh
      | doneOk => simp [holderOk] at hh
      | doneFail => simp [holderOk] at hh
      | crashed => simp [holderOk] at hh
      | locked => exact ⟨_, Step.wReadKnown c h op loc ht hw⟩
      | readK => exact ⟨_, Step.wClone c h op loc ht hw⟩
      | cloned =>
        cases ha : s.apply loc op with
        | none => exact ⟨_, Step.wComputeErr c h op loc ht hw ha⟩
        | some st' => exact ⟨_, Step.wComputeOk c h op loc st' ht hw ha⟩
      | computed => exact ⟨_, Step.wKnown c h op loc ht hw⟩
      | failed => exact ⟨_, Step.wFail c h op loc ht hw⟩
      | knownWritten =>
        have hfree : c.rww = none := by
          cases hr : c.rww with
          | none => rfl
          | some k =>
            exfalso
            have := rww_holder s c hi hl k hr
            rw [hw] at this
            have hkh : h = k := Option.some.inj this
            subst hkh
            have hk := (hl.rww_iff h).mp hr
            rw [ht] at hk; simp [rwOwner] at hk
        exact ⟨_, Step.wRWRequest c h op loc ht hfree⟩
      | rwWaiting =>
        have hrw : c.rww = some h := (hl.rww_iff h).mpr (by rw [ht]; simp [rwOwner])
        by_cases hrd : c.readers = 0
        · exact ⟨_, Step.wRWAcquire c h op loc ht hrw hrd⟩
        · -- some reader still holds the read lock and can move on (search, unlock, or panic and unwind)
          have : c.rset ≠ [] := by
            intro he; apply hrd; rw [hl.rd_len, he]; rfl
          obtain ⟨j, hj⟩ := List.exists_mem_of_ne_nil _ this
          exact reader_can_step _ s c hl j ((hl.rd_mem j).mp hj)
      | rwHeld =>
        have := (hl.rww_iff h).mpr (by rw [ht]; simp [rwOwner])
        exact ⟨_, Step.wIndex c h op loc ht this⟩
      | indexWritten =>
        have := (hl.rww_iff h).mpr (by rw [ht]; simp [rwOwner])
        exact ⟨_, Step.wRWUnlock c h op loc ht this⟩
      | rwReleased => exact ⟨_, Step.wUnlock c h op loc ht hw⟩
  | none =>
    have hout : ¬ inCS (c.threads i) := hi.outside i (by rw [hw]; simp)
    have hfree : c.rww = none := by
      cases hr : c.rww with
      | none => rfl
      | some k =>
        exfalso
        have := rww_holder s c hi hl k hr
        rw [hw] at this; cases this
    cases ht : c.threads i with
    | writer op pc loc =>
      rw [ht] at hout hnf
      have : pc = .idle := by
        cases pc <;> simp_all [inCS, finished]
      subst this
      exact ⟨_, Step.wLock c i op loc ht hw⟩
    | reader rq pc a st n =>
      have hsh := hl.shapes i
      rw [ht] at hnf hsh
      cases pc with
      | done => simp [finished] at hnf
      | crashed => simp [finished] at hnf
      | idle =>
        simp only [shapeOk] at hsh
        obtain ⟨rfl, rfl, rfl⟩ := hsh
        exact ⟨_, Step.rLock c i rq ht hfree⟩
      | rHeld => exact reader_can_step _ s c hl i (by rw [ht]; simp [activeReader])
      | searched => exact reader_can_step _ s c hl i (by rw [ht]; simp [activeReader])

end Heimdall.Conc
