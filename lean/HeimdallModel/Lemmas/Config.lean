import HeimdallModel.Spec.Config
/-! Helper lemmas for property C20 (configuration loader). Core Lean only. -/
namespace Heimdall.Config

/-! ## the algebra of observations -/

/-- two observations that `merge` can combine without a kind clash -/
def kcompat : Kind → Kind → Bool
  | .null, _ => true
  | _, .null => true
  | .atom _, .atom _ => true
  | .map, .map => true
  | .seq _, .seq _ => true
  | _, _ => false

/-- compatible and not both scalars: what two different variables show at one place -/
def kdisj : Kind → Kind → Bool
  | .null, _ => true
  | _, .null => true
  | .map, .map => true
  | .seq _, .seq _ => true
  | _, _ => false

/-- what `merge` shows where destination and source show `a` and `b` -/
def kmerge : Kind → Kind → Kind
  | a, .null => a
  | .seq m, .seq n => .seq (max m n)
  | _, b => b

@[simp] theorem kcompat_null_right (a : Kind) : kcompat a .null = true := by cases a <;> rfl
@[simp] theorem kcompat_null_left (a : Kind) : kcompat .null a = true := by cases a <;> rfl
@[simp] theorem kdisj_null_right (a : Kind) : kdisj a .null = true := by cases a <;> rfl
@[simp] theorem kdisj_null_left (a : Kind) : kdisj .null a = true := by cases a <;> rfl
@[simp] theorem kind_null : Val.null.kind = .null := rfl

theorem kdisj_kcompat {a b : Kind} (h : kdisj a b = true) : kcompat a b = true := by
  cases a <;> cases b <;> simp_all [kdisj, kcompat]

theorem kdisj_symm {a b : Kind} (h : kdisj a b = true) : kdisj b a = true := by
  cases a <;> cases b <;> simp_all [kdisj]

theorem kmerge_null_left (a : Kind) : kmerge .null a = a := by cases a <;> rfl
theorem kmerge_null_right (a : Kind) : kmerge a .null = a := by cases a <;> rfl

theorem kmerge_comm {a b : Kind} (h : kdisj a b = true) : kmerge a b = kmerge b a := by
  cases a <;> cases b <;> simp_all [kdisj, kmerge, Nat.max_comm]

theorem kmerge_assoc {a b c : Kind} (hab : kcompat a b = true) (hbc : kcompat b c = true) (hac : kcompat a c = true) :
    kmerge (kmerge a b) c = kmerge a (kmerge b c) := by
  cases a <;> cases b <;> cases c <;> simp_all [kcompat, kmerge, Nat.max_assoc]

theorem kcompat_kmerge_left {a b c : Kind} (hac : kcompat a c = true) (hbc : kcompat b c = true) :
    kcompat (kmerge a b) c = true := by
  cases a <;> cases b <;> cases c <;> simp_all [kcompat, kmerge]

theorem kcompat_kmerge_right {a b c : Kind} (hab : kcompat a b = true) (hac : kcompat a c = true) :
    kcompat a (kmerge b c) = true := by
  cases a <;> cases b <;> cases c <;> simp_all [kcompat, kmerge]

theorem kcompat_of_kmerge_left {x y z : Kind} (hxy : kcompat x y = true) (h : kcompat (kmerge x y) z = true) :
    kcompat x z = true ∧ kcompat y z = true := by
  cases x <;> cases y <;> cases z <;> simp_all [kcompat, kmerge]

theorem kcompat_of_kmerge_right {x y z : Kind} (hyz : kcompat y z = true) (h : kcompat x (kmerge y z) = true) :
    kcompat x y = true ∧ kcompat x z = true := by
  cases x <;> cases y <;> cases z <;> simp_all [kcompat, kmerge]

theorem kdisj_kmerge_left {a b c : Kind} (hac : kdisj a c = true) (hbc : kdisj b c = true) :
    kdisj (kmerge a b) c = true := by
  cases a <;> cases b <;> cases c <;> simp_all [kdisj, kmerge]

/-! ## list-like induction over the entries of a map / a slice -/

@[elab_as_elim] theorem Fields.ind {motive : Fields → Prop} (nil : motive .nil)
    (cons : ∀ k v rest, motive rest → motive (.cons k v rest)) : ∀ fs, motive fs
  | .nil => nil
  | .cons k v rest => cons k v rest (Fields.ind nil cons rest)

@[elab_as_elim] theorem Elems.ind {motive : Elems → Prop} (nil : motive .nil)
    (cons : ∀ v rest, motive rest → motive (.cons v rest)) : ∀ es, motive es
  | .nil => nil
  | .cons v rest => cons v rest (Elems.ind nil cons rest)

/-! ## lookups in merged maps and slices -/

@[simp] theorem merge_null_left (s : Val) : merge .null s = s := by
  cases s <;> simp [merge]

@[simp] theorem merge_null_right (d : Val) : merge d .null = d := by simp [merge]

theorem lookup_set_eq (fs : Fields) (k : Key) (x : Val) : (fs.set k x).lookup k = x := by
  induction fs using Fields.ind with
  | nil => simp [Fields.set, Fields.lookup]
  | cons k' v rest ih =>
    by_cases h : k' = k
    · simp [Fields.set, Fields.lookup, h]
    · simp [Fields.set, Fields.lookup, h, ih]

theorem lookup_set_ne (fs : Fields) {k q : Key} (x : Val) (h : k ≠ q) : (fs.set k x).lookup q = fs.lookup q := by
  induction fs using Fields.ind with
  | nil => simp [Fields.set, Fields.lookup, h]
  | cons k' v rest ih =>
    by_cases h' : k' = k
    · subst h'; simp [Fields.set, Fields.lookup, h]
    · by_cases h'' : k' = q
      · subst h''; simp [Fields.set, Fields.lookup, h']
      · simp [Fields.set, Fields.lookup, h', h'', ih]

theorem lookup_of_not_mem (fs : Fields) (k : Key) (h : k ∉ fs.keys) : fs.lookup k = .null := by
  induction fs using Fields.ind with
  | nil => rfl
  | cons k' v rest ih =>
    simp [Fields.keys] at h
    simp [Fields.lookup, Ne.symm h.1, ih h.2]

theorem lookup_mergeFields (df sf : Fields) (k : Key) (h : hasDup sf.keys = false) :
    (mergeFields df sf).lookup k = merge (df.lookup k) (sf.lookup k) := by
  induction sf using Fields.ind generalizing df with
  | nil => simp [mergeFields, Fields.lookup]
  | cons k' v rest ih =>
    simp [Fields.keys, hasDup] at h
    rw [mergeFields, ih _ h.2]
    by_cases hk : k' = k
    · subst hk
      rw [lookup_set_eq, lookup_of_not_mem rest k' h.1]
      simp [Fields.lookup]
    · rw [lookup_set_ne _ _ hk]
      simp [Fields.lookup, hk]

theorem getD_mergeElems (de se : Elems) (n : Nat) :
    (mergeElems de se).getD n = merge (de.getD n) (se.getD n) := by
  induction se using Elems.ind generalizing de n with
  | nil => simp [mergeElems, Elems.getD]
  | cons v rest ih =>
    cases de with
    | nil =>
      cases n with
      | zero => simp [mergeElems, Elems.getD]
      | succ n => simp [mergeElems, Elems.getD, ih]
    | cons x xs =>
      cases n with
      | zero => simp [mergeElems, Elems.getD]
      | succ n => simp [mergeElems, Elems.getD, ih]

theorem length_mergeElems (de se : Elems) : (mergeElems de se).length = max de.length se.length := by
  induction se using Elems.ind generalizing de with
  | nil => simp [mergeElems, Elems.length]
  | cons v rest ih =>
    cases de with
    | nil => simp [mergeElems, Elems.length, ih]
    | cons x xs => simp [mergeElems, Elems.length, ih]

/-! ## pointwise predicates -/

/-- no kind clash anywhere -/
def pcompat (d s : Val) : Prop := ∀ p : Path, kcompat (d.get p).kind (s.get p).kind = true

/-- no kind clash and no common scalar anywhere -/
def pdisj (d s : Val) : Prop := ∀ p : Path, kdisj (d.get p).kind (s.get p).kind = true

/-- the keys of a map, as far as they matter -/
def Val.keysOk : Val → Prop
  | .map fs => hasDup fs.keys = false
  | _ => True

/-- every map anywhere in the tree has pairwise different keys -/
def pnodup (s : Val) : Prop := ∀ p : Path, (s.get p).keysOk

@[simp] theorem get_nil (v : Val) : v.get [] = v := by cases v <;> rfl

@[simp] theorem get_null (p : Path) : Val.null.get p = .null := by
  cases p <;> simp [Val.get]

theorem get_atom_cons (a : String) (s : Seg) (p : Path) : (Val.atom a).get (s :: p) = .null := by
  simp [Val.get]

theorem get_map_key (fs : Fields) (k : Key) (p : Path) : (Val.map fs).get (.key k :: p) = (fs.lookup k).get p := by
  simp [Val.get]
theorem get_map_idx (fs : Fields) (n : Nat) (p : Path) : (Val.map fs).get (.idx n :: p) = .null := by
  simp [Val.get]
theorem get_seq_idx (es : Elems) (n : Nat) (p : Path) : (Val.seq es).get (.idx n :: p) = (es.getD n).get p := by
  simp [Val.get]
theorem get_seq_key (es : Elems) (k : Key) (p : Path) : (Val.seq es).get (.key k :: p) = .null := by
  simp [Val.get]

theorem get_append (v : Val) (p q : Path) : v.get (p ++ q) = (v.get p).get q := by
  induction p generalizing v with
  | nil => simp
  | cons s p ih =>
    cases v with
    | null => simp
    | atom a => simp [get_atom_cons]
    | map fs => cases s <;> simp [get_map_key, get_map_idx, ih]
    | seq es => cases s <;> simp [get_seq_key, get_seq_idx, ih]

theorem pcompat_get {d s : Val} (h : pcompat d s) (q : Path) : pcompat (d.get q) (s.get q) := by
  intro p; rw [← get_append, ← get_append]; exact h _

theorem pdisj_get {d s : Val} (h : pdisj d s) (q : Path) : pdisj (d.get q) (s.get q) := by
  intro p; rw [← get_append, ← get_append]; exact h _

theorem pnodup_get {s : Val} (h : pnodup s) (q : Path) : pnodup (s.get q) := by
  intro p; rw [← get_append]; exact h _

theorem pdisj_pcompat {d s : Val} (h : pdisj d s) : pcompat d s := fun p => kdisj_kcompat (h p)

theorem pdisj_symm {d s : Val} (h : pdisj d s) : pdisj s d := fun p => kdisj_symm (h p)

theorem pcompat_null_left (s : Val) : pcompat .null s := by intro p; simp
theorem pdisj_null_left (s : Val) : pdisj .null s := by intro p; simp
theorem pnodup_null : pnodup .null := by intro p; simp [Val.keysOk]

/-- the subtree of a merge is the merge of the subtrees -/
theorem get_merge {d s : Val} (hn : pnodup s) (hc : pcompat d s) (p : Path) :
    (merge d s).get p = merge (d.get p) (s.get p) := by
  induction p generalizing d s with
  | nil => simp
  | cons seg q ih =>
    have h0 := hc []
    simp only [get_nil] at h0
    cases s with
    | null => simp
    | atom a =>
      cases d with
      | null => simp
      | atom b => simp [merge, get_atom_cons]
      | map df => simp [Val.kind, kcompat] at h0
      | seq de => simp [Val.kind, kcompat] at h0
    | map sf =>
      cases d with
      | null => simp
      | atom b => simp [Val.kind, kcompat] at h0
      | seq de => simp [Val.kind, kcompat] at h0
      | map df =>
        cases seg with
        | idx n => simp [merge, get_map_idx]
        | key k =>
          have hk : hasDup sf.keys = false := by have := hn []; simpa [Val.keysOk] using this
          simp only [merge, get_map_key]
          rw [lookup_mergeFields df sf k hk]
          have hn' : pnodup (sf.lookup k) := by
            have := pnodup_get hn [.key k]; simpa [get_map_key] using this
          have hc' : pcompat (df.lookup k) (sf.lookup k) := by
            have := pcompat_get hc [.key k]; simpa [get_map_key] using this
          exact ih hn' hc'
    | seq se =>
      cases d with
      | null => simp
      | atom b => simp [Val.kind, kcompat] at h0
      | map df => simp [Val.kind, kcompat] at h0
      | seq de =>
        cases seg with
        | key k => simp [merge, get_seq_key]
        | idx n =>
          simp only [merge, get_seq_idx]
          rw [getD_mergeElems]
          have hn' : pnodup (se.getD n) := by
            have := pnodup_get hn [.idx n]; simpa [get_seq_idx] using this
          have hc' : pcompat (de.getD n) (se.getD n) := by
            have := pcompat_get hc [.idx n]; simpa [get_seq_idx] using this
          exact ih hn' hc'

theorem kind_merge {d s : Val} (h : kcompat d.kind s.kind = true) : (merge d s).kind = kmerge d.kind s.kind := by
  cases s <;> cases d <;> simp_all [merge, Val.kind, kmerge, kcompat, length_mergeElems]

/-- what a merge shows at a place is determined by what its arguments show there -/
theorem obs_merge {d s : Val} (hn : pnodup s) (hc : pcompat d s) (p : Path) :
    ((merge d s).get p).kind = kmerge (d.get p).kind (s.get p).kind := by
  rw [get_merge hn hc, kind_merge (hc p)]

theorem pcompat_merge_left {a b c : Val} (hn : pnodup b) (hab : pcompat a b) (hac : pcompat a c) (hbc : pcompat b c) :
    pcompat (merge a b) c := by
  intro p; rw [obs_merge hn hab]; exact kcompat_kmerge_left (hac p) (hbc p)

theorem pcompat_merge_right {a b c : Val} (hn : pnodup c) (hab : pcompat a b) (hac : pcompat a c) (hbc : pcompat b c) :
    pcompat a (merge b c) := by
  intro p; rw [obs_merge hn hbc]; exact kcompat_kmerge_right (hab p) (hac p)

theorem pdisj_merge_left {a b c : Val} (hn : pnodup b) (hab : pcompat a b) (hac : pdisj a c) (hbc : pdisj b c) :
    pdisj (merge a b) c := by
  intro p; rw [obs_merge hn hab]; exact kdisj_kmerge_left (hac p) (hbc p)

theorem keys_set (fs : Fields) (k : Key) (x : Val) :
    (fs.set k x).keys = if k ∈ fs.keys then fs.keys else fs.keys ++ [k] := by
  induction fs using Fields.ind with
  | nil => simp [Fields.set, Fields.keys]
  | cons k' v rest ih =>
    by_cases h : k' = k
    · subst h; simp [Fields.set, Fields.keys]
    · have h' : ¬ k = k' := fun e => h e.symm
      simp only [Fields.set, h, if_false, Fields.keys, ih, List.mem_cons, h', false_or]
      split <;> simp

theorem hasDup_append_single (ks : List Key) (k : Key) (h : k ∉ ks) : hasDup (ks ++ [k]) = hasDup ks := by
  induction ks with
  | nil => simp [hasDup]
  | cons a r ih =>
    simp at h
    simp [hasDup, ih h.2, Ne.symm h.1]

theorem hasDup_set (fs : Fields) (k : Key) (x : Val) : hasDup (fs.set k x).keys = hasDup fs.keys := by
  rw [keys_set]; split
  · rfl
  · next h => exact hasDup_append_single _ _ h

theorem hasDup_mergeFields (df sf : Fields) : hasDup (mergeFields df sf).keys = hasDup df.keys := by
  induction sf using Fields.ind generalizing df with
  | nil => simp [mergeFields]
  | cons k v rest ih => rw [mergeFields, ih, hasDup_set]

theorem pnodup_merge {d s : Val} (hd : pnodup d) (hs : pnodup s) (hc : pcompat d s) : pnodup (merge d s) := by
  intro p
  rw [get_merge hs hc]
  have h1 := hd p
  have h2 := hs p
  have h3 := hc p
  generalize d.get p = x at *
  generalize s.get p = y at *
  cases y <;> cases x <;> simp_all [merge, Val.keysOk, Val.kind, kcompat, hasDup_mergeFields]

/-! ## the decidable predicates of the model imply the pointwise ones -/

theorem compatB_null_left (s : Val) : Val.compatB .null s = true := by
  cases s <;> simp [Val.compatB]

theorem compatB_lookup {df sf : Fields} (h : Fields.compatB df sf = true) (k : Key) :
    Val.compatB (df.lookup k) (sf.lookup k) = true := by
  induction sf using Fields.ind with
  | nil => simp [Fields.lookup, Val.compatB]
  | cons k' v rest ih =>
    simp [Fields.compatB] at h
    by_cases hk : k' = k
    · subst hk; simp [Fields.lookup, h.1]
    · simp [Fields.lookup, hk, ih h.2]

theorem compatB_getD {de se : Elems} (h : Elems.compatB de se = true) (n : Nat) :
    Val.compatB (de.getD n) (se.getD n) = true := by
  induction se using Elems.ind generalizing de n with
  | nil => simp [Elems.getD, Val.compatB]
  | cons v rest ih =>
    cases de with
    | nil => simp [Elems.getD, compatB_null_left]
    | cons x xs =>
      simp [Elems.compatB] at h
      cases n with
      | zero => simp [Elems.getD, h.1]
      | succ n => simp [Elems.getD, ih h.2]

theorem compatB_kind {d s : Val} (h : Val.compatB d s = true) : kcompat d.kind s.kind = true := by
  cases s <;> cases d <;> simp_all [Val.compatB, Val.kind, kcompat]

theorem pcompat_of_compatB {d s : Val} (h : Val.compatB d s = true) : pcompat d s := by
  intro p
  induction p generalizing d s with
  | nil => simpa using compatB_kind h
  | cons seg q ih =>
    cases s with
    | null => simp
    | atom a => simp [get_atom_cons]
    | map sf =>
      cases d with
      | null => simp
      | atom b => simp [Val.compatB] at h
      | seq de => simp [Val.compatB] at h
      | map df =>
        cases seg with
        | idx n => simp [get_map_idx]
        | key k =>
          simp only [get_map_key]
          simp [Val.compatB] at h
          exact ih (compatB_lookup h k)
    | seq se =>
      cases d with
      | null => simp
      | atom b => simp [Val.compatB] at h
      | map df => simp [Val.compatB] at h
      | seq de =>
        cases seg with
        | key k => simp [get_seq_key]
        | idx n =>
          simp only [get_seq_idx]
          simp [Val.compatB] at h
          exact ih (compatB_getD h n)

theorem nodup_lookup {fs : Fields} (h : Fields.nodupVals fs = true) (k : Key) : (fs.lookup k).nodup = true := by
  induction fs using Fields.ind with
  | nil => simp [Fields.lookup, Val.nodup]
  | cons k' v rest ih =>
    simp [Fields.nodupVals] at h
    by_cases hk : k' = k
    · simp [Fields.lookup, hk, h.1]
    · simp [Fields.lookup, hk, ih h.2]

theorem nodup_getD {es : Elems} (h : Elems.nodupVals es = true) (n : Nat) : (es.getD n).nodup = true := by
  induction es using Elems.ind generalizing n with
  | nil => simp [Elems.getD, Val.nodup]
  | cons v rest ih =>
    simp [Elems.nodupVals] at h
    cases n with
    | zero => simp [Elems.getD, h.1]
    | succ n => simp [Elems.getD, ih h.2]

theorem pnodup_of_nodup {s : Val} (h : s.nodup = true) : pnodup s := by
  intro p
  induction p generalizing s with
  | nil =>
    cases s <;> simp_all [Val.keysOk, Val.nodup]
  | cons seg q ih =>
    cases s with
    | null => simp [Val.keysOk]
    | atom a => simp [get_atom_cons, Val.keysOk]
    | map fs =>
      cases seg with
      | idx n => simp [get_map_idx, Val.keysOk]
      | key k =>
        simp [Val.nodup] at h
        simpa [get_map_key] using ih (nodup_lookup h.2 k)
    | seq es =>
      cases seg with
      | key k => simp [get_seq_key, Val.keysOk]
      | idx n =>
        simp [Val.nodup] at h
        simpa [get_seq_idx] using ih (nodup_getD h n)

/-! ## the tree of one variable -/

theorem getD_padded (n c : Nat) (v : Val) : (padded n v).getD c = if c = n then v else .null := by
  induction n generalizing c with
  | zero =>
    cases c with
    | zero => simp [padded, Elems.getD]
    | succ c => simp [padded, Elems.getD]
  | succ n ih =>
    cases c with
    | zero => simp [padded, Elems.getD]
    | succ c => simp [padded, Elems.getD, ih]

theorem length_padded (n : Nat) (v : Val) : (padded n v).length = n + 1 := by
  induction n with
  | zero => simp [padded, Elems.length]
  | succ n ih => simp [padded, Elems.length, ih]

theorem get_single_self (q : Path) (v : Val) : (single q v).get q = v := by
  induction q with
  | nil => simp [single]
  | cons seg q ih =>
    cases seg with
    | key k => simp [single, get_map_key, Fields.lookup, ih]
    | idx n => simp [single, get_seq_idx, getD_padded, ih]

theorem nodupVals_padded (n : Nat) (v : Val) : Elems.nodupVals (padded n v) = v.nodup := by
  induction n with
  | zero => simp [padded, Elems.nodupVals]
  | succ n ih => simp [padded, Elems.nodupVals, Val.nodup, ih]

theorem nodup_single (q : Path) (v : Val) : (single q v).nodup = v.nodup := by
  induction q with
  | nil => simp [single]
  | cons seg q ih =>
    cases seg with
    | key k => simp [single, Val.nodup, Fields.keys, hasDup, Fields.nodupVals, ih]
    | idx n => simp [single, Val.nodup, nodupVals_padded, ih]

theorem pnodup_single_atom (q : Path) (a : String) : pnodup (single q (.atom a)) :=
  pnodup_of_nodup (by rw [nodup_single]; rfl)

/-- two variables addressing compatible, different places stand for trees without a common scalar or kind clash -/
theorem pdisj_single {q₁ q₂ : Path} (h : pathCompat q₁ q₂ = true) (a b : String) :
    pdisj (single q₁ (.atom a)) (single q₂ (.atom b)) := by
  intro p
  induction q₁ generalizing q₂ p with
  | nil => simp [pathCompat] at h
  | cons s₁ r₁ ih =>
    cases q₂ with
    | nil => simp [pathCompat] at h
    | cons s₂ r₂ =>
      cases s₁ with
      | key k₁ =>
        cases s₂ with
        | idx n => simp [pathCompat] at h
        | key k₂ =>
          cases p with
          | nil => simp [single, Val.kind, kdisj]
          | cons seg p' =>
            cases seg with
            | idx n => simp [single, get_map_idx]
            | key c =>
              simp only [single, get_map_key, Fields.lookup]
              by_cases h1 : k₁ = c
              · by_cases h2 : k₂ = c
                · subst h1; subst h2
                  simp [pathCompat] at h
                  simpa using ih h p'
                · simp [h1, h2]
              · simp [h1]
      | idx n₁ =>
        cases s₂ with
        | key k => simp [pathCompat] at h
        | idx n₂ =>
          cases p with
          | nil => simp [single, Val.kind, kdisj]
          | cons seg p' =>
            cases seg with
            | key c => simp [single, get_seq_key]
            | idx c =>
              simp only [single, get_seq_idx, getD_padded]
              by_cases h1 : c = n₁
              · by_cases h2 : c = n₂
                · subst h1; subst h2
                  simp [pathCompat] at h
                  simpa using ih h p'
                · have h3 : ¬ n₁ = n₂ := fun e => h2 (h1.trans e)
                  simp [h1, h3]
              · simp [h1]

theorem pathCompat_symm {p q : Path} (h : pathCompat p q = true) : pathCompat q p = true := by
  induction p generalizing q with
  | nil => simp [pathCompat] at h
  | cons s r ih =>
    cases q with
    | nil => simp [pathCompat] at h
    | cons t u =>
      cases s <;> cases t <;> simp [pathCompat] at h ⊢
      · next a b =>
        by_cases e : a = b
        · subst e; simp at h ⊢; exact ih h
        · have : ¬ b = a := fun x => e x.symm
          simp [this]
      · next a b =>
        by_cases e : a = b
        · subst e; simp at h ⊢; exact ih h
        · have : ¬ b = a := fun x => e x.symm
          simp [this]

/-! ## many variables -/

/-- the trees of the variables of an environment -/
def singles (es : List (Path × Val)) : List Val := es.map fun e => single e.1 e.2

theorem envTree_eq (es : List (Path × Val)) : envTree es = (singles es).foldl merge .null := by
  simp [envTree, singles, List.foldl_map]

theorem kmerge_right_comm {a x y : Kind} (hx : kdisj a x = true) (hy : kdisj a y = true) (hxy : kdisj x y = true) :
    kmerge (kmerge a x) y = kmerge (kmerge a y) x := by
  cases a <;> cases x <;> cases y <;> simp_all [kdisj, kmerge] <;> omega

/-- folding the observations of pairwise disjoint trees does not depend on the order -/
theorem kfold_perm {l₁ l₂ : List Kind} (hp : l₁.Perm l₂) :
    ∀ acc, (∀ x ∈ l₁, kdisj acc x = true) → l₁.Pairwise (fun a b => kdisj a b = true) →
      l₁.foldl kmerge acc = l₂.foldl kmerge acc := by
  induction hp with
  | nil => intros; rfl
  | cons x _ ih =>
    intro acc hacc hpw
    simp only [List.foldl_cons]
    rw [List.pairwise_cons] at hpw
    apply ih
    · intro y hy
      exact kdisj_kmerge_left (hacc y (List.mem_cons_of_mem _ hy)) (hpw.1 y hy)
    · exact hpw.2
  | swap x y l =>
    intro acc hacc hpw
    simp only [List.foldl_cons]
    rw [List.pairwise_cons, List.pairwise_cons] at hpw
    have hy := hacc y (by simp)
    have hx := hacc x (by simp)
    have hyx := hpw.1 x (by simp)
    rw [kmerge_right_comm hy hx hyx]
  | trans h₁ h₂ ih₁ ih₂ =>
    intro acc hacc hpw
    rw [ih₁ acc hacc hpw]
    apply ih₂
    · intro x hx; exact hacc x (h₁.mem_iff.mpr hx)
    · exact (h₁.pairwise_iff (fun h => kdisj_symm h)).mp hpw

/-- what the merge of pairwise disjoint trees shows at a place: the fold of what each shows there -/
theorem obs_mergeAll (ts : List Val) :
    ∀ acc, pnodup acc → (∀ t ∈ ts, pdisj acc t) → ts.Pairwise pdisj → (∀ t ∈ ts, pnodup t) →
      pnodup (ts.foldl merge acc) ∧
      ∀ p, ((ts.foldl merge acc).get p).kind = (ts.map fun t => (t.get p).kind).foldl kmerge (acc.get p).kind := by
  induction ts with
  | nil => intro acc hn _ _ _; exact ⟨hn, fun p => rfl⟩
  | cons t ts ih =>
    intro acc hn hacc hpw hts
    rw [List.pairwise_cons] at hpw
    have hat := hacc t (by simp)
    have hnt := hts t (by simp)
    have hn' : pnodup (merge acc t) := pnodup_merge hn hnt (pdisj_pcompat hat)
    have hacc' : ∀ u ∈ ts, pdisj (merge acc t) u := fun u hu =>
      pdisj_merge_left hnt (pdisj_pcompat hat) (hacc u (List.mem_cons_of_mem _ hu)) (hpw.1 u hu)
    have := ih (merge acc t) hn' hacc' hpw.2 (fun u hu => hts u (List.mem_cons_of_mem _ hu))
    refine ⟨this.1, fun p => ?_⟩
    simp only [List.foldl_cons, List.map_cons]
    rw [this.2 p, obs_merge hnt (pdisj_pcompat hat)]

theorem pathsConsistent_iff (ps : List Path) :
    pathsConsistent ps = true ↔ ps.Pairwise (fun p q => pathCompat p q = true) := by
  induction ps with
  | nil => simp [pathsConsistent]
  | cons p ps ih => simp [pathsConsistent, List.pairwise_cons, List.all_eq_true, ih]

/-! ## lists of leaves -/

abbrev Leaves := List (Path × String)

/-- the `(path, value)` pairs `envTree` consumes -/
def atoms (L : Leaves) : List (Path × Val) := L.map fun l => (l.1, Val.atom l.2)

/-- pairwise compatible, different places -/
def Leaves.consistent (L : Leaves) : Bool := pathsConsistent (L.map (·.1))

/-- the leaves an environment gives -/
def Env.leafList (env : Env) : Leaves := env.map fun e => (parseName e.1, e.2)

/-- an environment none of whose variables gives a nil value to a list position -/
def Env.holeFree (env : Env) : Bool := env.all fun e => !holeVar (parseName e.1) e.2

theorem entries_eq (env : Env) (h : env.holeFree = true) : env.entries = atoms env.leafList := by
  simp only [Env.entries, atoms, Env.leafList, List.map_map]
  apply List.map_congr_left
  intro e he
  have := List.all_eq_true.mp h e he
  simp only [Bool.not_eq_true'] at this
  simp [envVal, this]

theorem entries_paths (env : Env) : env.entries.map (·.1) = env.leafList.map (·.1) := by
  simp [Env.entries, Env.leafList, List.map_map, Function.comp_def]

theorem consistent_eq (env : Env) : env.consistent = env.leafList.consistent := by
  simp [Env.consistent, Leaves.consistent, Env.leafList, List.map_map, Function.comp_def]

theorem fromLeaves_eq (L : Leaves) : fromLeaves L = envTree (atoms L) := rfl

/-- consistent leaves stand for pairwise disjoint trees -/
theorem singles_family (L : Leaves) (h : L.consistent = true) :
    (singles (atoms L)).Pairwise pdisj ∧ ∀ t ∈ singles (atoms L), pnodup t := by
  constructor
  · have := (pathsConsistent_iff _).mp h
    simp only [singles, atoms, List.map_map, List.pairwise_map] at this ⊢
    exact this.imp (fun h => pdisj_single h _ _)
  · intro t ht
    simp only [singles, atoms, List.map_map, List.mem_map] at ht
    obtain ⟨e, _, rfl⟩ := ht
    exact pnodup_single_atom _ _

theorem consistent_perm {L₁ L₂ : Leaves} (hp : L₁.Perm L₂) (h : L₁.consistent = true) :
    L₂.consistent = true := by
  have := (pathsConsistent_iff _).mp h
  apply (pathsConsistent_iff _).mpr
  exact ((hp.map _).pairwise_iff (fun h => pathCompat_symm h)).mp this

/-- observations of the tree of consistent leaves: the fold over the leaves -/
theorem obs_leafTree (L : Leaves) (h : L.consistent = true) :
    pnodup (envTree (atoms L)) ∧
    ∀ p, ((envTree (atoms L)).get p).kind
      = ((singles (atoms L)).map fun t => (t.get p).kind).foldl kmerge .null := by
  have fam := singles_family L h
  have := obs_mergeAll (singles (atoms L)) .null pnodup_null (fun t _ => pdisj_null_left t) fam.1 fam.2
  rw [envTree_eq]
  exact ⟨this.1, fun p => by rw [this.2 p]; simp⟩

/-- the tree of consistent leaves does not depend on their order (observationally) -/
theorem leafTree_perm {L₁ L₂ : Leaves} (hp : L₁.Perm L₂) (h : L₁.consistent = true) :
    envTree (atoms L₁) ≈ envTree (atoms L₂) := by
  intro p
  have h₂ := consistent_perm hp h
  rw [(obs_leafTree L₁ h).2 p, (obs_leafTree L₂ h₂).2 p]
  have fam := singles_family L₁ h
  apply kfold_perm
  · exact ((hp.map _).map _).map _
  · intro x _; simp
  · rw [List.pairwise_map]
    exact fam.1.imp (fun h => h p)

theorem pcompat_congr_right {d s s' : Val} (h : s ≈ s') (hc : pcompat d s) : pcompat d s' := by
  intro p; rw [← h p]; exact hc p

/-- merging observationally equal sources into the same destination gives observationally equal results -/
theorem merge_congr_right {d s s' : Val} (hn : pnodup s) (hn' : pnodup s') (hc : pcompat d s) (h : s ≈ s') :
    merge d s ≈ merge d s' := by
  intro p
  rw [obs_merge hn hc, obs_merge hn' (pcompat_congr_right h hc), h p]

theorem equiv_refl (a : Val) : a ≈ a := fun _ => rfl
theorem equiv_symm {a b : Val} (h : a ≈ b) : b ≈ a := fun p => (h p).symm
theorem equiv_trans {a b c : Val} (h₁ : a ≈ b) (h₂ : b ≈ c) : a ≈ c := fun p => (h₁ p).trans (h₂ p)

/-- `merge` is associative (observationally) where there is no kind clash -/
theorem merge_assoc {a b c : Val} (hb : pnodup b) (hc : pnodup c)
    (hab : pcompat a b) (hac : pcompat a c) (hbc : pcompat b c) :
    merge (merge a b) c ≈ merge a (merge b c) := by
  intro p
  rw [obs_merge hc (pcompat_merge_left hb hab hac hbc), obs_merge hb hab,
    obs_merge (pnodup_merge hb hc hbc) (pcompat_merge_right hc hab hac hbc), obs_merge hc hbc]
  exact kmerge_assoc (hab p) (hbc p) (hac p)

/-! ## a variable wins at its leaf, and nothing else changes -/

theorem kind_eq_atom {v : Val} {a : String} (h : v.kind = .atom a) : v = .atom a := by
  cases v <;> simp_all [Val.kind]

theorem kind_eq_null {v : Val} (h : v.kind = .null) : v = .null := by
  cases v <;> simp_all [Val.kind]

theorem kfold_atom (a : String) (l : List Kind) (h : ∀ x ∈ l, kdisj (.atom a) x = true) :
    l.foldl kmerge (.atom a) = .atom a := by
  induction l with
  | nil => rfl
  | cons x l ih =>
    have hx := h x (by simp)
    have : x = .null := by cases x <;> simp_all [kdisj]
    subst this
    simp only [List.foldl_cons, kmerge_null_right]
    exact ih (fun y hy => h y (List.mem_cons_of_mem _ hy))

theorem kfold_null (l : List Kind) (h : ∀ x ∈ l, x = .null) : l.foldl kmerge .null = .null := by
  induction l with
  | nil => rfl
  | cons x l ih =>
    have := h x (by simp); subst this
    simp only [List.foldl_cons, kmerge_null_right]
    exact ih (fun y hy => h y (List.mem_cons_of_mem _ hy))

/-- the tree of consistent leaves holds every leaf's value at the leaf's path -/
theorem leafTree_get_leaf (L : Leaves) (h : L.consistent = true) {q : Path} {a : String} (hm : (q, a) ∈ L) :
    (envTree (atoms L)).get q = .atom a := by
  apply kind_eq_atom
  rw [(obs_leafTree L h).2 q]
  have fam := singles_family L h
  let ks := (singles (atoms L)).map fun t => (t.get q).kind
  have hpw : ks.Pairwise (fun x y => kdisj x y = true) := by
    simp only [ks, List.pairwise_map]; exact fam.1.imp (fun h => h q)
  have hmem : Kind.atom a ∈ ks := by
    simp only [ks, singles, atoms, List.map_map, List.mem_map]
    exact ⟨(q, a), hm, by simp [get_single_self, Val.kind]⟩
  have hperm := List.perm_cons_erase hmem
  show ks.foldl kmerge .null = _
  rw [kfold_perm hperm .null (fun x _ => by simp) hpw]
  simp only [List.foldl_cons, kmerge_null_left]
  apply kfold_atom
  have := (hperm.pairwise_iff (fun h => kdisj_symm h)).mp hpw
  rw [List.pairwise_cons] at this
  exact this.1

theorem get_single_off {q : Path} (v : Val) {p : Path} (h : onBranch q p = false) : (single q v).get p = .null := by
  induction q generalizing p with
  | nil => simp [onBranch] at h
  | cons s r ih =>
    cases p with
    | nil => simp [onBranch] at h
    | cons t p' =>
      simp only [onBranch, Bool.and_eq_false_iff] at h
      cases s with
      | key k =>
        cases t with
        | idx n => simp [single, get_map_idx]
        | key k' =>
          by_cases e : k = k'
          · subst e
            simp at h
            simp [single, get_map_key, Fields.lookup, ih h]
          · simp [single, get_map_key, Fields.lookup, e]
      | idx n =>
        cases t with
        | key k => simp [single, get_seq_key]
        | idx n' =>
          by_cases e : n = n'
          · subst e
            simp at h
            simp [single, get_seq_idx, getD_padded, ih h]
          · have : ¬ n' = n := fun x => e x.symm
            simp [single, get_seq_idx, getD_padded, this]

/-- the tree of consistent leaves has nothing where no leaf is on the branch -/
theorem leafTree_get_off (L : Leaves) (h : L.consistent = true) {p : Path}
    (ht : L.all (fun l => !onBranch l.1 p) = true) : (envTree (atoms L)).get p = .null := by
  apply kind_eq_null
  rw [(obs_leafTree L h).2 p]
  apply kfold_null
  intro x hx
  simp only [singles, atoms, List.map_map, List.mem_map] at hx
  obtain ⟨l, hl, rfl⟩ := hx
  have := List.all_eq_true.mp ht l hl
  simp at this
  simp [get_single_off _ this]

/-! ## entries that are scalars or holes (variables with a nil value at a list position contribute a hole) -/

/-- two variables addressing compatible, different places stand for disjoint trees, whatever their values are -/
theorem pdisj_single_any {q₁ q₂ : Path} (h : pathCompat q₁ q₂ = true) (v w : Val) :
    pdisj (single q₁ v) (single q₂ w) := by
  intro p
  induction q₁ generalizing q₂ p with
  | nil => simp [pathCompat] at h
  | cons s₁ r₁ ih =>
    cases q₂ with
    | nil => simp [pathCompat] at h
    | cons s₂ r₂ =>
      cases s₁ with
      | key k₁ =>
        cases s₂ with
        | idx n => simp [pathCompat] at h
        | key k₂ =>
          cases p with
          | nil => simp [single, Val.kind, kdisj]
          | cons seg p' =>
            cases seg with
            | idx n => simp [single, get_map_idx]
            | key c =>
              simp only [single, get_map_key, Fields.lookup]
              by_cases h1 : k₁ = c
              · by_cases h2 : k₂ = c
                · subst h1; subst h2
                  simp [pathCompat] at h
                  simpa using ih h p'
                · simp [h1, h2]
              · simp [h1]
      | idx n₁ =>
        cases s₂ with
        | key k => simp [pathCompat] at h
        | idx n₂ =>
          cases p with
          | nil => simp [single, Val.kind, kdisj]
          | cons seg p' =>
            cases seg with
            | key c => simp [single, get_seq_key]
            | idx c =>
              simp only [single, get_seq_idx, getD_padded]
              by_cases h1 : c = n₁
              · by_cases h2 : c = n₂
                · subst h1; subst h2
                  simp [pathCompat] at h
                  simpa using ih h p'
                · have h3 : ¬ n₁ = n₂ := fun e => h2 (h1.trans e)
                  simp [h1, h3]
              · simp [h1]

/-- entry lists `envTree` consumes whose values are scalars or holes, at pairwise compatible, different places -/
def EntriesOk (es : List (Path × Val)) : Prop :=
  pathsConsistent (es.map (·.1)) = true ∧ ∀ e ∈ es, e.2 = .null ∨ ∃ a, e.2 = .atom a

theorem entriesOk_perm {es₁ es₂ : List (Path × Val)} (hp : es₁.Perm es₂) (h : EntriesOk es₁) : EntriesOk es₂ := by
  refine ⟨?_, fun e he => h.2 e (hp.mem_iff.mpr he)⟩
  have := (pathsConsistent_iff _).mp h.1
  apply (pathsConsistent_iff _).mpr
  exact ((hp.map _).pairwise_iff (fun h => pathCompat_symm h)).mp this

theorem entries_family (es : List (Path × Val)) (h : EntriesOk es) :
    (singles es).Pairwise pdisj ∧ ∀ t ∈ singles es, pnodup t := by
  constructor
  · have := (pathsConsistent_iff _).mp h.1
    simp only [singles, List.pairwise_map] at this ⊢
    exact this.imp (fun h => pdisj_single_any h _ _)
  · intro t ht
    simp only [singles, List.mem_map] at ht
    obtain ⟨e, he, rfl⟩ := ht
    apply pnodup_of_nodup
    rw [nodup_single]
    rcases h.2 e he with h0 | ⟨a, h0⟩ <;> rw [h0] <;> rfl

/-- observations of the tree of such entries: the fold over the entries -/
theorem obs_entTree (es : List (Path × Val)) (h : EntriesOk es) :
    pnodup (envTree es) ∧
    ∀ p, ((envTree es).get p).kind = ((singles es).map fun t => (t.get p).kind).foldl kmerge .null := by
  have fam := entries_family es h
  have := obs_mergeAll (singles es) .null pnodup_null (fun t _ => pdisj_null_left t) fam.1 fam.2
  rw [envTree_eq]
  exact ⟨this.1, fun p => by rw [this.2 p]; simp⟩

theorem entTree_perm {es₁ es₂ : List (Path × Val)} (hp : es₁.Perm es₂) (h : EntriesOk es₁) :
    envTree es₁ ≈ envTree es₂ := by
  intro p
  have h₂ := entriesOk_perm hp h
  rw [(obs_entTree es₁ h).2 p, (obs_entTree es₂ h₂).2 p]
  have fam := entries_family es₁ h
  apply kfold_perm
  · exact ((hp.map _).map _)
  · intro x _; simp
  · rw [List.pairwise_map]
    exact fam.1.imp (fun h => h p)

theorem pairwise_mem_cases {α : Type} {R : α → α → Prop} {l : List α} (hp : l.Pairwise R) {a b : α}
    (ha : a ∈ l) (hb : b ∈ l) : a = b ∨ R a b ∨ R b a := by
  induction l with
  | nil => simp at ha
  | cons x xs ih =>
    rw [List.pairwise_cons] at hp
    rcases List.mem_cons.mp ha with ha1 | ha2
    · rcases List.mem_cons.mp hb with hb1 | hb2
      · exact Or.inl (ha1.trans hb1.symm)
      · rw [ha1]; exact Or.inr (Or.inl (hp.1 b hb2))
    · rcases List.mem_cons.mp hb with hb1 | hb2
      · rw [hb1]; exact Or.inr (Or.inr (hp.1 a ha2))
      · exact ih hp.2 ha2 hb2

/-- compatible places do not lie on one branch -/
theorem onBranch_of_pathCompat {p q : Path} (h : pathCompat p q = true) : onBranch p q = false := by
  induction p generalizing q with
  | nil => simp [pathCompat] at h
  | cons s r ih =>
    cases q with
    | nil => simp [pathCompat] at h
    | cons t u =>
      cases s <;> cases t <;> simp [pathCompat] at h
      · next a b =>
        by_cases e : a = b
        · subst e; simp at h; simp [onBranch, ih h]
        · simp [onBranch, e]
      · next a b =>
        by_cases e : a = b
        · subst e; simp at h; simp [onBranch, ih h]
        · simp [onBranch, e]

/-- the tree holds every entry's value at the entry's path: the scalar of a variable, nothing for a hole -/
theorem entTree_get_entry (es : List (Path × Val)) (h : EntriesOk es) {q : Path} {v : Val} (hm : (q, v) ∈ es) :
    (envTree es).get q = v := by
  have fam := entries_family es h
  rcases h.2 (q, v) hm with h0 | ⟨a, h0⟩
  · -- a hole: every other entry lies off the branch of `q`
    simp only at h0; subst h0
    apply kind_eq_null
    rw [(obs_entTree es h).2 q]
    apply kfold_null
    intro x hx
    simp only [singles, List.map_map, List.mem_map] at hx
    obtain ⟨e, he, rfl⟩ := hx
    simp only [Function.comp_apply]
    have hpw := (pathsConsistent_iff _).mp h.1
    rw [List.pairwise_map] at hpw
    rcases pairwise_mem_cases hpw hm he with heq | hc | hc
    · subst heq; simp [get_single_self, Val.kind]
    · have := onBranch_of_pathCompat (pathCompat_symm hc)
      simp [get_single_off _ this, Val.kind]
    · have := onBranch_of_pathCompat hc
      simp [get_single_off _ this, Val.kind]
  · simp only at h0; subst h0
    apply kind_eq_atom
    rw [(obs_entTree es h).2 q]
    let ks := (singles es).map fun t => (t.get q).kind
    have hpw : ks.Pairwise (fun x y => kdisj x y = true) := by
      simp only [ks, List.pairwise_map]; exact fam.1.imp (fun h => h q)
    have hmem : Kind.atom a ∈ ks := by
      simp only [ks, singles, List.map_map, List.mem_map]
      exact ⟨(q, .atom a), hm, by simp [get_single_self, Val.kind]⟩
    have hperm := List.perm_cons_erase hmem
    show ks.foldl kmerge .null = _
    rw [kfold_perm hperm .null (fun x _ => by simp) hpw]
    simp only [List.foldl_cons, kmerge_null_left]
    apply kfold_atom
    have := (hperm.pairwise_iff (fun h => kdisj_symm h)).mp hpw
    rw [List.pairwise_cons] at this
    exact this.1

/-- the tree has nothing where no entry is on the branch -/
theorem entTree_get_off (es : List (Path × Val)) (h : EntriesOk es) {p : Path}
    (ht : es.all (fun e => !onBranch e.1 p) = true) : (envTree es).get p = .null := by
  apply kind_eq_null
  rw [(obs_entTree es h).2 p]
  apply kfold_null
  intro x hx
  simp only [singles, List.map_map, List.mem_map] at hx
  obtain ⟨l, hl, rfl⟩ := hx
  have := List.all_eq_true.mp ht l hl
  simp at this
  simp [get_single_off _ this]

/-- the entries of a consistent environment are scalars or holes at compatible places -/
theorem entriesOk_env (env : Env) (h : env.consistent = true) : EntriesOk env.entries := by
  refine ⟨?_, fun e he => ?_⟩
  · rw [entries_paths, ← Leaves.consistent, ← consistent_eq]; exact h
  · simp only [Env.entries, List.mem_map] at he
    obtain ⟨x, _, rfl⟩ := he
    simp only [envVal]
    split
    · exact Or.inl rfl
    · exact Or.inr ⟨_, rfl⟩

/-! ## names of variables: the documented rule and the loader's normalisation are inverse -/

theorem nk_uu (r : List Char) : normalizeKey ('_' :: '_' :: r) = '_' :: normalizeKey r := by simp [normalizeKey]

theorem nk_u (c : Char) (r : List Char) (h : c ≠ '_') :
    normalizeKey ('_' :: c :: r) = '.' :: normalizeKey (c :: r) := by
  rw [normalizeKey]
  intro r' h'; simp at h'; exact absurd h'.1 h

theorem nk_c (c : Char) (r : List Char) (h : c ≠ '_') : normalizeKey (c :: r) = c.toLower :: normalizeKey r := by
  rw [normalizeKey]
  · intro r' h'; exact absurd h' h
  · intro h'; exact absurd h' h

theorem nk_escape (k suffix : List Char) (hk : k.all charOk = true) :
    normalizeKey (escapeKey k ++ suffix) = k ++ normalizeKey suffix := by
  induction k with
  | nil => simp [escapeKey]
  | cons c r ih =>
    simp only [List.all_cons, Bool.and_eq_true] at hk
    by_cases hc : c = '_'
    · subst hc
      simp [escapeKey, nk_uu, ih hk.2]
    · have h1 := hk.1
      simp [charOk, hc] at h1
      simp only [escapeKey, hc, if_false, List.cons_append]
      rw [nk_c _ _ h1.2.1, h1.2.2, ih hk.2]

/-- characters the normalisation leaves alone -/
def plain (c : Char) : Bool := c != '_' && c.toLower == c && c != '.'

theorem nk_plain (ds suffix : List Char) (h : ds.all plain = true) :
    normalizeKey (ds ++ suffix) = ds ++ normalizeKey suffix := by
  induction ds with
  | nil => simp
  | cons c r ih =>
    simp only [List.all_cons, Bool.and_eq_true] at h
    have h1 := h.1
    simp [plain] at h1
    simp only [List.cons_append]
    rw [nk_c _ _ h1.1.1, h1.1.2, ih h.2]

theorem digit_cases {d : Nat} (h : d < 10) :
    d = 0 ∨ d = 1 ∨ d = 2 ∨ d = 3 ∨ d = 4 ∨ d = 5 ∨ d = 6 ∨ d = 7 ∨ d = 8 ∨ d = 9 := by omega

theorem plain_digitChar (d : Nat) (h : d < 10) : plain (digitChar d) = true := by
  rcases digit_cases h with rfl | rfl | rfl | rfl | rfl | rfl | rfl | rfl | rfl | rfl <;> decide

theorem digitVal_digitChar (d : Nat) (h : d < 10) : digitVal (digitChar d) = some d := by
  rcases digit_cases h with rfl | rfl | rfl | rfl | rfl | rfl | rfl | rfl | rfl | rfl <;> decide

theorem natDigits_ne_nil (n : Nat) : natDigits n ≠ [] := by
  rw [natDigits]; split <;> simp

theorem plain_natDigits (n : Nat) : (natDigits n).all plain = true := by
  induction n using Nat.strongRecOn with
  | _ n ih =>
    rw [natDigits]
    split
    · next h => simp [plain_digitChar n h]
    · next h =>
      simp only [List.all_append, List.all_cons, List.all_nil, Bool.and_true, Bool.and_eq_true]
      exact ⟨ih (n / 10) (by omega), plain_digitChar _ (by omega)⟩

/-- the fold of `parseNat?` -/
def digitStep (acc : Option Nat) (c : Char) : Option Nat :=
  acc.bind fun n => (digitVal c).map fun d => n * 10 + d

theorem fold_natDigits (n : Nat) : (natDigits n).foldl digitStep (some 0) = some n := by
  induction n using Nat.strongRecOn with
  | _ n ih =>
    rw [natDigits]
    split
    · next h => simp [digitStep, digitVal_digitChar n h]
    · next h =>
      rw [List.foldl_append, ih (n / 10) (by omega)]
      simp [digitStep, digitVal_digitChar (n % 10) (by omega)]
      omega

theorem parseNat_natDigits (n : Nat) : parseNat? (natDigits n) = some n := by
  unfold parseNat?
  have : (natDigits n).isEmpty = false := by
    cases h : natDigits n with
    | nil => exact absurd h (natDigits_ne_nil n)
    | cons _ _ => rfl
  rw [this]
  exact fold_natDigits n

/-- the text of a segment inside a normalised key -/
def segText : Seg → List Char
  | .key k => k
  | .idx n => natDigits n

theorem segOf_segText {s : Seg} (h : segOk s = true) : segOf (segText s) = s := by
  cases s with
  | idx n => simp [segText, segOf, parseNat_natDigits]
  | key k =>
    simp only [segOk, keyOk] at h
    simp only [segText, segOf]
    cases k with
    | nil => simp at h
    | cons c r =>
      simp only [Bool.and_eq_true, Option.isNone_iff_eq_none] at h
      rw [h.2]

/-- no `.` inside the text of an expressible segment -/
theorem segText_nodot {s : Seg} (h : segOk s = true) : (segText s).all (· != '.') = true := by
  cases s with
  | idx n =>
    have := plain_natDigits n
    simp only [segText]
    rw [List.all_eq_true] at this ⊢
    intro c hc; have := this c hc; simp [plain] at this; simp [this.2]
  | key k =>
    simp only [segOk, keyOk] at h
    simp only [segText]
    cases k with
    | nil => simp
    | cons c r =>
      simp only [Bool.and_eq_true] at h
      have := h.1.2
      rw [List.all_eq_true] at this ⊢
      intro x hx; have := this x hx; simp [charOk] at this; simp [this.1.1]

/-- the normalised key of a path: segment texts joined by `.` -/
def dotted : Path → List Char
  | [] => []
  | [s] => segText s
  | s :: t :: r => segText s ++ '.' :: dotted (t :: r)

theorem nk_segName (s : Seg) (suffix : List Char) (h : segOk s = true) :
    normalizeKey (segName s ++ suffix) = segText s ++ normalizeKey suffix := by
  cases s with
  | idx n => exact nk_plain _ _ (plain_natDigits n)
  | key k =>
    simp only [segOk, keyOk] at h
    simp only [segName, segText]
    cases k with
    | nil => simp at h
    | cons c r =>
      simp only [Bool.and_eq_true] at h
      exact nk_escape _ _ h.1.2

/-- the name of an expressible segment does not start with `_` -/
theorem segName_head (s : Seg) (h : segOk s = true) : ∃ c r, segName s = c :: r ∧ c ≠ '_' := by
  cases s with
  | idx n =>
    have hp := plain_natDigits n
    simp only [segName]
    cases hd : natDigits n with
    | nil => exact absurd hd (natDigits_ne_nil n)
    | cons c r =>
      rw [hd] at hp
      simp [plain] at hp
      exact ⟨c, r, rfl, hp.1.1.1⟩
  | key k =>
    simp only [segOk, keyOk] at h
    simp only [segName]
    cases k with
    | nil => simp at h
    | cons c r =>
      simp only [Bool.and_eq_true, List.all_cons] at h
      have hc : c ≠ '_' := by simpa using h.1.1
      have h1 := h.1.2.1
      simp [charOk, hc] at h1
      exact ⟨c.toUpper, escapeKey r, by simp [escapeKey, hc], h1.2.1⟩

theorem envName_head (s : Seg) (r : Path) (h : segOk s = true) : ∃ c t, envName (s :: r) = c :: t ∧ c ≠ '_' := by
  obtain ⟨c, t, hc, hne⟩ := segName_head s h
  cases r with
  | nil => exact ⟨c, t, by simp [envName, hc], hne⟩
  | cons u r => exact ⟨c, t ++ '_' :: envName (u :: r), by simp [envName, hc], hne⟩

theorem nk_envName (p : Path) (h : p.all segOk = true) : normalizeKey (envName p) = dotted p := by
  induction p with
  | nil => simp [envName, dotted, normalizeKey]
  | cons s r ih =>
    simp only [List.all_cons, Bool.and_eq_true] at h
    cases r with
    | nil =>
      have := nk_segName s [] h.1
      simpa [envName, dotted, normalizeKey] using this
    | cons t r =>
      simp only [envName, dotted]
      rw [nk_segName s _ h.1]
      simp only [List.all_cons, Bool.and_eq_true] at h
      obtain ⟨c, u, hc, hne⟩ := envName_head t r h.2.1
      rw [hc, nk_u c u hne, ← hc, ih (by simp [h.2.1, h.2.2])]

theorem splitDots_nodot (s : List Char) (h : s.all (· != '.') = true) : splitDots s = [s] := by
  induction s with
  | nil => rfl
  | cons c r ih =>
    simp only [List.all_cons, Bool.and_eq_true, bne_iff_ne] at h
    simp [splitDots, h.1, ih h.2]

theorem splitDots_append (s rest : List Char) (h : s.all (· != '.') = true) :
    splitDots (s ++ '.' :: rest) = s :: splitDots rest := by
  induction s with
  | nil => simp [splitDots]
  | cons c r ih =>
    simp only [List.all_cons, Bool.and_eq_true, bne_iff_ne] at h
    simp [splitDots, h.1, ih h.2]

theorem splitDots_dotted (p : Path) (hne : p ≠ []) (h : p.all segOk = true) :
    splitDots (dotted p) = p.map segText := by
  induction p with
  | nil => exact absurd rfl hne
  | cons s r ih =>
    simp only [List.all_cons, Bool.and_eq_true] at h
    cases r with
    | nil => simp [dotted, splitDots_nodot _ (segText_nodot h.1)]
    | cons t r =>
      simp only [dotted]
      rw [splitDots_append _ _ (segText_nodot h.1), ih (by simp) h.2]
      simp

/-- the loader's reading of a variable name inverts the documented naming rule -/
theorem parseName_envName (p : Path) (h : pathOk p = true) : parseName (envName p) = p := by
  simp only [pathOk, Bool.and_eq_true, Bool.not_eq_true', List.isEmpty_eq_false_iff] at h
  unfold parseName
  rw [nk_envName p h.2, splitDots_dotted p h.1 h.2, List.map_map]
  have : ∀ q : Path, q.all segOk = true → q.map (segOf ∘ segText) = q := by
    intro q hq
    induction q with
    | nil => rfl
    | cons s r ih =>
      simp only [List.all_cons, Bool.and_eq_true] at hq
      simp [segOf_segText hq.1, ih hq.2]
  exact this p h.2

/-! ## a configuration is the tree of its leaves -/

/-- what the leaves show at a place, folded -/
def obsL (L : Leaves) (p : Path) : Kind :=
  (L.map fun l => ((single l.1 (Val.atom l.2)).get p).kind).foldl kmerge .null

theorem obs_leafTree' (L : Leaves) (h : L.consistent = true) (p : Path) :
    ((envTree (atoms L)).get p).kind = obsL L p := by
  rw [(obs_leafTree L h).2 p]
  simp [obsL, singles, atoms, List.map_map, Function.comp_def]

theorem kfold_nulls (acc : Kind) (l : List Kind) (h : ∀ x ∈ l, x = .null) : l.foldl kmerge acc = acc := by
  induction l generalizing acc with
  | nil => rfl
  | cons x l ih =>
    have := h x (by simp); subst this
    simp only [List.foldl_cons, kmerge_null_right]
    exact ih acc (fun y hy => h y (List.mem_cons_of_mem _ hy))

theorem kfold_maps (l : List Kind) (h : ∀ x ∈ l, x = .map) (hne : l ≠ []) : l.foldl kmerge .null = .map := by
  cases l with
  | nil => exact absurd rfl hne
  | cons x l =>
    have := h x (by simp); subst this
    simp only [List.foldl_cons, kmerge_null_left]
    have : ∀ (l : List Kind), (∀ x ∈ l, x = Kind.map) → l.foldl kmerge .map = .map := by
      intro l
      induction l with
      | nil => intro _; rfl
      | cons y l ih =>
        intro hl
        have := hl y (by simp); subst this
        simp only [List.foldl_cons, kmerge]
        exact ih (fun z hz => hl z (List.mem_cons_of_mem _ hz))
    exact this l (fun y hy => h y (List.mem_cons_of_mem _ hy))

theorem kfold_seqs (m n : Nat) (l : List Kind) (h : ∀ x ∈ l, x = .seq n) (hne : l ≠ []) :
    l.foldl kmerge (.seq m) = .seq (max m n) := by
  induction l generalizing m with
  | nil => exact absurd rfl hne
  | cons x l ih =>
    have := h x (by simp); subst this
    simp only [List.foldl_cons, kmerge]
    cases l with
    | nil => rfl
    | cons y l' =>
      rw [ih (max m n) (fun z hz => h z (List.mem_cons_of_mem _ hz)) (by simp)]
      congr 1; omega

theorem leaves_ne_nil_of_leafy : ∀ (v : Val), v.leafy = true → v.leaves ≠ []
  | .null, h => by simp [Val.leafy] at h
  | .atom a, _ => by simp [Val.leaves]
  | .map .nil, h => by simp [Val.leafy] at h
  | .map (.cons k v rest), h => by
    simp [Val.leafy, Fields.leafy] at h
    have := leaves_ne_nil_of_leafy v h.1
    simp [Val.leaves, Fields.leaves, this]
  | .seq .nil, h => by simp [Val.leafy] at h
  | .seq (.cons v rest), h => by
    simp [Val.leafy, Elems.leafy] at h
    have := leaves_ne_nil_of_leafy v h.1
    simp [Val.leaves, Elems.leaves, this]

theorem obsL_append (A B : Leaves) (p : Path) :
    obsL (A ++ B) p = (B.map fun l => ((single l.1 (Val.atom l.2)).get p).kind).foldl kmerge (obsL A p) := by
  simp [obsL, List.foldl_append]

theorem obsL_nil (p : Path) : obsL [] p = .null := rfl

/-- leaves under another key show nothing below key `c` -/
theorem kinds_prefix_key_ne {k c : Key} (h : k ≠ c) (L : Leaves) (p' : Path) :
    ∀ x ∈ (L.map fun l => ((Seg.key k :: l.1, l.2) : Path × String)).map
        (fun l => ((single l.1 (Val.atom l.2)).get (Seg.key c :: p')).kind), x = .null := by
  intro x hx
  simp only [List.map_map, List.mem_map, Function.comp_def] at hx
  obtain ⟨l, _, rfl⟩ := hx
  simp [single, get_map_key, Fields.lookup, h]

theorem obsL_prefix_key_eq (k : Key) (L : Leaves) (p' : Path) :
    obsL (L.map fun l => ((Seg.key k :: l.1, l.2) : Path × String)) (Seg.key k :: p') = obsL L p' := by
  simp [obsL, List.map_map, Function.comp_def, single, get_map_key, Fields.lookup]

theorem obsL_prefix_key_ne {k c : Key} (h : k ≠ c) (L : Leaves) (p' : Path) :
    obsL (L.map fun l => ((Seg.key k :: l.1, l.2) : Path × String)) (Seg.key c :: p') = .null :=
  kfold_nulls _ _ (kinds_prefix_key_ne h L p')

theorem fields_leaves_keys (fs : Fields) : ∀ l ∈ Fields.leaves fs, ∃ k q, l.1 = Seg.key k :: q ∧ k ∈ fs.keys := by
  induction fs using Fields.ind with
  | nil => simp [Fields.leaves]
  | cons k v rest ih =>
    intro l hl
    simp only [Fields.leaves, List.mem_append, List.mem_map] at hl
    rcases hl with ⟨m, _, rfl⟩ | hl
    · exact ⟨k, m.1, rfl, by simp [Fields.keys]⟩
    · obtain ⟨k', q, h1, h2⟩ := ih l hl
      exact ⟨k', q, h1, by simp [Fields.keys, h2]⟩

/-- the leaves of a map, seen below key `c`: the leaves of the value at `c` -/
theorem obsL_fields (fs : Fields) (h : hasDup fs.keys = false) (c : Key) (p' : Path) :
    obsL (Fields.leaves fs) (Seg.key c :: p') = obsL (fs.lookup c).leaves p' := by
  induction fs using Fields.ind with
  | nil => simp [Fields.leaves, Fields.lookup, Val.leaves, obsL_nil]
  | cons k v rest ih =>
    simp [Fields.keys, hasDup] at h
    rw [Fields.leaves, obsL_append]
    by_cases hk : k = c
    · subst hk
      rw [obsL_prefix_key_eq, kfold_nulls]
      · simp [Fields.lookup]
      · intro x hx
        simp only [List.mem_map] at hx
        obtain ⟨l, hl, rfl⟩ := hx
        obtain ⟨k', q, h1, h2⟩ := fields_leaves_keys rest l hl
        have : k' ≠ k := fun e => h.1 (e ▸ h2)
        rw [h1]; simp [single, get_map_key, Fields.lookup, this]
    · rw [obsL_prefix_key_ne hk]
      have := ih h.2
      simp only [obsL] at this
      rw [this]
      simp [Fields.lookup, hk, obsL]

theorem obsL_fields_idx (fs : Fields) (n : Nat) (p' : Path) : obsL (Fields.leaves fs) (Seg.idx n :: p') = .null := by
  apply kfold_nulls
  intro x hx
  simp only [List.mem_map] at hx
  obtain ⟨l, hl, rfl⟩ := hx
  obtain ⟨k', q, h1, _⟩ := fields_leaves_keys fs l hl
  rw [h1]; simp [single, get_map_idx]

theorem obsL_fields_root (fs : Fields) (hne : Fields.leaves fs ≠ []) : obsL (Fields.leaves fs) [] = .map := by
  apply kfold_maps
  · intro x hx
    simp only [List.mem_map] at hx
    obtain ⟨l, hl, rfl⟩ := hx
    obtain ⟨k', q, h1, _⟩ := fields_leaves_keys fs l hl
    rw [h1]; simp [single, Val.kind]
  · simpa using hne

theorem elems_leaves_idx (es : Elems) (i : Nat) :
    ∀ l ∈ Elems.leaves es i, ∃ j q, l.1 = Seg.idx j :: q ∧ i ≤ j ∧ j < i + es.length := by
  induction es using Elems.ind generalizing i with
  | nil => simp [Elems.leaves]
  | cons v rest ih =>
    intro l hl
    simp only [Elems.leaves, List.mem_append, List.mem_map] at hl
    rcases hl with ⟨m, _, rfl⟩ | hl
    · exact ⟨i, m.1, rfl, Nat.le_refl _, by simp [Elems.length]⟩
    · obtain ⟨j, q, h1, h2, h3⟩ := ih (i + 1) l hl
      exact ⟨j, q, h1, by omega, by simp [Elems.length]; omega⟩

theorem obsL_prefix_idx_eq (i : Nat) (L : Leaves) (p' : Path) :
    obsL (L.map fun l => ((Seg.idx i :: l.1, l.2) : Path × String)) (Seg.idx i :: p') = obsL L p' := by
  simp [obsL, List.map_map, Function.comp_def, single, get_seq_idx, getD_padded]

theorem obsL_prefix_idx_ne {i c : Nat} (h : c ≠ i) (L : Leaves) (p' : Path) :
    obsL (L.map fun l => ((Seg.idx i :: l.1, l.2) : Path × String)) (Seg.idx c :: p') = .null := by
  apply kfold_nulls
  intro x hx
  simp only [List.map_map, List.mem_map, Function.comp_def] at hx
  obtain ⟨l, _, rfl⟩ := hx
  simp [single, get_seq_idx, getD_padded, h]

/-- the leaves of a list whose first element has index `i`, seen below index `c` -/
theorem obsL_elems (es : Elems) (i c : Nat) (p' : Path) :
    obsL (Elems.leaves es i) (Seg.idx c :: p') = if i ≤ c then obsL (es.getD (c - i)).leaves p' else .null := by
  induction es using Elems.ind generalizing i with
  | nil => simp [Elems.leaves, Elems.getD, Val.leaves, obsL_nil]
  | cons v rest ih =>
    rw [Elems.leaves, obsL_append]
    by_cases hc : c = i
    · subst hc
      rw [obsL_prefix_idx_eq, kfold_nulls]
      · simp [Elems.getD]
      · intro x hx
        simp only [List.mem_map] at hx
        obtain ⟨l, hl, rfl⟩ := hx
        obtain ⟨j, q, h1, h2, _⟩ := elems_leaves_idx rest (c + 1) l hl
        have : c ≠ j := by omega
        rw [h1]; simp [single, get_seq_idx, getD_padded, this]
    · rw [obsL_prefix_idx_ne hc]
      have := ih (i + 1)
      simp only [obsL] at this
      rw [this]
      by_cases hle : i ≤ c
      · have h1 : i + 1 ≤ c := by omega
        have h2 : c - i = (c - (i + 1)) + 1 := by omega
        simp [hle, h1, h2, Elems.getD, obsL]
      · have h1 : ¬ i + 1 ≤ c := by omega
        simp [hle, h1]

theorem obsL_elems_key (es : Elems) (i : Nat) (k : Key) (p' : Path) :
    obsL (Elems.leaves es i) (Seg.key k :: p') = .null := by
  apply kfold_nulls
  intro x hx
  simp only [List.mem_map] at hx
  obtain ⟨l, hl, rfl⟩ := hx
  obtain ⟨j, q, h1, _⟩ := elems_leaves_idx es i l hl
  rw [h1]; simp [single, get_seq_key]

/-- the leaves of a list of leafy elements show the list's length at the root -/
theorem kfold_elems_root (es : Elems) (h : Elems.leafy es = true) (i m : Nat) :
    ((Elems.leaves es i).map fun l => ((single l.1 (Val.atom l.2)).get []).kind).foldl kmerge (.seq m)
      = .seq (max m (match es with | .nil => 0 | _ => i + es.length)) := by
  induction es using Elems.ind generalizing i m with
  | nil => simp [Elems.leaves]
  | cons v rest ih =>
    simp [Elems.leafy] at h
    rw [Elems.leaves, List.map_append, List.foldl_append]
    have hv := leaves_ne_nil_of_leafy v h.1
    rw [kfold_seqs m (i + 1)]
    · rw [ih h.2 (i + 1) (max m (i + 1))]
      congr 1
      cases rest with
      | nil => simp [Elems.length]
      | cons w r => simp [Elems.length]; omega
    · intro x hx
      simp only [List.map_map, List.mem_map, Function.comp_def] at hx
      obtain ⟨l, _, rfl⟩ := hx
      simp [single, Val.kind, length_padded]
    · simpa using hv

theorem obsL_elems_root (v : Val) (rest : Elems) (h : Elems.leafy (.cons v rest) = true) :
    obsL (Elems.leaves (.cons v rest) 0) [] = .seq (rest.length + 1) := by
  have hl := h
  simp [Elems.leafy] at hl
  have hv := leaves_ne_nil_of_leafy v hl.1
  -- the first leaf turns the accumulator into a `seq`, then `kfold_elems_root` applies
  cases hL : Elems.leaves (.cons v rest) 0 with
  | nil => simp [Elems.leaves, hv] at hL
  | cons l L =>
    obtain ⟨j, q, h1, _, _⟩ := elems_leaves_idx (.cons v rest) 0 l (by rw [hL]; simp)
    have key := kfold_elems_root (.cons v rest) h 0 0
    rw [hL] at key
    simp only [List.map_cons, List.foldl_cons] at key
    simp only [obsL, List.map_cons, List.foldl_cons, kmerge_null_left]
    rw [h1] at key ⊢
    cases j with
    | zero =>
      simp only [single, get_nil, Val.kind, length_padded, kmerge] at key ⊢
      simpa [Elems.length] using key
    | succ j =>
      simp only [single, get_nil, Val.kind, length_padded, kmerge] at key ⊢
      have e : max 0 (j + 1 + 1) = j + 1 + 1 := by omega
      rw [e] at key
      simpa [Elems.length] using key

theorem leafy_lookup {fs : Fields} (h : Fields.leafy fs = true) (k : Key) :
    fs.lookup k = .null ∨ (fs.lookup k).leafy = true := by
  induction fs using Fields.ind with
  | nil => left; rfl
  | cons k' v rest ih =>
    simp [Fields.leafy] at h
    by_cases hk : k' = k
    · right; simp [Fields.lookup, hk, h.1]
    · simp only [Fields.lookup, hk, if_false]; exact ih h.2

theorem leafy_getD {es : Elems} (h : Elems.leafy es = true) (n : Nat) :
    es.getD n = .null ∨ (es.getD n).leafy = true := by
  induction es using Elems.ind generalizing n with
  | nil => left; rfl
  | cons v rest ih =>
    simp [Elems.leafy] at h
    cases n with
    | zero => right; simp [Elems.getD, h.1]
    | succ n => simp only [Elems.getD]; exact ih h.2 n

/-- what the leaves of a leafy configuration show is what the configuration shows -/
theorem obsL_leaves (t : Val) (hn : t.nodup = true) (hl : t.leafy = true) (p : Path) :
    obsL t.leaves p = (t.get p).kind := by
  induction p generalizing t with
  | nil =>
    cases t with
    | null => simp [Val.leafy] at hl
    | atom a => simp [Val.leaves, obsL, single, Val.kind, kmerge]
    | map fs =>
      have := leaves_ne_nil_of_leafy _ hl
      simp only [Val.leaves] at this ⊢
      simp [obsL_fields_root fs this, Val.kind]
    | seq es =>
      cases es with
      | nil => simp [Val.leafy] at hl
      | cons v rest =>
        simp only [Val.leafy, Bool.true_and] at hl
        simp [Val.leaves, obsL_elems_root v rest hl, Val.kind, Elems.length]
  | cons seg p' ih =>
    cases t with
    | null => simp [Val.leafy] at hl
    | atom a => cases seg <;> simp [Val.leaves, obsL, single, get_atom_cons, kmerge]
    | map fs =>
      simp only [Val.nodup, Bool.and_eq_true, Bool.not_eq_true'] at hn
      simp only [Val.leafy, Bool.and_eq_true] at hl
      cases seg with
      | idx n => simp [Val.leaves, obsL_fields_idx, get_map_idx]
      | key c =>
        simp only [Val.leaves, get_map_key]
        rw [obsL_fields fs hn.1 c p']
        rcases leafy_lookup hl.2 c with h0 | h1
        · rw [h0]; simp [Val.leaves, obsL_nil]
        · exact ih _ (nodup_lookup hn.2 c) h1
    | seq es =>
      simp only [Val.nodup] at hn
      simp only [Val.leafy, Bool.and_eq_true] at hl
      cases seg with
      | key k => simp [Val.leaves, obsL_elems_key, get_seq_key]
      | idx c =>
        simp only [Val.leaves, get_seq_idx]
        rw [obsL_elems es 0 c p']
        simp only [Nat.zero_le, if_true, Nat.sub_zero]
        rcases leafy_getD hl.2 c with h0 | h1
        · rw [h0]; simp [Val.leaves, obsL_nil]
        · exact ih _ (nodup_getD hn c) h1

theorem pathCompat_cons_same (s : Seg) (p q : Path) : pathCompat (s :: p) (s :: q) = pathCompat p q := by
  cases s <;> simp [pathCompat]

mutual
/-- the leaves of a configuration with pairwise different keys are at pairwise compatible, different places -/
theorem pairwise_leaves_val : ∀ (t : Val), t.nodup = true →
    (t.leaves.map (·.1)).Pairwise (fun p q => pathCompat p q = true)
  | .null, _ => by simp [Val.leaves]
  | .atom a, _ => by simp [Val.leaves]
  | .map fs, h => by
    simp only [Val.nodup, Bool.and_eq_true, Bool.not_eq_true'] at h
    simpa [Val.leaves] using pairwise_leaves_fields fs h.1 h.2
  | .seq es, h => by
    simp only [Val.nodup] at h
    simpa [Val.leaves] using pairwise_leaves_elems es 0 h
theorem pairwise_leaves_fields : ∀ (fs : Fields), hasDup fs.keys = false → Fields.nodupVals fs = true →
    ((Fields.leaves fs).map (·.1)).Pairwise (fun p q => pathCompat p q = true)
  | .nil, _, _ => by simp [Fields.leaves]
  | .cons k v rest, hk, hv => by
    simp [Fields.keys, hasDup] at hk
    simp [Fields.nodupVals] at hv
    have h1 := pairwise_leaves_val v hv.1
    have h2 := pairwise_leaves_fields rest hk.2 hv.2
    simp only [Fields.leaves, List.map_append, List.map_map, List.pairwise_append]
    refine ⟨?_, h2, ?_⟩
    · rw [List.pairwise_map] at h1 ⊢
      exact h1.imp (fun h => by simpa [pathCompat_cons_same] using h)
    · intro a ha b hb
      simp only [List.mem_map, Function.comp_def] at ha hb
      obtain ⟨l, _, rfl⟩ := ha
      obtain ⟨m, hm, rfl⟩ := hb
      obtain ⟨k', q, e1, e2⟩ := fields_leaves_keys rest m hm
      have : k ≠ k' := fun e => hk.1 (e ▸ e2)
      rw [e1]; simp [pathCompat, this]
theorem pairwise_leaves_elems : ∀ (es : Elems) (i : Nat), Elems.nodupVals es = true →
    ((Elems.leaves es i).map (·.1)).Pairwise (fun p q => pathCompat p q = true)
  | .nil, _, _ => by simp [Elems.leaves]
  | .cons v rest, i, hv => by
    simp [Elems.nodupVals] at hv
    have h1 := pairwise_leaves_val v hv.1
    have h2 := pairwise_leaves_elems rest (i + 1) hv.2
    simp only [Elems.leaves, List.map_append, List.map_map, List.pairwise_append]
    refine ⟨?_, h2, ?_⟩
    · rw [List.pairwise_map] at h1 ⊢
      exact h1.imp (fun h => by simpa [pathCompat_cons_same] using h)
    · intro a ha b hb
      simp only [List.mem_map, Function.comp_def] at ha hb
      obtain ⟨l, _, rfl⟩ := ha
      obtain ⟨m, hm, rfl⟩ := hb
      obtain ⟨j, q, e1, e2, _⟩ := elems_leaves_idx rest (i + 1) m hm
      have : i ≠ j := by omega
      rw [e1]; simp [pathCompat, this]
end

theorem consistent_leaves (t : Val) (h : t.nodup = true) : Leaves.consistent t.leaves = true :=
  (pathsConsistent_iff _).mpr (pairwise_leaves_val t h)

/-- a leafy configuration is (observationally) the tree of its leaves -/
theorem leafTree_leaves (t : Val) (hn : t.nodup = true) (hl : t.leafy = true) : fromLeaves t.leaves ≈ t := by
  intro p
  rw [fromLeaves_eq, obs_leafTree' _ (consistent_leaves t hn), obsL_leaves t hn hl]

/-! ## the tree of two lists of leaves is the merge of their trees -/

theorem kdisj_kfold {z : Kind} (K : List Kind) : ∀ a, kdisj a z = true → (∀ x ∈ K, kdisj x z = true) →
    kdisj (K.foldl kmerge a) z = true := by
  induction K with
  | nil => intro a ha _; exact ha
  | cons x K ih =>
    intro a ha hK
    simp only [List.foldl_cons]
    exact ih _ (kdisj_kmerge_left ha (hK x (by simp))) (fun y hy => hK y (List.mem_cons_of_mem _ hy))

theorem kfold_shift (K : List Kind) : ∀ a b, kcompat a b = true →
    (∀ x ∈ K, kcompat a x = true ∧ kcompat b x = true) → K.Pairwise (fun x y => kcompat x y = true) →
    K.foldl kmerge (kmerge a b) = kmerge a (K.foldl kmerge b) := by
  induction K with
  | nil => intros; rfl
  | cons x K ih =>
    intro a b hab hK hpw
    rw [List.pairwise_cons] at hpw
    have hx := hK x (by simp)
    simp only [List.foldl_cons]
    rw [kmerge_assoc hab hx.2 hx.1]
    apply ih a (kmerge b x) (kcompat_kmerge_right hab hx.1)
    · intro y hy
      have := hK y (List.mem_cons_of_mem _ hy)
      exact ⟨this.1, kcompat_kmerge_left this.2 (hpw.1 y hy)⟩
    · exact hpw.2

/-- the tree of consistent leaves is disjoint from whatever all its leaves are disjoint from -/
theorem pdisj_leafTree (L : Leaves) (h : L.consistent = true) (c : Val)
    (hc : ∀ l ∈ L, pdisj (single l.1 (Val.atom l.2)) c) : pdisj (envTree (atoms L)) c := by
  intro p
  rw [obs_leafTree' L h]
  apply kdisj_kfold
  · simp
  · intro x hx
    simp only [List.mem_map] at hx
    obtain ⟨l, hl, rfl⟩ := hx
    exact hc l hl p

theorem consistent_append {L₁ L₂ : Leaves} (h : Leaves.consistent (L₁ ++ L₂) = true) :
    L₁.consistent = true ∧ L₂.consistent = true ∧
    ∀ a ∈ L₁, ∀ b ∈ L₂, pathCompat a.1 b.1 = true := by
  have := (pathsConsistent_iff _).mp h
  simp only [List.map_append, List.pairwise_append] at this
  refine ⟨(pathsConsistent_iff _).mpr this.1, (pathsConsistent_iff _).mpr this.2.1, ?_⟩
  intro a ha b hb
  exact this.2.2 a.1 (List.mem_map_of_mem ha) b.1 (List.mem_map_of_mem hb)

theorem pdisj_leafTrees {L₁ L₂ : Leaves} (h : Leaves.consistent (L₁ ++ L₂) = true) :
    pdisj (envTree (atoms L₁)) (envTree (atoms L₂)) := by
  obtain ⟨h1, h2, hx⟩ := consistent_append h
  apply pdisj_symm
  apply pdisj_leafTree L₂ h2
  intro b hb
  apply pdisj_symm
  apply pdisj_leafTree L₁ h1
  intro a ha
  exact pdisj_single (hx a ha b hb) _ _

theorem leafTree_append {L₁ L₂ : Leaves} (h : Leaves.consistent (L₁ ++ L₂) = true) :
    envTree (atoms (L₁ ++ L₂)) ≈ merge (envTree (atoms L₁)) (envTree (atoms L₂)) := by
  obtain ⟨h1, h2, hx⟩ := consistent_append h
  have hd := pdisj_leafTrees h
  intro p
  rw [obs_leafTree' _ h, obs_merge (obs_leafTree L₂ h2).1 (pdisj_pcompat hd), obs_leafTree' _ h1,
    obs_leafTree' _ h2, obsL_append]
  have fam := singles_family L₂ h2
  have := kfold_shift (L₂.map fun l => ((single l.1 (Val.atom l.2)).get p).kind) (obsL L₁ p) .null (by simp)
  simp only [kmerge_null_right] at this
  rw [this]
  · rfl
  · intro x hx'
    simp only [List.mem_map] at hx'
    obtain ⟨b, hb, rfl⟩ := hx'
    refine ⟨?_, by simp⟩
    rw [← obs_leafTree' _ h1]
    apply kdisj_kcompat
    apply pdisj_leafTree L₁ h1 _ _ p
    intro a ha
    exact pdisj_single (hx a ha b hb) _ _
  · have := fam.1
    simp only [singles, atoms, List.map_map, List.pairwise_map] at this ⊢
    exact this.imp (fun h => kdisj_kcompat (h p))

/-! ## the prefix of the variable names -/

theorem stripPrefix?_append (pre name : List Char) : stripPrefix? pre (pre ++ name) = some name := by
  induction pre with
  | nil => rfl
  | cons c r ih => simp [stripPrefix?, ih]

theorem selectEnv_append (cfg : List Char) (a b : ProcEnv) :
    selectEnv cfg (a ++ b) = selectEnv cfg a ++ selectEnv cfg b := by
  simp [selectEnv, List.filterMap_append]

/-- the variables named under the prefix are read back without it -/
theorem selectEnv_withPrefix (cfg : List Char) (env : Env) :
    selectEnv cfg (withPrefix (trimSpace cfg) env) = env := by
  induction env with
  | nil => rfl
  | cons e r ih =>
    have : withPrefix (trimSpace cfg) (e :: r) = (trimSpace cfg ++ e.1, e.2) :: withPrefix (trimSpace cfg) r := rfl
    rw [this]
    simp only [selectEnv, List.filterMap_cons, stripPrefix?_append, Option.map_some] at ih ⊢
    rw [ih]

/-- variables that do not carry the prefix contribute nothing -/
theorem selectEnv_filter (cfg : List Char) (penv : ProcEnv) :
    selectEnv cfg penv = selectEnv cfg (penv.filter fun e => !foreignTo cfg e) := by
  induction penv with
  | nil => rfl
  | cons e r ih =>
    cases h : stripPrefix? (trimSpace cfg) e.1 with
    | none =>
      have hf : foreignTo cfg e = true := by simp [foreignTo, h]
      simp only [List.filter_cons, hf, Bool.not_true]
      simp only [selectEnv, List.filterMap_cons, h, Option.map_none] at ih ⊢
      exact ih
    | some n =>
      have hf : foreignTo cfg e = false := by simp [foreignTo, h]
      simp only [List.filter_cons, hf, Bool.not_false]
      simp only [selectEnv, List.filterMap_cons, h, Option.map_some] at ih ⊢
      simp only [if_true]
      simp only [List.filterMap_cons, h, Option.map_some]
      rw [ih]

theorem selectEnv_perm (cfg : List Char) {a b : ProcEnv} (h : a.Perm b) :
    (selectEnv cfg a).Perm (selectEnv cfg b) := h.filterMap _

end Heimdall.Config
