import HeimdallModel.Lemmas.SignerStore
/-! Helper lemmas about key stores that list one key under several ids (C16): what `buildStore` and `load` make of
every listing, and what a published list that names each key material once loses. -/
namespace Heimdall.Signer

variable {α : Type}

/-- the entry `verifyAndBuildKeyStore` makes of one key block -/
def entryOf (e : RawEntry) : Entry := ⟨kidOf e, e.key, e.chain, e.signUsable⟩

/-- every key block becomes an entry, in file order — whether or not key material repeats -/
theorem buildStore_eq_map (raw : List RawEntry) (known : List String) (es : List Entry)
    (h : buildStore raw known = some es) : es = raw.map entryOf := by
  induction raw generalizing known es with
  | nil => simp [buildStore] at h; subst h; rfl
  | cons e rest ih =>
    simp only [buildStore] at h
    split at h
    · cases h
    · split at h
      · cases h
      · cases hr : buildStore rest (kidOf e :: known) with
        | none => simp [hr] at h
        | some es' =>
          simp [hr] at h
          subst h
          simp [ih _ _ hr, entryOf]

theorem allJwks_faces (es : List Entry) (js : List Jwk) (h : allJwks es = some js) :
    js.map Jwk.face = es.map (fun e => (e.kid, e.key.pub, e.chain)) := by
  induction es generalizing js with
  | nil => simp [allJwks] at h; subst h; rfl
  | cons e rest ih =>
    simp only [allJwks] at h
    cases hj : e.jwk with
    | none => simp [hj] at h
    | some j =>
      cases hr : allJwks rest with
      | none => simp [hj, hr] at h
      | some js' =>
        simp [hj, hr] at h
        subst h
        have hf := jwk_fields e j hj
        simp [ih _ hr, Jwk.face, hf.1, hf.2.1, hf.2.2.2.1]

/-- what a successful `load` went through -/
theorem load_parts (keyID : String) (raw : List RawEntry) (st : State) (h : load keyID raw = some st) :
    ∃ es kse, buildStore raw [] = some es ∧ selectEntry keyID es = some kse ∧ es.all Entry.supported = true ∧
      (kse.chain = [] ∨ kse.signUsable = true) ∧ allJwks es = some st.pubKeys ∧ kse.jwk = some st.jwk ∧
      st.key = kse.key := by
  unfold load at h
  cases hb : buildStore raw [] with
  | none => simp [hb] at h
  | some es =>
    simp only [hb] at h
    cases hs : selectEntry keyID es with
    | none => simp [hs] at h
    | some kse =>
      simp only [hs] at h
      split at h
      · cases h
      rename_i hsup
      split at h
      · cases h
      rename_i huse
      cases ha : allJwks es with
      | none => simp [ha] at h
      | some keys =>
        cases hj : kse.jwk with
        | none => simp [ha, hj] at h
        | some jwk =>
          simp [ha, hj] at h
          subst h
          refine ⟨es, kse, rfl, hs, by simpa using hsup, ?_, ha, hj, rfl⟩
          by_cases hc : kse.chain = []
          · exact Or.inl hc
          · right
            cases hu : kse.signUsable with
            | true => rfl
            | false => exact absurd ⟨hc, hu⟩ huse

theorem load_of_parts (keyID : String) (raw : List RawEntry) (es : List Entry) (kse : Entry) (keys : List Jwk)
    (jwk : Jwk) (hb : buildStore raw [] = some es) (hs : selectEntry keyID es = some kse)
    (hsup : es.all Entry.supported = true) (huse : kse.chain = [] ∨ kse.signUsable = true)
    (ha : allJwks es = some keys) (hj : kse.jwk = some jwk) :
    load keyID raw = some ⟨jwk, kse.key, keys⟩ := by
  unfold load
  simp only [hb, hs, hsup, ha, hj]
  have : ¬ (kse.chain ≠ [] ∧ kse.signUsable = false) := by
    rintro ⟨h1, h2⟩
    rcases huse with h | h
    · exact h1 h
    · rw [h] at h2; cases h2
  simp [this]

/-- the id of a key block is never empty: an `X-Key-ID`, a subject key identifier, or the computed one -/
theorem kidOf_ne_empty (e : RawEntry) : kidOf e ≠ "" := by
  have hauto : autoKid e.key.pub ≠ "" := by
    intro h
    have := congrArg String.length h
    simp [autoKid, String.length_append] at this
  unfold kidOf
  split
  · unfold genKid
    split
    · split
      · exact hauto
      · assumption
    · exact hauto
  · assumption

/-! ## a published list that names each key material once -/

theorem distinctKeysFrom_mem (seen : List PubKey) (js : List Jwk) (x : Jwk) (h : x ∈ distinctKeysFrom seen js) :
    x ∈ js ∧ x.pub ∉ seen := by
  induction js generalizing seen with
  | nil => simp [distinctKeysFrom] at h
  | cons j rest ih =>
    simp only [distinctKeysFrom] at h
    split at h
    · have := ih _ h
      exact ⟨List.mem_cons_of_mem _ this.1, this.2⟩
    · rename_i hj
      simp only [List.mem_cons] at h
      rcases h with rfl | h
      · exact ⟨List.mem_cons_self .., hj⟩
      · have := ih _ h
        refine ⟨List.mem_cons_of_mem _ this.1, ?_⟩
        intro hm
        exact this.2 (List.mem_cons_of_mem _ hm)

/-- what survives behind a prefix `l` has a public half that no JWK of the prefix has -/
theorem distinctKeysFrom_append (seen : List PubKey) (l r : List Jwk) (x : Jwk)
    (h : x ∈ distinctKeysFrom seen (l ++ r)) :
    x ∈ l ∨ (x ∈ r ∧ x.pub ∉ seen ∧ ∀ y ∈ l, y.pub ≠ x.pub) := by
  induction l generalizing seen with
  | nil =>
    have := distinctKeysFrom_mem seen r x (by simpa using h)
    exact Or.inr ⟨this.1, this.2, by simp⟩
  | cons y l' ih =>
    simp only [List.cons_append, distinctKeysFrom] at h
    split at h
    · rename_i hy
      rcases ih _ h with h1 | ⟨h1, h2, h3⟩
      · exact Or.inl (List.mem_cons_of_mem _ h1)
      · refine Or.inr ⟨h1, h2, ?_⟩
        intro y' hy'
        simp only [List.mem_cons] at hy'
        rcases hy' with rfl | hy'
        · intro e; exact h2 (e ▸ hy)
        · exact h3 y' hy'
    · simp only [List.mem_cons] at h
      rcases h with rfl | h
      · exact Or.inl (List.mem_cons_self ..)
      · rcases ih _ h with h1 | ⟨h1, h2, h3⟩
        · exact Or.inl (List.mem_cons_of_mem _ h1)
        · refine Or.inr ⟨h1, fun hm => h2 (List.mem_cons_of_mem _ hm), ?_⟩
          intro y' hy'
          simp only [List.mem_cons] at hy'
          rcases hy' with rfl | hy'
          · intro e; exact h2 (e ▸ List.mem_cons_self ..)
          · exact h3 y' hy'

theorem eq_of_nodup_map {β γ : Type} (f : β → γ) (l : List β) (hn : (l.map f).Nodup) (a b : β) (ha : a ∈ l)
    (hb : b ∈ l) (he : f a = f b) : a = b := by
  induction l with
  | nil => cases ha
  | cons x rest ih =>
    simp only [List.map_cons, List.nodup_cons] at hn
    simp only [List.mem_cons] at ha hb
    rcases ha with rfl | ha <;> rcases hb with rfl | hb
    · rfl
    · exact absurd (he ▸ List.mem_map_of_mem hb) hn.1
    · exact absurd (he ▸ List.mem_map_of_mem ha) hn.1
    · exact ih hn.2 ha hb

/-- the JWK `j` stands behind a JWK with the same public half: with ids unique, the each-key-once list holds no JWK
with the id of `j` -/
theorem distinctKeys_drops_later (pre post : List Jwk) (j j0 : Jwk)
    (hn : ((pre ++ j :: post).map (·.kid)).Nodup) (h0 : j0 ∈ pre) (hp : j0.pub = j.pub) :
    ∀ x ∈ distinctKeys (pre ++ j :: post), x.kid ≠ j.kid := by
  intro x hx hk
  have hxm := (distinctKeysFrom_mem [] _ x hx).1
  have hxj : x = j := eq_of_nodup_map (·.kid) _ hn x j hxm (by simp) hk
  subst hxj
  rcases distinctKeysFrom_append [] pre (x :: post) x hx with h1 | ⟨_, _, h3⟩
  · -- `x` would occur twice in a list with unique ids
    rw [List.map_append, List.nodup_append] at hn
    exact hn.2.2 x.kid (List.mem_map_of_mem h1) x.kid (by simp) rfl
  · exact h3 j0 h0 hp

end Heimdall.Signer
