import HeimdallModel.Lemmas.SignerStore
import HeimdallModel.Spec.SignerTime
/-! Helper lemmas about the signer over time (C16): loads at an instant, histories of timed reloads, publication -/
namespace Heimdall.Signer

variable {α : Type}

/-- `Keys()` does not read the clock: the list as loaded -/
theorem keysAt_eq (ci : CertInfo) (st : State) (now : Int) : keysAt ci st now = st.pubKeys := by
  simp [keysAt, keysAtK]

theorem publishedAt_eq (ci : CertInfo) (holders : List State) (now : Int) :
    publishedAt ci holders now = published holders := by
  simp [publishedAt, published, keysAt_eq]

/-- `verifyAndBuildKeyStore` refuses a file in which some key block has a chain that does not validate -/
theorem buildStore_invalid_chain (raw : List RawEntry) (known : List String) (e : RawEntry) (he : e ∈ raw)
    (hc : e.chain ≠ []) (hv : e.chainValid = false) : buildStore raw known = none := by
  induction raw generalizing known with
  | nil => cases he
  | cons x rest ih =>
    simp only [List.mem_cons] at he
    simp only [buildStore]
    rcases he with rfl | he
    · simp [hc, hv]
    · split
      · rfl
      · split
        · rfl
        · simp [ih _ he]

/-- a file with a certificate (of any key block, at any place of its chain) outside its validity period at the instant
of the load is refused — whichever key is configured -/
theorem loadAt_none_of_invalid_cert (ci : CertInfo) (keyID : String) (raw : List TimedEntry) (now : Int)
    (e : TimedEntry) (he : e ∈ raw) (c : Cert) (hc : c ∈ e.chain) (hv : c.validAt ci now = false) :
    loadAt ci keyID (some raw) now = none := by
  have hmem : e.seenAt ci now ∈ raw.map (TimedEntry.seenAt ci now) := List.mem_map_of_mem he
  have hne : (e.seenAt ci now).chain ≠ [] := by
    intro h
    have : e.chain = [] := h
    rw [this] at hc
    cases hc
  have hinv : (e.seenAt ci now).chainValid = false := by
    show e.chainValidAt ci now = false
    unfold TimedEntry.chainValidAt
    have : e.chain.all (Cert.validAt ci now) = false := by
      apply Bool.eq_false_iff.mpr
      intro hall
      have := List.all_eq_true.mp hall c hc
      rw [hv] at this
      cases this
    simp [this]
  show (some (raw.map (TimedEntry.seenAt ci now))).bind (load keyID) = none
  simp only [Option.bind_some]
  unfold load
  rw [buildStore_invalid_chain _ [] _ hmem hne hinv]

theorem reloadOn_consistent (ci : CertInfo) (keyID : String) (st : State) (ev : Int × TimedFile)
    (h : Consistent st) : Consistent (reloadOn ci keyID st ev) := reload_consistent keyID st _ h

theorem runClock_consistent (ci : CertInfo) (keyID : String) (st : State) (hist : List (Int × TimedFile))
    (h : Consistent st) : Consistent (runClock ci keyID st hist) := by
  induction hist generalizing st with
  | nil => exact h
  | cons ev rest ih => exact ih _ (reloadOn_consistent ci keyID st ev h)

theorem loadAt_consistent (ci : CertInfo) (keyID : String) (f : TimedFile) (now : Int) (st : State)
    (h : loadAt ci keyID f now = some st) : Consistent st := by
  unfold loadAt loadFile at h
  cases hf : fileAt ci now f with
  | none => simp [hf] at h
  | some raw =>
    rw [hf] at h
    exact load_consistent keyID raw st h

theorem runClock_append (ci : CertInfo) (keyID : String) (st : State) (a b : List (Int × TimedFile)) :
    runClock ci keyID st (a ++ b) = runClock ci keyID (runClock ci keyID st a) b := by
  simp [runClock, List.foldl_append]

/-- reload attempts that are all refused leave the generation in place -/
theorem runClock_refused (ci : CertInfo) (keyID : String) (st : State) (hist : List (Int × TimedFile))
    (h : ∀ ev ∈ hist, loadAt ci keyID ev.2 ev.1 = none) : runClock ci keyID st hist = st := by
  induction hist with
  | nil => rfl
  | cons ev rest ih =>
    have h1 : reloadOn ci keyID st ev = st := by
      have := h ev (List.mem_cons_self ..)
      unfold loadAt at this
      simp [reloadOn, reload, this]
    show runClock ci keyID (reloadOn ci keyID st ev) rest = st
    rw [h1]
    exact ih (fun ev' hev' => h ev' (List.mem_cons_of_mem _ hev'))

theorem keyKept_refl (st : State) (h : Consistent st) : KeyKept st st :=
  ⟨st.jwk, h.active_published, rfl, h.pair⟩

/-- a token of the generation `issuing` verifies against the list of any consistent generation that kept its key -/
theorem verifiesFirst_of_kept (issuing current : State) (hi : Consistent issuing) (hc : Consistent current)
    (hk : KeyKept issuing current) (i : SignIn) (custom : Claims α) :
    verifiesFirst current.pubKeys (sign issuing i custom) = true := by
  obtain ⟨j, hj, hkid, hpub⟩ := hk
  unfold verifiesFirst
  have hk' : (sign issuing i custom).kid = j.kid := hkid.symm
  rw [hk', find_of_nodup (·.kid) current.pubKeys j hc.kids_unique hj]
  have halg : j.alg = issuing.jwk.alg := by
    have h1 := (hc.all_sig j hj).2
    have h2 := hi.alg_of_key
    rw [hpub, h2] at h1
    exact (Option.some.inj h1).symm
  show verifiesWith j (signWith issuing.jwk issuing.key i custom) = true
  simp [verifiesWith, signWith, hkid, halg, hpub]

end Heimdall.Signer
