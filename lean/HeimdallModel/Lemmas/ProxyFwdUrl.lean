import HeimdallModel.Model.ProxyFwd
import HeimdallModel.Lemmas.UrlEscape
/-!
Helper lemmas for C15, part 1: percent-encoding (`escape`, `unescape`, `validEncoded`, `EscapedPath`), splitting and
joining.
-/
namespace Heimdall.ProxyFwd
open Heimdall

theorem hexDigit_ok : ∀ n, n < 16 →
    (isHex (hexDigit n) = true ∧ unhex (hexDigit n) = n ∧ validPathChar (hexDigit n) = true ∧
      shouldEscapePath (hexDigit n) = false) := by decide

theorem octet_pct (c : Char) (h : c.toNat < 256) :
    octet (hexDigit (c.toNat / 16)) (hexDigit (c.toNat % 16)) = c := by
  have h1 : c.toNat / 16 < 16 := by omega
  have h2 : c.toNat % 16 < 16 := by omega
  unfold octet
  rw [(hexDigit_ok _ h1).2.1, (hexDigit_ok _ h2).2.1]
  have : 16 * (c.toNat / 16) + c.toNat % 16 = c.toNat := by omega
  rw [this]
  exact Char.ofNat_toNat c

theorem shouldEscapePath_lt {c : Char} (h : shouldEscapePath c = true) : c.toNat < 256 := by
  unfold shouldEscapePath at h
  simp only [Bool.and_eq_true, decide_eq_true_eq] at h
  exact h.1

theorem not_shouldEscape_ne_percent {c : Char} (h : shouldEscapePath c = false) : c ≠ '%' := by
  intro e; subst e; revert h; decide

/-- decoding undoes encoding -/
theorem pathUnescapeL_escapePath (s : Bytes) : pathUnescapeL (escapePath s) = some s := by
  induction s with
  | nil => rfl
  | cons c t ih =>
    unfold escapePath
    by_cases h : shouldEscapePath c = true
    · simp only [h, if_true, pctEncode, List.cons_append, List.nil_append]
      have hl := shouldEscapePath_lt h
      have h1 : c.toNat / 16 < 16 := by omega
      have h2 : c.toNat % 16 < 16 := by omega
      rw [pathUnescapeL_esc _ _ (hexDigit_ok _ h1).1 (hexDigit_ok _ h2).1, ih, octet_pct c hl]
      rfl
    · have h' : shouldEscapePath c = false := by simpa using h
      simp only [h', Bool.false_eq_true, if_false]
      rw [pathUnescapeL_cons_ne (not_shouldEscape_ne_percent h'), ih]
      rfl

theorem validEncodedPath_escapePath (s : Bytes) : validEncodedPath (escapePath s) = true := by
  induction s with
  | nil => rfl
  | cons c t ih =>
    unfold escapePath
    by_cases h : shouldEscapePath c = true
    · have hl := shouldEscapePath_lt h
      have h1 : c.toNat / 16 < 16 := by omega
      have h2 : c.toNat % 16 < 16 := by omega
      simp only [h, if_true, pctEncode, List.cons_append, List.nil_append, validEncodedPath, List.all_cons]
      rw [(hexDigit_ok _ h1).2.2.1, (hexDigit_ok _ h2).2.2.1]
      have hp : validPathChar '%' = true := by decide
      simpa [validEncodedPath, hp] using ih
    · have h' : shouldEscapePath c = false := by simpa using h
      simp only [h', Bool.false_eq_true, if_false, validEncodedPath, List.all_cons]
      have : validPathChar c = true := by simp [validPathChar, h']
      rw [this]
      simpa [validEncodedPath] using ih

/-- a string in which nothing needs escaping is its own encoding -/
theorem escapePath_id (s : Bytes) (h : s.all (fun c => !shouldEscapePath c) = true) : escapePath s = s := by
  induction s with
  | nil => rfl
  | cons c t ih =>
    simp only [List.all_cons, Bool.and_eq_true, Bool.not_eq_true'] at h
    unfold escapePath
    simp only [h.1, Bool.false_eq_true, if_false]
    rw [ih (by simpa using h.2)]

/-- the characters `escapePath` emits: `%` or characters that need no escaping -/
theorem escapePath_canon (s : Bytes) : (escapePath s).all (fun c => c = '%' || !shouldEscapePath c) = true := by
  induction s with
  | nil => rfl
  | cons c t ih =>
    unfold escapePath
    by_cases h : shouldEscapePath c = true
    · have hl := shouldEscapePath_lt h
      have h1 : c.toNat / 16 < 16 := by omega
      have h2 : c.toNat % 16 < 16 := by omega
      simp only [h, if_true, pctEncode, List.cons_append, List.nil_append, List.all_cons]
      rw [(hexDigit_ok _ h1).2.2.2, (hexDigit_ok _ h2).2.2.2]
      simpa using ih
    · have h' : shouldEscapePath c = false := by simpa using h
      simp only [h', Bool.false_eq_true, if_false, List.all_cons]
      simpa using ih


/-- decoding distributes over concatenation when the left part is complete -/
theorem pathUnescapeL_append (a b a' : Bytes) (ha : pathUnescapeL a = some a') :
    pathUnescapeL (a ++ b) = (pathUnescapeL b).map (a' ++ ·) := by
  induction a using pathUnescapeL.induct generalizing a' with
  | case1 =>
    simp only [pathUnescapeL, Option.some.injEq] at ha
    subst ha
    cases hb : pathUnescapeL b <;> simp [hb]
  | case2 x y rest hh ih =>
    have hx : isHex x = true := by simp_all
    have hy : isHex y = true := by simp_all
    rw [pathUnescapeL_esc x y hx hy] at ha
    cases hr : pathUnescapeL rest with
    | none => simp [hr] at ha
    | some r =>
      simp only [hr, Option.map_some, Option.some.injEq] at ha
      subst ha
      simp only [List.cons_append]
      rw [pathUnescapeL_esc x y hx hy, ih r hr]
      cases pathUnescapeL b <;> simp
  | case3 x y rest hh =>
    simp [pathUnescapeL, hh] at ha
  | case4 t hnot =>
    unfold pathUnescapeL at ha
    simp only [if_true] at ha
    first
      | (split at ha
         · exact absurd rfl (fun h => hnot _ _ _ h)
         · simp at ha)
      | simp at ha
  | case5 c t hc ih =>
    rw [pathUnescapeL_cons_ne hc] at ha
    cases hr : pathUnescapeL t with
    | none => simp [hr] at ha
    | some r =>
      simp only [hr, Option.map_some, Option.some.injEq] at ha
      subst ha
      simp only [List.cons_append]
      rw [pathUnescapeL_cons_ne hc, ih r hr]
      cases pathUnescapeL b <;> simp


theorem pathUnescapeL_tail (c : Char) (t : Bytes) (h : (pathUnescapeL (c :: t)).isSome = true) :
    (pathUnescapeL t).isSome = true := by
  by_cases hc : c = '%'
  · subst hc
    match t, h with
    | x :: y :: rest, h =>
      by_cases hh : (isHex x && isHex y) = true
      · have hx : isHex x = true := by simp_all
        have hy : isHex y = true := by simp_all
        rw [pathUnescapeL_esc x y hx hy] at h
        rw [pathUnescapeL_cons_ne (isHex_ne_percent hx), pathUnescapeL_cons_ne (isHex_ne_percent hy)]
        cases hr : pathUnescapeL rest <;> simp_all
      · simp [pathUnescapeL, hh] at h
    | [], h => simp [pathUnescapeL] at h
    | [x], h => simp [pathUnescapeL] at h
  · rw [pathUnescapeL_cons_ne hc] at h
    cases hr : pathUnescapeL t <;> simp_all

/-- every suffix of a decodable string is decodable -/
theorem pathUnescapeL_drop (n : Nat) (s : Bytes) (h : (pathUnescapeL s).isSome = true) :
    (pathUnescapeL (s.drop n)).isSome = true := by
  induction n generalizing s with
  | zero => simpa using h
  | succ n ih =>
    cases s with
    | nil => simpa using h
    | cons c t => simpa using ih t (pathUnescapeL_tail c t h)

theorem pathUnescapeL_head_slash (t d : Bytes) (h : pathUnescapeL ('/' :: t) = some d) : d.head? = some '/' := by
  rw [pathUnescapeL_cons_ne (by decide)] at h
  cases hr : pathUnescapeL t with
  | none => simp [hr] at h
  | some r => simp [hr] at h; subst h; rfl

theorem pathUnescapeL_eq_nil (s : Bytes) (h : pathUnescapeL s = some []) : s = [] := by
  cases s with
  | nil => rfl
  | cons c t =>
    exfalso
    by_cases hc : c = '%'
    · subst hc
      match t, h with
      | x :: y :: rest, h =>
        by_cases hh : (isHex x && isHex y) = true
        · have hx : isHex x = true := by simp_all
          have hy : isHex y = true := by simp_all
          rw [pathUnescapeL_esc x y hx hy] at h
          cases hr : pathUnescapeL rest <;> simp [hr] at h
        · simp [pathUnescapeL, hh] at h
      | [], h => simp [pathUnescapeL] at h
      | [x], h => simp [pathUnescapeL] at h
    · rw [pathUnescapeL_cons_ne hc] at h
      cases hr : pathUnescapeL t <;> simp [hr] at h

theorem pathUnescapeL_none_of_short (t : Bytes) (hnot : ∀ (a b : Char) (rest : List Char), t = a :: b :: rest → False) :
    pathUnescapeL ('%' :: t) = none := by
  match t, hnot with
  | [], _ => rfl
  | [_], _ => rfl
  | a :: b :: rest, hnot => exact absurd rfl (fun h => hnot a b rest h)

/-- decoding never lengthens; it shortens as soon as there is an escape -/
theorem pathUnescapeL_length (s d : Bytes) (h : pathUnescapeL s = some d) :
    d.length ≤ s.length ∧ ('%' ∈ s → d.length < s.length) := by
  induction s using pathUnescapeL.induct generalizing d with
  | case1 => simp [pathUnescapeL] at h; subst h; simp
  | case2 x y rest hh ih =>
    have hx : isHex x = true := by simp_all
    have hy : isHex y = true := by simp_all
    rw [pathUnescapeL_esc x y hx hy] at h
    cases hr : pathUnescapeL rest with
    | none => simp [hr] at h
    | some r =>
      simp only [hr, Option.map_some, Option.some.injEq] at h
      subst h
      have := (ih r hr).1
      simp only [List.length_cons]
      exact ⟨by omega, fun _ => by omega⟩
  | case3 x y rest hh => simp [pathUnescapeL, hh] at h
  | case4 t hnot => rw [pathUnescapeL_none_of_short t hnot] at h; simp at h
  | case5 c t hc ih =>
    rw [pathUnescapeL_cons_ne hc] at h
    cases hr : pathUnescapeL t with
    | none => simp [hr] at h
    | some r =>
      simp only [hr, Option.map_some, Option.some.injEq] at h
      subst h
      have := ih r hr
      simp only [List.length_cons]
      refine ⟨by omega, fun hm => ?_⟩
      have hm' : '%' ∈ t := by
        rcases List.mem_cons.mp hm with e | e
        · exact absurd e.symm hc
        · exact e
      have := this.2 hm'
      omega

/-- a string that decodes to itself contains no escape -/
theorem pathUnescapeL_self_no_percent (s : Bytes) (h : pathUnescapeL s = some s) : '%' ∉ s := by
  intro hm
  have := (pathUnescapeL_length s s h).2 hm
  omega


/-! ### `escapeInvalid`: the received spelling with only the forbidden octets encoded -/

theorem invalid_shouldEscape {c : Char} (h : validPathChar c = false) : shouldEscapePath c = true := by
  unfold validPathChar at h
  simp only [Bool.or_eq_false_iff, Bool.not_eq_false'] at h
  exact h.2

theorem validPathChar_percent : validPathChar '%' = true := by decide

theorem isHex_valid : ∀ c : Char, isHex c = true → validPathChar c = true := by
  intro c h
  have hne : shouldEscapePath c = false := by
    unfold isHex at h
    unfold shouldEscapePath isAlnum
    simp only [Bool.or_eq_true, Bool.and_eq_true, decide_eq_true_eq] at h
    rcases h with (h | h) | h
    · simp [h.1, h.2]
    · have h1 : 'a' ≤ c := h.1
      have h2 : c ≤ 'z' := Char.le_trans h.2 (by decide)
      simp [h1, h2]
    · have h1 : 'A' ≤ c := h.1
      have h2 : c ≤ 'Z' := Char.le_trans h.2 (by decide)
      simp [h1, h2]
  simp [validPathChar, hne]

theorem escapeInvalid_valid (p : Bytes) : validEncodedPath (escapeInvalid p) = true := by
  induction p with
  | nil => rfl
  | cons c t ih =>
    unfold escapeInvalid
    by_cases h : validPathChar c = true
    · simp only [h, if_true, validEncodedPath, List.all_cons, Bool.true_and]
      simpa [validEncodedPath] using ih
    · have h' : validPathChar c = false := by simpa using h
      have hl := shouldEscapePath_lt (invalid_shouldEscape h')
      have h1 : c.toNat / 16 < 16 := by omega
      have h2 : c.toNat % 16 < 16 := by omega
      simp only [h', Bool.false_eq_true, if_false, pctEncode, List.cons_append, List.nil_append, validEncodedPath,
        List.all_cons]
      rw [(hexDigit_ok _ h1).2.2.1, (hexDigit_ok _ h2).2.2.1, validPathChar_percent]
      simpa [validEncodedPath] using ih

theorem escapeInvalid_id (p : Bytes) (h : validEncodedPath p = true) : escapeInvalid p = p := by
  induction p with
  | nil => rfl
  | cons c t ih =>
    simp only [validEncodedPath, List.all_cons, Bool.and_eq_true] at h
    unfold escapeInvalid
    simp only [h.1, if_true]
    rw [ih (by simpa [validEncodedPath] using h.2)]

theorem escapeInvalid_eq_nil (p : Bytes) (h : escapeInvalid p = []) : p = [] := by
  cases p with
  | nil => rfl
  | cons c t =>
    unfold escapeInvalid at h
    split at h <;> simp [pctEncode] at h

/-- every escape of the client decodes as before, every encoded octet decodes to itself -/
theorem escapeInvalid_decodes (p d : Bytes) (h : pathUnescapeL p = some d) :
    pathUnescapeL (escapeInvalid p) = some d := by
  induction p using pathUnescapeL.induct generalizing d with
  | case1 => simpa [escapeInvalid] using h
  | case2 x y rest hh ih =>
    have hx : isHex x = true := by simp_all
    have hy : isHex y = true := by simp_all
    rw [pathUnescapeL_esc x y hx hy] at h
    cases hr : pathUnescapeL rest with
    | none => simp [hr] at h
    | some r =>
      simp only [hr, Option.map_some, Option.some.injEq] at h
      subst h
      have e : escapeInvalid ('%' :: x :: y :: rest) = '%' :: x :: y :: escapeInvalid rest := by
        simp [escapeInvalid, validPathChar_percent, isHex_valid x hx, isHex_valid y hy]
      rw [e, pathUnescapeL_esc x y hx hy, ih r hr]
      rfl
  | case3 x y rest hh => simp [pathUnescapeL, hh] at h
  | case4 t hnot => rw [pathUnescapeL_none_of_short t hnot] at h; simp at h
  | case5 c t hc ih =>
    rw [pathUnescapeL_cons_ne hc] at h
    cases hr : pathUnescapeL t with
    | none => simp [hr] at h
    | some r =>
      simp only [hr, Option.map_some, Option.some.injEq] at h
      subst h
      unfold escapeInvalid
      by_cases hv : validPathChar c = true
      · simp only [hv, if_true]
        rw [pathUnescapeL_cons_ne hc, ih r hr]; rfl
      · have hv' : validPathChar c = false := by simpa using hv
        have hl := shouldEscapePath_lt (invalid_shouldEscape hv')
        have h1 : c.toNat / 16 < 16 := by omega
        have h2 : c.toNat % 16 < 16 := by omega
        simp only [hv', Bool.false_eq_true, if_false, pctEncode, List.cons_append, List.nil_append]
        rw [pathUnescapeL_esc _ _ (hexDigit_ok _ h1).1 (hexDigit_ok _ h2).1, ih r hr, octet_pct c hl]
        rfl

/-- the two characters an encoded slash consists of, at the head of a string -/
def encSlashAt : Bytes → Bool
  | a :: b :: _ => a = '2' && (b = 'F' || b = 'f')
  | _ => false

theorem containsEncodedSlashL_cons (c : Char) (t : Bytes) :
    containsEncodedSlashL (c :: t) = ((c = '%' && encSlashAt t) || containsEncodedSlashL t) := by
  conv => lhs; unfold containsEncodedSlashL
  cases t with
  | nil => rfl
  | cons a t' => cases t' <;> rfl

theorem encSlashAt_escapeInvalid (t : Bytes) : encSlashAt (escapeInvalid t) = encSlashAt t := by
  have hv2 : validPathChar '2' = true := by decide
  have hvF : validPathChar 'F' = true := by decide
  have hvf : validPathChar 'f' = true := by decide
  match t with
  | [] => rfl
  | [a] =>
    unfold escapeInvalid
    by_cases ha : validPathChar a = true
    · simp [ha, escapeInvalid, encSlashAt]
    · have ha' : validPathChar a = false := by simpa using ha
      simp [ha', escapeInvalid, encSlashAt, pctEncode]
  | a :: b :: r =>
    by_cases ha : validPathChar a = true
    · by_cases hb : validPathChar b = true
      · simp [escapeInvalid, ha, hb, encSlashAt]
      · have hb' : validPathChar b = false := by simpa using hb
        have : b ≠ 'F' ∧ b ≠ 'f' := ⟨fun e => by rw [e, hvF] at hb'; exact Bool.noConfusion hb',
          fun e => by rw [e, hvf] at hb'; exact Bool.noConfusion hb'⟩
        simp [escapeInvalid, ha, hb', encSlashAt, pctEncode, this.1, this.2]
    · have ha' : validPathChar a = false := by simpa using ha
      have : a ≠ '2' := fun e => by rw [e, hv2] at ha'; exact Bool.noConfusion ha'
      simp [escapeInvalid, ha', encSlashAt, pctEncode, this]

/-- encoding the forbidden octets neither creates nor removes an encoded slash -/
theorem containsEncodedSlashL_escapeInvalid (p : Bytes) :
    containsEncodedSlashL (escapeInvalid p) = containsEncodedSlashL p := by
  induction p with
  | nil => rfl
  | cons c t ih =>
    rw [containsEncodedSlashL_cons c t]
    by_cases hv : validPathChar c = true
    · have e : escapeInvalid (c :: t) = c :: escapeInvalid t := by simp [escapeInvalid, hv]
      rw [e, containsEncodedSlashL_cons, encSlashAt_escapeInvalid, ih]
    · have hv' : validPathChar c = false := by simpa using hv
      have hc : c ≠ '%' := fun e => by rw [e, validPathChar_percent] at hv'; exact Bool.noConfusion hv'
      have hl := shouldEscapePath_lt (invalid_shouldEscape hv')
      have h1 : c.toNat / 16 < 16 := by omega
      have h2 : c.toNat % 16 < 16 := by omega
      have e : escapeInvalid (c :: t) = '%' :: hexDigit (c.toNat / 16) :: hexDigit (c.toNat % 16) :: escapeInvalid t := by
        simp [escapeInvalid, hv', pctEncode]
      have hs : encSlashAt (hexDigit (c.toNat / 16) :: hexDigit (c.toNat % 16) :: escapeInvalid t) = false := by
        -- `%2F` would be the encoding of `/`, which is allowed in a path
        unfold encSlashAt
        by_cases e1 : hexDigit (c.toNat / 16) = '2'
        · by_cases e2 : hexDigit (c.toNat % 16) = 'F'
          · exfalso
            have := octet_pct c hl
            rw [e1, e2] at this
            have hsl : c = '/' := by rw [← this]; decide
            rw [hsl] at hv'
            revert hv'; decide
          · by_cases e3 : hexDigit (c.toNat % 16) = 'f'
            · exfalso
              have := octet_pct c hl
              rw [e1, e3] at this
              have hsl : c = '/' := by rw [← this]; decide
              rw [hsl] at hv'
              revert hv'; decide
            · simp [e2, e3]
        · simp [e1]
      rw [e, containsEncodedSlashL_cons, hs]
      rw [containsEncodedSlashL_cons_ne (isHex_ne_percent (hexDigit_ok _ h1).1),
        containsEncodedSlashL_cons_ne (isHex_ne_percent (hexDigit_ok _ h2).1), ih]
      simp [hc]

end Heimdall.ProxyFwd
