import HeimdallModel.Lemmas.RepoAdd
/-!
Removal of a rule set from the index: if `removeRules` succeeds, exactly the routes of that rule set are gone.
-/
namespace Heimdall

/-- `removeRules`, with the two nested loops flattened into one list of (rule id, path expression) targets -/
def removeFlat (src : String) (t : Table RVal) (seen : List (String × String)) :
    List (String × String) → Option (Table RVal × List (String × String))
  | [] => some (t, seen)
  | (rid, p) :: rest =>
    if seen.contains (rid, p) then removeFlat src t seen rest
    else
      match del t p (fun v => v.rid == rid && v.src == src) with
      | some t' => removeFlat src t' ((rid, p) :: seen) rest
      | none => none

def ruleTargets (r : Rule) : List (String × String) := r.cfg.routes.map (fun rt => (r.cfg.id, rt.1))

def targets (rs : List Rule) : List (String × String) := rs.flatMap ruleTargets

theorem removeRoutes_eq (src : String) (t : Table RVal) (r : Rule) (hr : r.src = src)
    (seen : List (String × String)) (routes : List (String × RouteM)) :
    removeRoutes t r seen routes = removeFlat src t seen (routes.map (fun rt => (r.cfg.id, rt.1))) := by
  induction routes generalizing t seen with
  | nil => rfl
  | cons rt rest ih =>
    obtain ⟨p, m⟩ := rt
    simp only [removeRoutes, List.map_cons, removeFlat, hr]
    by_cases hs : seen.contains (r.cfg.id, p)
    · simp only [hs, if_true]; exact ih t seen
    · simp only [hs]
      cases del t p (fun v => v.rid == r.cfg.id && v.src == src) with
      | none => rfl
      | some t' => exact ih t' _

theorem removeFlat_append (src : String) (t : Table RVal) (seen : List (String × String))
    (a b : List (String × String)) :
    removeFlat src t seen (a ++ b) = (removeFlat src t seen a).bind (fun ts => removeFlat src ts.1 ts.2 b) := by
  induction a generalizing t seen with
  | nil => simp [removeFlat]
  | cons x xs ih =>
    obtain ⟨rid, p⟩ := x
    simp only [List.cons_append, removeFlat]
    by_cases hs : seen.contains (rid, p)
    · simp only [hs, if_true]; exact ih t seen
    · simp only [hs]
      cases del t p (fun v => v.rid == rid && v.src == src) with
      | none => rfl
      | some t' => exact ih t' _

theorem removeRules_eq (src : String) (t : Table RVal) (seen : List (String × String)) (rs : List Rule)
    (hrs : ∀ r ∈ rs, r.src = src) :
    removeRules t seen rs = (removeFlat src t seen (targets rs)).map (·.1) := by
  induction rs generalizing t seen with
  | nil => rfl
  | cons r rest ih =>
    simp only [removeRules, targets, List.flatMap_cons]
    rw [removeRoutes_eq src t r (hrs r (by simp)), removeFlat_append]
    unfold ruleTargets
    cases removeFlat src t seen (r.cfg.routes.map (fun rt => (r.cfg.id, rt.1))) with
    | none => rfl
    | some ts =>
      obtain ⟨t', seen'⟩ := ts
      simp only [Option.bind_some]
      exact ih t' seen' (fun r' hr' => hrs r' (by simp [hr']))

/-- the (rule id, expression) pairs already deleted -/
def donePairs (seen : List (String × String)) : List (String × List PTok) :=
  seen.map (fun x => (x.1, parseDel x.2))

/-- the value has been deleted: it belongs to the rule set and its (rule id, expression) pair is done -/
def gone (src : String) (P : List (String × List PTok)) (pat : List PTok) (v : RVal) : Bool :=
  v.src == src && P.contains (v.rid, pat)

theorem gone_cons_same (src : String) (P : List (String × List PTok)) (pat : List PTok) (rid : String) (v : RVal) :
    (!gone src ((rid, pat) :: P) pat v) = (!gone src P pat v && !(v.rid == rid && v.src == src)) := by
  unfold gone
  rw [List.contains_cons]
  have : ((v.rid, pat) == (rid, pat)) = (v.rid == rid) := by
    rw [Bool.eq_iff_iff]; simp
  rw [this]
  cases (v.src == src) <;> cases (v.rid == rid) <;> cases (P.contains (v.rid, pat)) <;> rfl

theorem gone_cons_other (src : String) (P : List (String × List PTok)) (pat q : List PTok) (rid : String) (v : RVal)
    (h : q ≠ pat) :
    gone src ((rid, pat) :: P) q v = gone src P q v := by
  unfold gone
  rw [List.contains_cons]
  have : ((v.rid, q) == (rid, pat)) = false := by
    rw [Bool.eq_false_iff]; simp [h]
  rw [this]; simp

/-- what is left of a node of the original index once the pairs `P` have been deleted -/
def prune (src : String) (P : List (String × List PTok)) (n : Node RVal) : Option (Node RVal) :=
  let vs := n.values.filter (fun v => !gone src P n.pat v)
  if vs.isEmpty then none else some { n with values := vs }

theorem prune_nil (src : String) (n : Node RVal) (hne : n.values ≠ []) : prune src [] n = some n := by
  unfold prune gone
  have : n.values.filter (fun v => !(v.src == src && ([] : List (String × List PTok)).contains (v.rid, n.pat))) = n.values := by
    rw [List.filter_eq_self]; intro a _; simp
  simp only [this]
  have : n.values.isEmpty = false := by
    cases hv : n.values with
    | nil => exact absurd hv hne
    | cons a b => rfl
  simp [this]

structure LoopInv (src : String) (t₀ t : Table RVal) (seen : List (String × String)) : Prop where
  nodup : NodupPats t
  nodes : ∀ p, getNode t p = (getNode t₀ p).bind (prune src (donePairs seen))

theorem filter_filter_and {α} (l : List α) (f g : α → Bool) :
    (l.filter f).filter g = l.filter (fun x => f x && g x) := by
  induction l with
  | nil => rfl
  | cons a l ih => by_cases hf : f a <;> by_cases hg : g a <;> simp [hf, hg, ih]

theorem loopInv_step (src : String) (t₀ t t' : Table RVal) (seen : List (String × String))
    (rid p : String) (h : LoopInv src t₀ t seen)
    (hd : del t p (fun v => v.rid == rid && v.src == src) = some t') :
    LoopInv src t₀ t' ((rid, p) :: seen) := by
  unfold del at hd
  refine ⟨nodup_delPat _ _ _ _ h.nodup hd, ?_⟩
  intro q
  rw [delPat_getNode t t' (parseDel p) _ h.nodup hd q]
  have hdp : donePairs ((rid, p) :: seen) = (rid, parseDel p) :: donePairs seen := rfl
  by_cases hq : q = parseDel p
  · subst hq
    simp only [if_true]
    rw [h.nodes]
    cases hg : getNode t₀ (parseDel p) with
    | none => rfl
    | some n₀ =>
      have hpat : n₀.pat = parseDel p := getNode_some_pat hg
      simp only [Option.bind_some, prune, hdp]
      have hfilt : n₀.values.filter (fun v => !gone src ((rid, parseDel p) :: donePairs seen) n₀.pat v) =
          (n₀.values.filter (fun v => !gone src (donePairs seen) n₀.pat v)).filter
            (fun v => !(v.rid == rid && v.src == src)) := by
        rw [filter_filter_and]
        apply List.filter_congr
        intro a _
        rw [hpat]; exact gone_cons_same src _ _ rid a
      rw [hfilt]
      by_cases he : (n₀.values.filter (fun v => !gone src (donePairs seen) n₀.pat v)).isEmpty
      · rw [List.isEmpty_iff] at he
        simp [he]
      · simp only [he, Bool.false_eq_true, if_false, Option.bind_some]
  · simp only [hq, if_false]
    rw [h.nodes]
    cases hg : getNode t₀ q with
    | none => rfl
    | some n₀ =>
      have hpat : n₀.pat = q := getNode_some_pat hg
      simp only [Option.bind_some, prune, hdp]
      have hfilt : n₀.values.filter (fun v => !gone src ((rid, parseDel p) :: donePairs seen) n₀.pat v) =
          n₀.values.filter (fun v => !gone src (donePairs seen) n₀.pat v) := by
        apply List.filter_congr
        intro a _
        rw [hpat, gone_cons_other src _ _ _ rid a hq]
      rw [hfilt]

/-- the loop as a whole: the invariant is kept, and every target ends up in `seen` -/
theorem loopInv_removeFlat (src : String) (t₀ t t' : Table RVal) (seen seen' : List (String × String))
    (tg : List (String × String)) (h : LoopInv src t₀ t seen)
    (hr : removeFlat src t seen tg = some (t', seen')) :
    LoopInv src t₀ t' seen' ∧ (∀ x ∈ seen, x ∈ seen') ∧ (∀ x ∈ tg, x ∈ seen') := by
  induction tg generalizing t seen with
  | nil =>
    simp only [removeFlat, Option.some.injEq, Prod.mk.injEq] at hr
    obtain ⟨rfl, rfl⟩ := hr
    exact ⟨h, fun _ hx => hx, by simp⟩
  | cons x rest ih =>
    obtain ⟨rid, p⟩ := x
    simp only [removeFlat] at hr
    by_cases hs : seen.contains (rid, p)
    · simp only [hs, if_true] at hr
      obtain ⟨h1, h2, h3⟩ := ih t seen h hr
      refine ⟨h1, h2, ?_⟩
      intro y hy
      rcases List.mem_cons.mp hy with rfl | hy
      · exact h2 _ (by simpa using hs)
      · exact h3 y hy
    · simp only [hs] at hr
      cases hd : del t p (fun v => v.rid == rid && v.src == src) with
      | none => simp [hd] at hr
      | some t1 =>
        simp only [hd] at hr
        obtain ⟨h1, h2, h3⟩ := ih t1 _ (loopInv_step src t₀ t t1 seen rid p h hd) hr
        refine ⟨h1, fun y hy => h2 y (by simp [hy]), ?_⟩
        intro y hy
        rcases List.mem_cons.mp hy with rfl | hy
        · exact h2 _ (by simp)
        · exact h3 y hy

end Heimdall

namespace Heimdall

theorem parseDelToks_of_parseToks (toks : List Tok) (pat : List PTok) (keys : List String)
    (h : parseToks toks = .ok (pat, keys)) : parseDelToks toks = pat := by
  induction toks generalizing pat keys with
  | nil =>
    simp only [parseToks, Except.ok.injEq, Prod.mk.injEq] at h
    simp [parseDelToks, h.1]
  | cons tok rest ih =>
    cases tok with
    | sep =>
      simp only [parseToks] at h
      cases hr : parseToks rest with
      | error e => simp [hr, bind, Except.bind] at h
      | ok pk =>
        obtain ⟨ps, ks⟩ := pk
        simp only [hr, bind, Except.bind, pure, Except.pure, Except.ok.injEq, Prod.mk.injEq] at h
        simp [parseDelToks, ih ps ks hr, ← h.1]
    | seg s =>
      simp only [parseToks] at h
      simp only [parseDelToks]
      cases hc : classifySeg s with
      | mk k name =>
        cases k with
        | catchAll =>
          simp only [hc] at h
          by_cases he : rest.isEmpty
          · simp only [he, if_true, Except.ok.injEq, Prod.mk.injEq] at h
            simp [← h.1]
          · simp [he] at h
        | lit x =>
          simp only [hc] at h
          cases hr : parseToks rest with
          | error e => simp [hr, bind, Except.bind] at h
          | ok pk =>
            obtain ⟨ps, ks⟩ := pk
            simp only [hr, bind, Except.bind, pure, Except.pure, Except.ok.injEq, Prod.mk.injEq] at h
            simp [ih ps ks hr, ← h.1]
        | wild =>
          simp only [hc] at h
          cases hr : parseToks rest with
          | error e => simp [hr, bind, Except.bind] at h
          | ok pk =>
            obtain ⟨ps, ks⟩ := pk
            simp only [hr, bind, Except.bind, pure, Except.pure, Except.ok.injEq, Prod.mk.injEq] at h
            simp [ih ps ks hr, ← h.1]

theorem parseDel_of_parsePat (e : String) (pat : List PTok) (keys : List String)
    (h : parsePat e = .ok (pat, keys)) : parseDel e = pat :=
  parseDelToks_of_parseToks _ _ _ h

theorem mkItem_some {r : Rule} {rt : String × RouteM} {j : Item} (h : mkItem r rt = some j) :
    j.pat = parseDel rt.1 ∧ j.val.rid = r.cfg.id ∧ j.val.src = r.src := by
  unfold mkItem at h
  cases hp : parsePat rt.1 with
  | error e => simp [hp] at h
  | ok pk =>
    obtain ⟨pat, keys⟩ := pk
    simp only [hp, Option.some.injEq] at h
    subst h
    exact ⟨(parseDel_of_parsePat _ _ _ hp).symm, rfl, rfl⟩

/-- every registered route stems from a route of a known rule -/
theorem item_origin {known : List Rule} {items : List Item} (hk : allItems known = items.map some)
    {j : Item} (hj : j ∈ items) : ∃ r ∈ known, ∃ rt ∈ r.cfg.routes, mkItem r rt = some j := by
  have : some j ∈ allItems known := by rw [hk]; exact List.mem_map.mpr ⟨j, hj, rfl⟩
  unfold allItems ruleItems at this
  rw [List.mem_flatMap] at this
  obtain ⟨r, hr, hm⟩ := this
  rw [List.mem_map] at hm
  obtain ⟨rt, hrt, he⟩ := hm
  exact ⟨r, hr, rt, hrt, he⟩

theorem allItems_filter {known : List Rule} {items : List Item} (hk : allItems known = items.map some)
    (f : String → Bool) :
    allItems (known.filter (fun r => f r.src)) = (items.filter (fun i => f i.val.src)).map some := by
  induction known generalizing items with
  | nil =>
    simp only [allItems, List.flatMap_nil] at hk
    have : items = [] := by cases items <;> simp_all
    subst this; rfl
  | cons r rs ih =>
    simp only [allItems, List.flatMap_cons] at hk
    -- split `items` along the routes of `r`
    have hsplit : ∃ is₁ is₂, items = is₁ ++ is₂ ∧ ruleItems r = is₁.map some ∧ allItems rs = is₂.map some := by
      have := List.append_eq_map_iff.mp hk
      obtain ⟨l₁, l₂, h1, h2, h3⟩ := this
      exact ⟨l₁, l₂, h1, h2.symm, h3.symm⟩
    obtain ⟨is₁, is₂, rfl, h1, h2⟩ := hsplit
    have hsrc : ∀ i ∈ is₁, i.val.src = r.src := by
      intro i hi
      have : some i ∈ ruleItems r := by rw [h1]; exact List.mem_map.mpr ⟨i, hi, rfl⟩
      unfold ruleItems at this
      rw [List.mem_map] at this
      obtain ⟨rt, _, he⟩ := this
      exact (mkItem_some he).2.2
    rw [List.filter_cons, List.filter_append, List.map_append]
    by_cases hf : f r.src
    · simp only [hf, if_true, allItems, List.flatMap_cons]
      have : is₁.filter (fun i => f i.val.src) = is₁ := by
        rw [List.filter_eq_self]; intro a ha; rw [hsrc a ha]; exact hf
      rw [this, h1]
      congr 1
      exact ih h2
    · simp only [hf]
      have : is₁.filter (fun i => f i.val.src) = [] := by
        rw [List.filter_eq_nil_iff]; intro a ha; rw [hsrc a ha]; exact hf
      rw [this]
      simpa using ih h2

/-- **Removal.** If `removeRules` for the known rules of `src` succeeds, the resulting index holds exactly the routes
of the other rule sets. -/
theorem holds_removeRules (src : String) (t₀ t' : Table RVal) (known : List Rule) (items : List Item)
    (hk : allItems known = items.map some) (hh : Holds t₀ items) (hnd : NodupPats t₀) (hc : Compatible items)
    (hr : removeRules t₀ [] (known.filter (·.src == src)) = some t') :
    Holds t' (items.filter (fun i => i.val.src != src)) ∧ NodupPats t' := by
  have hsrcs : ∀ r ∈ known.filter (·.src == src), r.src = src := by
    intro r hr'; simpa using (List.mem_filter.mp hr').2
  rw [removeRules_eq src t₀ [] _ hsrcs] at hr
  cases hf : removeFlat src t₀ [] (targets (known.filter (·.src == src))) with
  | none => simp [hf] at hr
  | some ts =>
    obtain ⟨t1, seen'⟩ := ts
    simp only [hf, Option.map_some, Option.some.injEq] at hr
    subst hr
    -- the invariant holds initially
    have hvals : ∀ p n, getNode t₀ p = some n → n.values ≠ [] := by
      intro p n hn
      rw [hh p, expected_eq] at hn
      cases hfl : items.filter (fun i => i.pat = p) with
      | nil => simp [hfl] at hn
      | cons i rest =>
        simp only [hfl, Option.some.injEq] at hn
        subst hn; simp
    have h0 : LoopInv src t₀ t₀ [] := by
      refine ⟨hnd, ?_⟩
      intro p
      cases hg : getNode t₀ p with
      | none => rfl
      | some n => simp only [Option.bind_some, donePairs, List.map_nil]; rw [prune_nil src n (hvals p n hg)]
    obtain ⟨hinv, _, hall⟩ := loopInv_removeFlat src t₀ t₀ t1 [] seen' _ h0 hf
    refine ⟨?_, hinv.nodup⟩
    intro p
    rw [hinv.nodes p, hh p, expected_eq, expected_eq]
    rw [List.filter_filter]
    cases hfl : items.filter (fun i => i.pat = p) with
    | nil =>
      have : items.filter (fun a => decide (a.pat = p) && (a.val.src != src)) = [] := by
        rw [List.filter_eq_nil_iff]
        intro a ha
        have : a ∉ items.filter (fun i => i.pat = p) := by rw [hfl]; simp
        rw [List.mem_filter] at this
        simp only [not_and] at this
        have := this ha
        simp_all
      simp [this]
    | cons i rest =>
      have hmem : ∀ j, j ∈ i :: rest → j ∈ items ∧ j.pat = p := by
        intro j hj
        rw [← hfl, List.mem_filter] at hj
        exact ⟨hj.1, by simpa using hj.2⟩
      have hsame : ∀ j ∈ i :: rest, j.val.src = i.val.src := by
        intro j hj
        have h1 := hmem j hj
        have h2 := hmem i (by simp)
        exact (hc j h1.1 i h2.1 (h1.2.trans h2.2.symm)).2
      have hff : items.filter (fun a => decide (a.pat = p) && (a.val.src != src)) =
          (i :: rest).filter (fun a => a.val.src != src) := by
        rw [← hfl, List.filter_filter]
        apply List.filter_congr
        intro a _
        cases decide (a.pat = p) <;> cases (a.val.src != src) <;> rfl
      rw [hff]
      simp only [Option.bind_some, prune]
      by_cases hs : i.val.src = src
      · -- the node belongs to the removed rule set: every value is gone
        have hgone : ∀ j ∈ i :: rest, gone src (donePairs seen') p j.val = true := by
          intro j hj
          obtain ⟨r, hr, rt, hrt, hmk⟩ := item_origin hk (hmem j hj).1
          obtain ⟨hp1, hp2, hp3⟩ := mkItem_some hmk
          have hjsrc : j.val.src = src := (hsame j hj).trans hs
          have hrsrc : r.src = src := hp3.symm.trans hjsrc
          have htg : (r.cfg.id, rt.1) ∈ targets (known.filter (·.src == src)) := by
            unfold targets ruleTargets
            rw [List.mem_flatMap]
            exact ⟨r, List.mem_filter.mpr ⟨hr, by simp [hrsrc]⟩, List.mem_map.mpr ⟨rt, hrt, rfl⟩⟩
          have hseen := hall _ htg
          unfold gone
          simp only [hjsrc, beq_self_eq_true, Bool.true_and, List.contains_eq_mem, decide_eq_true_eq]
          unfold donePairs
          rw [List.mem_map]
          exact ⟨(r.cfg.id, rt.1), hseen, by simp [hp2, ← hp1, (hmem j hj).2]⟩
        have h1 : ((i :: rest).map (·.val)).filter (fun v => !gone src (donePairs seen') p v) = [] := by
          rw [List.filter_eq_nil_iff]
          intro v hv
          rw [List.mem_map] at hv
          obtain ⟨j, hj, rfl⟩ := hv
          simp [hgone j hj]
        have h2 : (i :: rest).filter (fun a => a.val.src != src) = [] := by
          rw [List.filter_eq_nil_iff]
          intro j hj
          simp [(hsame j hj).trans hs]
        simp only [h1, h2, List.isEmpty_nil, if_true]
      · -- the node belongs to another rule set: nothing is gone
        have h1 : ((i :: rest).map (·.val)).filter (fun v => !gone src (donePairs seen') p v) = (i :: rest).map (·.val) := by
          rw [List.filter_eq_self]
          intro v hv
          rw [List.mem_map] at hv
          obtain ⟨j, hj, rfl⟩ := hv
          have : ¬ j.val.src = src := fun e => hs ((hsame j hj).symm.trans e)
          simp [gone, this]
        have h2 : (i :: rest).filter (fun a => a.val.src != src) = i :: rest := by
          rw [List.filter_eq_self]
          intro j hj
          have : ¬ j.val.src = src := fun e => hs ((hsame j hj).symm.trans e)
          simp [this]
        rw [h1, h2]
        simp

end Heimdall
