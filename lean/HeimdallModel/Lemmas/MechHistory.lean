import HeimdallModel.Lemmas.Mech
import HeimdallModel.Lemmas.MechTypes
/-!
# Histories of creations on one mechanism factory (C17): every answer is the answer of the request alone
-/
namespace Heimdall.Mech

/-- `σ` is `σ₀` with more objects: every object of `σ₀` is there under its handle, unchanged -/
structure Extends (σ₀ σ : Store Entries Override) : Prop where
  closed : Closed σ
  insts : ∀ (k : Nat) (i : Inst), σ₀.insts[k]? = some i → σ.insts[k]? = some i
  views : ∀ (k : Nat) (i : Inst), σ₀.insts[k]? = some i → σ.view k = σ₀.view k

theorem Extends.refl {σ : Store Entries Override} (h : Closed σ) : Extends σ σ :=
  ⟨h, fun _ _ hi => hi, fun _ _ _ => rfl⟩

theorem withConfig_insts {V Ov : Type} (D : Desc V Ov) (σ σ' : Store V Ov) (p h : Nat) (ov : Ov)
    (hw : withConfig D σ p ov = some (σ', h)) :
    ∀ (k : Nat) (i : Inst), σ.insts[k]? = some i → σ'.insts[k]? = some i := by
  unfold withConfig at hw
  cases hi : σ.insts[p]? with
  | none => rw [hi] at hw; cases hw
  | some inst =>
    rw [hi] at hw
    simp only [Option.some.injEq, Prod.mk.injEq] at hw
    rcases hw with ⟨hσ, _⟩
    subst hσ
    intro k i hk
    exact insts_ext hk

theorem create_variant_withConfig (σ σ' : Store Entries Override) (p : Option Nat) (ov : Option Override) (h : Nat)
    (hc : create σ p ov = .variant σ' h) :
    ∃ p' o, decision σ p ov = .build p' o ∧ withConfig heimdall σ p' o = some (σ', h) := by
  unfold create at hc
  cases hd : decision σ p ov with
  | notFound => rw [hd] at hc; cases hc
  | configError => rw [hd] at hc; cases hc
  | proto h' => rw [hd] at hc; cases hc
  | build p' o =>
    rw [hd] at hc
    simp only at hc
    refine ⟨p', o, rfl, ?_⟩
    split at hc
    · rename_i hw; cases hc; exact hw
    · cases hc

/-- a creation leaves every object that exists where it is and as it is -/
theorem create_extends (σ₀ σ σ' : Store Entries Override) (p : Option Nat) (ov : Option Override) (h : Nat)
    (he : Extends σ₀ σ) (hc : create σ p ov = .variant σ' h) : Extends σ₀ σ' := by
  obtain ⟨p', o, _, hw⟩ := create_variant_withConfig σ σ' p ov h hc
  obtain ⟨_, _, _, _, hold, hcl'⟩ := withConfig_view heimdall σ σ' p' h o he.closed hw
  refine ⟨hcl', ?_, ?_⟩
  · intro k i hk
    exact withConfig_insts heimdall σ σ' p' h o hw k i (he.insts k i hk)
  · intro k i hk
    rw [hold k i (he.insts k i hk)]
    exact he.views k i hk

theorem create_keeps_effective (σ σ' : Store Entries Override) (p : Option Nat) (ov : Option Override) (h : Nat)
    (hcl : Closed σ) (hc : create σ p ov = .variant σ' h) :
    Closed σ' ∧ (∀ (k : Nat) (i : Inst), σ.insts[k]? = some i → σ'.insts[k]? = some i ∧ effective σ' k = effective σ k) := by
  obtain ⟨p', o, _, hw⟩ := create_variant_withConfig σ σ' p ov h hc
  obtain ⟨_, _, _, _, hold, hcl'⟩ := withConfig_view heimdall σ σ' p' h o hcl hw
  refine ⟨hcl', fun k i hk => ⟨withConfig_insts heimdall σ σ' p' h o hw k i hk, ?_⟩⟩
  simp [effective, hold k i hk]

/-- the handle of a new variant is the next free one, and it exists afterwards -/
theorem create_variant_handle (σ σ' : Store Entries Override) (p : Option Nat) (ov : Option Override) (h : Nat)
    (hcl : Closed σ) (hc : create σ p ov = .variant σ' h) : ∃ i, σ'.insts[h]? = some i := by
  obtain ⟨p', o, _, hw⟩ := create_variant_withConfig σ σ' p ov h hc
  obtain ⟨_, _, _, hv, _, _⟩ := withConfig_view heimdall σ σ' p' h o hcl hw
  cases hi : σ'.insts[h]? with
  | none => simp [Store.view, hi] at hv
  | some i => exact ⟨i, rfl⟩

/-- the prototype the factory hands out is the catalogue entry itself -/
theorem create_proto_handle (σ : Store Entries Override) (p h : Nat) (ov : Option Override)
    (hc : create σ (some p) ov = .proto h) : h = p := by
  unfold create at hc
  cases hd : decision σ (some p) ov with
  | notFound => rw [hd] at hc; cases hc
  | configError => rw [hd] at hc; cases hc
  | build p' o => rw [hd] at hc; simp only at hc; split at hc <;> cases hc
  | proto h' =>
    rw [hd] at hc
    cases hc
    unfold decision at hd
    cases ov with
    | none => cases hd; rfl
    | some o =>
      simp only at hd
      split at hd
      · cases hd
      · split at hd
        · cases hd; rfl
        · split at hd
          · cases hd; rfl
          · cases hd
        · split at hd
          · cases hd; rfl
          · split at hd <;> cases hd
        · split at hd <;> cases hd

/-- … and `build` names it -/
theorem decision_build_handle (σ : Store Entries Override) (p p' : Nat) (ov : Option Override) (o : Override)
    (hd : decision σ (some p) ov = .build p' o) : p' = p ∧ ov = some o := by
  unfold decision at hd
  cases ov with
  | none => cases hd
  | some o' =>
    simp only at hd
    split at hd
    · cases hd
    · split at hd
      · cases hd
      · split at hd <;> cases hd
      · split at hd
        · cases hd
        · split at hd
          · cases hd
          · cases hd; exact ⟨rfl, rfl⟩
      · split at hd
        · cases hd
        · cases hd; exact ⟨rfl, rfl⟩

/-- the rest of a history changes nothing about the objects that exist -/
theorem createSeq_keeps (rest : List CreateReq) : ∀ (σ : Store Entries Override), Closed σ →
    ∀ (k : Nat) (i : Inst), σ.insts[k]? = some i → effective (createSeq σ rest).1 k = effective σ k := by
  induction rest with
  | nil => intro σ _ k i _; rfl
  | cons r rest ih =>
    intro σ hcl k i hk
    unfold createSeq
    cases hc : create σ r.1 r.2 with
    | notFound => simp only; exact ih σ hcl k i hk
    | configError => simp only; exact ih σ hcl k i hk
    | proto h => simp only; exact ih σ hcl k i hk
    | variant σ' h =>
      simp only
      obtain ⟨hcl', hkeep⟩ := create_keeps_effective σ σ' r.1 r.2 h hcl hc
      rw [ih σ' hcl' k i (hkeep k i hk).1, (hkeep k i hk).2]

/-- what the factory decides for a catalogue entry depends on the entry only, not on what else the store holds -/
theorem decision_extends (σ₀ σ : Store Entries Override) (he : Extends σ₀ σ) (q : Nat) (i : Inst)
    (hq : σ₀.insts[q]? = some i) (ov : Option Override) : decision σ (some q) ov = decision σ₀ (some q) ov := by
  unfold decision
  simp only [hq, he.insts q i hq]

/-- the view a variant is built from is the catalogue entry's -/
theorem create_extends_observed (σ₀ σ : Store Entries Override) (he : Extends σ₀ σ) (hcl₀ : Closed σ₀) (q : Nat) (i : Inst)
    (hq : σ₀.insts[q]? = some i) (ov : Option Override) :
    (match create σ (some q) ov with
     | .notFound => Observed.notFound
     | .configError => .configError
     | .proto h => .shows true (effective σ h)
     | .variant σ' h => .shows false (effective σ' h)) = createAlone σ₀ (some q, ov) := by
  unfold createAlone create
  simp only
  rw [decision_extends σ₀ σ he q i hq ov]
  cases hd : decision σ₀ (some q) ov with
  | notFound => rfl
  | configError => rfl
  | proto h =>
    simp only
    -- the prototype handed out is the catalogue entry itself
    have hh : h = q := create_proto_handle σ₀ q h ov (by unfold create; rw [hd])
    subst hh
    simp [effective, he.views h i hq]
  | build p' o =>
    simp only
    -- `build` always names the catalogue entry
    have hp' : p' = q := (decision_build_handle σ₀ q p' ov o hd).1
    subst hp'
    cases hw₀ : withConfig heimdall σ₀ p' o with
    | none =>
      exfalso
      unfold withConfig at hw₀
      rw [hq] at hw₀
      cases hw₀
    | some r₀ =>
      obtain ⟨σ₀', h₀⟩ := r₀
      cases hw : withConfig heimdall σ p' o with
      | none =>
        exfalso
        unfold withConfig at hw
        rw [he.insts p' i hq] at hw
        cases hw
      | some r =>
        obtain ⟨σ', h⟩ := r
        simp only
        obtain ⟨inst₀, hi₀, _, hv₀, _, _⟩ := withConfig_view heimdall σ₀ σ₀' p' h₀ o hcl₀ hw₀
        obtain ⟨inst, hi, _, hv, _, _⟩ := withConfig_view heimdall σ σ' p' h o he.closed hw
        rw [hq] at hi₀
        rw [he.insts p' i hq] at hi
        cases hi₀
        cases hi
        have hvw := he.views p' i hq
        simp only [Store.view, hq, he.insts p' i hq, Option.map_some, Option.some.injEq] at hvw
        simp [effective, hv, hv₀, hvw]

/-- **every answer of a history is the answer of the request alone** -/
theorem createSeq_kth (pre : List CreateReq) : ∀ (σ₀ σ : Store Entries Override), Extends σ₀ σ → Closed σ₀ →
    ∀ (post : List CreateReq) (p : Option Nat) (ov : Option Override),
    (∀ q, p = some q → ∃ i : Inst, σ₀.insts[q]? = some i) →
    ((createSeq σ (pre ++ (p, ov) :: post)).2[pre.length]?).map (Handed.observed (createSeq σ (pre ++ (p, ov) :: post)).1) =
      some (createAlone σ₀ (p, ov)) := by
  induction pre with
  | nil =>
    intro σ₀ σ he hcl₀ post p ov hp
    simp only [List.nil_append, List.length_nil]
    cases p with
    | none =>
      -- an id the catalogue does not know
      have h1 : create σ none ov = .notFound := by simp [create, decision]
      have h2 : createAlone σ₀ (none, ov) = .notFound := by simp [createAlone, create, decision]
      unfold createSeq
      simp only [h1, h2, List.getElem?_cons_zero, Option.map_some, Handed.observed]
    | some q =>
      obtain ⟨i, hq⟩ := hp q rfl
      have hobs := create_extends_observed σ₀ σ he hcl₀ q i hq ov
      unfold createSeq
      cases hc : create σ (some q) ov with
      | notFound => rw [hc] at hobs; simp only [List.getElem?_cons_zero, Option.map_some, Handed.observed]; rw [← hobs]
      | configError => rw [hc] at hobs; simp only [List.getElem?_cons_zero, Option.map_some, Handed.observed]; rw [← hobs]
      | proto h =>
        rw [hc] at hobs
        simp only [List.getElem?_cons_zero, Option.map_some, Handed.observed]
        rw [← hobs]
        -- the prototype is an object of σ: the rest of the history keeps it
        have hh : ∃ j, σ.insts[h]? = some j := by
          have := create_proto_handle σ q h ov hc
          subst this
          exact ⟨i, he.insts h i hq⟩
        obtain ⟨j, hj⟩ := hh
        rw [createSeq_keeps post σ he.closed h j hj]
      | variant σ' h =>
        rw [hc] at hobs
        simp only [List.getElem?_cons_zero, Option.map_some, Handed.observed]
        rw [← hobs]
        obtain ⟨hcl', _⟩ := create_keeps_effective σ σ' (some q) ov h he.closed hc
        obtain ⟨j, hj⟩ := create_variant_handle σ σ' (some q) ov h he.closed hc
        rw [createSeq_keeps post σ' hcl' h j hj]
  | cons r pre ih =>
    intro σ₀ σ he hcl₀ post p ov hp
    simp only [List.cons_append, List.length_cons]
    unfold createSeq
    cases hc : create σ r.1 r.2 with
    | notFound => simp only [List.getElem?_cons_succ]; exact ih σ₀ σ he hcl₀ post p ov hp
    | configError => simp only [List.getElem?_cons_succ]; exact ih σ₀ σ he hcl₀ post p ov hp
    | proto h => simp only [List.getElem?_cons_succ]; exact ih σ₀ σ he hcl₀ post p ov hp
    | variant σ' h =>
      simp only [List.getElem?_cons_succ]
      exact ih σ₀ σ' (create_extends σ₀ σ σ' r.1 r.2 h he hc) hcl₀ post p ov hp

end Heimdall.Mech
