import HeimdallModel.Lemmas.Jwt
/-!
# C05 — the assertions read the registered claims and nothing else (lemmas)

`authenticate` on a token with payload `kvs` factors into a *gate* (configuration, header, endpoints, key selection,
algorithm agreement, signature, decoding and validation of the registered claims) and the creation of the subject.
The gate looks at the payload only through `lookup n kvs` for the names `n` of `Spec.registered`; so do the readers
of the specification.  Two payloads that say the same under the registered names therefore pass or fail the gate
together — whatever else they carry (`azp`, `client_id`, `audience`, `Aud`, `scopes`, `expires_at`, …).
-/
namespace Heimdall.Jwt

/-- the token with another payload object; header, serialisation and signature oracle are kept -/
def Token.withPayload (t : Token) (kvs : List (String × Val)) : Token := { t with payload := some (.obj kvs) }

/-- two payloads say the same under every registered name -/
def AgreeOnRegistered (kvs kvs' : List (String × Val)) : Prop :=
  ∀ n ∈ Spec.registered, lookup n kvs = lookup n kvs'

theorem AgreeOnRegistered.symm {kvs kvs' : List (String × Val)} (h : AgreeOnRegistered kvs kvs') :
    AgreeOnRegistered kvs' kvs := fun n hn => (h n hn).symm

/-- a member under a name that is not registered changes nothing of what the registered names say, wherever it is
put in front of -/
theorem agree_cons {n : String} (v : Val) (kvs : List (String × Val)) (hn : n ∉ Spec.registered) :
    AgreeOnRegistered ((n, v) :: kvs) kvs := by
  intro k hk
  have : n ≠ k := fun e => hn (e ▸ hk)
  simp [lookup, this]

/-- removing the first member of a name is the same as never having carried it: the other names are not affected -/
theorem lookup_filter_ne (k n : String) (h : k ≠ n) (kvs : List (String × Val)) :
    lookup k (kvs.filter fun kv => kv.1 ≠ n) = lookup k kvs := by
  induction kvs with
  | nil => rfl
  | cons kv r ih =>
    obtain ⟨k', v⟩ := kv
    by_cases hk : k' = n
    · subst hk
      have hne : ¬ k' = k := fun e => h e.symm
      simp only [List.filter, ne_eq, not_true_eq_false, decide_false, lookup, hne, ↓reduceIte]
      exact ih
    · by_cases hk' : k' = k
      · subst hk'
        simp only [List.filter, ne_eq, hk, not_false_eq_true, decide_true, lookup, ↓reduceIte]
      · simp only [List.filter, ne_eq, hk, not_false_eq_true, decide_true, lookup, hk', ↓reduceIte]
        exact ih

/-- dropping every member of an unregistered name changes nothing of what the registered names say -/
theorem agree_filter {n : String} (kvs : List (String × Val)) (hn : n ∉ Spec.registered) :
    AgreeOnRegistered (kvs.filter fun kv => kv.1 ≠ n) kvs := by
  intro k hk
  exact lookup_filter_ne k n (fun e => hn (e ▸ hk)) kvs

section congr
variable {kvs kvs' : List (String × Val)}

theorem decodeClaims_congr (h : AgreeOnRegistered kvs kvs') : decodeClaims kvs = decodeClaims kvs' := by
  have h1 := h "iss" (by decide)
  have h2 := h "sub" (by decide)
  have h3 := h "aud" (by decide)
  have h4 := h "scp" (by decide)
  have h5 := h "scope" (by decide)
  have h6 := h "exp" (by decide)
  have h7 := h "nbf" (by decide)
  have h8 := h "iat" (by decide)
  have h9 := h "jti" (by decide)
  simp only [decodeClaims, strClaim, listClaim, dateClaim, h1, h2, h3, h4, h5, h6, h7, h8, h9]

theorem endpointOf_congr (cfg : Config) (h : AgreeOnRegistered kvs kvs') : endpointOf cfg kvs = endpointOf cfg kvs' := by
  simp only [endpointOf, h "iss" (by decide)]

theorem verifyWithKey_congr (a : Expectation) (tok : Token) (nowMs : Int) (k : Key) (h : AgreeOnRegistered kvs kvs') :
    verifyWithKey a tok kvs nowMs k = verifyWithKey a tok kvs' nowMs k := by
  simp only [verifyWithKey, decodeClaims_congr h]

theorem verify_congr (a : Expectation) (v : Bool) (ks : List Key) (tok : Token) (nowMs : Int)
    (h : AgreeOnRegistered kvs kvs') : verify a v ks tok kvs nowMs = verify a v ks tok kvs' nowMs := by
  simp only [verify, verifyNoKid, verifyWithKey_congr a tok nowMs _ h]

end congr

/-- verification never looks at the payload the token record carries: the claims are handed over separately -/
theorem verify_withPayload (a : Expectation) (v : Bool) (ks : List Key) (t : Token) (p kvs : List (String × Val))
    (nowMs : Int) : verify a v ks (t.withPayload p) kvs nowMs = verify a v ks t kvs nowMs := by
  rfl

/-- everything `authenticate` decides before it looks for a subject: `.error o` = the request ends with `o` -/
def gate (cfg : Config) (rule : Option Expectation) (w : World) (t : Token) (kvs : List (String × Val))
    (nowMs : Int) : Except Outcome Unit :=
  if !cfg.ok then .error .noAuthenticator
  else if !(Gen.supported.contains t.alg && t.canonical) then .error (.rejected .malformed)
  else
    match resolveMetadata cfg w with
    | .error why => .error (.rejected why)
    | .ok md =>
      match w.jwks (endpointOf cfg kvs) with
      | none => .error (.rejected .keySet)
      | some ks =>
        match verify (effective cfg rule md.issuer) cfg.validateJwk ks t kvs nowMs with
        | .error why => .error (.rejected why)
        | .ok () => .ok ()

/-- `authenticate` = the gate, then the subject of the payload -/
theorem authenticate_withPayload (cfg : Config) (rule : Option Expectation) (w : World) (t : Token)
    (kvs : List (String × Val)) (nowMs : Int) :
    authenticate cfg rule w (.token (t.withPayload kvs)) nowMs =
      match gate cfg rule w t kvs nowMs with
      | .error o => o
      | .ok () => subject cfg.subject (.obj kvs) := by
  unfold authenticate gate
  by_cases h1 : cfg.ok = true
  · by_cases h2 : (Gen.supported.contains t.alg && t.canonical) = true
    · have h2' : (Gen.supported.contains (t.withPayload kvs).alg && (t.withPayload kvs).canonical) = true := h2
      have hp : (t.withPayload kvs).payload = some (.obj kvs) := rfl
      simp only [h1, h2, h2', hp, Val.members, Bool.not_true, Bool.false_eq_true, ↓reduceIte]
      cases resolveMetadata cfg w with
      | error why => rfl
      | ok md =>
        simp only []
        cases w.jwks (endpointOf cfg kvs) with
        | none => rfl
        | some ks =>
          simp only [verify_withPayload]
          cases verify (effective cfg rule md.issuer) cfg.validateJwk ks t kvs nowMs with
          | error why => rfl
          | ok u => cases u; rfl
    · have h2'' : (Gen.supported.contains t.alg && t.canonical) = false := by simpa using h2
      have h2' : (Gen.supported.contains (t.withPayload kvs).alg && (t.withPayload kvs).canonical) = false := h2''
      simp only [h1, h2', h2'', Bool.not_true, Bool.not_false, Bool.false_eq_true, ↓reduceIte]
  · simp [h1]

/-- the gate ends a request with a refusal (or because there is no authenticator), never with a subject -/
theorem gate_error (cfg : Config) (rule : Option Expectation) (w : World) (t : Token) (kvs : List (String × Val))
    (nowMs : Int) (o : Outcome) (h : gate cfg rule w t kvs nowMs = .error o) :
    o = .noAuthenticator ∨ ∃ why, o = .rejected why := by
  unfold gate at h
  split at h
  · cases h; exact Or.inl rfl
  · split at h
    · cases h; exact Or.inr ⟨_, rfl⟩
    · split at h
      · cases h; exact Or.inr ⟨_, rfl⟩
      · split at h
        · cases h; exact Or.inr ⟨_, rfl⟩
        · split at h
          · cases h; exact Or.inr ⟨_, rfl⟩
          · cases h

/-- the gate reads the payload under the registered names only -/
theorem gate_congr (cfg : Config) (rule : Option Expectation) (w : World) (t : Token) (nowMs : Int)
    {kvs kvs' : List (String × Val)} (h : AgreeOnRegistered kvs kvs') :
    gate cfg rule w t kvs nowMs = gate cfg rule w t kvs' nowMs := by
  simp only [gate, endpointOf_congr cfg h, verify_congr _ _ _ t nowMs h]

/-- `CreateSubject` refuses for two reasons only -/
theorem subject_rejected_why (sc : SubjectConf) (pl : Val) (why : Why) (h : subject sc pl = .rejected why) :
    why = .subjectId ∨ why = .attributes := by
  unfold subject at h
  split at h
  · cases h; exact Or.inl rfl
  · split at h
    · cases h
    · split at h
      · cases h; exact Or.inl rfl
      · split at h
        · cases h
        · cases h; exact Or.inr rfl

/-! ## The readers of the specification -/

theorem spec_readers_congr {kvs kvs' : List (String × Val)} (h : AgreeOnRegistered kvs kvs') :
    Spec.wellTyped kvs = Spec.wellTyped kvs' ∧ Spec.issuer kvs = Spec.issuer kvs' ∧
    Spec.audiences kvs = Spec.audiences kvs' ∧ Spec.granted kvs = Spec.granted kvs' ∧
    Spec.date "nbf" kvs = Spec.date "nbf" kvs' ∧ Spec.date "exp" kvs = Spec.date "exp" kvs' ∧
    Spec.date "iat" kvs = Spec.date "iat" kvs' := by
  have h1 := h "iss" (by decide)
  have h2 := h "sub" (by decide)
  have h3 := h "aud" (by decide)
  have h4 := h "scp" (by decide)
  have h5 := h "scope" (by decide)
  have h6 := h "exp" (by decide)
  have h7 := h "nbf" (by decide)
  have h8 := h "iat" (by decide)
  have h9 := h "jti" (by decide)
  simp only [Spec.wellTyped, Spec.issuer, Spec.audiences, Spec.granted, Spec.date, member_eq_lookup,
    h1, h2, h3, h4, h5, h6, h7, h8, h9, and_self]

theorem entitled_congr (a : Expectation) (v : Bool) (ks : List Key) (tok : Token) (nowMs : Int) (k : Key)
    {kvs kvs' : List (String × Val)} (h : AgreeOnRegistered kvs kvs')
    (e : Entitled a v ks tok kvs nowMs k) : Entitled a v ks tok kvs' nowMs k := by
  obtain ⟨hw, hi, ha, hg, hn, hx, ht⟩ := spec_readers_congr h
  exact { fromKeySet := e.fromKeySet, designated := e.designated, certificate := e.certificate,
          algAgrees := e.algAgrees, algAllowed := e.algAllowed, signed := e.signed,
          wellTyped := hw ▸ e.wellTyped, issuerTrusted := hi ▸ e.issuerTrusted, audienceOk := ha ▸ e.audienceOk,
          scopesOk := hg ▸ e.scopesOk, notBefore := hn ▸ e.notBefore, notExpired := hx ▸ e.notExpired,
          issued := ht ▸ e.issued }

end Heimdall.Jwt
