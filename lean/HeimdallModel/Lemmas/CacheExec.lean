import HeimdallModel.Spec.CacheReuse
import HeimdallModel.Lemmas.CacheKey
/-!
# Lemmas about caching mechanisms: the store invariant behind transparency, survival of a live entry
-/
namespace Heimdall.CacheExec
open Heimdall.CacheKey

variable {Req Resp : Type}

/-- every entry was produced by a fresh evaluation of a request with that key, and accepted under that request's rule -/
def Inv (m : Mech Req Resp) (rs : List Req) (st : Store Resp) : Prop :=
  ∀ k e, st k = some e → ∃ r₀ ∈ rs, m.key r₀ = k ∧ m.fresh r₀ = some e.val ∧ m.accept r₀ e.val = true

theorem inv_empty (m : Mech Req Resp) (rs : List Req) : Inv m rs Store.empty := by
  intro k e h
  simp [Store.empty] at h

theorem get_some {st : Store Resp} {k : Bytes} {now : Nat} {v : Resp} (h : st.get k now = some v) :
    ∃ e, st k = some e ∧ e.val = v ∧ now < e.exp := by
  unfold Store.get at h
  split at h
  · rename_i e he
    split at h
    · rename_i hlt
      exact ⟨e, he, by simpa using h, hlt⟩
    · simp at h
  · simp at h

theorem step_sound (m : Mech Req Resp) (hl : Lossless m) (rs : List Req) (hs : KeySoundOn m rs) (st : Store Resp)
    (hi : Inv m rs st)
    (t : Nat) (r : Req) (hr : r ∈ rs) :
    (step m st t r).out = direct m r ∧ Inv m rs (step m st t r).store := by
  unfold step
  split
  · rename_i v hget
    have hen : m.enabled r = true := by
      by_cases he : m.enabled r = true
      · exact he
      · simp [he] at hget
    simp only [hen, if_true] at hget
    obtain ⟨e, hk, hv, _⟩ := get_some hget
    obtain ⟨r₀, hr₀, hkey, hfresh, hacc⟩ := hi _ e hk
    obtain ⟨hf, hp⟩ := hs r hr r₀ hr₀ hkey.symm
    rw [hv] at hfresh hacc
    simp only [hl v]
    have hd : direct m r = if m.accept r v then .ok v else .rejected := by simp [direct, hf, hfresh]
    by_cases hre : m.recheck = true
    · by_cases ha : m.accept r v = true
      · simp [hre, ha, hd, hi]
      · simp [hre, ha, hd, hi]
    · have ha : m.accept r v = true := by
        rcases hp with hp | hp
        · exact absurd hp hre
        · rw [hp v]; exact hacc
      simp [hre, ha, hd, hi]
  · cases hf : m.fresh r with
    | none => simp [direct, hf, hi]
    | some v =>
      by_cases ha : m.accept r v = true
      · simp only [ha, if_true, direct, hf, true_and]
        by_cases hc : (m.enabled r && decide (m.ttl r v > 0)) = true
        · simp only [hc, if_true]
          intro k e hke
          unfold Store.set at hke
          by_cases hkk : k = m.key r
          · simp only [hkk, if_true, Option.some.injEq] at hke
            exact ⟨r, hr, hkk.symm, by rw [← hke]; exact hf, by rw [← hke]; exact ha⟩
          · simp only [hkk, if_false] at hke
            exact hi k e hke
        · simp only [hc]
          exact hi
      · simp [ha, direct, hf, hi]

/-- with a sound key every request of every history observes its own uncached decision -/
theorem run_sound (m : Mech Req Resp) (hl : Lossless m) (rs : List Req) (hs : KeySoundOn m rs) :
    ∀ (h : List (Nat × Req)) (st : Store Resp), Inv m rs st → (∀ tr ∈ h, tr.2 ∈ rs) →
      (run m st h).map (·.out) = h.map fun tr => direct m tr.2
  | [], _, _, _ => rfl
  | (t, r) :: h, st, hi, hm => by
    obtain ⟨ho, hi'⟩ := step_sound m hl rs hs st hi t r (hm (t, r) (by simp))
    simp only [run, List.map_cons, ho]
    rw [run_sound m hl rs hs h _ hi' (fun tr htr => hm tr (by simp [htr]))]

/-! ## a live entry answers every request mapped to its key -/

theorem step_keeps (m : Mech Req Resp) (st : Store Resp) (k : Bytes) (e : Entry Resp) (hk : st k = some e)
    (t : Nat) (ht : t < e.exp) (r : Req) :
    (step m st t r).store k = some e ∧
      (m.key r = k → m.enabled r = true → (step m st t r).calls = 0 ∧ (step m st t r).hit = true) := by
  by_cases hkey : m.key r = k
  · by_cases hen : m.enabled r = true
    · have hg : st.get (m.key r) t = some e.val := by simp [Store.get, hkey, hk, ht]
      unfold step
      simp only [hen, if_true, hg]
      by_cases hc : (m.recheck && !m.accept r (m.recode e.val)) = true
      · simp [hc, hk]
      · simp [hc, hk]
    · unfold step
      simp only [hen]
      cases m.fresh r with
      | none => simp [hk]
      | some v => by_cases ha : m.accept r v = true <;> simp [ha, hk]
  · refine ⟨?_, fun h => absurd h hkey⟩
    unfold step
    split
    · split <;> exact hk
    · cases m.fresh r with
      | none => exact hk
      | some v =>
        by_cases ha : m.accept r v = true
        · simp only [ha, if_true]
          split
          · simp [Store.set, Ne.symm hkey, hk]
          · exact hk
        · simp [ha, hk]

theorem run_keeps (m : Mech Req Resp) (k : Bytes) (e : Entry Resp) :
    ∀ (h : List (Nat × Req)) (st : Store Resp), st k = some e → (∀ tr ∈ h, tr.1 < e.exp) →
      ∀ x ∈ (run m st h).zip h, m.key x.2.2 = k → m.enabled x.2.2 = true → x.1.calls = 0 ∧ x.1.hit = true
  | [], _, _, _ => by simp [run]
  | (t, r) :: h, st, hk, ht => by
    obtain ⟨hk', hz⟩ := step_keeps m st k e hk t (ht (t, r) (by simp)) r
    intro x hx
    simp only [run, List.zip_cons_cons, List.mem_cons] at hx
    rcases hx with rfl | hx
    · exact hz
    · exact run_keeps m k e h _ hk' (fun tr htr => ht tr (by simp [htr])) x hx

theorem step_stores (m : Mech Req Resp) (st : Store Resp) (t : Nat) (r : Req) (v : Resp)
    (hmiss : (step m st t r).hit = false) (hok : (step m st t r).out = .ok v)
    (hen : m.enabled r = true) (httl : m.ttl r v > 0) :
    (step m st t r).store (m.key r) = some ⟨v, t + m.ttl r v⟩ := by
  unfold step at hmiss hok ⊢
  cases hg : (if m.enabled r = true then st.get (m.key r) t else none) with
  | some w =>
    simp only [hg] at hmiss
    split at hmiss <;> simp at hmiss
  | none =>
    simp only [hg] at hok ⊢
    cases hf : m.fresh r with
    | none => simp [hf] at hok
    | some w =>
      simp only [hf] at hok ⊢
      by_cases ha : m.accept r w = true
      · simp only [ha, if_true, Outcome.ok.injEq] at hok ⊢
        subst hok
        simp [hen, httl, Store.set]
      · simp [ha] at hok

/-! ## mechanisms keyed by a field list -/

theorem keyed_sound {Resp : Type} (H : Bytes → Bytes) (fs : List Field) (deps : List Dep)
    (remote : List View → Option Resp) (accepts : Nat → Resp → Bool) (recheck : Bool) (rs : List KReq)
    (hd : delimited fs = true) (hc : covers deps fs = true) (hw : ∀ r ∈ rs, wt fs r.env = true)
    (hH : NoCollisionOn H (rs.map fun r => encode fs r.env))
    (hp : recheck = true ∨ ∀ p p' v, accepts p v = accepts p' v) :
    KeySoundOn (keyed H fs deps remote accepts recheck) rs := by
  intro r hr r' hr' hk
  have he : encode fs r.env = encode fs r'.env :=
    hH _ (List.mem_map.mpr ⟨r, hr, rfl⟩) _ (List.mem_map.mpr ⟨r', hr', rfl⟩) hk
  refine ⟨?_, ?_⟩
  · simp only [keyed]
    rw [deps_of_encode_eq hd hc (hw r hr) (hw r' hr') he]
  · rcases hp with hp | hp
    · exact Or.inl hp
    · exact Or.inr fun v => hp _ _ v

end Heimdall.CacheExec
