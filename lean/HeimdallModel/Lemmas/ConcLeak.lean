import HeimdallModel.Lemmas.ConcLive
/-!
# What an explicit unlock costs when the protected call panics

Under the *explicit* release disciplines (`readerDeferred = false`: `RUnlock()` is an ordinary call after the search;
`writerDeferred = false`: `Unlock()` is an ordinary call at the exits) a panic skips the unlock.

* `Wedged c w`: writer `w` has announced itself on `rulesTreeMutex` and waits for a read lock that nobody will ever
  release, it holds `knownRulesMutex`, every other thread is at its start or has returned.  `wedged_stuck`: no thread
  can take a step from such a configuration, under any discipline.  `reader_leak_wedges`: with an explicit
  read-unlock one panicking lookup followed by one (successful) change reaches it from every initial configuration.
* `KLeaked c w`: `knownRulesMutex` is held by the crashed writer `w`, no other writer has got beyond its start.
  `kleaked_steps`: from then on no writer ever moves and nothing is ever committed.  `writer_leak_blocks`: with an
  explicit unlock of `knownRulesMutex` one panicking change reaches it.
-/
namespace Heimdall.Conc

variable {K T Op Req Ans : Type}

/-- writer `w` waits for the read locks to drain while holding both the announcement on `rulesTreeMutex` and
    `knownRulesMutex`; a read lock is still counted although no thread is inside a read section any more; every other
    thread stands at its start or has returned -/
structure Wedged (c : Config K T Op Req Ans) (w : Nat) : Prop where
  wl   : c.wlock = some w
  rw   : c.rww = some w
  rd   : c.readers ≠ 0
  tw   : ∃ op st', c.threads w = .writer op .rwWaiting st'
  rest : ∀ j, j ≠ w → (∃ op loc, c.threads j = .writer op .idle loc) ∨ (∃ rq, c.threads j = .reader rq .idle none 0 0) ∨
            finished (c.threads j)

/-- from a wedged configuration nothing moves any more: a complete deadlock of changes and lookups -/
theorem wedged_stuck (d : Discipline) (s : Seq K T Op Req Ans) (c c' : Config K T Op Req Ans) (w : Nat)
    (hw : Wedged c w) : ¬ Step d s c c' := by
  obtain ⟨op0, st0, htw⟩ := hw.tw
  -- the thread that steps is at a program counter which is neither a start nor an end nor `rwWaiting`
  have wr : ∀ i op pc loc, c.threads i = .writer op pc loc → pc ≠ .idle → pc ≠ .rwWaiting → pc ≠ .doneOk →
      pc ≠ .doneFail → pc ≠ .crashed → False := by
    intro i op pc loc h h1 h2 h3 h4 h5
    by_cases e : i = w
    · subst e; rw [htw] at h; cases h; exact h2 rfl
    · rcases hw.rest i e with ⟨o, l, h'⟩ | ⟨q, h'⟩ | h'
      · rw [h'] at h; cases h; exact h1 rfl
      · rw [h'] at h; cases h
      · rw [h] at h'; simp only [finished] at h'
        rcases h' with rfl | rfl | rfl
        · exact h3 rfl
        · exact h4 rfl
        · exact h5 rfl
  have rd : ∀ i rq pc a st n, c.threads i = .reader rq pc a st n → pc ≠ .idle → pc ≠ .done → pc ≠ .crashed → False := by
    intro i rq pc a st n h h1 h2 h3
    by_cases e : i = w
    · subst e; rw [htw] at h; cases h
    · rcases hw.rest i e with ⟨o, l, h'⟩ | ⟨q, h'⟩ | h'
      · rw [h'] at h; cases h
      · rw [h'] at h; cases h; exact h1 rfl
      · rw [h] at h'; simp only [finished] at h'
        rcases h' with rfl | rfl
        · exact h2 rfl
        · exact h3 rfl
  intro hs
  cases hs with
  | wLock _ i op loc h free => rw [hw.wl] at free; cases free
  | wReadKnown _ i op loc h hl => exact wr i op _ loc h (by simp) (by simp) (by simp) (by simp) (by simp)
  | wClone _ i op loc h hl => exact wr i op _ loc h (by simp) (by simp) (by simp) (by simp) (by simp)
  | wComputeOk _ i op loc st' h hl ha => exact wr i op _ loc h (by simp) (by simp) (by simp) (by simp) (by simp)
  | wComputeErr _ i op loc h hl ha => exact wr i op _ loc h (by simp) (by simp) (by simp) (by simp) (by simp)
  | wFail _ i op loc h hl => exact wr i op _ loc h (by simp) (by simp) (by simp) (by simp) (by simp)
  | wKnown _ i op st' h hl => exact wr i op _ st' h (by simp) (by simp) (by simp) (by simp) (by simp)
  | wRWRequest _ i op st' h free => rw [hw.rw] at free; cases free
  | wRWAcquire _ i op st' h hl nor => exact hw.rd nor
  | wIndex _ i op st' h hl => exact wr i op _ st' h (by simp) (by simp) (by simp) (by simp) (by simp)
  | wRWUnlock _ i op st' h hl => exact wr i op _ st' h (by simp) (by simp) (by simp) (by simp) (by simp)
  | wUnlock _ i op st' h hl => exact wr i op _ st' h (by simp) (by simp) (by simp) (by simp) (by simp)
  | wPanicReleased hd _ i op pc loc h hpc hl =>
    rcases hpc with rfl | rfl <;> exact wr i op _ loc h (by simp) (by simp) (by simp) (by simp) (by simp)
  | wPanicLeaked hd _ i op pc loc h hpc hl =>
    rcases hpc with rfl | rfl <;> exact wr i op _ loc h (by simp) (by simp) (by simp) (by simp) (by simp)
  | rLock _ i rq h free => rw [hw.rw] at free; cases free
  | rSearch _ i rq st h => exact rd i rq _ _ _ _ h (by simp) (by simp) (by simp)
  | rUnlock _ i rq a st n h => exact rd i rq _ _ _ _ h (by simp) (by simp) (by simp)
  | rPanicReleased hd _ i rq st h => exact rd i rq _ _ _ _ h (by simp) (by simp) (by simp)
  | rPanicLeaked hd _ i rq st h => exact rd i rq _ _ _ _ h (by simp) (by simp) (by simp)

/-- a wedged configuration stays what it is -/
theorem wedged_steps (d : Discipline) (s : Seq K T Op Req Ans) (c c' : Config K T Op Req Ans) (w : Nat)
    (hw : Wedged c w) (hs : Steps d s c c') : c' = c := by
  induction hs with
  | refl => rfl
  | step c₁ c₂ _ h ih => subst ih; exact absurd h (wedged_stuck d s _ _ w hw)

/-- **An explicit read-unlock after the search turns one panicking lookup into a complete deadlock.**  From every
initial configuration with a reader `r` and a writer `w` whose change the sequential repository accepts: `r` takes
the read lock, its search panics (the explicit `RUnlock()` is skipped), `w` runs up to `rulesTreeMutex.Lock()` — and
the configuration is wedged. -/
theorem reader_leak_wedges (d : Discipline) (hd : d.readerDeferred = false) (s : Seq K T Op Req Ans)
    (c0 : Config K T Op Req Ans) (h0 : Initial s c0) (r w : Nat) (rq : Req) (op : Op) (loc st' : K × T)
    (hr : c0.threads r = .reader rq .idle none 0 0) (hw : c0.threads w = .writer op .idle loc)
    (happ : s.apply s.init op = some st') :
    ∃ c, Reachable d s c ∧ Wedged c w ∧ c.threads r = .reader rq .crashed none 0 0 ∧ c.log = [] ∧
      ∀ j, j ≠ w → j ≠ r → c.threads j = c0.threads j := by
  have hrw : r ≠ w := by intro e; subst e; rw [hr] at hw; cases hw
  have hwr : w ≠ r := fun e => hrw e.symm
  obtain ⟨known, index, wlock, rww, readers, log, owners, rset, threads⟩ := c0
  obtain ⟨h1, h2, h3, h4, h5, h6, h7, h8⟩ := h0
  simp only at h1 h2 h3 h4 h5 h6 h7 h8 hr hw
  subst h2 h3 h4 h5 h6 h7
  have R0 : Reachable d s (⟨known, index, none, none, 0, [], [], [], threads⟩ : Config K T Op Req Ans) :=
    Reachable.init _ ⟨h1, rfl, rfl, rfl, rfl, rfl, rfl, h8⟩
  have R1 := Reachable.step _ _ R0 (Step.rLock _ r rq hr rfl)
  have R2 := Reachable.step _ _ R1 (Step.rPanicLeaked hd _ r rq 0 (by simp))
  have R3 := Reachable.step _ _ R2 (Step.wLock _ w op loc (by simp [upd_other _ _ _ _ hwr, hw]) rfl)
  have R4 := Reachable.step _ _ R3 (Step.wReadKnown _ w op loc (by simp) rfl)
  have R5 := Reachable.step _ _ R4 (Step.wClone _ w op (known, loc.2) (by simp) rfl)
  have R6 := Reachable.step _ _ R5 (Step.wComputeOk _ w op (known, index) st' (by simp) rfl (by rw [h1]; exact happ))
  have R7 := Reachable.step _ _ R6 (Step.wKnown _ w op st' (by simp) rfl)
  have R8 := Reachable.step _ _ R7 (Step.wRWRequest _ w op st' (by simp) rfl)
  have others : ∀ j, j ≠ w → j ≠ r → ∀ (t1 t2 t3 t4 t5 t6 t7 t8 : Thread K T Op Req Ans),
      upd (upd (upd (upd (upd (upd (upd (upd threads r t1) r t2) w t3) w t4) w t5) w t6) w t7) w t8 j = threads j := by
    intro j hj e t1 t2 t3 t4 t5 t6 t7 t8
    simp [upd_other _ _ _ _ hj, upd_other _ _ _ _ e]
  refine ⟨_, R8, ⟨rfl, rfl, by simp, ⟨op, st', by simp⟩, ?_⟩, by simp [upd_other _ _ _ _ hrw], rfl, ?_⟩
  · intro j hj
    by_cases e : j = r
    · subst e
      right; right
      simp [upd_other _ _ _ _ hj, finished]
    · simp only [others j hj e]
      rcases h8 j with h | h
      · exact Or.inl h
      · exact Or.inr (Or.inl h)
  · intro j hj e
    simp only [others j hj e]

/-- `knownRulesMutex` is held by a writer that no longer exists; no other writer has got beyond its start -/
structure KLeaked (c : Config K T Op Req Ans) (w : Nat) : Prop where
  wl   : c.wlock = some w
  tw   : ∃ op loc, c.threads w = .writer op .crashed loc
  rest : ∀ j, j ≠ w → ∀ op pc loc, c.threads j = .writer op pc loc →
            pc = .idle ∨ pc = .doneOk ∨ pc = .doneFail ∨ pc = .crashed

/-- after the leak only lookups move: every writer thread stays where it is, nothing is committed -/
theorem kleaked_step (d : Discipline) (s : Seq K T Op Req Ans) (c c' : Config K T Op Req Ans) (w : Nat)
    (hk : KLeaked c w) (hs : Step d s c c') :
    KLeaked c' w ∧ c'.log = c.log ∧ ∀ j op pc loc, c.threads j = .writer op pc loc → c'.threads j = c.threads j := by
  obtain ⟨op0, loc0, htw⟩ := hk.tw
  have wr : ∀ i op pc loc, c.threads i = .writer op pc loc → pc ≠ .idle → pc ≠ .doneOk →
      pc ≠ .doneFail → pc ≠ .crashed → False := by
    intro i op pc loc h h1 h3 h4 h5
    by_cases e : i = w
    · subst e; rw [htw] at h; cases h; exact h5 rfl
    · rcases hk.rest i e op pc loc h with rfl | rfl | rfl | rfl
      · exact h1 rfl
      · exact h3 rfl
      · exact h4 rfl
      · exact h5 rfl
  -- a step of a reader thread `i`
  have rdr : ∀ (i : Nat) (t : Thread K T Op Req Ans) (c'' : Config K T Op Req Ans),
      (∃ rq pc a st n, c.threads i = .reader rq pc a st n) → (∃ rq pc a st n, t = .reader rq pc a st n) →
      c''.wlock = c.wlock → c''.log = c.log → c''.threads = upd c.threads i t →
      KLeaked c'' w ∧ c''.log = c.log ∧ ∀ j op pc loc, c.threads j = .writer op pc loc → c''.threads j = c.threads j := by
    intro i t c'' ⟨rq, pc, a, st, n, hi⟩ ⟨rq', pc', a', st', n', ht⟩ hwl hlog hth
    have hiw : i ≠ w := by intro e; subst e; rw [htw] at hi; cases hi
    refine ⟨⟨by rw [hwl]; exact hk.wl, ⟨op0, loc0, by rw [hth, upd_other _ _ _ _ (Ne.symm hiw)]; exact htw⟩, ?_⟩, hlog, ?_⟩
    · intro j hj op pc loc h
      rw [hth] at h
      by_cases e : j = i
      · subst e; rw [upd_same, ht] at h; cases h
      · rw [upd_other _ _ _ _ e] at h; exact hk.rest j hj op pc loc h
    · intro j op pc loc h
      rw [hth]
      by_cases e : j = i
      · subst e; rw [hi] at h; cases h
      · rw [upd_other _ _ _ _ e]
  cases hs with
  | wLock _ i op loc h free => rw [hk.wl] at free; cases free
  | wReadKnown _ i op loc h hl => exact (wr i op _ loc h (by simp) (by simp) (by simp) (by simp)).elim
  | wClone _ i op loc h hl => exact (wr i op _ loc h (by simp) (by simp) (by simp) (by simp)).elim
  | wComputeOk _ i op loc st' h hl ha => exact (wr i op _ loc h (by simp) (by simp) (by simp) (by simp)).elim
  | wComputeErr _ i op loc h hl ha => exact (wr i op _ loc h (by simp) (by simp) (by simp) (by simp)).elim
  | wFail _ i op loc h hl => exact (wr i op _ loc h (by simp) (by simp) (by simp) (by simp)).elim
  | wKnown _ i op st' h hl => exact (wr i op _ st' h (by simp) (by simp) (by simp) (by simp)).elim
  | wRWRequest _ i op st' h free => exact (wr i op _ st' h (by simp) (by simp) (by simp) (by simp)).elim
  | wRWAcquire _ i op st' h hl nor => exact (wr i op _ st' h (by simp) (by simp) (by simp) (by simp)).elim
  | wIndex _ i op st' h hl => exact (wr i op _ st' h (by simp) (by simp) (by simp) (by simp)).elim
  | wRWUnlock _ i op st' h hl => exact (wr i op _ st' h (by simp) (by simp) (by simp) (by simp)).elim
  | wUnlock _ i op st' h hl => exact (wr i op _ st' h (by simp) (by simp) (by simp) (by simp)).elim
  | wPanicReleased hd _ i op pc loc h hpc hl =>
    rcases hpc with rfl | rfl <;> exact (wr i op _ loc h (by simp) (by simp) (by simp) (by simp)).elim
  | wPanicLeaked hd _ i op pc loc h hpc hl =>
    rcases hpc with rfl | rfl <;> exact (wr i op _ loc h (by simp) (by simp) (by simp) (by simp)).elim
  | rLock _ i rq h free => exact rdr i _ _ ⟨_, _, _, _, _, h⟩ ⟨_, _, _, _, _, rfl⟩ rfl rfl rfl
  | rSearch _ i rq st h => exact rdr i _ _ ⟨_, _, _, _, _, h⟩ ⟨_, _, _, _, _, rfl⟩ rfl rfl rfl
  | rUnlock _ i rq a st n h => exact rdr i _ _ ⟨_, _, _, _, _, h⟩ ⟨_, _, _, _, _, rfl⟩ rfl rfl rfl
  | rPanicReleased hd _ i rq st h => exact rdr i _ _ ⟨_, _, _, _, _, h⟩ ⟨_, _, _, _, _, rfl⟩ rfl rfl rfl
  | rPanicLeaked hd _ i rq st h => exact rdr i _ _ ⟨_, _, _, _, _, h⟩ ⟨_, _, _, _, _, rfl⟩ rfl rfl rfl

theorem kleaked_steps (d : Discipline) (s : Seq K T Op Req Ans) (c c' : Config K T Op Req Ans) (w : Nat)
    (hk : KLeaked c w) (hs : Steps d s c c') :
    KLeaked c' w ∧ c'.log = c.log ∧ ∀ j op pc loc, c.threads j = .writer op pc loc → c'.threads j = c.threads j := by
  induction hs with
  | refl => exact ⟨hk, rfl, fun _ _ _ _ _ => rfl⟩
  | step c₁ c₂ _ h ih =>
    obtain ⟨k1, l1, t1⟩ := ih
    obtain ⟨k2, l2, t2⟩ := kleaked_step d s c₁ c₂ w k1 h
    refine ⟨k2, by rw [l2, l1], ?_⟩
    intro j op pc loc hj
    have e1 := t1 j op pc loc hj
    rw [t2 j op pc loc (by rw [e1]; exact hj), e1]

/-- **An explicit unlock of `knownRulesMutex` turns one panicking change into the end of all changes.**  From every
initial configuration with a writer `w`: it takes the mutex, reads the known rules, `Clone()` (or, one step later,
the computation on the clone) panics, the explicit `Unlock()` is skipped — `KLeaked`. -/
theorem writer_leak_blocks (d : Discipline) (hd : d.writerDeferred = false) (s : Seq K T Op Req Ans)
    (c0 : Config K T Op Req Ans) (h0 : Initial s c0) (w : Nat) (op : Op) (loc : K × T)
    (hw : c0.threads w = .writer op .idle loc) :
    ∃ c, Reachable d s c ∧ KLeaked c w ∧ c.log = [] ∧ ∀ j, j ≠ w → c.threads j = c0.threads j := by
  obtain ⟨known, index, wlock, rww, readers, log, owners, rset, threads⟩ := c0
  obtain ⟨h1, h2, h3, h4, h5, h6, h7, h8⟩ := h0
  simp only at h1 h2 h3 h4 h5 h6 h7 h8 hw
  subst h2 h3 h4 h5 h6 h7
  have R0 : Reachable d s (⟨known, index, none, none, 0, [], [], [], threads⟩ : Config K T Op Req Ans) :=
    Reachable.init _ ⟨h1, rfl, rfl, rfl, rfl, rfl, rfl, h8⟩
  have R1 := Reachable.step _ _ R0 (Step.wLock _ w op loc hw rfl)
  have R2 := Reachable.step _ _ R1 (Step.wReadKnown _ w op loc (by simp) rfl)
  have R3 := Reachable.step _ _ R2 (Step.wPanicLeaked hd _ w op .readK (known, loc.2) (by simp) (Or.inl rfl) rfl)
  refine ⟨_, R3, ⟨rfl, ⟨op, (known, loc.2), by simp⟩, ?_⟩, rfl, ?_⟩
  · intro j hj op' pc' loc' h
    simp only [upd_other _ _ _ _ hj] at h
    rcases h8 j with ⟨o, l, e⟩ | ⟨q, e⟩
    · rw [e] at h; cases h; exact Or.inl rfl
    · rw [e] at h; cases h
  · intro j hj
    simp only [upd_other _ _ _ _ hj]

end Heimdall.Conc
