import HeimdallModel.Spec.Providers
/-! Helper lemmas for C18: the book as a finite map, the invariant `repository = book`, single-source steps -/
set_option linter.unusedSectionVars false
set_option linter.unusedSimpArgs false

namespace Heimdall.Prov

variable {σ : Type} [DecidableEq σ]

/-! ### the book as a finite map -/

theorem get_nil (s : σ) : Book.get ([] : Book σ) s = none := rfl

theorem get_cons (p : σ × Hash) (b : Book σ) (s : σ) :
    Book.get (p :: b) s = if p.1 = s then some p.2 else Book.get b s := by
  unfold Book.get
  by_cases h : p.1 = s <;> simp [List.find?, h]

theorem get_append (a b : Book σ) (s : σ) :
    Book.get (a ++ b) s = match Book.get a s with | some h => some h | none => Book.get b s := by
  induction a with
  | nil => simp [get_nil]
  | cons p a ih =>
    rw [List.cons_append, get_cons, get_cons]
    by_cases h : p.1 = s <;> simp [h, ih]

theorem without_cons (p : σ × Hash) (b : Book σ) (s : σ) :
    without (p :: b) s = if p.1 = s then without b s else p :: without b s := by
  unfold without
  by_cases h : p.1 = s <;> simp [List.filter, h]

theorem get_without_self (b : Book σ) (s : σ) : Book.get (without b s) s = none := by
  induction b with
  | nil => rfl
  | cons p b ih =>
    rw [without_cons]
    by_cases h : p.1 = s
    · simp [h, ih]
    · simp only [h, if_false]
      rw [get_cons]; simp [h, ih]

theorem get_without_ne (b : Book σ) {s s' : σ} (hne : s' ≠ s) : Book.get (without b s) s' = Book.get b s' := by
  induction b with
  | nil => rfl
  | cons p b ih =>
    rw [without_cons]
    by_cases h : p.1 = s
    · have : p.1 ≠ s' := fun e => hne (e.symm.trans h)
      simp only [h, if_true]
      rw [get_cons, ih]; simp [this, h ▸ this]
    · simp only [h, if_false]
      rw [get_cons, get_cons, ih]

theorem get_put (b : Book σ) (s : σ) (h : Hash) (s' : σ) :
    (b.put s h).get s' = if s' = s then some h else b.get s' := by
  unfold Book.put
  rw [get_append]
  by_cases e : s' = s
  · subst e; simp [get_without_self, get_cons, get_nil]
  · rw [get_without_ne b e]
    cases hb : Book.get b s' with
    | some x => simp [e]
    | none =>
      have : s ≠ s' := fun x => e x.symm
      simp [e, get_cons, get_nil, this]

theorem get_del (b : Book σ) (s s' : σ) : (b.del s).get s' = if s' = s then none else b.get s' := by
  unfold Book.del
  by_cases e : s' = s
  · subst e; simp [get_without_self]
  · simp [e, get_without_ne b e]

theorem get_none_iff (b : Book σ) (s : σ) : b.get s = none ↔ s ∉ b.keys := by
  induction b with
  | nil => simp [get_nil, Book.keys]
  | cons p b ih =>
    rw [get_cons]
    by_cases h : p.1 = s
    · simp [h, Book.keys]
    · simp only [h, if_false, ih, Book.keys, List.map_cons, List.mem_cons, not_or]
      constructor
      · intro x; exact ⟨fun e => h e.symm, x⟩
      · intro x; exact x.2

theorem without_of_get_none (b : Book σ) (s : σ) (h : b.get s = none) : without b s = b := by
  unfold without
  rw [List.filter_eq_self]
  intro p hp
  rw [get_none_iff] at h
  have : p.1 ≠ s := fun e => h (e ▸ List.mem_map_of_mem (f := (·.1)) hp)
  simp [this]

theorem keys_without (b : Book σ) (s : σ) :
    Book.keys (without b s) = (Book.keys b).filter (fun k => !decide (k = s)) := by
  induction b with
  | nil => rfl
  | cons p b ih =>
    rw [without_cons]
    unfold Book.keys at *
    by_cases h : p.1 = s <;> simp [List.filter, h, ih]

theorem nodup_without (b : Book σ) (s : σ) (h : (Book.keys b).Nodup) : (Book.keys (without b s)).Nodup := by
  rw [keys_without]; exact h.filter _

theorem not_mem_keys_without (b : Book σ) (s : σ) : s ∉ Book.keys (without b s) := by
  rw [keys_without]; simp

theorem nodup_put (b : Book σ) (s : σ) (h : Hash) (hn : (Book.keys b).Nodup) : (Book.keys (b.put s h)).Nodup := by
  unfold Book.put Book.keys
  rw [List.map_append, List.nodup_append]
  refine ⟨nodup_without b s hn, by simp, ?_⟩
  intro a ha c hc
  simp only [List.map_cons, List.map_nil, List.mem_singleton] at hc
  subst hc
  intro e; subst e
  exact not_mem_keys_without b _ ha

theorem loaded_eq_get (b : Book σ) (s : σ) (hn : (Book.keys b).Nodup) : loaded b s = (b.get s).toList := by
  induction b with
  | nil => rfl
  | cons p b ih =>
    unfold Book.keys at hn
    rw [List.map_cons, List.nodup_cons] at hn
    rw [get_cons]
    unfold loaded at *
    by_cases h : p.1 = s
    · have hb : Book.get b s = none := by rw [get_none_iff]; exact h ▸ hn.1
      have := ih hn.2
      rw [hb] at this
      simp only [List.filter, h, decide_true, List.map_cons, if_true, Option.toList]
      rw [this]; rfl
    · simp only [List.filter, h, decide_false, if_false]
      exact ih hn.2

theorem mem_iff_get (b : Book σ) (hn : (Book.keys b).Nodup) (s : σ) (h : Hash) : (s, h) ∈ b ↔ b.get s = some h := by
  induction b with
  | nil => simp [get_nil]
  | cons p b ih =>
    unfold Book.keys at hn
    rw [List.map_cons, List.nodup_cons] at hn
    rw [get_cons, List.mem_cons]
    by_cases e : p.1 = s
    · have hb : s ∉ Book.keys b := e ▸ hn.1
      have hnot : (s, h) ∉ b := fun hm => hb (List.mem_map_of_mem (f := (·.1)) hm)
      simp only [e, if_true, Option.some.injEq, hnot, or_false]
      constructor
      · intro x; rw [← x]
      · intro x; rw [← x, ← e]
    · have : ¬ (s, h) = p := fun x => e (by rw [← x])
      simp only [e, if_false, this, false_or]
      exact ih hn.2

/-! ### the invariant: the repository holds exactly what the book says -/

theorem inv_init : Inv (St.init : St σ) := ⟨rfl, by simp [St.init, Book.keys]⟩

theorem transition_self (s : σ) (d : Option Hash) : transition s d d = [] := by
  cases d <;> simp [transition]

/-- the single-source synchronisation all hash-keeping providers implement -/
def syncOne (rej : List σ) (st : St σ) (s : σ) : Obs → Out σ
  | .noinfo => .quiet st
  | .gone =>
    match st.book.get s with
    | none => .quiet st
    | some _ => emit rej st (.deleted s) (·.del s)
  | .content h =>
    match st.book.get s with
    | none => emit rej st (.created s h) (·.put s h)
    | some h' => if h' ≠ h then emit rej st (.updated s h) (·.put s h) else .quiet st

/-- everything the property says about one step of one source, for `syncOne` -/
structure StepOK (rej : List σ) (st : St σ) (s : σ) (o : Obs) (r : Out σ) : Prop where
  inv      : Inv r.st
  calls    : r.calls.map (·.1) = transition s (st.book.get s) (o.next (st.book.get s))
  accepted : ∀ c ∈ r.calls, c.2 = decide (s ∉ rej)
  book     : ∀ s', r.st.book.get s' = if s' = s ∧ s ∉ rej then o.next (st.book.get s) else st.book.get s'

theorem stepOK_quiet (rej : List σ) (st : St σ) (s : σ) (o : Obs) (hi : Inv st)
    (h : o.next (st.book.get s) = st.book.get s) : StepOK rej st s o (.quiet st) := by
  refine ⟨hi, ?_, ?_, ?_⟩
  · simp [Out.quiet, h, transition_self]
  · simp [Out.quiet]
  · intro s'; simp only [Out.quiet, h]; split
    · rename_i x; rw [x.1]
    · rfl

theorem emit_rejected (rej : List σ) (st : St σ) (c : Call σ) (upd : Book σ → Book σ) (h : c.src ∈ rej) :
    emit rej st c upd = ⟨st, [(c, false)], true⟩ := by
  simp [emit, h]

theorem emit_accepted (rej : List σ) (st : St σ) (c : Call σ) (upd : Book σ → Book σ) (h : c.src ∉ rej) :
    emit rej st c upd = ⟨⟨upd st.book, st.active.apply c⟩, [(c, true)], false⟩ := by
  simp [emit, h]

theorem stepOK_emit (rej : List σ) (st : St σ) (s : σ) (o : Obs) (hi : Inv st) (c : Call σ) (upd : Book σ → Book σ)
    (hc : c.src = s) (ht : transition s (st.book.get s) (o.next (st.book.get s)) = [c])
    (hinv : Inv ⟨upd st.book, st.active.apply c⟩)
    (hb : ∀ s', (upd st.book).get s' = if s' = s then o.next (st.book.get s) else st.book.get s') :
    StepOK rej st s o (emit rej st c upd) := by
  by_cases hr : s ∈ rej
  · rw [emit_rejected rej st c upd (hc ▸ hr)]
    refine ⟨hi, by simp [ht], by simp [hr], ?_⟩
    intro s'; simp [hr]
  · rw [emit_accepted rej st c upd (hc ▸ hr)]
    refine ⟨hinv, by simp [ht], by simp [hr], ?_⟩
    intro s'; simp only [hb s', hr, not_false_eq_true, and_true]

theorem syncOne_ok (rej : List σ) (st : St σ) (s : σ) (o : Obs) (hi : Inv st) :
    StepOK rej st s o (syncOne rej st s o) := by
  cases o with
  | noinfo => exact stepOK_quiet rej st s _ hi rfl
  | gone =>
    unfold syncOne
    cases hg : st.book.get s with
    | none => simp only; exact stepOK_quiet rej st s _ hi (by simp [Obs.next, hg])
    | some h' =>
      simp only
      refine stepOK_emit rej st s _ hi _ _ rfl (by simp [Obs.next, transition, hg]) ⟨?_, nodup_without _ _ hi.nodup⟩ ?_
      · simp [Active.apply, Book.del, hi.sync]
      · intro s'; simp only [get_del, Obs.next]
  | content h =>
    unfold syncOne
    cases hg : st.book.get s with
    | none =>
      simp only
      refine stepOK_emit rej st s _ hi _ _ rfl (by simp [Obs.next, transition, hg]) ⟨?_, nodup_put _ _ _ hi.nodup⟩ ?_
      · simp only [Active.apply, Book.put, hi.sync, without_of_get_none _ _ hg]
      · intro s'; simp only [get_put, Obs.next]
    | some h' =>
      simp only
      by_cases hh : h' = h
      · subst hh
        simp only [ne_eq, not_true_eq_false, if_false]
        exact stepOK_quiet rej st s _ hi (by simp [Obs.next, hg])
      · simp only [ne_eq, hh, not_false_eq_true, if_true]
        refine stepOK_emit rej st s _ hi _ _ rfl (by simp [Obs.next, transition, hg, hh])
          ⟨?_, nodup_put _ _ _ hi.nodup⟩ ?_
        · simp [Active.apply, Book.put, hi.sync]
        · intro s'; simp only [get_put, Obs.next]

/-! ### file_system and http_endpoint are `syncOne` -/

theorem get_mem (b : Book σ) (s : σ) (h : Hash) (hg : b.get s = some h) : (s, h) ∈ b := by
  unfold Book.get at hg
  cases hf : b.find? (fun p => p.1 = s) with
  | none => simp [hf] at hg
  | some p =>
    simp only [hf, Option.map_some, Option.some.injEq] at hg
    have h1 := List.mem_of_find?_eq_some hf
    have h2 := List.find?_some hf
    simp only [decide_eq_true_eq] at h2
    rw [← hg, ← h2]; exact h1

theorem noZero_without (b : Book σ) (s : σ) (h : NoZero b) : NoZero (without b s) :=
  fun p hp => h p (List.mem_filter.mp hp).1

theorem noZero_put (b : Book σ) (s : σ) (x : Hash) (h : NoZero b) (hx : x ≠ 0) : NoZero (b.put s x) := by
  intro p hp
  unfold Book.put at hp
  rcases List.mem_append.mp hp with hp | hp
  · exact noZero_without b s h p hp
  · simp only [List.mem_singleton] at hp; subst hp; exact hx

theorem fsDeleted_eq (rej : List σ) (st : St σ) (s : σ) : fsDeleted rej st s = syncOne rej st s .gone := by
  unfold fsDeleted syncOne; rfl

theorem fsCreatedOrUpdated_st (rej : List σ) (st : St σ) (s : σ) (f : FileState) (hz : NoZero st.book) :
    (fsCreatedOrUpdated rej st s f).st = (syncOne rej st s f.obs).st ∧
    (fsCreatedOrUpdated rej st s f).calls = (syncOne rej st s f.obs).calls := by
  cases f with
  | missing => simp [fsCreatedOrUpdated, FileState.obs, fsDeleted_eq]
  | empty => simp [fsCreatedOrUpdated, FileState.obs, fsDeleted_eq]
  | invalid => simp [fsCreatedOrUpdated, FileState.obs, syncOne, Out.failed, Out.quiet]
  | valid h =>
    simp only [fsCreatedOrUpdated, FileState.obs, syncOne]
    cases hg : st.book.get s with
    | none => simp
    | some h' =>
      have : h' ≠ 0 := hz _ (get_mem _ _ _ hg)
      simp [this]

theorem fsStep_eq (st : St σ) (e : FsEvent σ) (hz : NoZero st.book) :
    (fsStep st e).st = (syncOne e.rej st e.name e.raw).st ∧ (fsStep st e).calls = (syncOne e.rej st e.name e.raw).calls := by
  unfold fsStep FsEvent.raw
  split
  · exact fsCreatedOrUpdated_st e.rej st e.name e.file hz
  · split
    · rw [fsDeleted_eq]; exact ⟨rfl, rfl⟩
    · simp [syncOne]

theorem httpStep_eq (st : St σ) (e : HttpEvent σ) :
    (httpStep st e).st = (syncOne e.rej st e.id e.outcome.obs).st ∧
    (httpStep st e).calls = (syncOne e.rej st e.id e.outcome.obs).calls := by
  unfold httpStep
  cases e.outcome <;> simp only [HttpOutcome.obs, syncOne, httpUpdated, Out.failed, Out.quiet] <;>
    cases st.book.get e.id <;> simp

theorem syncOne_noZero (rej : List σ) (st : St σ) (s : σ) (o : Obs) (hz : NoZero st.book)
    (ho : ∀ h, o = .content h → h ≠ 0) : NoZero (syncOne rej st s o).st.book := by
  cases o with
  | noinfo => exact hz
  | gone =>
    unfold syncOne
    cases st.book.get s with
    | none => exact hz
    | some _ =>
      simp only [emit]; split
      · exact hz
      · exact noZero_without _ _ hz
  | content h =>
    unfold syncOne
    cases st.book.get s with
    | none =>
      simp only [emit]; split
      · exact hz
      · exact noZero_put _ _ _ hz (ho h rfl)
    | some h' =>
      simp only; split
      · simp only [emit]; split
        · exact hz
        · exact noZero_put _ _ _ hz (ho h rfl)
      · exact hz

/-! ### histories -/

theorem run_nil (step : St σ → ε → Out σ) (st : St σ) : run step st [] = st := rfl
theorem run_cons (step : St σ → ε → Out σ) (st : St σ) (e : ε) (es : List ε) :
    run step st (e :: es) = run step (step st e).st es := rfl

theorem run_append (step : St σ → ε → Out σ) (st : St σ) (es fs : List ε) :
    run step st (es ++ fs) = run step (run step st es) fs := by
  induction es generalizing st with
  | nil => rfl
  | cons e es ih => simp [run_cons, ih]

/-- if every step moves the book of every source like the observation says, a history ends in `desired` -/
theorem run_book (step : St σ → ε → Out σ) (obs : ε → σ → Obs) (good : St σ → Prop) (ok : ε → Prop)
    (hstep : ∀ st e, Inv st → good st → ok e →
      Inv (step st e).st ∧ good (step st e).st ∧ ∀ s, (step st e).st.book.get s = (obs e s).next (st.book.get s))
    (es : List ε) (st : St σ) (hi : Inv st) (hg : good st) (hok : ∀ e ∈ es, ok e) :
    Inv (run step st es) ∧ good (run step st es) ∧
      ∀ s, (run step st es).book.get s = (es.map (obs · s)).foldl Obs.next (st.book.get s) := by
  induction es generalizing st with
  | nil => exact ⟨hi, hg, fun _ => rfl⟩
  | cons e es ih =>
    obtain ⟨h1, h2, h3⟩ := hstep st e hi hg (hok e (List.mem_cons_self ..))
    obtain ⟨k1, k2, k3⟩ := ih (step st e).st h1 h2 (fun x hx => hok x (List.mem_cons_of_mem _ hx))
    refine ⟨k1, k2, ?_⟩
    intro s
    rw [run_cons, k3 s, h3 s]; rfl

theorem loaded_of_inv (st : St σ) (hi : Inv st) (s : σ) : loaded st.active s = (st.book.get s).toList := by
  rw [hi.sync]; exact loaded_eq_get _ _ hi.nodup

end Heimdall.Prov
